(* Proofs about the KeyedList model: invariant, refinement to the plain-list
   specification, atomicity of failing operations. *)
From Coq Require Import List ZArith Bool Lia Permutation ZifyBool.
From SC Require Import Base.Res Base.PyList Base.ListLemmas KL.Model KL.Spec.
Import ListNotations.
Open Scope Z_scope.

Section Proofs.
  Context {item K : Type}.
  Variable key : item -> K.
  Variable keqb : K -> K -> bool.
  Variable ieqb : item -> item -> bool.
  Variable valid : item -> bool.
  Variable as_key : item -> option K.
  Variable as_item : K -> option item.
  Hypothesis keqb_eq : forall a b, keqb a b = true <-> a = b.

  Notation st := (@st item K).
  Notation op := (@op item K).
  Notation out := (@out item K).
  Notation step := (step key keqb ieqb valid as_key as_item).
  Notation spec_step := (spec_step key keqb ieqb valid as_key as_item).
  Notation dict_mem := (@dict_mem item K keqb).
  Notation dict_get := (@dict_get item K keqb).
  Notation dict_del := (@dict_del item K keqb).
  Notation dict_set := (@dict_set item K keqb).
  Notation has_key := (has_key key keqb).
  Notation scan := (scan key keqb).
  Notation scan_index := (scan_index key keqb).
  Notation view := (view key).
  Notation pairs := (map (fun x : item => (key x, x))).

  Lemma keqb_refl k : keqb k k = true.
  Proof. now apply keqb_eq. Qed.
  Lemma keqb_neq a b : keqb a b = false <-> a <> b.
  Proof.
    split; intro H.
    - intro E. apply keqb_eq in E. congruence.
    - destruct (keqb a b) eqn:E; auto. apply keqb_eq in E. contradiction.
  Qed.
  Lemma keqb_sym a b : keqb a b = keqb b a.
  Proof.
    destruct (keqb a b) eqn:E, (keqb b a) eqn:E'; auto.
    - apply keqb_eq in E. subst. rewrite keqb_refl in E'. discriminate.
    - apply keqb_eq in E'. subst. rewrite keqb_refl in E. discriminate.
  Qed.

  (* ---------------- the representation invariant ---------------- *)
  Definition Inv (s : st) : Prop :=
    NoDup (map key (lst s)) /\ NoDup (map fst (dct s)) /\
    forall k x, In (k, x) (dct s) <-> (In x (lst s) /\ key x = k).

  Definition out_inv (r : res out) : Prop :=
    match r with Ok (RNew n) => Inv n | _ => True end.

  (* outputs are compared up to the order of dict views *)
  Definition out_equiv (a b : res out) : Prop :=
    match a, b with
    | Ok (RKeys k1), Ok (RKeys k2) => Permutation k1 k2
    | Ok (RPairs p1), Ok (RPairs p2) => Permutation p1 p2
    | Ok (RNew n1), Ok (RNew n2) => lst n1 = lst n2 /\ Permutation (dct n1) (dct n2)
    | _, _ => a = b
    end.

  Lemma out_equiv_refl a : out_equiv a a.
  Proof. destruct a as [[]|]; simpl; auto. Qed.

  (* ---------------- dictionary lemmas ---------------- *)
  Lemma dict_mem_In k d : dict_mem k d = true <-> In k (map fst d).
  Proof.
    unfold Model.dict_mem. rewrite existsb_exists, in_map_iff. split.
    - intros [p [Hp E]]. apply keqb_eq in E. exists p; auto.
    - intros [p [E Hp]]. exists p; split; auto. apply keqb_eq; auto.
  Qed.

  Lemma has_key_In k l : has_key k l = true <-> In k (map key l).
  Proof.
    unfold Spec.has_key. rewrite existsb_exists, in_map_iff. split.
    - intros [p [Hp E]]. apply keqb_eq in E. exists p; auto.
    - intros [p [E Hp]]. exists p; split; auto. apply keqb_eq; auto.
  Qed.

  Lemma bool_iff (a b : bool) : (a = true <-> b = true) -> a = b.
  Proof. destruct a, b; intuition congruence. Qed.

  Lemma inv_mem s k : Inv s -> dict_mem k (dct s) = has_key k (lst s).
  Proof.
    intros (_ & _ & H). apply bool_iff. rewrite dict_mem_In, has_key_In, !in_map_iff.
    split.
    - intros [[k' x] [E Hp]]. simpl in E; subst. apply H in Hp. exists x; tauto.
    - intros [x [E Hx]]. exists (k, x). split; auto. apply H; auto.
  Qed.

  Lemma has_key_app k l1 l2 : has_key k (l1 ++ l2) = has_key k l1 || has_key k l2.
  Proof. unfold Spec.has_key. apply existsb_app. Qed.

  Lemma dict_mem_pairs k l : dict_mem k (pairs l) = has_key k l.
  Proof.
    unfold Model.dict_mem, Spec.has_key. induction l; simpl; auto. now rewrite IHl.
  Qed.

  Lemma find_some_unique (l : list item) k x :
    NoDup (map key l) -> In x l -> key x = k -> scan k l = Some x.
  Proof.
    unfold Spec.scan. induction l as [|a l IH]; simpl; intros N Hx E; [contradiction|].
    inversion N as [|? ? Ha N']; subst.
    destruct (keqb (key x) (key a)) eqn:Ek.
    - apply keqb_eq in Ek. destruct Hx as [->|Hx]; auto.
      exfalso. apply Ha. rewrite <- Ek. now apply in_map.
    - destruct Hx as [->|Hx]; [rewrite keqb_refl in Ek; discriminate|]. auto.
  Qed.

  Lemma scan_some l k x : scan k l = Some x -> In x l /\ key x = k.
  Proof.
    unfold Spec.scan. intro H. apply find_some in H. destruct H as [H E].
    apply keqb_eq in E. auto.
  Qed.

  Lemma dict_get_some d k x : dict_get k d = Some x -> In (k, x) d.
  Proof.
    unfold Model.dict_get. destruct (find _ d) as [[k' y]|] eqn:F; simpl; [|discriminate].
    intro E; inversion E; subst. apply find_some in F. destruct F as [F E'].
    simpl in E'. apply keqb_eq in E'. now subst.
  Qed.

  Lemma dict_get_none d k : dict_get k d = None -> ~ In k (map fst d).
  Proof.
    unfold Model.dict_get. destruct (find _ d) eqn:F; simpl; [discriminate|].
    intros _ H. apply in_map_iff in H. destruct H as [p [E Hp]].
    eapply find_none in F; eauto. simpl in F. rewrite E, keqb_refl in F. discriminate.
  Qed.

  Lemma inv_get s k : Inv s -> dict_get k (dct s) = scan k (lst s).
  Proof.
    intros (N1 & N2 & H). destruct (dict_get k (dct s)) as [x|] eqn:G.
    - apply dict_get_some in G. apply H in G. destruct G. symmetry.
      now apply find_some_unique.
    - apply dict_get_none in G. destruct (scan k (lst s)) as [x|] eqn:S; auto.
      apply scan_some in S. exfalso. apply G. apply in_map_iff.
      exists (k, x). split; auto. apply H. auto.
  Qed.

  Lemma scan_index_none l k : scan_index k l = None -> has_key k l = false.
  Proof.
    unfold Spec.scan_index, Spec.has_key. intro H.
    destruct (existsb _ l) eqn:E; auto. apply existsb_exists in E.
    destruct E as [x [Hx E]]. eapply find_index_none in H; eauto.
    rewrite keqb_sym in H. congruence.
  Qed.

  Lemma scan_index_some l k n : scan_index k l = Some n ->
    exists x, nth_error l n = Some x /\ key x = k /\ has_key k l = true.
  Proof.
    unfold Spec.scan_index. intro H. apply find_index_some in H.
    destruct H as [x [H1 H2]]. apply keqb_eq in H2. exists x. repeat split; auto.
    apply has_key_In. rewrite <- H2. apply in_map. eapply nth_error_In; eauto.
  Qed.

  Lemma inv_index_for_key s k : Inv s ->
    index_for_key key keqb s k =
      match scan_index k (lst s) with Some n => Ok n | None => Err KeyErr end.
  Proof.
    intro I. unfold index_for_key. rewrite (inv_mem s k I).
    fold (scan_index k (lst s)).
    destruct (scan_index k (lst s)) as [n|] eqn:E.
    - apply scan_index_some in E. destruct E as (x & _ & _ & ->). reflexivity.
    - apply scan_index_none in E. now rewrite E.
  Qed.

  Lemma dict_del_In k d k' x :
    In (k', x) (dict_del k d) <-> In (k', x) d /\ k' <> k.
  Proof.
    unfold Model.dict_del. rewrite filter_In. simpl. rewrite negb_true_iff, keqb_neq.
    intuition congruence.
  Qed.

  Lemma dict_del_nodup k d : NoDup (map fst d) -> NoDup (map fst (dict_del k d)).
  Proof.
    unfold Model.dict_del. induction d as [|p d IH]; simpl; intro N; [constructor|].
    inversion N; subst. destruct (negb (keqb k (fst p))); simpl; auto.
    constructor; auto. intro H. apply in_map_iff in H. destruct H as [q [E Hq]].
    apply filter_In in Hq. apply H1. rewrite <- E. apply in_map. tauto.
  Qed.

  Lemma dict_set_fresh k x d : dict_mem k d = false -> dict_set k x d = d ++ [(k, x)].
  Proof. unfold Model.dict_set. now intros ->. Qed.

  Lemma dict_mem_del k k' d :
    dict_mem k (dict_del k' d) = dict_mem k d && negb (keqb k k').
  Proof.
    apply bool_iff. rewrite andb_true_iff, negb_true_iff, keqb_neq, !dict_mem_In, !in_map_iff.
    split.
    - intros [[a b] [E H]]. simpl in E; subst. apply dict_del_In in H.
      split; [exists (k, b); tauto | tauto].
    - intros [[[a b] [E H]] Hn]. simpl in E; subst. exists (k, b). split; auto.
      apply dict_del_In. auto.
  Qed.

  (* ---------------- invariant preservation for the primitives ---------------- *)
  Lemma inv_add s x l' :
    Inv s -> has_key (key x) (lst s) = false -> Permutation l' (x :: lst s) ->
    Inv (mk l' (dct s ++ [(key x, x)])).
  Proof.
    intros (N1 & N2 & H) Hk P. assert (Hk' : ~ In (key x) (map key (lst s))).
    { intro Hin. apply has_key_In in Hin. congruence. }
    unfold Inv; simpl. repeat split.
    - eapply Permutation_NoDup; [symmetry; apply Permutation_map; exact P|].
      simpl. constructor; auto.
    - rewrite map_app; simpl. eapply Permutation_NoDup; [apply Permutation_cons_append|].
      constructor; auto. intro Hin. apply in_map_iff in Hin.
      destruct Hin as [[k y] [E Hy]]. simpl in E; subst. apply H in Hy.
      apply Hk'. destruct Hy as [Hy <-]. now apply in_map.
    - rewrite in_app_iff in H0. destruct H0 as [H0|[H0|[]]].
      + apply H in H0. eapply Permutation_in; [symmetry; exact P|]. simpl; tauto.
      + inversion H0; subst. eapply Permutation_in; [symmetry; exact P|]. simpl; auto.
    - rewrite in_app_iff in H0. destruct H0 as [H0|[H0|[]]].
      + apply H in H0. tauto.
      + now inversion H0.
    - intros [Hx E]. apply in_app_iff. eapply Permutation_in in Hx; [|exact P].
      destruct Hx as [<-|Hx]; [right; left; congruence|]. left. apply H. auto.
  Qed.

  Lemma inv_del s n v :
    Inv s -> nth_error (lst s) n = Some v ->
    Inv (mk (remove_at n (lst s)) (dict_del (key v) (dct s))).
  Proof.
    intros (N1 & N2 & H) Hn. pose proof (remove_at_perm n v _ Hn) as P.
    assert (N1' : NoDup (key v :: map key (remove_at n (lst s)))).
    { pose proof (Permutation_map key P) as P'. simpl in P'.
      eapply Permutation_NoDup; [exact P'|auto]. }
    inversion N1' as [|? ? Hv N1'']; subst.
    unfold Inv; simpl. repeat split; auto using dict_del_nodup.
    - apply dict_del_In in H0. destruct H0 as [H0 Hne]. apply H in H0.
      destruct H0 as [H0 E]. eapply Permutation_in in H0; [|exact P].
      destruct H0 as [<-|H0]; auto. congruence.
    - apply dict_del_In in H0. destruct H0 as [H0 _]. apply H in H0. tauto.
    - intros [Hx E]. apply dict_del_In. split.
      + apply H. split; auto. eapply Permutation_in; [symmetry; exact P|]. simpl; auto.
      + intro E'. apply Hv. rewrite <- E', <- E. now apply in_map.
  Qed.

  Lemma has_key_perm k l l' : Permutation l l' -> has_key k l = has_key k l'.
  Proof.
    intro P. apply bool_iff. rewrite !has_key_In. split; apply Permutation_in;
      [|symmetry]; now apply Permutation_map.
  Qed.

  Lemma has_key_remove s n v k :
    Inv s -> nth_error (lst s) n = Some v ->
    has_key k (remove_at n (lst s)) = negb (keqb k (key v)) && has_key k (lst s).
  Proof.
    intros I Hn. pose proof (inv_del s n v I Hn) as I'.
    pose proof (inv_mem _ k I') as E. simpl in E. rewrite <- E.
    rewrite dict_mem_del, (inv_mem s k I). apply andb_comm.
  Qed.

  (* ---------------- per-operation lemmas ---------------- *)
  Definition good (s : st) (o : op) : Prop :=
    let '(r, s') := step s o in
    let '(r', l') := spec_step (lst s) o in
    out_equiv r r' /\ lst s' = l' /\ Inv s' /\ out_inv r /\
    (forall e, r = Err e -> s' = s).

  Ltac same := cbv beta iota zeta; split; [reflexivity|split; [assumption|intros; reflexivity]].
  Ltac split3 := cbv beta iota zeta; split; [reflexivity|split; [|intros; discriminate]].

  Lemma insert_good s i x l' :
    Inv s -> (forall l, Permutation (l' l) (x :: l)) ->
    let '(r, s') := insert key keqb valid s i x in
    (r, lst s') = (match may_add key keqb valid (lst s) x with
                   | Err e => (Err e, lst s)
                   | Ok _ => (Ok RNone, insert_at (clamp_index (zlen (lst s)) i) x (lst s)) end)
    /\ Inv s' /\ (forall e, r = Err e -> s' = s).
  Proof.
    intros I _. unfold insert, validate_item, may_add.
    destruct (valid x); [|cbv beta iota zeta; same].
    rewrite (inv_mem s _ I). destruct (has_key (key x) (lst s)) eqn:Hk; cbv beta iota zeta.
    - same.
    - simpl. split3.
      rewrite dict_set_fresh by (now rewrite (inv_mem s _ I)).
      apply inv_add; auto. apply insert_at_perm.
  Qed.

  Lemma delitem_good s n v :
    Inv s -> nth_error (lst s) n = Some v ->
    delitem_idx key keqb s (Z.of_nat n) =
      (Ok RNone, mk (remove_at n (lst s)) (dict_del (key v) (dct s))).
  Proof.
    intros I Hn. unfold delitem_idx.
    rewrite norm_index_of_nat by (eapply nth_error_lt; eauto). rewrite Hn.
    rewrite (inv_mem s _ I).
    assert (has_key (key v) (lst s) = true) as ->; auto.
    apply has_key_In. apply in_map. eapply nth_error_In; eauto.
  Qed.

  Lemma delitem_idx_good s i :
    Inv s ->
    let '(r, s') := delitem_idx key keqb s i in
    (r, lst s') = (match norm_index (zlen (lst s)) i with
                   | Some n => delete_at (lst s) n
                   | None => (Err IndexErr, lst s) end)
    /\ Inv s' /\ (forall e, r = Err e -> s' = s).
  Proof.
    intro I. unfold delitem_idx, delete_at.
    destruct (norm_index (zlen (lst s)) i) as [n|]; [|same].
    destruct (nth_error (lst s) n) as [v|] eqn:Hn; [|same].
    rewrite (inv_mem s _ I).
    assert (has_key (key v) (lst s) = true) as ->.
    { apply has_key_In. apply in_map. eapply nth_error_In; eauto. }
    simpl. split3. now apply inv_del.
  Qed.

  Lemma setitem_idx_good s i x :
    Inv s ->
    let '(r, s') := setitem_idx key keqb valid s i x in
    (r, lst s') = (match norm_index (zlen (lst s)) i with
                   | Some n => replace_at key keqb valid (lst s) n x
                   | None => (Err IndexErr, lst s) end)
    /\ Inv s' /\ (forall e, r = Err e -> s' = s).
  Proof.
    intro I. unfold setitem_idx, replace_at, validate_item.
    destruct (norm_index (zlen (lst s)) i) as [n|]; [|same].
    destruct (nth_error (lst s) n) as [old|] eqn:Hn; [|same].
    destruct (valid x); [|same].
    rewrite (has_key_remove s n old (key x) I Hn), (inv_mem s _ I).
    destruct (negb (keqb (key x) (key old)) && has_key (key x) (lst s)) eqn:C;
      [same|].
    simpl. split3.
    pose proof (inv_del s n old I Hn) as I'.
    rewrite dict_set_fresh.
    2:{ rewrite dict_mem_del, (inv_mem s _ I), andb_comm. exact C. }
    apply (inv_add (mk (remove_at n (lst s)) (dict_del (key old) (dct s))) x); auto.
    - simpl. rewrite (has_key_remove s n old (key x) I Hn). exact C.
    - simpl. apply set_at_perm.
  Qed.

  (* ---------------- construction of new containers ---------------- *)
  Lemma view_inv l : NoDup (map key l) -> Inv (view l).
  Proof.
    intro N. unfold Inv, Spec.view; simpl. repeat split.
    - exact N.
    - rewrite map_map. simpl. exact N.
    - apply in_map_iff in H. destruct H as [y [E Hy]]. inversion E; subst; auto.
    - apply in_map_iff in H. destruct H as [y [E Hy]]. inversion E; subst; auto.
    - intros [Hx <-]. apply in_map_iff. exists x; auto.
  Qed.

  Lemma nodup_keys_iff l : nodup_keys key keqb l = true <-> NoDup (map key l).
  Proof.
    induction l as [|x l IH]; simpl.
    - split; auto. constructor.
    - rewrite andb_true_iff, negb_true_iff, IH. split.
      + intros [H N]. constructor; auto. intro Hin. apply has_key_In in Hin. congruence.
      + intro N. inversion N; subst. split; auto.
        destruct (has_key (key x) l) eqn:E; auto. apply has_key_In in E. contradiction.
  Qed.

  Lemma pairs_snoc l x : pairs (l ++ [x]) = pairs l ++ [(key x, x)].
  Proof. now rewrite map_app. Qed.

  Lemma construct_loop_spec xs : forall l,
    construct_loop key keqb xs (view l) =
      if nodup_keys key keqb (l ++ xs) then Ok (view (l ++ xs))
      else if nodup_keys key keqb l then Err ValueErr
           else construct_loop key keqb xs (view l).
  Proof.
    induction xs as [|x xs IH]; intro l.
    - rewrite app_nil_r. simpl. destruct (nodup_keys key keqb l); reflexivity.
    - destruct (nodup_keys key keqb l) eqn:Nl.
      2:{ destruct (nodup_keys key keqb (l ++ x :: xs)) eqn:N; auto.
          exfalso. apply nodup_keys_iff in N. rewrite map_app in N.
          apply NoDup_app_l in N. apply nodup_keys_iff in N. congruence. }
      simpl. unfold insert_untyped. simpl. rewrite dict_mem_pairs.
      destruct (has_key (key x) l) eqn:Hk.
      + assert (nodup_keys key keqb (l ++ x :: xs) = false) as ->; auto.
        destruct (nodup_keys key keqb (l ++ x :: xs)) eqn:N; auto. exfalso.
        apply nodup_keys_iff in N. rewrite map_app in N. simpl in N.
        apply NoDup_remove_2 in N. apply N. apply in_app_iff. left.
        now apply has_key_In.
      + rewrite dict_set_fresh by (now rewrite dict_mem_pairs).
        rewrite <- pairs_snoc. change (mk (l ++ [x]) (pairs (l ++ [x]))) with (view (l ++ [x])).
        rewrite IH. rewrite <- app_assoc. simpl.
        destruct (nodup_keys key keqb (l ++ x :: xs)) eqn:N; auto.
        assert (nodup_keys key keqb (l ++ [x]) = true) as ->; auto.
        apply nodup_keys_iff. rewrite map_app. simpl.
        apply nodup_keys_iff in Nl.
        eapply Permutation_NoDup; [apply Permutation_cons_append|].
        constructor; auto. intro Hin. apply has_key_In in Hin. congruence.
  Qed.

  Lemma construct_plain_spec xs :
    construct_plain key keqb xs =
      if nodup_keys key keqb xs then Ok (view xs) else Err ValueErr.
  Proof.
    unfold construct_plain. change (@empty item K) with (view []).
    rewrite construct_loop_spec. simpl. destruct (nodup_keys key keqb xs); reflexivity.
  Qed.

  Lemma construct_typed_spec xs :
    match construct_typed key keqb valid xs with
    | Ok n => Ok (RNew n) | Err e => Err e end = fresh_typed key keqb valid xs.
  Proof.
    unfold construct_typed, fresh_typed. fold (construct_plain key keqb xs).
    rewrite construct_plain_spec. destruct (nodup_keys key keqb xs); auto.
    simpl. destruct (forallb valid xs); reflexivity.
  Qed.

  Lemma fresh_typed_inv xs : out_inv (fresh_typed key keqb valid xs).
  Proof.
    unfold fresh_typed. destruct (nodup_keys key keqb xs) eqn:N; simpl; auto.
    destruct (forallb valid xs); simpl; auto. apply view_inv. now apply nodup_keys_iff.
  Qed.

  (* slices of a duplicate-free list are duplicate free *)
  Lemma pick_nodup (l : list item) ns :
    NoDup (map key l) -> NoDup ns -> NoDup (map key (pick l ns)).
  Proof.
    intros Nl Nn. induction Nn as [|n ns Hn Nn IH]; simpl; [constructor|].
    destruct (nth_error l n) as [x|] eqn:E; auto. simpl. constructor; auto.
    intro Hin. apply in_map_iff in Hin. destruct Hin as [y [Ek Hy]].
    assert (exists m, In m ns /\ nth_error l m = Some y) as [m [Hm Em]].
    { clear - Hy. induction ns as [|a ns IH]; simpl in Hy; [contradiction|].
      destruct (nth_error l a) eqn:Ea.
      - destruct Hy as [<-|Hy]; [exists a; simpl; auto|].
        destruct (IH Hy) as [m [H1 H2]]. exists m; simpl; auto.
      - destruct (IH Hy) as [m [H1 H2]]. exists m; simpl; auto. }
    assert (n = m); [|subst; contradiction].
    pose proof (map_nth_error key _ _ E) as E1.
    pose proof (map_nth_error key _ _ Em) as E2. rewrite Ek in E2.
    rewrite NoDup_nth_error in Nl. apply Nl; [|congruence].
    apply nth_error_Some. congruence.
  Qed.

  Lemma slice_indices_nodup len a b sp : sp <> 0 -> NoDup (slice_indices len a b sp).
  Proof.
    intro H. unfold slice_indices. apply NoDup_map_inj_on.
    - intros x y Hx Hy E. apply filter_In in Hx, Hy. lia.
    - apply NoDup_filter. now apply zrange_nodup.
  Qed.

  Lemma py_slice_nodup (l : list item) a b sp :
    sp <> 0 -> NoDup (map key l) -> NoDup (map key (py_slice l a b sp)).
  Proof. intros. apply pick_nodup; auto. now apply slice_indices_nodup. Qed.

  (* ---------------- extend ---------------- *)
  Lemma extend_stage_spec s : Inv s -> forall xs prev,
    extend_stage key keqb valid s xs (pairs prev) =
      match may_add_all key keqb valid (lst s ++ prev) xs with
      | Err e => Err e
      | Ok _ => Ok (pairs (prev ++ xs))
      end.
  Proof.
    intros I xs. induction xs as [|x xs IH]; intro prev; simpl.
    - now rewrite app_nil_r.
    - unfold validate_item, may_add. destruct (valid x); auto.
      rewrite (inv_mem s _ I), dict_mem_pairs, has_key_app.
      destruct (has_key (key x) (lst s) || has_key (key x) prev) eqn:E; auto.
      rewrite dict_set_fresh.
      2:{ rewrite dict_mem_pairs. apply orb_false_iff in E. tauto. }
      rewrite <- pairs_snoc, IH, <- !app_assoc. reflexivity.
  Qed.

  Lemma may_add_all_ok xs : forall l l',
    may_add_all key keqb valid l xs = Ok l' ->
    l' = l ++ xs /\ (NoDup (map key l) -> NoDup (map key l')).
  Proof.
    induction xs as [|x xs IH]; intros l l' H; simpl in H.
    - inversion H; subst. rewrite app_nil_r. auto.
    - unfold may_add in H. destruct (valid x); [|discriminate].
      destruct (has_key (key x) l) eqn:Hk; [discriminate|].
      apply IH in H. destruct H as [-> H]. rewrite <- app_assoc in *. split; auto.
      intro N. apply H. rewrite map_app. simpl.
      eapply Permutation_NoDup; [apply Permutation_cons_append|].
      constructor; auto. intro Hin. apply has_key_In in Hin. congruence.
  Qed.

  Lemma dict_update_fresh xs : forall d,
    (forall x, In x xs -> dict_mem (key x) d = false) -> NoDup (map key xs) ->
    dict_update keqb d (pairs xs) = d ++ pairs xs.
  Proof.
    unfold dict_update. induction xs as [|x xs IH]; intros d Hd N; simpl.
    - now rewrite app_nil_r.
    - inversion N; subst. rewrite dict_set_fresh by (apply Hd; simpl; auto).
      rewrite IH; auto.
      + now rewrite <- app_assoc.
      + intros y Hy. destruct (dict_mem (key y) (d ++ [(key x, x)])) eqn:E; auto.
        apply dict_mem_In in E. rewrite map_app, in_app_iff in E. simpl in E.
        destruct E as [E|[E|[]]].
        * apply dict_mem_In in E. rewrite Hd in E; [discriminate|simpl; auto].
        * exfalso. apply H1. rewrite E. now apply in_map.
  Qed.

  Lemma inv_extend s xs :
    Inv s -> NoDup (map key (lst s ++ xs)) ->
    Inv (mk (lst s ++ xs) (dct s ++ pairs xs)).
  Proof.
    intros (N1 & N2 & H) N. unfold Inv; simpl.
    rewrite map_app in N.
    assert (D : forall k, In k (map key (lst s)) -> In k (map key xs) -> False).
    { intros k H1 H2. clear - N H1 H2. induction (map key (lst s)) as [|a l IH]; simpl in *; auto.
      inversion N; subst. destruct H1 as [->|H1]; auto.
      apply H3. apply in_app_iff. auto. }
    repeat split.
    - now rewrite map_app.
    - rewrite map_app, map_map. simpl.
      assert (P : forall k, In k (map fst (dct s)) <-> In k (map key (lst s))).
      { intro k. rewrite !in_map_iff. split.
        - intros [[k' x] [E Hp]]. simpl in E; subst. apply H in Hp. exists x; tauto.
        - intros [x [E Hx]]. exists (k, x). split; auto. apply H; auto. }
      apply NoDup_app_iff in N. destruct N as (Na & Nb & Nd).
      apply NoDup_app_iff. repeat split; auto.
      intros k Hk. apply P in Hk. now apply Nd.
    - rewrite in_app_iff in H0. rewrite in_app_iff. destruct H0 as [H0|H0].
      + apply H in H0. tauto.
      + apply in_map_iff in H0. destruct H0 as [y [E Hy]]. inversion E; subst; auto.
    - rewrite in_app_iff in H0. destruct H0 as [H0|H0].
      + apply H in H0. tauto.
      + apply in_map_iff in H0. destruct H0 as [y [E Hy]]. now inversion E.
    - intros [Hx E]. rewrite in_app_iff in *. destruct Hx as [Hx|Hx].
      + left. apply H. auto.
      + right. apply in_map_iff. exists x. subst; auto.
  Qed.

  Lemma extend_good s xs :
    Inv s ->
    let '(r, s') := extend key keqb valid s xs in
    (r, lst s') = (match may_add_all key keqb valid (lst s) xs with
                   | Err e => (Err e, lst s)
                   | Ok l' => (Ok RNone, l') end)
    /\ Inv s' /\ (forall e, r = Err e -> s' = s).
  Proof.
    intro I. unfold extend.
    pose proof (extend_stage_spec s I xs []) as E. simpl in E. rewrite app_nil_r in E.
    rewrite E. destruct (may_add_all key keqb valid (lst s) xs) as [l'|e] eqn:A; [|same].
    apply may_add_all_ok in A. destruct A as [-> N].
    destruct I as (N1 & N2 & H).
    rewrite map_map. simpl. rewrite map_id. split3.
    rewrite dict_update_fresh.
    - apply inv_extend; [unfold Inv; auto|auto].
    - intros x Hx. rewrite (inv_mem s (key x)) by (unfold Inv; auto).
      destruct (has_key (key x) (lst s)) eqn:Hk; auto. exfalso.
      apply has_key_In in Hk. specialize (N N1). rewrite map_app in N.
      clear - N Hk Hx. induction (map key (lst s)) as [|a l IH]; simpl in *; auto.
      inversion N; subst. destruct Hk as [->|Hk]; auto.
      apply H1. apply in_app_iff. right. now apply in_map.
    - specialize (N N1). rewrite map_app in N. now apply NoDup_app_r in N.
  Qed.

  (* ---------------- clear ---------------- *)
  Lemma inv_nil s : Inv s -> lst s = [] -> dct s = [].
  Proof.
    intros (_ & _ & H) E. destruct (dct s) as [|[k x] d]; auto.
    exfalso. assert (In x (lst s)) by (apply (H k x); simpl; auto).
    rewrite E in H0. contradiction.
  Qed.

  Lemma pop_good s i :
    Inv s ->
    let '(r, s') := pop key keqb s i in
    (r, lst s') = (let idx := match i with Some z => z | None => -1 end in
                   match norm_index (zlen (lst s)) idx with
                   | Some n => match nth_error (lst s) n with
                               | Some x => (Ok (RItem x), remove_at n (lst s))
                               | None => (Err IndexErr, lst s) end
                   | None => (Err IndexErr, lst s) end)
    /\ Inv s' /\ (forall e, r = Err e -> s' = s).
  Proof.
    intro I. unfold pop, getitem_idx.
    set (idx := match i with Some z => z | None => -1 end).
    pose proof (delitem_idx_good s idx I) as D. unfold delitem_idx, delete_at in *.
    destruct (norm_index (zlen (lst s)) idx) as [n|]; [|same].
    destruct (nth_error (lst s) n) as [v|] eqn:Hn; [|same].
    destruct (dict_mem (key v) (dct s)).
    - cbv beta iota zeta in *. destruct D as (D1 & D2 & D3). inversion D1; subst.
      split; [reflexivity|split; [assumption|intros; discriminate]].
    - cbv beta iota zeta in D. destruct D as (D1 & _). discriminate.
  Qed.

  Lemma clear_good fuel : forall s,
    Inv s -> (length (lst s) < fuel)%nat ->
    clear_loop key keqb fuel s = (Ok RNone, mk [] []).
  Proof.
    induction fuel as [|f IH]; intros s I L; [lia|]. simpl.
    pose proof (pop_good s None I) as P.
    destruct (pop key keqb s None) as [r s'] eqn:Ep. simpl in P.
    destruct (lst s) as [|a l] eqn:El.
    - rewrite norm_index_nil in P. destruct P as (P1 & P2 & P3). inversion P1; subst.
      rewrite (P3 IndexErr eq_refl). destruct s as [l0 d0]; simpl in *. subst.
      f_equal. f_equal. apply (inv_nil (mk [] d0)); auto.
    - rewrite norm_index_last in P by discriminate.
      destruct (nth_error (a :: l) (length (a :: l) - 1)) eqn:En.
      + destruct P as (P1 & P2 & P3). inversion P1; subst. apply IH; auto.
        rewrite H1. pose proof (remove_at_length _ _ _ En). simpl in *. lia.
      + apply nth_error_None in En. simpl in En. lia.
  Qed.

  Lemma empty_inv : Inv (@empty item K).
  Proof. unfold Inv, empty; simpl. repeat split; try constructor; simpl in *; tauto. Qed.

  (* ---------------- every operation ---------------- *)
  Ltac readonly := cbv beta iota zeta;
    split; [try apply out_equiv_refl|split; [reflexivity|split; [assumption|split; [exact Logic.I|intros; reflexivity]]]].

  Lemma lift3 (s s' : st) (r : res out) (p : res out * list item) :
    (r, lst s') = p /\ Inv s' /\ (forall e, r = Err e -> s' = s) ->
    (forall x, r <> Ok (RNew x)) ->
    out_equiv r (fst p) /\ lst s' = snd p /\ Inv s' /\ out_inv r /\ (forall e, r = Err e -> s' = s).
  Proof.
    intros (E & I & A) Hn. subst p. simpl.
    split; [apply out_equiv_refl|]. split; [reflexivity|]. split; [exact I|]. split; [|exact A].
    destruct r as [[]|]; simpl; auto. exfalso. eapply Hn; eauto.
  Qed.

  Ltac nonew := repeat match goal with
    | |- context[match ?e with _ => _ end] => destruct e
    end; let H := fresh in intro H; inversion H.

  Lemma setitem_no_new s i x m s' :
    setitem_idx key keqb valid s i x = (Ok (RNew m), s') -> False.
  Proof. unfold setitem_idx, validate_item. nonew. Qed.
  Lemma delitem_no_new s i m s' :
    delitem_idx key keqb s i = (Ok (RNew m), s') -> False.
  Proof. unfold delitem_idx. nonew. Qed.
  Lemma insert_no_new s i x m s' :
    insert key keqb valid s i x = (Ok (RNew m), s') -> False.
  Proof. unfold insert, validate_item. nonew. Qed.
  Lemma extend_no_new s xs m s' :
    extend key keqb valid s xs = (Ok (RNew m), s') -> False.
  Proof. unfold extend. nonew. Qed.
  Lemma pop_no_new s i m s' :
    pop key keqb s i = (Ok (RNew m), s') -> False.
  Proof.
    unfold pop. destruct (getitem_idx s _); [|intro H; inversion H].
    destruct (delitem_idx key keqb s _) as [[|] ?]; intro H; inversion H.
  Qed.

  Local Arguments clear_loop : simpl never.

  Theorem step_good s o : Inv s -> good s o.
  Proof.
    intro I. unfold good.
    destruct (step s o) as [r s'] eqn:Es.
    destruct (spec_step (lst s) o) as [r' l'] eqn:Esp.
    destruct o; simpl in Es, Esp.
    - (* OGetIdx *) inversion Es; inversion Esp; subst. unfold getitem_idx.
      destruct (norm_index (zlen (lst s')) i); [destruct (nth_error (lst s') n)|]; readonly.
    - (* OGetKey *) inversion Es; inversion Esp; subst. rewrite (inv_get s' k I).
      destruct (scan k (lst s')); readonly.
    - (* OGetSlice *)
      destruct (s0 =? 0) eqn:Z0; inversion Es; inversion Esp; subst; [readonly|].
      rewrite construct_plain_spec.
      assert (N : NoDup (map key (py_slice (lst s') a b s0))).
      { apply py_slice_nodup; [lia|apply I]. }
      pose proof N as N'. apply nodup_keys_iff in N'. rewrite N'.
      split; [apply out_equiv_refl|split; [reflexivity|split; [exact I|split; [apply view_inv; exact N|intros; reflexivity]]]].
    - (* OSetIdx *)
      pose proof (setitem_idx_good s i x I) as G. rewrite Es in G.
      apply lift3 in G.
      + destruct (norm_index (zlen (lst s)) i); rewrite Esp in G; exact G.
      + intros n E. subst. eapply setitem_no_new; eauto.
    - (* OSetKey *)
      rewrite (inv_index_for_key s k I) in Es.
      destruct (scan_index k (lst s)) as [n|] eqn:En.
      + pose proof (setitem_idx_good s (Z.of_nat n) x I) as G. rewrite Es in G.
        apply scan_index_some in En. destruct En as (y & Hn & _).
        rewrite norm_index_of_nat in G by (eapply nth_error_lt; eauto).
        apply lift3 in G; [rewrite Esp in G; exact G|].
        intros m E. subst. eapply setitem_no_new; eauto.
      + inversion Es; inversion Esp; subst. readonly.
    - (* OSetSlice *) inversion Es; inversion Esp; subst. readonly.
    - (* ODelIdx *)
      pose proof (delitem_idx_good s i I) as G. rewrite Es in G.
      apply lift3 in G.
      + destruct (norm_index (zlen (lst s)) i); rewrite Esp in G; exact G.
      + intros n E. subst. eapply delitem_no_new; eauto.
    - (* ODelKey *)
      rewrite (inv_index_for_key s k I) in Es.
      destruct (scan_index k (lst s)) as [n|] eqn:En.
      + pose proof (delitem_idx_good s (Z.of_nat n) I) as G. rewrite Es in G.
        apply scan_index_some in En. destruct En as (y & Hn & _).
        rewrite norm_index_of_nat in G by (eapply nth_error_lt; eauto).
        apply lift3 in G; [rewrite Esp in G; exact G|].
        intros m E. subst. eapply delitem_no_new; eauto.
      + inversion Es; inversion Esp; subst. readonly.
    - (* ODelSlice *) inversion Es; inversion Esp; subst. readonly.
    - (* OInsert *)
      pose proof (insert_good s i x (fun l => x :: l) I (fun l => Permutation_refl _)) as G.
      rewrite Es in G. apply lift3 in G.
      + destruct (may_add key keqb valid (lst s) x); rewrite Esp in G; exact G.
      + intros n E. subst. eapply insert_no_new; eauto.
    - (* OInsertBadPos *)
      unfold insert_bad_pos, validate_item in Es. unfold may_add in Esp.
      destruct (valid x); [|inversion Es; inversion Esp; subst; readonly].
      rewrite (inv_mem s _ I) in Es.
      destruct (has_key (key x) (lst s)); inversion Es; inversion Esp; subst; readonly.
    - (* OAppend *)
      pose proof (insert_good s (zlen (lst s)) x (fun l => x :: l) I (fun l => Permutation_refl _)) as G.
      rewrite Es in G. apply lift3 in G.
      + assert (C : insert_at (clamp_index (zlen (lst s)) (zlen (lst s))) x (lst s) = lst s ++ [x]).
        { unfold clamp_index, zlen, insert_at.
          destruct (Z.of_nat (length (lst s)) <? 0) eqn:E; [lia|].
          rewrite Z.min_id, Nat2Z.id, firstn_all, skipn_all. reflexivity. }
        rewrite C in G.
        destruct (may_add key keqb valid (lst s) x); rewrite Esp in G; exact G.
      + intros n E. subst. eapply insert_no_new; eauto.
    - (* OExtend *)
      pose proof (extend_good s xs I) as G. rewrite Es in G. apply lift3 in G.
      + destruct (may_add_all key keqb valid (lst s) xs); rewrite Esp in G; exact G.
      + intros n E. subst. eapply extend_no_new; eauto.
    - (* OExtendSelf *)
      pose proof (extend_good s (lst s) I) as G. rewrite Es in G. apply lift3 in G.
      + destruct (may_add_all key keqb valid (lst s) (lst s)); rewrite Esp in G; exact G.
      + intros n E. subst. eapply extend_no_new; eauto.
    - (* OIAdd *)
      pose proof (extend_good s xs I) as G. rewrite Es in G. apply lift3 in G.
      + destruct (may_add_all key keqb valid (lst s) xs); rewrite Esp in G; exact G.
      + intros n E. subst. eapply extend_no_new; eauto.
    - (* OPop *)
      pose proof (pop_good s i I) as G. rewrite Es in G. cbv zeta in G. apply lift3 in G.
      + destruct (norm_index _ _); [destruct (nth_error _ _)|]; rewrite Esp in G; exact G.
      + intros n E. subst. eapply pop_no_new; eauto.
    - (* ORemove *)
      unfold seq_index in Es.
      destruct (find_index (fun v => ieqb v x) (lst s)) as [n|] eqn:En.
      + apply find_index_some in En. destruct En as (y & Hn & _).
        rewrite (delitem_good s n y I Hn) in Es. inversion Es; inversion Esp; subst.
        split; [apply out_equiv_refl|split; [reflexivity|split; [now apply inv_del|split; [exact Logic.I|intros; discriminate]]]].
      + inversion Es; inversion Esp; subst. readonly.
    - (* OReverse *)
      inversion Es; inversion Esp; subst.
      split; [apply out_equiv_refl|split; [reflexivity|split; [|split; [exact Logic.I|intros; discriminate]]]].
      destruct I as (N1 & N2 & H). unfold Inv; simpl. split; [|split; [exact N2|]].
      + rewrite map_rev. eapply Permutation_NoDup; [apply Permutation_rev|auto].
      + intros k x. rewrite H, <- in_rev. tauto.
    - (* OClear *)
      rewrite clear_good in Es by (auto; lia). inversion Es; inversion Esp; subst.
      split; [apply out_equiv_refl|split; [reflexivity|split; [apply empty_inv|split; [exact Logic.I|intros; discriminate]]]].
    - (* OAdd *)
      rewrite construct_typed_spec in Es. inversion Es; inversion Esp; subst.
      split; [apply out_equiv_refl|split; [reflexivity|split; [exact I|split; [apply fresh_typed_inv|intros; reflexivity]]]].
    - (* ORAdd *)
      rewrite construct_typed_spec in Es. inversion Es; inversion Esp; subst.
      split; [apply out_equiv_refl|split; [reflexivity|split; [exact I|split; [apply fresh_typed_inv|intros; reflexivity]]]].
    - (* OContainsItem *) inversion Es; inversion Esp; subst.
      destruct (as_key x); [rewrite (inv_mem s' _ I)|]; readonly.
    - (* OContainsKey *) inversion Es; inversion Esp; subst.
      rewrite (inv_mem s' _ I). readonly.
    - inversion Es; inversion Esp; subst. readonly.
    - inversion Es; inversion Esp; subst. readonly.
    - inversion Es; inversion Esp; subst. readonly.
    - (* OIndex *) inversion Es; inversion Esp; subst. unfold seq_index.
      destruct (find_index _ _); readonly.
    - inversion Es; inversion Esp; subst. readonly.
    - (* OGet *) inversion Es; inversion Esp; subst. rewrite (inv_get s' k I). readonly.
    - (* OKeys *) inversion Es; inversion Esp; subst.
      split; [|split; [reflexivity|split; [exact I|split; [exact Logic.I|intros; reflexivity]]]].
      simpl. destruct I as (N1 & N2 & H). apply NoDup_Permutation; auto.
      intro k. rewrite !in_map_iff. split.
      + intros [[k' x] [E Hp]]. simpl in E; subst. apply H in Hp. exists x; tauto.
      + intros [x [E Hx]]. exists (k, x). split; auto. apply H; auto.
    - (* OItems *) inversion Es; inversion Esp; subst.
      split; [|split; [reflexivity|split; [exact I|split; [exact Logic.I|intros; reflexivity]]]].
      simpl. destruct I as (N1 & N2 & H). apply NoDup_Permutation.
      + eapply NoDup_map_inv; eauto.
      + eapply NoDup_map_inv with (f := fst). rewrite map_map. simpl. exact N1.
      + intros [k x]. rewrite H, in_map_iff. split.
        * intros [Hx <-]. exists x; auto.
        * intros [y [E Hy]]. inversion E; subst; auto.
    - (* OIndexForKey *) inversion Es; inversion Esp; subst.
      rewrite (inv_index_for_key s' k I). destruct (scan_index k (lst s')); readonly.
    - inversion Es; inversion Esp; subst. readonly.
  Qed.

  (* ---------------- sequences of operations ---------------- *)
  Notation run := (run key keqb ieqb valid as_key as_item).
  Notation spec_run := (spec_run key keqb ieqb valid as_key as_item).

  Theorem run_refines ops : forall s,
    Inv s ->
    Forall2 out_equiv (fst (run s ops)) (fst (spec_run (lst s) ops)) /\ lst (snd (run s ops)) = snd (spec_run (lst s) ops) /\ Inv (snd (run s ops)) /\ Forall out_inv (fst (run s ops)).
  Proof.
    induction ops as [|o ops IH]; intros s I; simpl.
    - split; [constructor|split; [reflexivity|split; [exact I|constructor]]].
    - pose proof (step_good s o I) as G. unfold good in G.
      destruct (step s o) as [r s1]. destruct (spec_step (lst s) o) as [r' l1].
      destruct G as (G1 & G2 & G3 & G4 & _). subst l1.
      specialize (IH s1 G3).
      destruct (run s1 ops) as [rs s2]. destruct (spec_run (lst s1) ops) as [rs' l2].
      simpl in *. destruct IH as (H1 & H2 & H3 & H4).
      split; [constructor; auto|split; [exact H2|split; [exact H3|constructor; auto]]].
  Qed.

  Theorem step_atomic s o e :
    Inv s -> fst (step s o) = Err e -> snd (step s o) = s.
  Proof.
    intros I H. pose proof (step_good s o I) as G. unfold good in G.
    destruct (step s o) as [r s1]. destruct (spec_step (lst s) o).
    simpl in *. destruct G as (_ & _ & _ & _ & A). eauto.
  Qed.

  Theorem step_inv s o : Inv s -> Inv (snd (step s o)).
  Proof.
    intro I. pose proof (step_good s o I) as G. unfold good in G.
    destruct (step s o) as [r s1]. destruct (spec_step (lst s) o). simpl. tauto.
  Qed.

  (* key access agrees with a linear scan in every reachable state *)
  Theorem reachable_key_access ops k :
    let s := snd (run (@empty item K) ops) in
    dict_get k (dct s) = scan k (lst s) /\ dict_mem k (dct s) = has_key k (lst s).
  Proof.
    pose proof (run_refines ops _ empty_inv) as (_ & _ & I & _).
    split; [apply inv_get|apply inv_mem]; exact I.
  Qed.

  Theorem reachable_keys_unique ops :
    NoDup (map key (lst (snd (run (@empty item K) ops)))).
  Proof.
    pose proof (run_refines ops _ empty_inv) as (_ & _ & I & _). apply I.
  Qed.
End Proofs.
