(* Executable model of spec_classes/types/keyed.py:KeyedList, following the
   code primitive by primitive ({_list; _dict}), and of the
   collections.abc.MutableSequence / Sequence mixins it inherits
   (CPython 3.12 _collections_abc.py).  No proofs in this file. *)
From Coq Require Import List ZArith Bool.
From SC Require Import Base.Res Base.PyList.
Import ListNotations.
Open Scope Z_scope.

Section KL.
  Context {item K : Type}.
  Variable key : item -> K.                  (* KeyedBase.key *)
  Variable keqb : K -> K -> bool.            (* == / hash on keys *)
  Variable ieqb : item -> item -> bool.      (* == on items *)
  Variable valid : item -> bool.             (* check_type(item) && check_type(key); true when untyped *)
  Variable as_key : item -> option K.        (* an item probed in the key dict: which key it is, if any *)
  Variable as_item : K -> option item.       (* a key compared with items by ==: which item it is, if any *)

  Record st := mk { lst : list item; dct : list (K * item) }.

  (* dict primitives: insertion ordered association list *)
  Definition dict_mem (k : K) (d : list (K * item)) : bool :=
    existsb (fun p => keqb k (fst p)) d.
  Definition dict_get (k : K) (d : list (K * item)) : option item :=
    option_map snd (find (fun p => keqb k (fst p)) d).
  Definition dict_del (k : K) (d : list (K * item)) : list (K * item) :=
    filter (fun p => negb (keqb k (fst p))) d.
  Definition dict_set (k : K) (x : item) (d : list (K * item)) : list (K * item) :=
    if dict_mem k d
    then map (fun p => if keqb k (fst p) then (fst p, x) else p) d
    else d ++ [(k, x)].

  Inductive op :=
  | OGetIdx (i : Z) | OGetKey (k : K) | OGetSlice (a b : option Z) (s : Z)
  | OSetIdx (i : Z) (x : item) | OSetKey (k : K) (x : item) | OSetSlice
  | ODelIdx (i : Z) | ODelKey (k : K) | ODelSlice
  | OInsert (i : Z) (x : item) | OInsertBadPos (x : item) | OAppend (x : item)
  | OExtend (xs : list item) | OExtendSelf | OIAdd (xs : list item)
  | OPop (i : option Z) | ORemove (x : item) | OReverse | OClear
  | OAdd (xs : list item) | ORAdd (xs : list item)
  | OContainsItem (x : item) | OContainsKey (k : K)
  | OIter | OReversed | OLen | OIndex (x : item) | OCount (x : item)
  | OGet (k : K) | OKeys | OItems | OIndexForKey (k : K) | OEqList (xs : list item).

  Inductive out :=
  | RNone | RItem (x : item) | RItems (xs : list item) | RBool (b : bool)
  | RInt (z : Z) | ROpt (o : option item) | RKeys (ks : list K)
  | RPairs (ps : list (K * item)) | RNew (s : st).

  Definition validate_item (x : item) : res (item * K) :=
    if valid x then Ok (x, key x) else Err TypeErr.

  (* KeyedList.insert *)
  Definition insert (s : st) (i : Z) (x : item) : res out * st :=
    match validate_item x with
    | Err e => (Err e, s)
    | Ok (it, k) =>
        if dict_mem k (dct s) then (Err ValueErr, s)
        else (Ok RNone,
              mk (insert_at (clamp_index (zlen (lst s)) i) it (lst s))
                 (dict_set k it (dct s)))
    end.

  (* KeyedList.insert with a position that is not an integer (a key, None):
     item and duplicate-key checks come first, then list.insert raises TypeError *)
  Definition insert_bad_pos (s : st) (x : item) : res out * st :=
    match validate_item x with
    | Err e => (Err e, s)
    | Ok (it, k) =>
        if dict_mem k (dct s) then (Err ValueErr, s) else (Err TypeErr, s)
    end.

  (* insert as executed during construction of an *unparameterised* instance:
     _type is the bare class there, so no item/key type check *)
  Definition insert_untyped (s : st) (x : item) : res out * st :=
    let k := key x in
    if dict_mem k (dct s) then (Err ValueErr, s)
    else (Ok RNone, mk (lst s ++ [x]) (dict_set k x (dct s))).

  Definition empty : st := mk [] [].

  Fixpoint construct_loop (xs : list item) (s : st) : res st :=
    match xs with
    | [] => Ok s
    | x :: t => match insert_untyped s x with
                | (Err e, _) => Err e
                | (Ok _, s') => construct_loop t s'
                end
    end.

  (* type(self)(seq, key): no type parameters on the result *)
  Definition construct_plain (xs : list item) : res st := construct_loop xs empty.

  (* self._type(seq, key=...): construction, then the __orig_class__ setter
     validates every item (BaseTypeError, reported as TypeErr) *)
  Definition construct_typed (xs : list item) : res st :=
    match construct_loop xs empty with
    | Err e => Err e
    | Ok s => if forallb valid (lst s) then Ok s else Err TypeErr
    end.

  (* KeyedList.index_for_key *)
  Definition index_for_key (s : st) (k : K) : res nat :=
    if dict_mem k (dct s)
    then match find_index (fun el => keqb (key el) k) (lst s) with
         | Some i => Ok i
         | None => Err KeyErr
         end
    else Err KeyErr.

  Definition getitem_idx (s : st) (i : Z) : res item :=
    match norm_index (zlen (lst s)) i with
    | None => Err IndexErr
    | Some n => match nth_error (lst s) n with
                | Some x => Ok x
                | None => Err IndexErr
                end
    end.

  (* KeyedList.__setitem__ (int branch) *)
  Definition setitem_idx (s : st) (i : Z) (x : item) : res out * st :=
    match norm_index (zlen (lst s)) i with
    | None => (Err IndexErr, s)
    | Some n =>
        match nth_error (lst s) n with
        | None => (Err IndexErr, s)
        | Some old =>
            let old_key := key old in
            match validate_item x with
            | Err e => (Err e, s)
            | Ok (it, k) =>
                if negb (keqb k old_key) && dict_mem k (dct s)
                then (Err ValueErr, s)
                else (Ok RNone,
                      mk (set_at n it (lst s))
                         (dict_set k it (dict_del old_key (dct s))))
            end
        end
    end.

  (* KeyedList.__delitem__ (int branch): list.pop, then del dict[key] *)
  Definition delitem_idx (s : st) (i : Z) : res out * st :=
    match norm_index (zlen (lst s)) i with
    | None => (Err IndexErr, s)
    | Some n =>
        match nth_error (lst s) n with
        | None => (Err IndexErr, s)
        | Some v =>
            let l' := remove_at n (lst s) in
            if dict_mem (key v) (dct s)
            then (Ok RNone, mk l' (dict_del (key v) (dct s)))
            else (Err KeyErr, mk l' (dct s))
        end
    end.

  (* MutableSequence.pop *)
  Definition pop (s : st) (i : option Z) : res out * st :=
    let idx := match i with Some z => z | None => -1 end in
    match getitem_idx s idx with
    | Err e => (Err e, s)
    | Ok v => match delitem_idx s idx with
              | (Err e, s') => (Err e, s')
              | (Ok _, s') => (Ok (RItem v), s')
              end
    end.

  (* MutableSequence.clear: pop() until IndexError *)
  Fixpoint clear_loop (fuel : nat) (s : st) : res out * st :=
    match fuel with
    | O => (Err Fuel, s)
    | S f => match pop s None with
             | (Ok _, s') => clear_loop f s'
             | (Err IndexErr, s') => (Ok RNone, s')
             | (Err e, s') => (Err e, s')
             end
    end.

  (* KeyedList.extend: stage, then commit *)
  Fixpoint extend_stage (s : st) (xs : list item) (staged : list (K * item))
    : res (list (K * item)) :=
    match xs with
    | [] => Ok staged
    | x :: t =>
        match validate_item x with
        | Err e => Err e
        | Ok (it, k) =>
            if dict_mem k (dct s) || dict_mem k staged then Err ValueErr
            else extend_stage s t (dict_set k it staged)
        end
    end.

  Definition dict_update (d staged : list (K * item)) : list (K * item) :=
    fold_left (fun acc p => dict_set (fst p) (snd p) acc) staged d.

  Definition extend (s : st) (xs : list item) : res out * st :=
    match extend_stage s xs [] with
    | Err e => (Err e, s)
    | Ok staged =>
        (Ok RNone, mk (lst s ++ map snd staged) (dict_update (dct s) staged))
    end.

  (* Sequence.index (no start/stop) *)
  Definition seq_index (s : st) (x : item) : res nat :=
    match find_index (fun v => ieqb v x) (lst s) with
    | Some i => Ok i
    | None => Err ValueErr
    end.

  Definition step (s : st) (o : op) : res out * st :=
    match o with
    | OGetIdx i => (match getitem_idx s i with Ok x => Ok (RItem x) | Err e => Err e end, s)
    | OGetKey k => (match dict_get k (dct s) with Some x => Ok (RItem x) | None => Err KeyErr end, s)
    | OGetSlice a b sp =>
        if sp =? 0 then (Err ValueErr, s)
        else (match construct_plain (py_slice (lst s) a b sp) with
              | Ok n => Ok (RNew n) | Err e => Err e end, s)
    | OSetIdx i x => setitem_idx s i x
    | OSetKey k x =>
        match index_for_key s k with
        | Err e => (Err e, s)
        | Ok n => setitem_idx s (Z.of_nat n) x
        end
    | OSetSlice => (Err RuntimeErr, s)
    | ODelIdx i => delitem_idx s i
    | ODelKey k =>
        match index_for_key s k with
        | Err e => (Err e, s)
        | Ok n => delitem_idx s (Z.of_nat n)
        end
    | ODelSlice => (Err RuntimeErr, s)
    | OInsert i x => insert s i x
    | OInsertBadPos x => insert_bad_pos s x
    | OAppend x => insert s (zlen (lst s)) x
    | OExtend xs => extend s xs
    | OExtendSelf => extend s (lst s)
    | OIAdd xs => extend s xs
    | OPop i => pop s i
    | ORemove x =>
        match seq_index s x with
        | Err e => (Err e, s)
        | Ok n => delitem_idx s (Z.of_nat n)
        end
    | OReverse => (Ok RNone, mk (rev (lst s)) (dct s))
    | OClear => clear_loop (S (length (lst s))) s
    | OAdd xs => (match construct_typed (lst s ++ xs) with
                  | Ok n => Ok (RNew n) | Err e => Err e end, s)
    | ORAdd xs => (match construct_typed (xs ++ lst s) with
                   | Ok n => Ok (RNew n) | Err e => Err e end, s)
    | OContainsItem x =>
        (Ok (RBool ((match as_key x with Some k => dict_mem k (dct s) | None => false end)
                    || existsb (fun v => ieqb v x) (lst s))), s)
    | OContainsKey k =>
        (Ok (RBool (dict_mem k (dct s)
                    || match as_item k with
                       | Some x => existsb (fun v => ieqb v x) (lst s)
                       | None => false end)), s)
    | OIter => (Ok (RItems (lst s)), s)
    | OReversed => (Ok (RItems (rev (lst s))), s)
    | OLen => (Ok (RInt (zlen (lst s))), s)
    | OIndex x => (match seq_index s x with Ok n => Ok (RInt (Z.of_nat n)) | Err e => Err e end, s)
    | OCount x => (Ok (RInt (Z.of_nat (count_if (fun v => ieqb v x) (lst s)))), s)
    | OGet k => (Ok (ROpt (dict_get k (dct s))), s)
    | OKeys => (Ok (RKeys (map fst (dct s))), s)
    | OItems => (Ok (RPairs (dct s)), s)
    | OIndexForKey k => (match index_for_key s k with Ok n => Ok (RInt (Z.of_nat n)) | Err e => Err e end, s)
    | OEqList xs => (Ok (RBool (list_eqb ieqb (lst s) xs)), s)
    end.

  Fixpoint run (s : st) (ops : list op) : list (res out) * st :=
    match ops with
    | [] => ([], s)
    | o :: t => let '(r, s') := step s o in
                let '(rs, s'') := run s' t in (r :: rs, s'')
    end.

  (* ------------------------------------------------------------------ *)
  (* The code as it was before the fix: commits (kept as regression
     evidence; see Props/C13.v *_refuted) *)
  Definition setitem_idx_old (s : st) (i : Z) (x : item) : res out * st :=
    match delitem_idx s i with
    | (Err e, s') => (Err e, s')
    | (Ok _, s') => insert s' i x
    end.

End KL.

Arguments mk {item K} lst dct.
Arguments lst {item K} s.
Arguments dct {item K} s.
