(* C09 — proofs.  The generated constructor of the model (Init/Model.v, current code [cur])
   computes exactly [Spec.expected_init] for single-inheritance hierarchies of any depth
   mixing spec classes and plain classes, with generated constructors. *)
From Coq Require Import List ZArith Bool Arith Lia.
From SC Require Import Base.Res Init.Model Init.Spec.
Import ListNotations.
Open Scope nat_scope.

(* ------------------------------------------------------------------ generic lemmas *)
Lemma memb_In a l : memb a l = true <-> In a l.
Proof.
  unfold memb. rewrite existsb_exists. split.
  - intros [x [H E]]. apply Nat.eqb_eq in E. subst. exact H.
  - intro H. exists a. split; [exact H | apply Nat.eqb_refl].
Qed.

Lemma memb_false a l : memb a l = false <-> ~ In a l.
Proof.
  rewrite <- memb_In. destruct (memb a l); split; intro H.
  - discriminate.
  - exfalso; apply H; reflexivity.
  - intro; discriminate.
  - reflexivity.
Qed.

Lemma memb_app a l1 l2 : memb a (l1 ++ l2) = memb a l1 || memb a l2.
Proof. unfold memb. apply existsb_app. Qed.

Lemma first_some_app {A B} (f : A -> option B) l1 l2 :
  first_some f (l1 ++ l2) = match first_some f l1 with Some y => Some y | None => first_some f l2 end.
Proof. induction l1 as [|x t IH]; simpl; [reflexivity|]. destruct (f x); [reflexivity | exact IH]. Qed.

Lemma first_some_none {A B} (f : A -> option B) l :
  (forall x, In x l -> f x = None) -> first_some f l = None.
Proof.
  induction l as [|x t IH]; simpl; intro H; [reflexivity|].
  rewrite (H x (or_introl eq_refl)). apply IH. intros y Hy. apply H. right; exact Hy.
Qed.

Lemma first_some_ext {A B} (f g : A -> option B) l :
  (forall x, In x l -> f x = g x) -> first_some f l = first_some g l.
Proof.
  induction l as [|x t IH]; simpl; intro H; [reflexivity|].
  rewrite (H x (or_introl eq_refl)). destruct (g x); [reflexivity|].
  apply IH. intros y Hy. apply H. right; exact Hy.
Qed.

Lemma assoc_In {B} a (l : list (nat * B)) v : assoc a l = Some v -> In (a, v) l.
Proof.
  induction l as [|[k w] t IH]; simpl; [discriminate|].
  destruct (k =? a) eqn:E.
  - intro H. inversion H. apply Nat.eqb_eq in E. subst. left; reflexivity.
  - intro H. right. apply IH. exact H.
Qed.

Lemma assoc_none_notin {B} a (l : list (nat * B)) : assoc a l = None <-> ~ In a (map fst l).
Proof.
  induction l as [|[k w] t IH]; simpl.
  - split; [intros _ [] | reflexivity].
  - destruct (k =? a) eqn:E.
    + apply Nat.eqb_eq in E. subst. split; [discriminate | intro H; exfalso; apply H; left; reflexivity].
    + apply Nat.eqb_neq in E. rewrite IH. split.
      * intros H [H1|H1]; [exact (E H1) | exact (H H1)].
      * intros H H1. apply H. right. exact H1.
Qed.

Lemma has_In {B} a (l : list (nat * B)) : has a l = true <-> In a (map fst l).
Proof.
  unfold has. destruct (assoc a l) eqn:E.
  - split; [|reflexivity]. intros _. apply assoc_In in E. apply in_map_iff. exists (a, b). split; [reflexivity|exact E].
  - apply assoc_none_notin in E. split; [discriminate | intro H; exfalso; exact (E H)].
Qed.

Lemma assoc_del_other {B} a b (l : list (nat * B)) : a <> b -> assoc a (assoc_del b l) = assoc a l.
Proof.
  intro N. induction l as [|[k w] t IH]; simpl; [reflexivity|].
  destruct (k =? b) eqn:E.
  - apply Nat.eqb_eq in E. subst. destruct (b =? a) eqn:E2; [apply Nat.eqb_eq in E2; congruence | exact IH].
  - simpl. destruct (k =? a); [reflexivity | exact IH].
Qed.

Lemma assoc_del_same {B} a (l : list (nat * B)) : assoc a (assoc_del a l) = None.
Proof.
  induction l as [|[k w] t IH]; simpl; [reflexivity|].
  destruct (k =? a) eqn:E; [exact IH | simpl; rewrite E; exact IH].
Qed.

Lemma filter_assoc_del {B} (f : nat * B -> bool) b (l : list (nat * B)) :
  (forall p, In p l -> fst p = b -> f p = false) ->
  filter f (assoc_del b l) = filter f l.
Proof.
  induction l as [|[k w] t IH]; simpl; intro H; [reflexivity|].
  destruct (k =? b) eqn:E.
  - apply Nat.eqb_eq in E. subst. rewrite (H (b, w) (or_introl eq_refl) eq_refl).
    apply IH. intros p Hp. apply H. right; exact Hp.
  - simpl. destruct (f (k, w)); [f_equal|]; apply IH; intros p Hp; apply H; right; exact Hp.
Qed.

Lemma assoc_del_notin {B} b (l : list (nat * B)) : assoc b l = None -> assoc_del b l = l.
Proof.
  induction l as [|[k w] t IH]; simpl; [reflexivity|].
  destruct (k =? b); [discriminate|]. intro H. f_equal. apply IH. exact H.
Qed.

Lemma In_assoc_del {B} p b (l : list (nat * B)) : In p (assoc_del b l) -> In p l.
Proof.
  induction l as [|[k w] t IH]; simpl; [tauto|].
  destruct (k =? b); [intro H; right; apply IH; exact H|].
  intros [H|H]; [left; exact H | right; apply IH; exact H].
Qed.

Lemma filter_id {A} (f : A -> bool) l : (forall x, In x l -> f x = true) -> filter f l = l.
Proof.
  induction l as [|x t IH]; simpl; intro H; [reflexivity|].
  rewrite (H x (or_introl eq_refl)). f_equal. apply IH. intros y Hy. apply H. right; exact Hy.
Qed.

Lemma filter_filter_and {A} (f g : A -> bool) l : filter f (filter g l) = filter (fun x => g x && f x) l.
Proof.
  induction l as [|x t IH]; simpl; [reflexivity|].
  destruct (g x); simpl; [destruct (f x); [f_equal|]; exact IH | exact IH].
Qed.

(* ------------------------------------------------------------------ nodup_first *)
Lemma filter_filter_comm {A} (f g : A -> bool) l : filter f (filter g l) = filter g (filter f l).
Proof.
  induction l as [|x t IH]; simpl; [reflexivity|].
  destruct (g x) eqn:G, (f x) eqn:F; simpl; rewrite ?G, ?F; rewrite IH; reflexivity.
Qed.

Lemma nodup_first_filter (f : nat -> bool) l : nodup_first (filter f l) = filter f (nodup_first l).
Proof.
  induction l as [|a t IH]; simpl; [reflexivity|].
  destruct (f a) eqn:F; simpl.
  - f_equal. rewrite IH. apply filter_filter_comm.
  - rewrite IH. rewrite filter_filter_comm.
    rewrite (filter_ext_in (fun b => negb (b =? a)) (fun _ => true)).
    + clear. induction (filter f (nodup_first t)) as [|x l IH]; simpl; [reflexivity | f_equal; exact IH].
    + intros b Hb. apply filter_In in Hb. destruct Hb as [_ Hb].
      destruct (b =? a) eqn:E; [apply Nat.eqb_eq in E; subst; congruence | reflexivity].
Qed.

Lemma In_nodup_first a l : In a (nodup_first l) <-> In a l.
Proof.
  induction l as [|b t IH]; simpl; [tauto|].
  rewrite filter_In, IH. destruct (Nat.eq_dec b a) as [E|E].
  - subst. tauto.
  - split.
    + intros [H|[H _]]; [left; exact H | right; exact H].
    + intros [H|H]; [left; exact H | right; split; [exact H|]].
      destruct (a =? b) eqn:E2; [apply Nat.eqb_eq in E2; congruence | reflexivity].
Qed.

Lemma NoDup_nodup_first l : NoDup (nodup_first l).
Proof.
  induction l as [|a t IH]; simpl; [constructor|].
  constructor.
  - rewrite filter_In. intros [_ H]. rewrite Nat.eqb_refl in H. discriminate.
  - apply NoDup_filter. exact IH.
Qed.

Lemma nodup_first_app l1 l2 :
  nodup_first (l1 ++ l2) = nodup_first l1 ++ filter (fun a => negb (memb a l1)) (nodup_first l2).
Proof.
  induction l1 as [|a t IH]; simpl.
  - induction (nodup_first l2) as [|x l IHl]; simpl; [reflexivity | f_equal; exact IHl].
  - f_equal. rewrite IH. rewrite filter_app. f_equal.
    rewrite filter_filter_comm. rewrite <- !nodup_first_filter. f_equal.
    clear. induction l2 as [|x l IH]; simpl; [reflexivity|].
    destruct (x =? a) eqn:E; simpl.
    + exact IH.
    + destruct (memb x t); simpl; [exact IH | f_equal; exact IH].
Qed.

Lemma nodup_first_id l : NoDup l -> nodup_first l = l.
Proof.
  induction 1 as [|a t H _ IH]; simpl; [reflexivity|].
  f_equal. rewrite IH.
  rewrite (filter_ext_in _ (fun _ => true)).
  - clear. induction t as [|x l IH]; simpl; [reflexivity | f_equal; exact IH].
  - intros b Hb. destruct (b =? a) eqn:E; [apply Nat.eqb_eq in E; subst; contradiction | reflexivity].
Qed.

(* ------------------------------------------------------------------ upd_attr *)
Lemma upd_attr_notin l r : ~ In (r_name r) (map r_name l) -> upd_attr l r = l ++ [r].
Proof.
  induction l as [|x t IH]; simpl; intro H; [reflexivity|].
  destruct (r_name x =? r_name r) eqn:E.
  - apply Nat.eqb_eq in E. exfalso. apply H. left. exact E.
  - f_equal. apply IH. intro H1. apply H. right. exact H1.
Qed.

Lemma fold_upd_app l : forall acc,
  NoDup (map r_name l) -> (forall r, In r l -> ~ In (r_name r) (map r_name acc)) ->
  fold_left upd_attr l acc = acc ++ l.
Proof.
  induction l as [|x t IH]; simpl; intros acc ND H; [rewrite app_nil_r; reflexivity|].
  inversion ND as [|? ? Hx NDt]; subst.
  rewrite upd_attr_notin by (apply H; left; reflexivity).
  rewrite IH; [rewrite <- app_assoc; reflexivity | exact NDt |].
  intros r Hr. rewrite map_app, in_app_iff. simpl. intros [H1|[H1|[]]].
  - exact (H r (or_intror Hr) H1).
  - apply Hx. rewrite H1. apply in_map. exact Hr.
Qed.

Lemma fold_upd_nil l : NoDup (map r_name l) -> fold_left upd_attr l [] = l.
Proof. intro ND. rewrite fold_upd_app; [reflexivity | exact ND | intros r _ []]. Qed.

Lemma find_attr_upd a l r :
  find_attr a (upd_attr l r) = if r_name r =? a then Some r else find_attr a l.
Proof.
  unfold find_attr. induction l as [|x t IH]; simpl.
  - destruct (r_name r =? a); reflexivity.
  - destruct (r_name x =? r_name r) eqn:E; simpl.
    + apply Nat.eqb_eq in E. rewrite E. destruct (r_name r =? a); reflexivity.
    + destruct (r_name x =? a) eqn:E2.
      * destruct (r_name r =? a) eqn:E3; [|reflexivity].
        apply Nat.eqb_eq in E2, E3. apply Nat.eqb_neq in E. congruence.
      * exact IH.
Qed.

Lemma names_upd l r :
  map r_name (upd_attr l r) = if memb (r_name r) (map r_name l) then map r_name l else map r_name l ++ [r_name r].
Proof.
  induction l as [|x t IH]; simpl; [reflexivity|].
  rewrite (Nat.eqb_sym (r_name r) (r_name x)).
  destruct (r_name x =? r_name r) eqn:E; simpl.
  - apply Nat.eqb_eq in E. rewrite E. reflexivity.
  - rewrite IH. fold (memb (r_name r) (map r_name t)). destruct (memb (r_name r) (map r_name t)); reflexivity.
Qed.

Section FoldUpd.
  Variable B : aid -> rattr.
  Hypothesis Bname : forall a, r_name (B a) = a.

  Lemma fold_upd_find a L : forall l0,
    find_attr a (fold_left (fun acc x => upd_attr acc (B x)) L l0)
    = if memb a L then Some (B a) else find_attr a l0.
  Proof.
    induction L as [|x t IH]; simpl; intro l0; [reflexivity|].
    rewrite IH. rewrite find_attr_upd, Bname. rewrite (Nat.eqb_sym a x).
    destruct (x =? a) eqn:E; simpl.
    - apply Nat.eqb_eq in E. subst. destruct (memb a t); reflexivity.
    - reflexivity.
  Qed.

  Lemma fold_upd_names L : forall l0,
    map r_name (fold_left (fun acc x => upd_attr acc (B x)) L l0)
    = map r_name l0 ++ filter (fun a => negb (memb a (map r_name l0))) (nodup_first L).
  Proof.
    induction L as [|x t IH]; simpl; intro l0; [rewrite app_nil_r; reflexivity|].
    rewrite IH, names_upd, Bname.
    destruct (memb x (map r_name l0)) eqn:M; simpl.
    - f_equal. rewrite filter_filter_comm. symmetry. apply filter_id.
      intros b Hb. apply filter_In in Hb. destruct Hb as [_ Hb].
      destruct (b =? x) eqn:E; [|reflexivity].
      apply Nat.eqb_eq in E. subst. rewrite M in Hb. discriminate.
    - rewrite <- app_assoc. simpl. f_equal. f_equal.
      rewrite filter_filter_comm. rewrite filter_filter_and. apply filter_ext. intro b.
      rewrite memb_app. simpl. rewrite orb_false_r. rewrite negb_orb.
      reflexivity.
  Qed.
End FoldUpd.

(* ------------------------------------------------------------------ chains *)
Fixpoint chain (l : list cdesc) : Prop :=
  match l with
  | [] => True
  | k :: t => ~ In (k_id k) (map k_id t)
              /\ k_bases k = match t with [] => [] | p :: _ => [k_id p] end
              /\ chain t
  end.

Fixpoint rchain (l : list cdesc) : list rcls :=
  match l with
  | [] => []
  | k :: t => resolve_one cur k (match t with [] => [] | _ => [rchain t] end) :: rchain t
  end.

Lemma rchain_ids l : map rc_id (rchain l) = map k_id l.
Proof. induction l as [|k t IH]; simpl; [reflexivity | f_equal; exact IH]. Qed.

Lemma chain_NoDup l : chain l -> NoDup (map k_id l).
Proof.
  induction l as [|k t IH]; simpl; intro H; [constructor|].
  destruct H as [H1 [_ H3]]. constructor; [exact H1 | apply IH; exact H3].
Qed.

Lemma find_cls_head r l : find_cls (rc_id r) (r :: l) = Some r.
Proof. unfold find_cls. simpl. rewrite Nat.eqb_refl. reflexivity. Qed.

Lemma find_cls_notin c l : ~ In c (map rc_id l) -> find_cls c l = None.
Proof.
  unfold find_cls. induction l as [|r t IH]; simpl; intro H; [reflexivity|].
  destruct (rc_id r =? c) eqn:E; [apply Nat.eqb_eq in E; exfalso; apply H; left; exact E|].
  apply IH. intro H1. apply H. right. exact H1.
Qed.

Lemma rcls_along_cons_notin r l m :
  ~ In (rc_id r) m -> rcls_along (r :: l) m = rcls_along l m.
Proof.
  unfold rcls_along. induction m as [|c t IH]; simpl; intro H; [reflexivity|].
  unfold find_cls at 1. simpl.
  destruct (rc_id r =? c) eqn:E; [apply Nat.eqb_eq in E; exfalso; apply H; left; symmetry; exact E|].
  fold (find_cls c l). f_equal. apply IH. intro H1. apply H. right. exact H1.
Qed.

Lemma rcls_along_cons l c m :
  rcls_along l (c :: m) = match find_cls c l with Some r => [r] | None => [] end ++ rcls_along l m.
Proof. reflexivity. Qed.

Lemma rcls_along_self l : NoDup (map rc_id l) -> rcls_along l (map rc_id l) = l.
Proof.
  induction l as [|r t IH]; intro ND; [reflexivity|].
  simpl map in *. inversion ND as [|? ? H1 H2]; subst.
  rewrite rcls_along_cons, find_cls_head. simpl app. f_equal.
  rewrite rcls_along_cons_notin by exact H1.
  apply IH. exact H2.
Qed.

Definition inh (anc : list rcls) : list rattr :=
  match nearest_meta anc with Some pm => m_attrs pm | None => [] end.

Definition ovf_new_of (d : deco) : list aid := match d_ovf d with Some (Some o) => [o] | _ => [] end.
Definition key_new_of (d : deco) : list aid := match d_key d with Some (Some x) => [x] | _ => [] end.
Definition managed_of (k : cdesc) (d : deco) : list aid := map fst (k_annots k) ++ ovf_new_of d.

Definition step1 (k : cdesc) (d : deco) (anc : list rcls) (r : rattr) : rattr :=
  if memb (r_name r) (key_new_of d ++ managed_of k d) then r
  else
    let dn := dnc_for d (r_name r) in
    if has (r_name r) (k_dict k) then build_attr_spec cur k anc (r_name r) (r_ty r) dn (Some r)
    else if negb (Bool.eqb dn (r_dnc r))
         then mkrattr (r_name r) (r_ty r) (r_dflt r) (r_init r) (r_owner r) dn (r_prep r)
         else r.

Definition newB (k : cdesc) (d : deco) (anc : list rcls) (a : aid) : rattr :=
  build_attr_spec cur k anc a (if memb a (ovf_new_of d) then TDictAny else nearest_annot k anc a)
                  (dnc_for d a) None.

Definition keyB (k : cdesc) (anc : list rcls) (x : aid) : rattr :=
  build_attr_spec cur k anc x (nearest_annot k anc x) false None.

Definition attrs2_of k d anc : list rattr :=
  fold_left (fun acc a => upd_attr acc (newB k d anc a)) (managed_of k d) (map (step1 k d anc) (inh anc)).

Definition attrs3_of k d anc : list rattr :=
  match d_key d with
  | Some (Some x) => if opt_is (find_attr x (attrs2_of k d anc)) then attrs2_of k d anc
                     else attrs2_of k d anc ++ [keyB k anc x]
  | _ => attrs2_of k d anc
  end.

Definition boot (k : cdesc) (d : deco) (anc : list rcls) : rmeta :=
  mkrmeta (k_id k)
          (match d_key d with Some x => x
                            | None => match nearest_meta anc with Some m => m_key m | None => None end end)
          (match d_ovf d with Some x => x
                            | None => match nearest_meta anc with Some m => m_ovf m | None => None end end)
          (attrs3_of k d anc) (nearest_post k anc).

Lemma bootstrap_boot k d anc :
  NoDup (map r_name (inh anc)) ->
  bootstrap cur k d anc (match anc with [] => [] | _ => [anc] end) = boot k d anc.
Proof.
  intro ND. unfold bootstrap, boot, attrs3_of, attrs2_of, managed_of, step1, newB, keyB, ovf_new_of, key_new_of.
  assert (E : match nearest_meta anc with
              | Some _ => fold_left (fun acc ba => match nearest_meta ba with
                                                  | Some pm => fold_left upd_attr (m_attrs pm) acc
                                                  | None => acc end)
                                    (rev (match anc with [] => [] | _ => [anc] end)) []
              | None => [] end = inh anc).
  { unfold inh in *. destruct anc as [|r t]; [reflexivity|].
    simpl rev. simpl fold_left at 1.
    destruct (nearest_meta (r :: t)) as [pm|] eqn:N; [|reflexivity].
    apply fold_upd_nil. exact ND. }
  rewrite E. reflexivity.
Qed.

Definition rone (k : cdesc) (anc : list rcls) : rcls :=
  mkrcls (k_id k) (k_id k :: map rc_id anc)
         (map (fun p => (fst p, raw_centry (snd p))) (k_dict k))
         (k_annots k) (k_preps k) (k_post k)
         (match k_deco k with Some d => Some (boot k d anc) | None => None end)
         (match k_hinit k with
          | Some h => Some (IHand h)
          | None => match k_deco k with Some _ => Some IGen | None => None end
          end).

Lemma resolve_one_chain k t :
  chain (k :: t) -> NoDup (map r_name (inh (rchain t))) ->
  resolve_one cur k (match t with [] => [] | _ => [rchain t] end) = rone k (rchain t).
Proof.
  intros C ND. unfold resolve_one, rone.
  destruct t as [|p t'].
  - simpl. destruct (k_deco k) as [d|]; [|reflexivity].
    rewrite (bootstrap_boot k d []) by exact ND. reflexivity.
  - set (A := rchain (p :: t')).
    assert (NDA : NoDup (map rc_id A)).
    { unfold A. rewrite rchain_ids. apply chain_NoDup. destruct C as [_ [_ C]]. exact C. }
    assert (EA : A <> []) by (unfold A; simpl; discriminate).
    change (mro_of (k_id k) (map (map rc_id) [A]) (k_bases k)) with (k_id k :: map rc_id A).
    simpl tl. simpl concat. rewrite app_nil_r. rewrite rcls_along_self by exact NDA.
    destruct (k_deco k) as [d|]; [|reflexivity].
    assert (EB : [A] = match A with [] => [] | _ => [A] end) by (destruct A; [congruence | reflexivity]).
    rewrite EB. rewrite bootstrap_boot by exact ND. reflexivity.
Qed.

(* ------------------------------------------------------------------ specification along a chain *)
Lemma meta_anc_spec_head k t : is_spec k = true -> meta_anc (k :: t) = k :: t.
Proof. intro H. simpl. rewrite H. reflexivity. Qed.

Lemma meta_anc_plain_head k t : is_spec k = false -> meta_anc (k :: t) = meta_anc t.
Proof. intro H. simpl. rewrite H. reflexivity. Qed.

Lemma meta_anc_idem l : meta_anc (meta_anc l) = meta_anc l.
Proof.
  induction l as [|k t IH]; [reflexivity|]. simpl. destruct (is_spec k) eqn:E; [|exact IH].
  simpl. rewrite E. reflexivity.
Qed.

Lemma decl_names_plain k : is_spec k = false -> decl_names k = [].
Proof. intro H. unfold decl_names. rewrite H. reflexivity. Qed.

Lemma flat_decl_rev_meta l :
  flat_map decl_names (rev l) = flat_map decl_names (rev (meta_anc l)).
Proof.
  induction l as [|k t IH]; [reflexivity|]. simpl meta_anc. destruct (is_spec k) eqn:E; [reflexivity|].
  simpl rev. rewrite flat_map_app. simpl. rewrite decl_names_plain by exact E.
  rewrite !app_nil_r. exact IH.
Qed.

Lemma managed_meta l : managed (meta_anc l) = managed l.
Proof. unfold managed, managed_l. rewrite meta_anc_idem. reflexivity. Qed.

Lemma managed_cons k t :
  is_spec k = true ->
  managed (k :: t) = managed t ++ filter (fun a => negb (memb a (managed t))) (nodup_first (decl_names k)).
Proof.
  intro H. unfold managed, managed_l. rewrite meta_anc_spec_head by exact H.
  simpl rev. rewrite flat_map_app. simpl flat_map at 2. rewrite app_nil_r.
  rewrite nodup_first_app. rewrite <- flat_decl_rev_meta.
  f_equal. apply filter_ext. intro a. f_equal.
  (* membership in a list and in its nodup_first coincide *)
  destruct (memb a (flat_map decl_names (rev t))) eqn:E1.
  - symmetry. apply memb_In. apply In_nodup_first. apply memb_In. exact E1.
  - symmetry. apply memb_false. rewrite In_nodup_first. apply memb_false. exact E1.
Qed.

Lemma managed_plain k t : is_spec k = false -> managed (k :: t) = managed t.
Proof. intro H. unfold managed, managed_l. rewrite meta_anc_plain_head by exact H. reflexivity. Qed.

Lemma declares_at_plain k t a : is_spec k = false -> declares_at k t a = false.
Proof. intro H. unfold declares_at. rewrite H. reflexivity. Qed.

Lemma mentions_at_plain k t a : is_spec k = false -> mentions_at k t a = false.
Proof. intro H. unfold mentions_at. rewrite H. reflexivity. Qed.

Lemma owner_in_meta a l : owner_in (meta_anc l) a = owner_in l a.
Proof.
  induction l as [|k t IH]; [reflexivity|]. simpl meta_anc. destruct (is_spec k) eqn:E; [reflexivity|].
  simpl. rewrite declares_at_plain by exact E. exact IH.
Qed.

Lemma owner_cls_cons k t a :
  owner_cls (k :: t) a = if declares_at k t a then Some k else owner_cls t a.
Proof.
  unfold owner_cls, ms. rewrite !owner_in_meta. reflexivity.
Qed.

Lemma owner_cons k t a :
  owner (k :: t) a = if declares_at k t a then Some (k_id k) else owner t a.
Proof. unfold owner. rewrite owner_cls_cons. destruct (declares_at k t a); reflexivity. Qed.

Lemma init_of_cons k t a :
  init_of (k :: t) a = if declares_at k t a
                       then match assoc a (k_dict k) with Some (EAttr _ i _) => i | _ => true end
                       else init_of t a.
Proof. unfold init_of. rewrite owner_cls_cons. destruct (declares_at k t a); reflexivity. Qed.

Definition plain_ok (k : cdesc) : Prop := k_deco k = None -> k_annots k = [].

Fixpoint plains_ok (l : list cdesc) : Prop :=
  match l with [] => True | k :: t => plain_ok k /\ plains_ok t end.

Definition ty_step (a : aid) (k : cdesc) : option ty :=
  match assoc a (k_annots k) with
  | Some t => Some t
  | None => match stated_ovf k with
            | Some (Some o) => if o =? a then Some TDictAny else None
            | _ => None end
  end.

Lemma ty_step_plain a k : plain_ok k -> is_spec k = false -> ty_step a k = None.
Proof.
  unfold plain_ok, is_spec, ty_step, stated_ovf. intros P H.
  destruct (k_deco k); [discriminate|]. rewrite P by reflexivity. reflexivity.
Qed.

Lemma first_ty_meta a l : plains_ok l ->
  first_some (ty_step a) (meta_anc l) = first_some (ty_step a) l.
Proof.
  induction l as [|k t IH]; [reflexivity|]. intros [P Pt]. simpl meta_anc.
  destruct (is_spec k) eqn:E; [reflexivity|].
  simpl. rewrite ty_step_plain by assumption. apply IH. exact Pt.
Qed.

Lemma ty_of_cons k t a : plains_ok (k :: t) ->
  ty_of (k :: t) a = match ty_step a k with Some x => x | None => ty_of t a end.
Proof.
  intro P. unfold ty_of, ms. fold (ty_step a).
  rewrite (first_ty_meta a (k :: t)) by exact P.
  rewrite (first_ty_meta a t) by (destruct P; assumption).
  simpl. destruct (ty_step a k); reflexivity.
Qed.

(* restriction of a chain to the ancestors of its head is the chain itself *)
Lemma restrict_chain l : forall want,
  chain l -> (match l with [] => True | k :: _ => In (k_id k) want end) -> restrict want l = l.
Proof.
  induction l as [|k t IH]; intros want C H; [reflexivity|].
  simpl. apply memb_In in H. rewrite H. f_equal.
  destruct C as [_ [B C]]. apply IH; [exact C|].
  destruct t as [|p t']; [exact I|]. rewrite B. left. reflexivity.
Qed.

Lemma built_from_meta a l : built_from a (meta_anc l) = built_from a l.
Proof.
  induction l as [|k t IH]; [reflexivity|]. simpl meta_anc.
  destruct (is_spec k) eqn:E; [reflexivity|]. simpl. rewrite mentions_at_plain by exact E. exact IH.
Qed.

Lemma built_from_cons_chain a k t : chain (k :: t) ->
  built_from a (k :: t) = if mentions_at k t a then k :: t else built_from a t.
Proof.
  intro C. cbn [built_from]. destruct (mentions_at k t a); [|reflexivity].
  apply (restrict_chain (k :: t) [k_id k] C). left. reflexivity.
Qed.

Lemma prep_of_cons k t a : chain (k :: t) ->
  prep_of (k :: t) a
  = if mentions_at k t a
    then first_some (fun c => assoc a (k_preps c)) (k :: t)
    else prep_of t a.
Proof.
  intro C. unfold prep_of, ms. rewrite !built_from_meta.
  rewrite built_from_cons_chain by exact C. destruct (mentions_at k t a); reflexivity.
Qed.

(* the line of spec classes settings are inherited through: on a chain, all spec classes *)
Lemma lineage_chain l : forall want,
  chain l -> (match l with [] => True | k :: _ => In (k_id k) want end) ->
  lineage want l = filter is_spec l.
Proof.
  induction l as [|k t IH]; intros want C H; [reflexivity|].
  simpl. apply memb_In in H. rewrite H.
  destruct C as [_ [B C]].
  assert (N : forall w, In (match t with [] => 0 | p :: _ => k_id p end) w ->
                        match t with [] => True | p :: _ => In (k_id p) w end)
    by (intros w Hw; destruct t; [exact I | exact Hw]).
  destruct (is_spec k).
  - f_equal. apply IH; [exact C|]. destruct t as [|p t']; [exact I|]. rewrite B. left; reflexivity.
  - apply IH; [exact C|]. destruct t as [|p t']; [exact I|]. rewrite B. left; reflexivity.
Qed.

Lemma first_stated_filter {B} (f : cdesc -> option B) l :
  (forall k, is_spec k = false -> f k = None) ->
  first_some f (filter is_spec l) = first_some f l.
Proof.
  intro F. induction l as [|k t IH]; [reflexivity|]. simpl.
  destruct (is_spec k) eqn:E; simpl; [rewrite IH; reflexivity|].
  rewrite F by exact E. exact IH.
Qed.

Lemma stated_key_plain k : is_spec k = false -> stated_key k = None.
Proof. unfold is_spec, stated_key. destruct (k_deco k); [discriminate | reflexivity]. Qed.
Lemma stated_ovf_plain k : is_spec k = false -> stated_ovf k = None.
Proof. unfold is_spec, stated_ovf. destruct (k_deco k); [discriminate | reflexivity]. Qed.

Lemma chain_tail k t : chain (k :: t) -> chain t.
Proof. intros [_ [_ C]]. exact C. Qed.

Lemma chain_meta_anc l : chain l -> chain (meta_anc l).
Proof.
  induction l as [|k t IH]; intro C; [exact I|]. simpl meta_anc.
  destruct (is_spec k); [exact C | apply IH; exact (chain_tail _ _ C)].
Qed.

Lemma settings_line_chain l : chain l -> settings_line l = filter is_spec (meta_anc l).
Proof.
  intro C. unfold settings_line, ms. pose proof (chain_meta_anc l C) as CM.
  destruct (meta_anc l) as [|m r] eqn:E; [reflexivity|].
  apply lineage_chain; [exact CM | left; reflexivity].
Qed.

Lemma first_meta {B} (f : cdesc -> option B) l :
  (forall k, is_spec k = false -> f k = None) ->
  first_some f (meta_anc l) = first_some f l.
Proof.
  intro F. induction l as [|k t IH]; [reflexivity|]. simpl meta_anc.
  destruct (is_spec k) eqn:E; [reflexivity|]. simpl. rewrite F by exact E. exact IH.
Qed.

Lemma key_of_chain l : chain l ->
  key_of l = match first_some stated_key l with Some x => x | None => None end.
Proof.
  intro C. unfold key_of. rewrite settings_line_chain by exact C.
  rewrite first_stated_filter by exact stated_key_plain.
  rewrite first_meta by exact stated_key_plain. reflexivity.
Qed.

Lemma ovf_of_chain l : chain l ->
  ovf_of l = match first_some stated_ovf l with Some x => x | None => None end.
Proof.
  intro C. unfold ovf_of. rewrite settings_line_chain by exact C.
  rewrite first_stated_filter by exact stated_ovf_plain.
  rewrite first_meta by exact stated_ovf_plain. reflexivity.
Qed.

(* ------------------------------------------------------------------ the resolved chain *)
Fixpoint rch (l : list cdesc) : list rcls :=
  match l with
  | [] => []
  | k :: t => rone k (rch t) :: rch t
  end.

Lemma rch_ids l : map rc_id (rch l) = map k_id l.
Proof. induction l as [|k t IH]; simpl; [reflexivity | f_equal; exact IH]. Qed.

Lemma assoc_map_snd {B C} (f : B -> C) a (l : list (nat * B)) :
  assoc a (map (fun p => (fst p, f (snd p))) l) = option_map f (assoc a l).
Proof.
  induction l as [|[k v] t IH]; simpl; [reflexivity|]. destruct (k =? a); [reflexivity | exact IH].
Qed.

Lemma first_preps_rch a t :
  first_some (fun r => assoc a (rc_preps r)) (rch t) = first_some (fun c => assoc a (k_preps c)) t.
Proof. induction t as [|k t IH]; simpl; [reflexivity|]. destruct (assoc a (k_preps k)); [reflexivity | exact IH]. Qed.

Lemma find_prep_rch k t a :
  find_prep k (rch t) a = first_some (fun c => assoc a (k_preps c)) (k :: t).
Proof. unfold find_prep. simpl. rewrite first_preps_rch. destruct (assoc a (k_preps k)); reflexivity. Qed.

Lemma first_annots_rch a t :
  first_some (fun r => assoc a (rc_annots r)) (rch t) = first_some (fun c => assoc a (k_annots c)) t.
Proof. induction t as [|k t IH]; simpl; [reflexivity|]. destruct (assoc a (k_annots k)); [reflexivity | exact IH]. Qed.

Lemma anc_getattr_rch a t :
  anc_getattr (rch t) a = first_some (fun c => option_map raw_centry (assoc a (k_dict c))) t.
Proof.
  unfold anc_getattr. induction t as [|k t IH]; simpl; [reflexivity|].
  rewrite assoc_map_snd. destruct (assoc a (k_dict k)); simpl; [reflexivity | exact IH].
Qed.

Definition dflt_val (d : dflt) : option aval :=
  match d with DNone => None | DVal v => Some v | DFac v => Some v end.

Lemma default_value_eq r : default_value r = dflt_val (r_dflt r).
Proof. reflexivity. Qed.

(* getattr through the ancestors = the nearest body default, for an owner outside them *)
Lemma getattr_default o a t :
  ~ In o (map k_id t) ->
  dflt_val (centry_dflt (anc_getattr (rch t) a))
  = match first_some (body_default (Some o) a) t with Some r => r | None => None end.
Proof.
  intro N. rewrite anc_getattr_rch. induction t as [|k t IH]; simpl; [reflexivity|].
  unfold body_default at 1.
  assert (Ek : opt_eqb (Some o) (k_id k) = false).
  { simpl. apply Nat.eqb_neq. intro E. apply N. left. symmetry. exact E. }
  destruct (assoc a (k_dict k)) as [[v|[|v|v] i f]|]; simpl; try reflexivity.
  - simpl in Ek. rewrite Ek. reflexivity.
  - apply IH. intro H. apply N. right. exact H.
Qed.

Lemma nearest_meta_rch_plain k t :
  k_deco k = None -> nearest_meta (rch (k :: t)) = nearest_meta (rch t).
Proof. intro H. unfold nearest_meta. simpl. rewrite H. reflexivity. Qed.

Lemma nearest_meta_rch_spec k d t :
  k_deco k = Some d -> nearest_meta (rch (k :: t)) = Some (boot k d (rch t)).
Proof. intro H. unfold nearest_meta. simpl. rewrite H. reflexivity. Qed.

Lemma find_attr_Some a l r : find_attr a l = Some r -> In r l /\ r_name r = a.
Proof.
  unfold find_attr. intro H. apply find_some in H. destruct H as [H1 H2].
  apply Nat.eqb_eq in H2. split; assumption.
Qed.

Lemma find_attr_None a l : find_attr a l = None <-> ~ In a (map r_name l).
Proof.
  unfold find_attr. induction l as [|x t IH]; simpl.
  - split; [intros _ [] | reflexivity].
  - destruct (r_name x =? a) eqn:E.
    + apply Nat.eqb_eq in E. split; [discriminate | intro H; exfalso; apply H; left; exact E].
    + apply Nat.eqb_neq in E. rewrite IH. split.
      * intros H [H1|H1]; [exact (E H1) | exact (H H1)].
      * intros H H1. apply H. right. exact H1.
Qed.

Lemma In_find_attr l r : NoDup (map r_name l) -> In r l -> find_attr (r_name r) l = Some r.
Proof.
  unfold find_attr. induction l as [|x t IH]; simpl; intros ND H; [contradiction|].
  inversion ND as [|? ? Hx NDt]; subst.
  destruct H as [H|H].
  - subst. rewrite Nat.eqb_refl. reflexivity.
  - destruct (r_name x =? r_name r) eqn:E.
    + apply Nat.eqb_eq in E. exfalso. apply Hx. rewrite E. apply in_map. exact H.
    + apply IH; assumption.
Qed.

Lemma build_name q k anc a t dn i : r_name (build_attr_spec q k anc a t dn i) = a.
Proof.
  unfold build_attr_spec. destruct (assoc a (k_dict k)) as [[v|dd ii ff]|]; try reflexivity; destruct i; reflexivity.
Qed.

Lemma step1_name k d anc r : r_name (step1 k d anc r) = r_name r.
Proof.
  unfold step1. destruct (memb (r_name r) _); [reflexivity|].
  destruct (has (r_name r) (k_dict k)); [apply build_name|].
  destruct (negb _); reflexivity.
Qed.

Lemma newB_name k d anc a : r_name (newB k d anc a) = a.
Proof. apply build_name. Qed.

Lemma names_step1 k d anc l : map r_name (map (step1 k d anc) l) = map r_name l.
Proof. rewrite map_map. apply map_ext. intro r. apply step1_name. Qed.

Lemma attrs2_names k d anc :
  map r_name (attrs2_of k d anc)
  = map r_name (inh anc) ++ filter (fun a => negb (memb a (map r_name (inh anc)))) (nodup_first (managed_of k d)).
Proof.
  unfold attrs2_of. rewrite (fold_upd_names (newB k d anc) (newB_name k d anc)).
  rewrite names_step1. reflexivity.
Qed.

Lemma attrs2_find k d anc a :
  find_attr a (attrs2_of k d anc)
  = if memb a (managed_of k d) then Some (newB k d anc a)
    else find_attr a (map (step1 k d anc) (inh anc)).
Proof. unfold attrs2_of. apply (fold_upd_find (newB k d anc) (newB_name k d anc)). Qed.

Lemma NoDup_app_disj (l1 l2 : list nat) :
  NoDup l1 -> NoDup l2 -> (forall a, In a l1 -> ~ In a l2) -> NoDup (l1 ++ l2).
Proof.
  induction l1 as [|x t IH]; simpl; intros N1 N2 D; [exact N2|].
  inversion N1 as [|? ? Hx N1']; subst. constructor.
  - rewrite in_app_iff. intros [H|H]; [exact (Hx H) | exact (D x (or_introl eq_refl) H)].
  - apply IH; [exact N1' | exact N2 |]. intros a Ha. apply D. right. exact Ha.
Qed.

Lemma attrs2_NoDup k d anc : NoDup (map r_name (inh anc)) -> NoDup (map r_name (attrs2_of k d anc)).
Proof.
  intro ND. rewrite attrs2_names. apply NoDup_app_disj; [exact ND | |].
  - apply NoDup_filter. apply NoDup_nodup_first.
  - intros a Ha Hf. apply filter_In in Hf. destruct Hf as [_ Hf].
    apply memb_In in Ha. rewrite Ha in Hf. discriminate.
Qed.

Lemma attrs3_NoDup k d anc : NoDup (map r_name (inh anc)) -> NoDup (map r_name (attrs3_of k d anc)).
Proof.
  intro ND. pose proof (attrs2_NoDup k d anc ND) as N2. unfold attrs3_of.
  destruct (d_key d) as [[x|]|]; try exact N2.
  destruct (find_attr x (attrs2_of k d anc)) eqn:F; simpl; [exact N2|].
  rewrite map_app. simpl. apply NoDup_app_disj; [exact N2 | constructor; [intros []|constructor] |].
  intros a Ha [Hx|[]]. subst a. unfold keyB in Ha. rewrite build_name in Ha.
  apply find_attr_None in F. exact (F Ha).
Qed.

(* where an attribute of the bootstrapped class comes from *)
Lemma attrs3_cases k d anc r :
  NoDup (map r_name (inh anc)) -> In r (attrs3_of k d anc) ->
  (In (r_name r) (managed_of k d) /\ r = newB k d anc (r_name r))
  \/ (~ In (r_name r) (managed_of k d) /\ d_key d = Some (Some (r_name r))
      /\ ~ In (r_name r) (map r_name (inh anc)) /\ r = keyB k anc (r_name r))
  \/ (~ In (r_name r) (managed_of k d) /\ exists r0, In r0 (inh anc) /\ r = step1 k d anc r0).
Proof.
  intros ND H.
  assert (C2 : In r (attrs2_of k d anc) ->
               (In (r_name r) (managed_of k d) /\ r = newB k d anc (r_name r))
               \/ (~ In (r_name r) (managed_of k d) /\ exists r0, In r0 (inh anc) /\ r = step1 k d anc r0)).
  { intro H2. pose proof (In_find_attr _ _ (attrs2_NoDup k d anc ND) H2) as F.
    rewrite attrs2_find in F. destruct (memb (r_name r) (managed_of k d)) eqn:M.
    - left. split; [apply memb_In; exact M | injection F as F; symmetry; exact F].
    - right. split; [apply memb_false; exact M|].
      apply find_attr_Some in F. destruct F as [F _]. apply in_map_iff in F.
      destruct F as [r0 [E1 E2]]. exists r0. split; [exact E2 | symmetry; exact E1]. }
  unfold attrs3_of in H. destruct (d_key d) as [[x|]|] eqn:DK.
  - destruct (find_attr x (attrs2_of k d anc)) eqn:F; simpl in H.
    + destruct (C2 H) as [A|C]; [left; exact A | right; right; exact C].
    + apply in_app_iff in H. destruct H as [H|[H|[]]].
      * destruct (C2 H) as [A|C]; [left; exact A | right; right; exact C].
      * right. left. subst r. unfold keyB. rewrite build_name.
        apply find_attr_None in F. rewrite attrs2_names in F.
        assert (NI : ~ In x (map r_name (inh anc))) by (intro Hx; apply F; apply in_app_iff; left; exact Hx).
        repeat split; try assumption; try reflexivity.
        intro Hm. apply F. apply in_app_iff. right. apply filter_In. split.
        -- apply In_nodup_first. exact Hm.
        -- apply memb_false in NI. rewrite NI. reflexivity.
  - destruct (C2 H) as [A|C]; [left; exact A | right; right; exact C].
  - destruct (C2 H) as [A|C]; [left; exact A | right; right; exact C].
Qed.

(* ------------------------------------------------------------------ grammar side conditions *)
Definition wf_cls (k : cdesc) (t : list cdesc) : Prop :=
  plain_ok k /\
  forall d, k_deco k = Some d ->
    (forall o, d_ovf d = Some (Some o) -> ~ In o (map fst (k_annots k))) /\
    (* a key re-stated for an inherited attribute the class does not annotate: the class body
       says nothing else about it (bootstrap skips the attribute altogether) *)
    (forall x, d_key d = Some (Some x) ->
               In x (map fst (k_annots k)) \/ ~ In x (managed t) \/ assoc x (k_dict k) = None).

Fixpoint wfc (l : list cdesc) : Prop :=
  match l with [] => True | k :: t => wf_cls k t /\ wfc t end.

Lemma wfc_plains l : wfc l -> plains_ok l.
Proof. induction l as [|k t IH]; simpl; [tauto|]. intros [[P _] W]. split; [exact P | apply IH; exact W]. Qed.

Lemma is_spec_deco k d : k_deco k = Some d -> is_spec k = true.
Proof. unfold is_spec. intro H. rewrite H. reflexivity. Qed.
Lemma is_spec_none k : k_deco k = None -> is_spec k = false.
Proof. unfold is_spec. intro H. rewrite H. reflexivity. Qed.

Lemma decl_names_deco k d : k_deco k = Some d ->
  decl_names k = managed_of k d ++ key_new_of d.
Proof.
  intro H. unfold decl_names, managed_of, key_new_of, ovf_new_of, stated_ovf, stated_key.
  rewrite (is_spec_deco k d H), H. rewrite app_assoc. reflexivity.
Qed.

Lemma decl_in_managed l : forall c x, In c l -> In x (decl_names c) -> In x (managed l).
Proof.
  induction l as [|k t IH]; intros c x Hc Hx; [contradiction|].
  destruct (is_spec k) eqn:E.
  - rewrite managed_cons by exact E. apply in_app_iff.
    destruct (memb x (managed t)) eqn:M; [left; apply memb_In; exact M|].
    destruct Hc as [Hc|Hc].
    + subst c. right. apply filter_In. split; [apply In_nodup_first; exact Hx | rewrite M; reflexivity].
    + left. apply (IH c x Hc Hx).
  - rewrite managed_plain by exact E. destruct Hc as [Hc|Hc].
    + subst c. rewrite decl_names_plain in Hx by exact E. contradiction.
    + apply (IH c x Hc Hx).
Qed.

Lemma notin_managed_ty l x : plains_ok l -> ~ In x (managed l) ->
  forall c, In c l -> ty_step x c = None /\ assoc x (k_annots c) = None.
Proof.
  intros P N c Hc.
  assert (PC : plain_ok c).
  { clear N. induction l as [|k t IH]; [contradiction|]. destruct P as [Pk Pt].
    destruct Hc as [Hc|Hc]; [subst; exact Pk | apply IH; assumption]. }
  destruct (is_spec c) eqn:E.
  - assert (ND : ~ In x (decl_names c)) by (intro H; apply N; apply (decl_in_managed l c x Hc H)).
    unfold decl_names in ND. rewrite E in ND. rewrite !in_app_iff in ND.
    assert (A : assoc x (k_annots c) = None).
    { apply assoc_none_notin. intro H. apply ND. left. exact H. }
    split; [|exact A]. unfold ty_step. rewrite A.
    destruct (stated_ovf c) as [[o|]|]; try reflexivity.
    destruct (o =? x) eqn:E2; [|reflexivity]. apply Nat.eqb_eq in E2. subst.
    exfalso. apply ND. right. left. left. reflexivity.
  - split; [apply ty_step_plain; assumption|].
    unfold plain_ok, is_spec in *. destruct (k_deco c); [discriminate|]. rewrite PC by reflexivity. reflexivity.
Qed.

(* ------------------------------------------------------------------ the invariant *)
Definition mattrs (om : option rmeta) : list rattr := match om with Some m => m_attrs m | None => [] end.
Definition mkey (om : option rmeta) : option aid := match om with Some m => m_key m | None => None end.
Definition movf (om : option rmeta) : option aid := match om with Some m => m_ovf m | None => None end.

Definition attr_ok (l : list cdesc) (r : rattr) : Prop :=
  r_ty r = ty_of l (r_name r)
  /\ r_init r = init_of l (r_name r)
  /\ owner l (r_name r) = Some (r_owner r)
  /\ r_prep r = prep_of l (r_name r)
  /\ lookup_default_in r (rch l) = nearest_default (Some (r_owner r)) (r_name r) l
  /\ default_value r
     = nearest_default (Some (r_owner r)) (r_name r) (built_from (r_name r) l)
  /\ In (r_owner r) (map k_id (filter is_spec l)).

Definition InvO (l : list cdesc) : Prop :=
  mkey (nearest_meta (rch l)) = key_of l
  /\ movf (nearest_meta (rch l)) = ovf_of l
  /\ map r_name (mattrs (nearest_meta (rch l))) = managed l
  /\ forall r, In r (mattrs (nearest_meta (rch l))) -> attr_ok l r.

Lemma inh_mattrs anc : inh anc = mattrs (nearest_meta anc).
Proof. reflexivity. Qed.

Definition cval (c : centry) : option aval := match c with CVal v => Some v | CMissing => None end.

Lemma body_default_raw o a k : o <> k_id k ->
  body_default (Some o) a k = option_map cval (option_map raw_centry (assoc a (k_dict k))).
Proof.
  intro N. unfold body_default. simpl.
  destruct (assoc a (k_dict k)) as [[v|[|v|v] i f]|]; simpl; try reflexivity.
  destruct (o =? k_id k) eqn:E; [apply Nat.eqb_eq in E; contradiction | reflexivity].
Qed.

Lemma lookup_default_in_cons r k anc l :
  lookup_default_in r (rone k anc :: l)
  = if k_id k =? r_owner r then default_value r
    else match option_map raw_centry (assoc (r_name r) (k_dict k)) with
         | Some c => cval c
         | None => lookup_default_in r l
         end.
Proof.
  simpl. destruct (k_id k =? r_owner r); [reflexivity|].
  rewrite assoc_map_snd. destruct (assoc (r_name r) (k_dict k)) as [e|]; simpl; [|reflexivity].
  destruct (raw_centry e); reflexivity.
Qed.

Lemma nearest_default_cons_other o a k t : o <> k_id k ->
  nearest_default (Some o) a (k :: t)
  = match body_default (Some o) a k with Some r => r | None => nearest_default (Some o) a t end.
Proof.
  intro N. simpl. destruct (o =? k_id k) eqn:E; [apply Nat.eqb_eq in E; contradiction | reflexivity].
Qed.

Lemma lookup_default_in_ext r r0 l :
  r_name r = r_name r0 -> r_owner r = r_owner r0 -> r_dflt r = r_dflt r0 ->
  lookup_default_in r l = lookup_default_in r0 l.
Proof.
  intros E1 E2 E3. induction l as [|c t IH]; simpl; [reflexivity|].
  rewrite E1, E2. unfold default_value. rewrite E3. rewrite IH. reflexivity.
Qed.

Lemma owner_in_ids l o : In o (map k_id (filter is_spec l)) -> In o (map k_id l).
Proof.
  intro H. apply in_map_iff in H. destruct H as [c [E H]]. apply filter_In in H.
  apply in_map_iff. exists c. split; [exact E | apply H].
Qed.

Lemma attr_ok_plain k t r :
  chain (k :: t) -> wfc (k :: t) -> k_deco k = None -> attr_ok t r -> attr_ok (k :: t) r.
Proof.
  intros C W D [T [N [O [P [I1 [I2 E]]]]]].
  pose proof (is_spec_none k D) as S.
  assert (NE : r_owner r <> k_id k).
  { intro H. destruct C as [C _]. apply C. rewrite <- H. apply owner_in_ids. exact E. }
  unfold attr_ok. repeat split.
  - rewrite ty_of_cons by (apply wfc_plains; exact W).
    rewrite ty_step_plain; [exact T | destruct W as [[Pk _] _]; exact Pk | exact S].
  - rewrite init_of_cons, declares_at_plain by exact S. exact N.
  - rewrite owner_cons, declares_at_plain by exact S. exact O.
  - rewrite prep_of_cons by exact C. rewrite mentions_at_plain by exact S. exact P.
  - simpl rch. rewrite lookup_default_in_cons.
    destruct (k_id k =? r_owner r) eqn:E2; [apply Nat.eqb_eq in E2; congruence|].
    rewrite nearest_default_cons_other by exact NE. rewrite body_default_raw by exact NE.
    destruct (option_map raw_centry (assoc (r_name r) (k_dict k))); simpl; [reflexivity | exact I1].
  - rewrite built_from_cons_chain by exact C. rewrite mentions_at_plain by exact S. exact I2.
  - simpl. rewrite S. exact E.
Qed.

Lemma nearest_default_cons_owner a k t :
  nearest_default (Some (k_id k)) a (k :: t)
  = match first_some (body_default (Some (k_id k)) a) (restrict [k_id k] (k :: t)) with
    | Some r => r | None => None end.
Proof. cbn [nearest_default opt_eqb]. rewrite Nat.eqb_refl. reflexivity. Qed.

Definition entry_dflt (k : cdesc) (t : list cdesc) (a : aid) : dflt :=
  match assoc a (k_dict k) with
  | Some (EAttr dd _ _) => dd
  | Some (ELit v) => DVal v
  | None => centry_dflt (anc_getattr (rch t) a)
  end.

Lemma own_default k t a :
  chain (k :: t) ->
  dflt_val (entry_dflt k t a) = nearest_default (Some (k_id k)) a (k :: t).
Proof.
  intro C. rewrite nearest_default_cons_owner.
  rewrite (restrict_chain (k :: t) [k_id k] C) by (left; reflexivity).
  simpl first_some. unfold body_default at 1, entry_dflt. simpl opt_eqb. rewrite Nat.eqb_refl.
  destruct (assoc a (k_dict k)) as [[v|[|v|v] i f]|]; try reflexivity.
  apply getattr_default. destruct C as [C _]. exact C.
Qed.

Lemma build_fields k anc a ty dn i :
  let r := build_attr_spec cur k anc a ty dn i in
  r_name r = a /\ r_ty r = ty /\ r_dnc r = dn /\ r_prep r = find_prep k anc a
  /\ r_dflt r = match assoc a (k_dict k) with
                | Some (EAttr dd _ _) => dd
                | Some (ELit v) => DVal v
                | None => centry_dflt (anc_getattr anc a)
                end
  /\ match assoc a (k_dict k) with
     | Some (EAttr _ ii _) => r_init r = ii /\ r_owner r = k_id k
     | _ => match i with
            | Some r0 => r_init r = r_init r0 /\ r_owner r = r_owner r0
            | None => r_init r = true /\ r_owner r = k_id k
            end
     end.
Proof.
  unfold build_attr_spec. simpl q_rebuild_drop.
  destruct (assoc a (k_dict k)) as [[v|dd ii ff]|]; destruct i as [r0|]; simpl; repeat split; reflexivity.
Qed.

Lemma declares_mentions k t a : declares_at k t a = true -> mentions_at k t a = true.
Proof.
  unfold declares_at, mentions_at. destruct (is_spec k); [|discriminate]. simpl.
  destruct (memb a (hard_names k)); [reflexivity|]. simpl.
  destruct (adds_key k t a); [intros _; apply orb_true_r|]. rewrite !orb_false_r.
  unfold is_attr_entry, has. destruct (assoc a (k_dict k)) as [[v|dd i f]|]; try discriminate. reflexivity.
Qed.

(* an attribute the head class owns *)
Lemma attr_ok_owned k t r :
  chain (k :: t) -> wfc (k :: t) -> is_spec k = true ->
  declares_at k t (r_name r) = true ->
  r_owner r = k_id k ->
  r_dflt r = entry_dflt k t (r_name r) ->
  r_init r = match assoc (r_name r) (k_dict k) with Some (EAttr _ i _) => i | _ => true end ->
  r_prep r = find_prep k (rch t) (r_name r) ->
  r_ty r = ty_of (k :: t) (r_name r) ->
  attr_ok (k :: t) r.
Proof.
  intros C W S D O DF IN PR TY. unfold attr_ok. repeat split.
  - exact TY.
  - rewrite init_of_cons, D. exact IN.
  - rewrite owner_cons, D, O. reflexivity.
  - rewrite prep_of_cons by exact C. rewrite (declares_mentions _ _ _ D), PR. apply find_prep_rch.
  - simpl rch. rewrite lookup_default_in_cons. rewrite O, Nat.eqb_refl.
    rewrite default_value_eq, DF. apply own_default. exact C.
  - rewrite built_from_cons_chain by exact C. rewrite (declares_mentions _ _ _ D).
    rewrite O, default_value_eq, DF. apply own_default. exact C.
  - simpl. rewrite S. left. symmetry. exact O.
Qed.

Lemma ty_managed k d t a :
  wfc (k :: t) -> k_deco k = Some d -> In a (managed_of k d) ->
  (if memb a (ovf_new_of d) then TDictAny else nearest_annot k (rch t) a) = ty_of (k :: t) a.
Proof.
  intros W D H. rewrite ty_of_cons by (apply wfc_plains; exact W).
  destruct W as [[_ Wk] _]. destruct (Wk d D) as [WO _].
  unfold ty_step, stated_ovf. rewrite D.
  destruct (memb a (ovf_new_of d)) eqn:M.
  - unfold ovf_new_of in M. destruct (d_ovf d) as [[o|]|] eqn:DO; try discriminate.
    simpl in M. rewrite orb_false_r in M. apply Nat.eqb_eq in M. subst o.
    assert (A : assoc a (k_annots k) = None) by (apply assoc_none_notin; apply WO; reflexivity).
    rewrite A, Nat.eqb_refl. reflexivity.
  - unfold managed_of in H. apply in_app_iff in H. destruct H as [H|H]; [|apply memb_In in H; congruence].
    unfold nearest_annot. destruct (assoc a (k_annots k)) as [ty|] eqn:A; [reflexivity|].
    apply assoc_none_notin in A. contradiction.
Qed.

Lemma ty_step_untouched k d a :
  k_deco k = Some d -> ~ In a (managed_of k d) -> ty_step a k = None.
Proof.
  intros D N. unfold ty_step, stated_ovf. rewrite D.
  unfold managed_of, ovf_new_of in N. rewrite in_app_iff in N.
  assert (A : assoc a (k_annots k) = None) by (apply assoc_none_notin; intro H; apply N; left; exact H).
  rewrite A. destruct (d_ovf d) as [[o|]|]; try reflexivity.
  destruct (o =? a) eqn:E; [|reflexivity]. apply Nat.eqb_eq in E. subst.
  exfalso. apply N. right. left. reflexivity.
Qed.

Lemma ty_new_key k d t x :
  wfc (k :: t) -> k_deco k = Some d -> ~ In x (managed_of k d) -> ~ In x (managed t) ->
  nearest_annot k (rch t) x = ty_of (k :: t) x.
Proof.
  intros W D N NM. pose proof (wfc_plains _ W) as P.
  rewrite ty_of_cons by exact P. rewrite (ty_step_untouched k d x D N).
  destruct P as [_ Pt]. pose proof (notin_managed_ty t x Pt NM) as F.
  unfold nearest_annot.
  assert (A : assoc x (k_annots k) = None).
  { apply assoc_none_notin. intro H. apply N. unfold managed_of. apply in_app_iff. left. exact H. }
  rewrite A, first_annots_rch.
  rewrite (first_some_none (fun c => assoc x (k_annots c)) t) by (intros c Hc; apply (F c Hc)).
  unfold ty_of, ms. fold (ty_step x). rewrite first_ty_meta by exact Pt.
  rewrite (first_some_none (ty_step x) t) by (intros c Hc; apply (F c Hc)). reflexivity.
Qed.

Lemma hard_names_deco k d : k_deco k = Some d -> hard_names k = managed_of k d.
Proof. intro D. unfold hard_names, managed_of, ovf_new_of, stated_ovf. rewrite D. reflexivity. Qed.

(* an inherited attribute the head class neither annotates nor names as overflow attribute *)
Lemma inherited_flags k d t a :
  k_deco k = Some d -> ~ In a (managed_of k d) -> In a (managed t) ->
  declares_at k t a = is_attr_entry (assoc a (k_dict k))
  /\ mentions_at k t a = has a (k_dict k).
Proof.
  intros D N H. unfold declares_at, mentions_at, adds_key. rewrite (is_spec_deco k d D), (hard_names_deco k d D).
  apply memb_false in N. rewrite N. apply (proj2 (memb_In _ _)) in H. unfold managed in H. rewrite H.
  simpl. rewrite andb_false_r, !orb_false_r. split; reflexivity.
Qed.

(* an inherited attribute whose default the head class overrides with a literal *)
Lemma attr_ok_redefault k d t r0 v dn :
  chain (k :: t) -> wfc (k :: t) -> k_deco k = Some d -> attr_ok t r0 ->
  In (r_name r0) (managed t) -> ~ In (r_name r0) (managed_of k d) ->
  assoc (r_name r0) (k_dict k) = Some (ELit v) ->
  attr_ok (k :: t) (build_attr_spec cur k (rch t) (r_name r0) (r_ty r0) dn (Some r0)).
Proof.
  intros C W D [T [N [O [P [I1 [I2 E]]]]]] ND NM A.
  destruct (inherited_flags k d t (r_name r0) D NM ND) as [DC0 MN0]. rewrite A in DC0. unfold has in MN0. rewrite A in MN0.
  pose proof (is_spec_deco k d D) as S.
  pose proof (build_fields k (rch t) (r_name r0) (r_ty r0) dn (Some r0)) as F.
  cbv zeta in F. rewrite A in F. destruct F as [F1 [F2 [_ [F4 [F5 [F6 F7]]]]]].
  set (r := build_attr_spec cur k (rch t) (r_name r0) (r_ty r0) dn (Some r0)) in *.
  assert (NE : r_owner r0 <> k_id k).
  { intro H. destruct C as [C _]. apply C. rewrite <- H. apply owner_in_ids. exact E. }
  assert (DC : declares_at k t (r_name r0) = false) by exact DC0.
  assert (MN : mentions_at k t (r_name r0) = true) by exact MN0.
  unfold attr_ok. rewrite F1, F2, F6, F7, F4. repeat split.
  - rewrite ty_of_cons by (apply wfc_plains; exact W). rewrite (ty_step_untouched k d _ D NM). exact T.
  - rewrite init_of_cons, DC. exact N.
  - rewrite owner_cons, DC. exact O.
  - rewrite prep_of_cons by exact C. rewrite MN. apply find_prep_rch.
  - simpl rch. rewrite lookup_default_in_cons. rewrite F1, F7, A.
    destruct (k_id k =? r_owner r0) eqn:E2; [apply Nat.eqb_eq in E2; congruence|].
    rewrite nearest_default_cons_other by exact NE. unfold body_default. rewrite A. reflexivity.
  - rewrite built_from_cons_chain by exact C. rewrite MN.
    rewrite nearest_default_cons_other by exact NE. unfold body_default. rewrite A.
    rewrite default_value_eq, F5. reflexivity.
  - simpl. rewrite S. right. exact E.
Qed.

(* an inherited attribute the head class does not mention *)
Lemma attr_ok_untouched k d t r0 r :
  chain (k :: t) -> wfc (k :: t) -> k_deco k = Some d -> attr_ok t r0 ->
  In (r_name r0) (managed t) -> ~ In (r_name r0) (managed_of k d) ->
  assoc (r_name r0) (k_dict k) = None ->
  r_name r = r_name r0 -> r_ty r = r_ty r0 -> r_init r = r_init r0 -> r_owner r = r_owner r0 ->
  r_dflt r = r_dflt r0 -> r_prep r = r_prep r0 ->
  attr_ok (k :: t) r.
Proof.
  intros C W D [T [N [O [P [I1 [I2 E]]]]]] ND NM A F1 F2 F3 F4 F5 F6.
  destruct (inherited_flags k d t (r_name r0) D NM ND) as [DC0 MN0]. rewrite A in DC0. unfold has in MN0. rewrite A in MN0.
  pose proof (is_spec_deco k d D) as S.
  assert (NE : r_owner r0 <> k_id k).
  { intro H. destruct C as [C _]. apply C. rewrite <- H. apply owner_in_ids. exact E. }
  assert (DC : declares_at k t (r_name r0) = false) by exact DC0.
  assert (MN : mentions_at k t (r_name r0) = false) by exact MN0.
  unfold attr_ok. rewrite F1, F2, F3, F4, F6. repeat split.
  - rewrite ty_of_cons by (apply wfc_plains; exact W). rewrite (ty_step_untouched k d _ D NM). exact T.
  - rewrite init_of_cons, DC. exact N.
  - rewrite owner_cons, DC. exact O.
  - rewrite prep_of_cons by exact C. rewrite MN. exact P.
  - simpl rch. rewrite lookup_default_in_cons. rewrite F1, F4, A.
    destruct (k_id k =? r_owner r0) eqn:E2; [apply Nat.eqb_eq in E2; congruence|].
    rewrite nearest_default_cons_other by exact NE. unfold body_default. rewrite A. simpl.
    rewrite (lookup_default_in_ext r r0) by assumption. exact I1.
  - rewrite built_from_cons_chain by exact C. rewrite MN.
    rewrite default_value_eq, F5, <- default_value_eq. exact I2.
  - simpl. rewrite S. right. exact E.
Qed.

Lemma declares_hard k t a : is_spec k = true -> In a (hard_names k) -> declares_at k t a = true.
Proof. intros S H. unfold declares_at. rewrite S. apply (proj2 (memb_In _ _)) in H. rewrite H. reflexivity. Qed.

Lemma declares_new_key k t a :
  is_spec k = true -> stated_key k = Some (Some a) -> ~ In a (managed t) -> declares_at k t a = true.
Proof.
  intros S K N. unfold declares_at, adds_key, states_key. rewrite S, K, Nat.eqb_refl.
  apply memb_false in N. unfold managed in N. rewrite N. simpl. apply orb_true_r.
Qed.

Lemma attr_ok_boot k d t r :
  chain (k :: t) -> wfc (k :: t) -> k_deco k = Some d -> InvO t ->
  In r (attrs3_of k d (rch t)) -> attr_ok (k :: t) r.
Proof.
  intros C W D [IK [IO [INm IA]]] H.
  pose proof (is_spec_deco k d D) as S.
  assert (NDI : NoDup (map r_name (inh (rch t)))).
  { rewrite inh_mattrs, INm. unfold managed, managed_l. apply NoDup_nodup_first. }
  destruct (attrs3_cases k d (rch t) r NDI H) as [[HM HE]|[[HM [HK [HN HE]]]|[HM [r0 [H0 HE]]]]].
  - (* new or re-declared by the head *)
    pose proof (build_fields k (rch t) (r_name r)
                  (if memb (r_name r) (ovf_new_of d) then TDictAny else nearest_annot k (rch t) (r_name r))
                  (dnc_for d (r_name r)) None) as F.
    cbv zeta in F. fold (newB k d (rch t) (r_name r)) in F. rewrite <- HE in F.
    destruct F as [_ [F2 [_ [F4 [F5 F6]]]]].
    apply attr_ok_owned; try assumption.
    + apply declares_hard; [exact S|]. rewrite (hard_names_deco k d D). exact HM.
    + destruct (assoc (r_name r) (k_dict k)) as [[v|dd ii ff]|]; apply F6.
    + destruct (assoc (r_name r) (k_dict k)) as [[v|dd ii ff]|]; apply F6.
    + rewrite F2. apply (ty_managed k d t); assumption.
  - (* the key attribute introduced by the decorator *)
    pose proof (build_fields k (rch t) (r_name r) (nearest_annot k (rch t) (r_name r)) false None) as F.
    cbv zeta in F. fold (keyB k (rch t) (r_name r)) in F. rewrite <- HE in F.
    destruct F as [_ [F2 [_ [F4 [F5 F6]]]]].
    apply attr_ok_owned; try assumption.
    + apply declares_new_key; [exact S | unfold stated_key; rewrite D; exact HK|].
      rewrite <- INm, <- inh_mattrs. exact HN.
    + destruct (assoc (r_name r) (k_dict k)) as [[v|dd ii ff]|]; apply F6.
    + destruct (assoc (r_name r) (k_dict k)) as [[v|dd ii ff]|]; apply F6.
    + rewrite F2. apply (ty_new_key k d t); try assumption.
      rewrite <- INm. rewrite <- inh_mattrs. exact HN.
  - (* inherited *)
    assert (OK0 : attr_ok t r0) by (apply IA; rewrite <- inh_mattrs; exact H0).
    assert (HN : r_name r = r_name r0) by (rewrite HE; apply step1_name).
    rewrite HN in HM.
    assert (HI : In (r_name r0) (managed t)) by (rewrite <- INm, <- inh_mattrs; apply in_map; exact H0).
    assert (UNT : assoc (r_name r0) (k_dict k) = None -> r = r0 \/
                  r = mkrattr (r_name r0) (r_ty r0) (r_dflt r0) (r_init r0) (r_owner r0)
                              (dnc_for d (r_name r0)) (r_prep r0) ->
                  attr_ok (k :: t) r).
    { intros A [E|E]; apply (attr_ok_untouched k d t r0 r); try assumption; rewrite E; reflexivity. }
    unfold step1 in HE.
    destruct (memb (r_name r0) (key_new_of d ++ managed_of k d)) eqn:MT.
    + (* the decorator re-states the inherited key: bootstrap leaves the attribute alone *)
      assert (HK : d_key d = Some (Some (r_name r0))).
      { rewrite memb_app in MT. apply (proj2 (memb_false _ _)) in HM. rewrite HM, orb_false_r in MT.
        unfold key_new_of in MT. destruct (d_key d) as [[x|]|]; try discriminate.
        simpl in MT. rewrite orb_false_r in MT. apply Nat.eqb_eq in MT. subst x. reflexivity. }
      destruct W as [[_ Wk] W']. destruct (Wk d D) as [_ WK].
      destruct (WK _ HK) as [Ha|[Ha|Ha]].
      * exfalso. apply HM. unfold managed_of. apply in_app_iff. left. exact Ha.
      * contradiction.
      * apply UNT; [exact Ha | left; exact HE].
    + unfold has in HE.
      destruct (assoc (r_name r0) (k_dict k)) as [[v|dd ii ff]|] eqn:A.
      * rewrite HE. apply (attr_ok_redefault k d t r0 v); assumption.
      * (* an Attr object without annotation: the head becomes the owner *)
        pose proof (build_fields k (rch t) (r_name r0) (r_ty r0) (dnc_for d (r_name r0)) (Some r0)) as F.
        cbv zeta in F. rewrite <- HE in F. rewrite A in F. destruct F as [F1 [F2 [_ [F4 [F5 [F6 F7]]]]]].
        apply attr_ok_owned; try assumption.
        -- rewrite F1. destruct (inherited_flags k d t (r_name r0) D HM HI) as [DC _]. rewrite DC, A. reflexivity.
        -- rewrite F1. unfold entry_dflt. rewrite A. exact F5.
        -- rewrite F1, A. exact F6.
        -- rewrite F1. exact F4.
        -- rewrite F1, F2. rewrite ty_of_cons by (apply wfc_plains; exact W).
           rewrite (ty_step_untouched k d _ D HM). apply OK0.
      * destruct (negb (Bool.eqb (dnc_for d (r_name r0)) (r_dnc r0)));
          (apply UNT; [reflexivity | (left; exact HE) || (right; exact HE)]).
Qed.

Lemma names_boot k d t :
  k_deco k = Some d -> map r_name (inh (rch t)) = managed t ->
  map r_name (attrs3_of k d (rch t)) = managed (k :: t).
Proof.
  intros D IN. rewrite managed_cons by (apply (is_spec_deco k d D)).
  rewrite (decl_names_deco k d D). rewrite nodup_first_app, filter_app.
  pose proof (attrs2_names k d (rch t)) as N2. rewrite IN in N2.
  unfold attrs3_of, key_new_of.
  destruct (d_key d) as [[x|]|] eqn:DK; simpl nodup_first; simpl filter;
    try (rewrite N2, app_nil_r; reflexivity).
  destruct (find_attr x (attrs2_of k d (rch t))) eqn:F; simpl opt_is; cbv iota.
  - (* x already present *)
    apply find_attr_Some in F. destruct F as [F1 F2].
    assert (Hx : In x (map r_name (attrs2_of k d (rch t)))) by (rewrite <- F2; apply in_map; exact F1).
    rewrite N2 in Hx. apply in_app_iff in Hx.
    destruct (memb x (managed_of k d)) eqn:M1; simpl; [rewrite app_nil_r; exact N2|].
    destruct (memb x (managed t)) eqn:M2; simpl; [rewrite app_nil_r; exact N2|].
    exfalso. destruct Hx as [Hx|Hx].
    + apply (proj2 (memb_In _ _)) in Hx. congruence.
    + apply filter_In in Hx. destruct Hx as [Hx _]. apply (proj1 (In_nodup_first _ _)) in Hx.
      apply (proj2 (memb_In _ _)) in Hx. congruence.
  - rewrite map_app, N2. rewrite <- app_assoc. f_equal. f_equal.
    unfold keyB. simpl map. rewrite build_name.
    apply find_attr_None in F. rewrite N2 in F. rewrite in_app_iff in F.
    assert (M2 : memb x (managed t) = false) by (apply memb_false; tauto).
    assert (M1 : memb x (managed_of k d) = false).
    { apply memb_false. intro Hm. apply F. right. apply filter_In. split.
      - apply In_nodup_first. exact Hm.
      - rewrite M2. reflexivity. }
    rewrite M1. simpl. rewrite M2. reflexivity.
Qed.

Lemma InvO_chain l : chain l -> wfc l -> InvO l.
Proof.
  induction l as [|k t IH]; intros C W.
  - unfold InvO. simpl. split; [reflexivity|]. split; [reflexivity|]. split; [reflexivity|]. intros r [].
  - pose proof (IH (chain_tail _ _ C) (proj2 W)) as It.
    destruct (k_deco k) as [d|] eqn:D.
    + (* spec class *)
      unfold InvO. rewrite (nearest_meta_rch_spec k d t D). simpl mkey; simpl movf; simpl mattrs.
      destruct It as [IK [IO [INm IA]]].
      split; [|split; [|split]].
      * rewrite key_of_chain by exact C. simpl first_some.
        unfold stated_key at 1. rewrite D.
        destruct (d_key d) as [x|]; [reflexivity|].
        change (mkey (nearest_meta (rch t)) = match first_some stated_key t with Some x => x | None => None end).
        rewrite IK. apply key_of_chain. exact (chain_tail _ _ C).
      * rewrite ovf_of_chain by exact C. simpl first_some.
        unfold stated_ovf at 1. rewrite D.
        destruct (d_ovf d) as [x|]; [reflexivity|].
        change (movf (nearest_meta (rch t)) = match first_some stated_ovf t with Some x => x | None => None end).
        rewrite IO. apply ovf_of_chain. exact (chain_tail _ _ C).
      * apply names_boot; [exact D | rewrite inh_mattrs; exact INm].
      * intros r Hr. apply (attr_ok_boot k d t r C W D); [|exact Hr].
        exact (conj IK (conj IO (conj INm IA))).
    + (* plain class *)
      unfold InvO. rewrite (nearest_meta_rch_plain k t D).
      destruct It as [IK [IO [INm IA]]].
      pose proof (is_spec_none k D) as S.
      split; [|split; [|split]].
      * rewrite IK. rewrite !key_of_chain by (try exact C; exact (chain_tail _ _ C)).
        simpl first_some. rewrite (stated_key_plain k S). reflexivity.
      * rewrite IO. rewrite !ovf_of_chain by (try exact C; exact (chain_tail _ _ C)).
        simpl first_some. rewrite (stated_ovf_plain k S). reflexivity.
      * rewrite managed_plain by exact S. exact INm.
      * intros r Hr. apply attr_ok_plain; try assumption. apply IA. exact Hr.
Qed.

(* ------------------------------------------------------------------ the model's chain is the resolved chain *)
Lemma rchain_rch l : chain l -> wfc l -> rchain l = rch l.
Proof.
  induction l as [|k t IH]; intros C W; [reflexivity|].
  simpl rchain. pose proof (IH (chain_tail _ _ C) (proj2 W)) as E.
  assert (ND : NoDup (map r_name (inh (rchain t)))).
  { rewrite E, inh_mattrs.
    destruct (InvO_chain t (chain_tail _ _ C) (proj2 W)) as [_ [_ [N _]]].
    rewrite N. unfold managed, managed_l. apply NoDup_nodup_first. }
  rewrite (resolve_one_chain k t C ND). rewrite E. reflexivity.
Qed.

Lemma find_cls_rch l1 : forall k l2,
  chain (l1 ++ k :: l2) -> find_cls (k_id k) (rch (l1 ++ k :: l2)) = Some (rone k (rch l2)).
Proof.
  induction l1 as [|x t IH]; intros k l2 C.
  - simpl. unfold find_cls. simpl. rewrite Nat.eqb_refl. reflexivity.
  - simpl app. simpl rch. unfold find_cls. simpl find.
    destruct (k_id x =? k_id k) eqn:E.
    + apply Nat.eqb_eq in E. destruct C as [C _]. exfalso. apply C. rewrite E.
      rewrite map_app. apply in_app_iff. right. left. reflexivity.
    + apply IH. exact (chain_tail _ _ C).
Qed.

Lemma chain_app_r l1 l2 : chain (l1 ++ l2) -> chain l2.
Proof. induction l1 as [|x t IH]; simpl; intro C; [exact C | apply IH; apply C]. Qed.

Lemma wfc_app_r l1 l2 : wfc (l1 ++ l2) -> wfc l2.
Proof. induction l1 as [|x t IH]; simpl; intro C; [exact C | apply IH; apply C]. Qed.

(* splitting a chain at its first spec class *)
Lemma meta_anc_split l :
  exists pre, l = pre ++ meta_anc l /\ (forall c, In c pre -> is_spec c = false).
Proof.
  induction l as [|k t [pre [E P]]].
  - exists []. split; [reflexivity | intros c []].
  - simpl meta_anc. destruct (is_spec k) eqn:S.
    + exists []. split; [reflexivity | intros c []].
    + exists (k :: pre). split; [simpl; f_equal; exact E|].
      intros c [H|H]; [subst; exact S | apply P; exact H].
Qed.

(* ------------------------------------------------------------------ suffixes of a chain *)
Lemma owner_in_l l a o : owner l a = Some o -> In o (map k_id l).
Proof.
  induction l as [|k t IH]; [discriminate|].
  rewrite owner_cons. destruct (declares_at k t a).
  - intro H. injection H as H. left. exact H.
  - intro H. right. apply IH. exact H.
Qed.

Lemma owner_cls_suffix l1 l2 a o :
  chain (l1 ++ l2) -> owner (l1 ++ l2) a = Some o -> In o (map k_id l2) ->
  owner_cls (l1 ++ l2) a = owner_cls l2 a.
Proof.
  induction l1 as [|x t IH]; intros C O H; [reflexivity|].
  simpl app in *. rewrite owner_cls_cons. rewrite owner_cons in O.
  destruct (declares_at x (t ++ l2) a).
  - injection O as O. exfalso. destruct C as [C _]. apply C. rewrite O.
    rewrite map_app. apply in_app_iff. right. exact H.
  - apply IH; [exact (chain_tail _ _ C) | exact O | exact H].
Qed.

Lemma managed_decl l a : In a (managed l) -> exists c, In c l /\ In a (decl_names c).
Proof.
  induction l as [|k t IH]; [intros []|].
  destruct (is_spec k) eqn:S.
  - rewrite managed_cons by exact S. rewrite in_app_iff. intros [H|H].
    + destruct (IH H) as [c [Hc Ha]]. exists c. split; [right; exact Hc | exact Ha].
    + apply filter_In in H. destruct H as [H _]. apply (proj1 (In_nodup_first _ _)) in H.
      exists k. split; [left; reflexivity | exact H].
  - rewrite managed_plain by exact S. intro H.
    destruct (IH H) as [c [Hc Ha]]. exists c. split; [right; exact Hc | exact Ha].
Qed.

Lemma decl_names_spec c a : In a (decl_names c) -> is_spec c = true.
Proof. unfold decl_names. destruct (is_spec c); [reflexivity | intros []]. Qed.

(* a name a class lists that its MRO does not manage yet is declared by that class *)
Lemma new_name_declared x t a :
  In a (decl_names x) -> ~ In a (managed t) -> declares_at x t a = true.
Proof.
  intros H N. pose proof (decl_names_spec x a H) as S.
  unfold decl_names in H. rewrite S in H. rewrite app_assoc in H. apply in_app_iff in H.
  destruct H as [H|H].
  - apply declares_hard; [exact S|]. exact H.
  - destruct (stated_key x) as [[y|]|] eqn:K; try contradiction. destruct H as [H|[]]. subst y.
    apply declares_new_key; assumption.
Qed.

Lemma managed_owned_suffix l1 pc l2 a :
  chain (l1 ++ pc :: l2) -> In a (managed (l1 ++ pc :: l2)) ->
  owner (l1 ++ pc :: l2) a = Some (k_id pc) -> In a (managed (pc :: l2)).
Proof.
  induction l1 as [|x t IH]; intros C Hm O; [exact Hm|].
  simpl app in *. rewrite owner_cons in O.
  destruct (declares_at x (t ++ pc :: l2) a) eqn:DX.
  - injection O as O. exfalso. destruct C as [C _]. apply C. rewrite O.
    rewrite map_app. apply in_app_iff. right. left. reflexivity.
  - apply IH; [exact (chain_tail _ _ C) | | exact O].
    destruct (is_spec x) eqn:S.
    + rewrite managed_cons in Hm by exact S. apply in_app_iff in Hm. destruct Hm as [Hm|Hm]; [exact Hm|].
      apply filter_In in Hm. destruct Hm as [Hd Hn]. apply (proj1 (In_nodup_first _ _)) in Hd.
      exfalso. assert (NI : ~ In a (managed (t ++ pc :: l2))).
      { apply memb_false. destruct (memb a (managed (t ++ pc :: l2))); [discriminate | reflexivity]. }
      rewrite (new_name_declared x _ a Hd NI) in DX. discriminate.
    + rewrite managed_plain in Hm by exact S. exact Hm.
Qed.

Lemma managed_suffix l1 l2 a : In a (managed l2) -> In a (managed (l1 ++ l2)).
Proof.
  intro H. destruct (managed_decl _ _ H) as [c [Hc Ha]].
  apply (decl_in_managed (l1 ++ l2) c a); [apply in_app_iff; right; exact Hc | exact Ha].
Qed.

Lemma assoc_app {B} a (l1 l2 : list (nat * B)) :
  assoc a (l1 ++ l2) = match assoc a l1 with Some v => Some v | None => assoc a l2 end.
Proof.
  induction l1 as [|[k v] t IH]; simpl; [reflexivity|]. destruct (k =? a); [reflexivity | exact IH].
Qed.

(* ------------------------------------------------------------------ the constructor on a chain *)
Definition lift (x : res (list (aid * aval))) (s : st) : res st :=
  match x with Ok d => Ok (mkst d (s_post s) (s_hand s)) | Err e => Err e end.

Lemma fold_err {A B} (f : res A -> B -> res A) l e :
  (forall b, f (Err e) b = Err e) -> fold_left f l (Err e) = Err e.
Proof. intro H. induction l as [|x t IH]; simpl; [reflexivity | rewrite H; exact IH]. Qed.

Section Sim.
  Variable ks : list cdesc.
  Hypothesis C : chain ks.
  Hypothesis W : wfc ks.
  Variable M : rmeta.
  Hypothesis HM : nearest_meta (rch ks) = Some M.
  Variable kw1 : list (aid * aval).

  Lemma M_inv : m_key M = key_of ks /\ m_ovf M = ovf_of ks
                /\ map r_name (m_attrs M) = managed ks
                /\ forall r, In r (m_attrs M) -> attr_ok ks r.
  Proof. pose proof (InvO_chain ks C W) as I. unfold InvO in I. rewrite HM in I. exact I. Qed.

  Lemma M_names : map r_name (m_attrs M) = managed ks.
  Proof. apply M_inv. Qed.

  Lemma M_NoDup : NoDup (map r_name (m_attrs M)).
  Proof. rewrite M_names. unfold managed, managed_l. apply NoDup_nodup_first. Qed.

  Lemma M_attr r : In r (m_attrs M) -> attr_ok ks r.
  Proof. apply M_inv. Qed.

  Lemma M_find r : In r (m_attrs M) -> find_attr (r_name r) (m_attrs M) = Some r.
  Proof. apply In_find_attr. exact M_NoDup. Qed.

  Lemma M_find_managed a : find_attr a (m_attrs M) = None <-> ~ In a (managed ks).
  Proof. rewrite find_attr_None, M_names. tauto. Qed.

  (* one assignment *)
  Lemma set_attr_assign a v s :
    set_attr M a (Some v) s = lift (assign ks a v (s_dict s)) s.
  Proof.
    unfold set_attr, assign. destruct (find_attr a (m_attrs M)) as [r|] eqn:F.
    - apply find_attr_Some in F. destruct F as [F1 F2].
      assert (Hm : memb a (managed ks) = true).
      { apply memb_In. rewrite <- M_names, <- F2. apply in_map. exact F1. }
      rewrite Hm. destruct (M_attr r F1) as [T [_ [_ [P _]]]]. rewrite F2 in T, P. rewrite T, P.
      destruct (prepare_value (ty_of ks a) (prep_of ks a) v); reflexivity.
    - apply M_find_managed in F. apply memb_false in F. rewrite F. reflexivity.
  Qed.

  (* the value an owned attribute receives *)
  Lemma value_sim r kwm :
    In r (m_attrs M) -> kw_get (r_name r) kwm = assoc (r_name r) kw1 ->
    match kw_get (r_name r) kwm with
    | Some v => Some v
    | None => lookup_default (rch ks) r
    end = value_of ks kw1 (r_name r).
  Proof.
    intros H K. unfold value_of. rewrite K. destruct (assoc (r_name r) kw1); [reflexivity|].
    destruct (M_attr r H) as [_ [_ [O [_ [I1 _]]]]]. unfold lookup_default. rewrite I1, O. reflexivity.
  Qed.

  Definition sel (p : cid) (a : aid) : bool := opt_eqb (owner ks a) p && accepted ks a.

  Lemma sel_attr r p : In r (m_attrs M) ->
    sel p (r_name r) = (r_owner r =? p) && r_init r && negb (opt_eqb (m_ovf M) (r_name r)).
  Proof.
    intro H. destruct (M_attr r H) as [_ [N [O _]]]. destruct M_inv as [_ [OV _]].
    unfold sel, accepted. rewrite O, <- N, <- OV. simpl opt_eqb.
    assert (Hm : memb (r_name r) (managed ks) = true).
    { apply memb_In. rewrite <- M_names. apply in_map. exact H. }
    rewrite Hm. simpl. rewrite andb_assoc. reflexivity.
  Qed.

  Definition spec_step (acc : res (list (aid * aval))) (a : aid) : res (list (aid * aval)) :=
    match acc with
    | Err e => Err e
    | Ok d => match value_of ks kw1 a with Some v => assign ks a v d | None => Ok d end
    end.

  Lemma own_fold p kwm L : forall s,
    (forall r, In r L -> In r (m_attrs M)) ->
    (forall r, In r L -> sel p (r_name r) = true ->
               match kw_get (r_name r) kwm with Some v => Some v | None => lookup_default (rch ks) r end
               = value_of ks kw1 (r_name r)) ->
    fold_left (fun acc r =>
                 match acc with
                 | Err e => Err e
                 | Ok s =>
                     if negb (r_init r) || negb (r_owner r =? p) || opt_eqb (m_ovf M) (r_name r) then Ok s
                     else match (match kw_get (r_name r) kwm with
                                 | Some v => Some v
                                 | None => lookup_default (rch ks) r end) with
                          | Some v => set_attr M (r_name r) (Some v) s
                          | None => Ok s end
                 end) L (Ok s)
    = lift (fold_left spec_step (filter (sel p) (map r_name L)) (Ok (s_dict s))) s.
  Proof.
    induction L as [|r t IH]; intros s HL HV.
    - simpl. destruct s; reflexivity.
    - simpl fold_left at 1. simpl map. simpl filter.
      assert (Hr : In r (m_attrs M)) by (apply HL; left; reflexivity).
      rewrite (sel_attr r p Hr).
      destruct (r_owner r =? p) eqn:E1; destruct (r_init r) eqn:E2;
        destruct (opt_eqb (m_ovf M) (r_name r)) eqn:E3; simpl;
        try (apply IH; [intros x Hx; apply HL; right; exact Hx | intros x Hx; apply HV; right; exact Hx]).
      assert (SV : sel p (r_name r) = true) by (rewrite (sel_attr r p Hr), E1, E2, E3; reflexivity).
      rewrite (HV r (or_introl eq_refl) SV).
      destruct (value_of ks kw1 (r_name r)) as [v|].
      + rewrite set_attr_assign. destruct (assign ks (r_name r) v (s_dict s)) as [d|e]; simpl.
        * rewrite (IH (mkst d (s_post s) (s_hand s))); [reflexivity | |].
          -- intros x Hx; apply HL; right; exact Hx.
          -- intros x Hx; apply HV; right; exact Hx.
        * rewrite !fold_err by reflexivity. reflexivity.
      + apply IH; [intros x Hx; apply HL; right; exact Hx | intros x Hx; apply HV; right; exact Hx].
  Qed.

  Lemma own_loop_sim p kwm s :
    (forall r, In r (m_attrs M) -> sel p (r_name r) = true ->
               match kw_get (r_name r) kwm with Some v => Some v | None => lookup_default (rch ks) r end
               = value_of ks kw1 (r_name r)) ->
    own_loop (rch ks) M p kwm s
    = lift (fold_left spec_step (filter (sel p) (managed ks)) (Ok (s_dict s))) s.
  Proof.
    intro HV. unfold own_loop. rewrite <- M_names. apply own_fold; [tauto | exact HV].
  Qed.
  (* ---- the inner loop of the parent loop: keywords for one parent *)
  Definition psel (p : cid) (a : aid) : bool :=
    match find_attr a (m_attrs M) with
    | Some ir => (r_owner ir =? p) && r_init ir && negb (opt_eqb (m_ovf M) a)
    | None => false
    end.

  Lemma psel_sel p r : In r (m_attrs M) -> psel p (r_name r) = sel p (r_name r).
  Proof. intro H. unfold psel. rewrite (M_find r H). symmetry. apply sel_attr. exact H. Qed.

  Definition pentry (p : cid) (kw0 : kwargs) (a : aid) : kwargs :=
    if psel p a then
      match kw_get a kw0 with
      | Some v => [(a, Some v)]
      | None => match find_attr a (m_attrs M) with
                | Some ir => match lookup_default (rch ks) ir with
                             | Some dv => [(a, Some dv)] | None => [] end
                | None => [] end
      end
    else [].

  Definition kdel (p : cid) (kw0 : kwargs) (a : aid) (kw : kwargs) : kwargs :=
    if psel p a && opt_is (kw_get a kw0) then assoc_del a kw else kw.

  Definition inner_step (p : cid) (acc : res (kwargs * kwargs)) (pr : rattr) : res (kwargs * kwargs) :=
    match acc with
    | Err e => Err e
    | Ok (pkw, kw) =>
        match find_attr (r_name pr) (m_attrs M) with
        | None => Err KeyErr
        | Some ir =>
            if negb (r_owner ir =? p)
               || (negb (q_pass_noninit cur) && negb (r_init ir))
               || (negb (q_pop_ovf cur) && opt_eqb (m_ovf M) (r_name ir))
            then Ok (pkw, kw)
            else match (match assoc (r_name pr) kw with
                        | Some None => if q_fwd_missing cur then Some None else None
                        | o => o end) with
                 | Some v => Ok (pkw ++ [(r_name pr, v)], assoc_del (r_name pr) kw)
                 | None => match lookup_default (rch ks) ir with
                           | Some dv => Ok (pkw ++ [(r_name pr, Some dv)], kw)
                           | None => Ok (pkw, kw)
                           end
                 end
        end
    end.

  Lemma inner_step_eq p kw0 pkw kwc pr :
    In (r_name pr) (managed ks) -> assoc (r_name pr) kwc = assoc (r_name pr) kw0 ->
    inner_step p (Ok (pkw, kwc)) pr
    = Ok (pkw ++ pentry p kw0 (r_name pr), kdel p kw0 (r_name pr) kwc).
  Proof.
    intros Hin EA. unfold inner_step.
    destruct (find_attr (r_name pr) (m_attrs M)) as [ir|] eqn:F;
      [|apply M_find_managed in F; contradiction].
    pose proof (find_attr_Some _ _ _ F) as [Fi Fn].
    unfold pentry, kdel, psel. rewrite F, Fn. simpl q_pass_noninit. simpl q_pop_ovf. simpl q_fwd_missing.
    simpl negb at 2 4. rewrite !andb_true_l.
    destruct (r_owner ir =? p) eqn:E1; destruct (r_init ir) eqn:E2;
      destruct (opt_eqb (m_ovf M) (r_name pr)) eqn:E3; simpl; try (rewrite app_nil_r; reflexivity).
    unfold kw_get. rewrite EA.
    destruct (assoc (r_name pr) kw0) as [[v|]|] eqn:A; simpl; try reflexivity;
      destruct (lookup_default (rch ks) ir) as [dv|]; try reflexivity; rewrite app_nil_r; reflexivity.
  Qed.

  Lemma kdel_other p kw0 a kw b : b <> a -> assoc b (kdel p kw0 a kw) = assoc b kw.
  Proof.
    intro N. unfold kdel. destruct (psel p a && opt_is (kw_get a kw0)); [|reflexivity].
    apply assoc_del_other. exact N.
  Qed.

  Lemma inner_fold p kw0 L : forall pkw0 kwc,
    NoDup (map r_name L) ->
    (forall pr, In pr L -> In (r_name pr) (managed ks)) ->
    (forall pr, In pr L -> assoc (r_name pr) kwc = assoc (r_name pr) kw0) ->
    fold_left (inner_step p) L (Ok (pkw0, kwc))
    = Ok (pkw0 ++ flat_map (fun pr => pentry p kw0 (r_name pr)) L,
          fold_left (fun kw pr => kdel p kw0 (r_name pr) kw) L kwc).
  Proof.
    induction L as [|pr t IH]; intros pkw0 kwc ND HM' HA.
    - simpl. rewrite app_nil_r. reflexivity.
    - inversion ND as [|? ? Hx NDt]; subst.
      cbn [fold_left flat_map].
      rewrite (inner_step_eq p kw0 pkw0 kwc pr) by (try (apply HM'; left; reflexivity); apply HA; left; reflexivity).
      rewrite IH; [rewrite <- app_assoc; reflexivity | exact NDt | intros x Hx'; apply HM'; right; exact Hx' |].
      intros pr' Hp. rewrite kdel_other; [apply HA; right; exact Hp|].
      intro E. apply Hx. rewrite <- E. apply in_map. exact Hp.
  Qed.
  Lemma pentry_names p kw0 b x : In x (pentry p kw0 b) -> fst x = b /\ psel p b = true.
  Proof.
    unfold pentry. destruct (psel p b); [|intros []].
    destruct (kw_get b kw0).
    - intros [H|[]]. subst x. split; reflexivity.
    - destruct (find_attr b (m_attrs M)); [|intros []].
      destruct (lookup_default (rch ks) r); [|intros []].
      intros [H|[]]. subst x. split; reflexivity.
  Qed.

  Lemma assoc_pentry_other p kw0 b a : a <> b -> assoc a (pentry p kw0 b) = None.
  Proof.
    intro N. apply assoc_none_notin. intro H. apply in_map_iff in H. destruct H as [x [E H]].
    apply pentry_names in H. destruct H as [H _]. apply N. rewrite <- E. exact H.
  Qed.

  Lemma assoc_pentries p kw0 L a :
    assoc a (flat_map (fun pr => pentry p kw0 (r_name pr)) L)
    = if memb a (map r_name L) then assoc a (pentry p kw0 a) else None.
  Proof.
    induction L as [|pr t IH]; [reflexivity|].
    cbn [flat_map map]. rewrite assoc_app.
    change (memb a (r_name pr :: map r_name t)) with ((a =? r_name pr) || memb a (map r_name t)).
    destruct (a =? r_name pr) eqn:E.
    - apply Nat.eqb_eq in E. subst a. simpl orb.
      destruct (assoc (r_name pr) (pentry p kw0 (r_name pr))) eqn:A; [reflexivity|].
      rewrite IH. destruct (memb (r_name pr) (map r_name t)); reflexivity.
    - apply Nat.eqb_neq in E. rewrite (assoc_pentry_other p kw0 (r_name pr) a E). simpl orb. exact IH.
  Qed.

  Definition is_ph (ph : kwargs) : Prop := ph = [] \/ exists ka, ph = [(ka, None)].

  Lemma pkw_value p kw0 L ph r :
    In r (m_attrs M) -> sel p (r_name r) = true -> In (r_name r) (map r_name L) -> is_ph ph ->
    match kw_get (r_name r) (flat_map (fun pr => pentry p kw0 (r_name pr)) L ++ ph) with
    | Some v => Some v | None => lookup_default (rch ks) r end
    = match kw_get (r_name r) kw0 with
      | Some v => Some v | None => lookup_default (rch ks) r end.
  Proof.
    intros Hr S Hin PH. unfold kw_get at 1. rewrite assoc_app, assoc_pentries.
    apply (proj2 (memb_In _ _)) in Hin. rewrite Hin.
    unfold pentry. rewrite (psel_sel p r Hr), S, (M_find r Hr).
    destruct (kw_get (r_name r) kw0) as [v|]; [simpl; rewrite Nat.eqb_refl; reflexivity|].
    destruct (lookup_default (rch ks) r) as [dv|]; [simpl; rewrite Nat.eqb_refl; reflexivity|].
    simpl assoc at 1. destruct PH as [PH|[ka PH]]; subst ph; [reflexivity|].
    simpl. destruct (ka =? r_name r); reflexivity.
  Qed.

  Definition content (kw : kwargs) : list (aid * aval) :=
    flat_map (fun p => if is_unknown cur M (fst p)
                       then match snd p with Some v => [(fst p, v)] | None => [] end
                       else []) kw.

  Lemma content_assoc_del a kw : is_unknown cur M a = false -> content (assoc_del a kw) = content kw.
  Proof.
    intro U. unfold content. induction kw as [|[k v] t IH]; [reflexivity|].
    simpl assoc_del. destruct (k =? a) eqn:E.
    - apply Nat.eqb_eq in E. subst k. cbn [flat_map fst]. rewrite U. exact IH.
    - cbn [flat_map]. rewrite IH. reflexivity.
  Qed.

  Lemma psel_known p a : psel p a = true -> is_unknown cur M a = false.
  Proof.
    unfold psel, is_unknown. destruct (find_attr a (m_attrs M)) as [ir|]; [|discriminate].
    simpl q_drop_noninit_ovf. intro H. apply andb_prop in H. destruct H as [H H3].
    apply andb_prop in H. destruct H as [_ H2]. rewrite H2. simpl.
    destruct (opt_eqb (m_ovf M) a); [discriminate | reflexivity].
  Qed.

  Lemma kdel_fold p kw0 L : forall kwc,
    (forall b, psel p b = false ->
               assoc b (fold_left (fun kw pr => kdel p kw0 (r_name pr) kw) L kwc) = assoc b kwc)
    /\ content (fold_left (fun kw pr => kdel p kw0 (r_name pr) kw) L kwc) = content kwc.
  Proof.
    induction L as [|pr t IH]; intro kwc; [split; reflexivity|].
    cbn [fold_left]. destruct (IH (kdel p kw0 (r_name pr) kwc)) as [I1 I2]. split.
    - intros b Hb. rewrite I1 by exact Hb. unfold kdel.
      destruct (psel p (r_name pr)) eqn:P; simpl; [|reflexivity].
      destruct (opt_is (kw_get (r_name pr) kw0)); [|reflexivity].
      apply assoc_del_other. intro E. subst b. congruence.
    - rewrite I2. unfold kdel.
      destruct (psel p (r_name pr)) eqn:P; simpl; [|reflexivity].
      destruct (opt_is (kw_get (r_name pr) kw0)); [|reflexivity].
      apply content_assoc_del. apply (psel_known p). exact P.
  Qed.

  Lemma wrapper_pkw pm p kw0 ph :
    (forall pr, In pr (m_attrs pm) -> psel p (r_name pr) = true ->
                opt_is (m_ovf pm) = true \/ opt_eqb (m_key pm) (r_name pr) = true
                \/ memb (r_name pr) (valid_kwargs pm) = true) ->
    (ph = [] \/ exists ka, ph = [(ka, None)] /\ m_key pm = Some ka) ->
    wrapper_ok pm (flat_map (fun pr => pentry p kw0 (r_name pr)) (m_attrs pm) ++ ph) = true.
  Proof.
    intros V PH. unfold wrapper_ok. destruct (opt_is (m_ovf pm)) eqn:O; [reflexivity|]. simpl.
    apply forallb_forall. intros x Hx. apply in_app_iff in Hx. destruct Hx as [Hx|Hx].
    - apply in_flat_map in Hx. destruct Hx as [pr [Hp Hx]].
      apply pentry_names in Hx. destruct Hx as [E P]. destruct x as [xa xv]. simpl in E. subst xa. simpl fst.
      destruct (V pr Hp P) as [H|[H|H]]; [congruence | rewrite H; reflexivity | rewrite H; apply orb_true_r].
    - destruct PH as [PH|[ka [PH K]]]; subst ph; [contradiction|].
      destruct Hx as [Hx|[]]. subst x. simpl fst. rewrite K. simpl. rewrite Nat.eqb_refl. reflexivity.
  Qed.
  Lemma fold_left_ext {A B} (f g : A -> B -> A) l : forall a,
    (forall x y, f x y = g x y) -> fold_left f l a = fold_left g l a.
  Proof. induction l as [|x t IH]; intros a H; simpl; [reflexivity|]. rewrite H. apply IH. exact H. Qed.

  Lemma find_cls_ks l1 pc l2 : ks = l1 ++ pc :: l2 ->
    find_cls (k_id pc) (rch ks) = Some (rone pc (rch l2)).
  Proof. intro E. rewrite E. apply find_cls_rch. rewrite <- E. exact C. Qed.

  Lemma call_parent_gen l1 pc l2 d pkw s :
    ks = l1 ++ pc :: l2 -> k_hinit pc = None -> k_deco pc = Some d ->
    call_parent_init (rch ks) M (rone pc (rch l2)) pkw s
    = if negb (wrapper_ok (boot pc d (rch l2)) pkw) then Err TypeErr
      else own_loop (rch ks) M (k_id pc) pkw s.
  Proof.
    intros E NH D. unfold call_parent_init. cbn [rc_mro rone first_some].
    rewrite (find_cls_ks l1 pc l2 E). cbn [rc_init rone]. rewrite NH, D. cbn [rc_meta rone].
    rewrite D. unfold gen_init_inner. cbn [rc_id rone]. reflexivity.
  Qed.

  Lemma owner_step_gen pc d0 hc :
    is_spec pc = true -> k_hinit pc = None ->
    owner_step ks false kw1 (Ok (d0, hc)) pc
    = match fold_left spec_step (filter (sel (k_id pc)) (managed ks)) (Ok d0) with
      | Ok d' => Ok (d', hc) | Err e => Err e end.
  Proof. intros S NH. unfold owner_step. rewrite S, NH. reflexivity. Qed.

  Lemma valid_cond l1 pc l2 d pr :
    ks = l1 ++ pc :: l2 -> k_deco pc = Some d ->
    In pr (m_attrs (boot pc d (rch l2))) -> psel (k_id pc) (r_name pr) = true ->
    opt_is (m_ovf (boot pc d (rch l2))) = true
    \/ opt_eqb (m_key (boot pc d (rch l2))) (r_name pr) = true
    \/ memb (r_name pr) (valid_kwargs (boot pc d (rch l2))) = true.
  Proof.
    intros E D Hp P. set (pm := boot pc d (rch l2)) in *.
    assert (C2 : chain (pc :: l2)) by (apply (chain_app_r l1); rewrite <- E; exact C).
    assert (W2 : wfc (pc :: l2)) by (apply (wfc_app_r l1); rewrite <- E; exact W).
    pose proof (InvO_chain _ C2 W2) as I2. unfold InvO in I2.
    rewrite (nearest_meta_rch_spec pc d l2 D) in I2. fold pm in I2. simpl mattrs in I2.
    destruct I2 as [_ [_ [_ IA]]]. destruct (IA pr Hp) as [_ [N2 _]].
    unfold psel in P. destruct (find_attr (r_name pr) (m_attrs M)) as [ir|] eqn:F; [|discriminate].
    apply find_attr_Some in F. destruct F as [Fi Fn].
    apply andb_prop in P. destruct P as [P P3]. apply andb_prop in P. destruct P as [P1 P2].
    apply Nat.eqb_eq in P1.
    destruct (M_attr ir Fi) as [_ [N1 [O1 _]]]. rewrite Fn in N1, O1. rewrite P1 in O1.
    assert (EI : init_of (pc :: l2) (r_name pr) = init_of ks (r_name pr)).
    { unfold init_of. rewrite E. rewrite (owner_cls_suffix l1 (pc :: l2) (r_name pr) (k_id pc)).
      - reflexivity.
      - rewrite <- E. exact C.
      - rewrite <- E. exact O1.
      - left. reflexivity. }
    assert (RI : r_init pr = true) by (rewrite N2, EI, <- N1; exact P2).
    destruct (opt_is (m_ovf pm)) eqn:OV; [left; reflexivity|]. right.
    destruct (opt_eqb (m_key pm) (r_name pr)) eqn:K; [left; reflexivity|]. right.
    apply memb_In. unfold valid_kwargs. apply in_map. apply filter_In. split; [exact Hp|].
    rewrite RI, K. destruct (m_ovf pm); [discriminate | reflexivity].
  Qed.

  Lemma parent_step_sim l1 pc l2 kwm s :
    ks = l1 ++ pc :: l2 -> k_hinit pc = None ->
    (forall r, In r (m_attrs M) -> sel (k_id pc) (r_name r) = true ->
               kw_get (r_name r) kwm = assoc (r_name r) kw1) ->
    exists kw',
      parent_step cur (rch ks) M (Ok (kwm, s)) (k_id pc)
      = match owner_step ks false kw1 (Ok (s_dict s, s_hand s)) pc with
        | Ok (d, hc) => Ok (kw', mkst d (s_post s) hc)
        | Err e => Err e end
      /\ (forall b, psel (k_id pc) b = false -> assoc b kw' = assoc b kwm)
      /\ content kw' = content kwm.
  Proof.
    intros E NH HK. unfold parent_step. rewrite (find_cls_ks l1 pc l2 E).
    cbn [q_plain_parent cur rc_meta rone].
    destruct (k_deco pc) as [d|] eqn:D.
    - (* spec parent *)
      set (pm := boot pc d (rch l2)).
      assert (C2 : chain (pc :: l2)) by (apply (chain_app_r l1); rewrite <- E; exact C).
      assert (W2 : wfc (pc :: l2)) by (apply (wfc_app_r l1); rewrite <- E; exact W).
      pose proof (InvO_chain _ C2 W2) as I2. unfold InvO in I2.
      rewrite (nearest_meta_rch_spec pc d l2 D) in I2. fold pm in I2. simpl mattrs in I2.
      destruct I2 as [_ [_ [N2 _]]].
      change (map r_name (m_attrs pm) = managed (pc :: l2)) in N2.
      set (X := flat_map (fun pr => pentry (k_id pc) kwm (r_name pr)) (m_attrs pm)).
      set (kw' := fold_left (fun kw pr => kdel (k_id pc) kwm (r_name pr) kw) (m_attrs pm) kwm).
      exists kw'.
      destruct (kdel_fold (k_id pc) kwm (m_attrs pm) kwm) as [K1 K2]. fold kw' in K1, K2.
      split; [|split; [exact K1 | exact K2]].
      (* the inner loop *)
      match goal with
      | |- context [fold_left ?f (m_attrs pm) ?a] =>
          assert (IF : fold_left f (m_attrs pm) a = Ok (X, kw'))
      end.
      { etransitivity;
          [apply fold_left_ext with (g := inner_step (k_id pc)); intros [[? ?]|?] ?; reflexivity|].
        apply (inner_fold (k_id pc) kwm (m_attrs pm) [] kwm).
        + rewrite N2. unfold managed, managed_l. apply NoDup_nodup_first.
        + intros pr Hp. rewrite E. apply managed_suffix. rewrite <- N2. apply in_map. exact Hp.
        + intros; reflexivity. }
      rewrite IF.
      + set (ph := (match m_key pm with
                    | Some ka => if has ka X then [] else [(ka, None)]
                    | None => [] end : kwargs)).
        assert (EP : match m_key pm with
                     | Some ka => if has ka X then X else X ++ [(ka, None)]
                     | None => X end = X ++ ph).
        { unfold ph. destruct (m_key pm) as [ka|]; [destruct (has ka X)|]; rewrite ?app_nil_r; reflexivity. }
        rewrite EP. rewrite (call_parent_gen l1 pc l2 d (X ++ ph) s E NH D). fold pm.
        assert (WO : wrapper_ok pm (X ++ ph) = true).
        { apply wrapper_pkw.
          - intros pr Hp P. apply (valid_cond l1 pc l2 d pr E D Hp P).
          - unfold ph. destruct (m_key pm) as [ka|]; [|left; reflexivity].
            destruct (has ka X); [left; reflexivity|]. right. exists ka. split; reflexivity. }
        rewrite WO. simpl negb. cbv iota.
        rewrite own_loop_sim.
        * rewrite (owner_step_gen pc (s_dict s) (s_hand s) (is_spec_deco pc d D) NH).
          destruct (fold_left spec_step (filter (sel (k_id pc)) (managed ks)) (Ok (s_dict s))); reflexivity.
        * intros r Hr S. unfold X. rewrite (pkw_value (k_id pc) kwm (m_attrs pm) ph r Hr S).
          -- apply value_sim; [exact Hr | apply HK; assumption].
          -- rewrite N2. destruct (M_attr r Hr) as [_ [_ [O _]]].
             unfold sel in S. apply andb_prop in S. destruct S as [S1 S2].
             destruct (owner ks (r_name r)) as [o|] eqn:OO; [|discriminate]. simpl in S1.
             apply Nat.eqb_eq in S1. subst o.
             apply (managed_owned_suffix l1 pc l2); [rewrite <- E; exact C | | rewrite <- E; exact OO].
             rewrite <- E, <- M_names. apply in_map. exact Hr.
          -- unfold is_ph, ph. destruct (m_key pm) as [ka|]; [|left; reflexivity].
             destruct (has ka X); [left; reflexivity | right; exists ka; reflexivity].
    - (* plain class: not a parent of the loop *)
      exists kwm. split; [|split; reflexivity].
      unfold owner_step. rewrite (is_spec_none pc D). simpl. destruct s; reflexivity.
  Qed.
  (* ---- a hand-written parent constructor *)
  Lemma has_assoc_rel (X : kwargs) (pkw : list (aid * aval)) :
    (forall a, assoc a X = option_map Some (assoc a pkw)) -> forall a, has a X = has a pkw.
  Proof. intros R a. unfold has. rewrite R. destruct (assoc a pkw); reflexivity. Qed.

  Lemma forallb_same_names (f : aid -> bool) (X : kwargs) (pkw : list (aid * aval)) :
    (forall a, has a X = has a pkw) ->
    forallb (fun p => f (fst p)) X = forallb (fun p => f (fst p)) pkw.
  Proof.
    intro H.
    assert (D1 : forallb (fun p : aid * option aval => f (fst p)) X = true ->
                 forallb (fun p : aid * aval => f (fst p)) pkw = true).
    { intro A. apply forallb_forall. intros [a v] Hp. simpl.
      assert (Ha : has a pkw = true) by (apply has_In; apply in_map_iff; exists (a, v); split; [reflexivity | exact Hp]).
      rewrite <- H in Ha. apply has_In in Ha. apply in_map_iff in Ha. destruct Ha as [[a' v'] [E Hq]].
      simpl in E. subst a'. rewrite forallb_forall in A. apply (A (a, v') Hq). }
    assert (D2 : forallb (fun p : aid * aval => f (fst p)) pkw = true ->
                 forallb (fun p : aid * option aval => f (fst p)) X = true).
    { intro A. apply forallb_forall. intros [a v] Hp. simpl.
      assert (Ha : has a X = true) by (apply has_In; apply in_map_iff; exists (a, v); split; [reflexivity | exact Hp]).
      rewrite H in Ha. apply has_In in Ha. apply in_map_iff in Ha. destruct Ha as [[a' v'] [E Hq]].
      simpl in E. subst a'. rewrite forallb_forall in A. apply (A (a, v') Hq). }
    destruct (forallb (fun p : aid * option aval => f (fst p)) X) eqn:A;
      destruct (forallb (fun p : aid * aval => f (fst p)) pkw) eqn:B; try reflexivity.
    - symmetry. apply D1. reflexivity.
    - apply D2. reflexivity.
  Qed.

  Definition hand_mstep (h : hinit) (acc : res st) (p : aid * option aval) : res st :=
    match acc with
    | Err e => Err e
    | Ok s =>
        let f := match assoc (fst p) (h_tr h) with Some f => f | None => FId end in
        match snd p with
        | Some v => match apply_fn f v with
                    | Ok v' => set_attr M (fst p) (Some v') s
                    | Err e => Err e end
        | None => match f with
                  | FId => set_attr M (fst p) None s
                  | FConst v' => set_attr M (fst p) (Some v') s
                  | _ => Err TypeErr
                  end
        end
    end.

  Definition hand_sstep (h : hinit) (acc : res (list (aid * aval))) (p : aid * aval)
    : res (list (aid * aval)) :=
    match acc with
    | Err e => Err e
    | Ok d =>
        match apply_fn (match assoc (fst p) (h_tr h) with Some f => f | None => FId end) (snd p) with
        | Ok v => assign ks (fst p) v d
        | Err e => Err e
        end
    end.

  Lemma hand_fold h L : forall s,
    fold_left (hand_mstep h) (map (fun p => (fst p, Some (snd p))) L) (Ok s)
    = lift (fold_left (hand_sstep h) L (Ok (s_dict s))) s.
  Proof.
    induction L as [|[a v] t IH]; intro s; [destruct s; reflexivity|].
    cbn [map fold_left fst snd hand_mstep hand_sstep].
    destruct (apply_fn (match assoc a (h_tr h) with Some f => f | None => FId end) v) as [v'|e].
    - rewrite set_attr_assign. destruct (assign ks a v' (s_dict s)) as [d|e]; simpl.
      + rewrite (IH (mkst d (s_post s) (s_hand s))). reflexivity.
      + rewrite !fold_err by reflexivity. reflexivity.
    - rewrite !fold_err by reflexivity. reflexivity.
  Qed.

  Definition hm_core (h : hinit) (c : cid) (vals : list (aid * option aval)) (s : st) : res st :=
    match fold_left (hand_mstep h) vals (Ok s) with
    | Err e => Err e
    | Ok s' =>
        Ok (mkst (assoc_set A_EXTRA
                            (AList (map (fun p : aid * option aval =>
                                           match snd p with Some v => v | None => ANone end) vals))
                            (s_dict s'))
                 (s_post s') (s_hand s' ++ [c]))
    end.

  Definition hs_core (h : hinit) (vals : list (aid * aval)) (d : list (aid * aval))
    : res (list (aid * aval)) :=
    match fold_left (hand_sstep h) vals (Ok d) with
    | Err e => Err e
    | Ok d' => Ok (assoc_set A_EXTRA (AList (map snd vals)) d')
    end.

  Lemma run_hinit_hand c h (X : kwargs) pkw s :
    (forall a, assoc a X = option_map Some (assoc a pkw)) ->
    run_hinit M c h X s
    = match hand_call ks h pkw (s_dict s) with
      | Ok d' => Ok (mkst d' (s_post s) (s_hand s ++ [c]))
      | Err e => Err e end.
  Proof.
    intro R.
    change (run_hinit M c h X s)
      with (if negb (forallb (fun p : aid * option aval => has (fst p) (h_params h)) X) then Err TypeErr
            else hm_core h c (map (fun p : aid * aval =>
                                     (fst p, match assoc (fst p) X with
                                             | Some v => v | None => Some (snd p) end)) (h_params h)) s).
    change (hand_call ks h pkw (s_dict s))
      with (if negb (forallb (fun p : aid * aval => has (fst p) (h_params h)) pkw) then Err TypeErr
            else hs_core h (map (fun p : aid * aval =>
                                   (fst p, match assoc (fst p) pkw with
                                           | Some v => v | None => snd p end)) (h_params h)) (s_dict s)).
    rewrite (forallb_same_names (fun a => has a (h_params h)) X pkw (has_assoc_rel X pkw R)).
    destruct (negb (forallb (fun p : aid * aval => has (fst p) (h_params h)) pkw)); [reflexivity|].
    set (L := map (fun p : aid * aval => (fst p, match assoc (fst p) pkw with Some v => v | None => snd p end))
                  (h_params h)).
    assert (EV : map (fun p : aid * aval => (fst p, match assoc (fst p) X with
                                                    | Some v => v | None => Some (snd p) end)) (h_params h)
                 = map (fun p : aid * aval => (fst p, Some (snd p))) L).
    { unfold L. rewrite map_map. apply map_ext. intros [a v]. simpl. rewrite R.
      destruct (assoc a pkw); reflexivity. }
    rewrite EV. unfold hm_core, hs_core. rewrite hand_fold.
    destruct (fold_left (hand_sstep h) L (Ok (s_dict s))) as [d|e]; [|reflexivity].
    cbn [lift s_dict s_post s_hand]. rewrite map_map. cbn [snd]. reflexivity.
  Qed.

  Lemma call_parent_hand l1 pc l2 h pkw s :
    ks = l1 ++ pc :: l2 -> k_hinit pc = Some h ->
    call_parent_init (rch ks) M (rone pc (rch l2)) pkw s = run_hinit M (k_id pc) h pkw s.
  Proof.
    intros E NH. unfold call_parent_init. cbn [rc_mro rone first_some].
    rewrite (find_cls_ks l1 pc l2 E). cbn [rc_init rone]. rewrite NH. reflexivity.
  Qed.

  Lemma owner_step_hand pc h d0 hc :
    is_spec pc = true -> k_hinit pc = Some h ->
    owner_step ks false kw1 (Ok (d0, hc)) pc
    = match hand_call ks h
              (flat_map (fun a => match value_of ks kw1 a with Some v => [(a, v)] | None => [] end)
                        (filter (sel (k_id pc)) (managed ks))) d0 with
      | Ok d' => Ok (d', hc ++ [k_id pc]) | Err e => Err e end.
  Proof. intros S NH. unfold owner_step. rewrite S, NH. reflexivity. Qed.

  Lemma assoc_values (f : aid -> option aval) L a :
    assoc a (flat_map (fun x => match f x with Some v => [(x, v)] | None => [] end) L)
    = if memb a L then f a else None.
  Proof.
    induction L as [|x t IH]; [reflexivity|]. cbn [flat_map]. rewrite assoc_app.
    change (memb a (x :: t)) with ((a =? x) || memb a t).
    destruct (a =? x) eqn:E.
    - apply Nat.eqb_eq in E. subst x. simpl orb. destruct (f a) as [v|].
      + simpl. rewrite Nat.eqb_refl. reflexivity.
      + simpl. rewrite IH. destruct (memb a t); reflexivity.
    - simpl orb. destruct (f x) as [v|].
      + simpl. rewrite Nat.eqb_sym, E. exact IH.
      + simpl. exact IH.
  Qed.

  Lemma parent_step_sim_hand l1 pc l2 d h kwm s :
    ks = l1 ++ pc :: l2 -> k_deco pc = Some d -> k_hinit pc = Some h -> key_of (pc :: l2) = None ->
    (forall r, In r (m_attrs M) -> sel (k_id pc) (r_name r) = true ->
               kw_get (r_name r) kwm = assoc (r_name r) kw1) ->
    exists kw',
      parent_step cur (rch ks) M (Ok (kwm, s)) (k_id pc)
      = match owner_step ks false kw1 (Ok (s_dict s, s_hand s)) pc with
        | Ok (d, hc) => Ok (kw', mkst d (s_post s) hc)
        | Err e => Err e end
      /\ (forall b, psel (k_id pc) b = false -> assoc b kw' = assoc b kwm)
      /\ content kw' = content kwm.
  Proof.
    intros E D NH KN HK. unfold parent_step. rewrite (find_cls_ks l1 pc l2 E).
    cbn [q_plain_parent cur rc_meta rone]. rewrite D.
    set (pm := boot pc d (rch l2)).
    assert (C2 : chain (pc :: l2)) by (apply (chain_app_r l1); rewrite <- E; exact C).
    assert (W2 : wfc (pc :: l2)) by (apply (wfc_app_r l1); rewrite <- E; exact W).
    pose proof (InvO_chain _ C2 W2) as I2. unfold InvO in I2.
    rewrite (nearest_meta_rch_spec pc d l2 D) in I2. fold pm in I2. simpl mattrs in I2.
    destruct I2 as [K2' [_ [N2 _]]].
    change (m_key pm = key_of (pc :: l2)) in K2'. rewrite KN in K2'.
    change (map r_name (m_attrs pm) = managed (pc :: l2)) in N2.
    set (X := flat_map (fun pr => pentry (k_id pc) kwm (r_name pr)) (m_attrs pm)).
    set (kw' := fold_left (fun kw pr => kdel (k_id pc) kwm (r_name pr) kw) (m_attrs pm) kwm).
    exists kw'.
    destruct (kdel_fold (k_id pc) kwm (m_attrs pm) kwm) as [K1 K2]. fold kw' in K1, K2.
    split; [|split; [exact K1 | exact K2]].
    match goal with
    | |- context [fold_left ?f (m_attrs pm) ?a] =>
        assert (IF : fold_left f (m_attrs pm) a = Ok (X, kw'))
    end.
    { etransitivity;
        [apply fold_left_ext with (g := inner_step (k_id pc)); intros [[? ?]|?] ?; reflexivity|].
      apply (inner_fold (k_id pc) kwm (m_attrs pm) [] kwm).
      + rewrite N2. unfold managed, managed_l. apply NoDup_nodup_first.
      + intros pr Hp. rewrite E. apply managed_suffix. rewrite <- N2. apply in_map. exact Hp.
      + intros; reflexivity. }
    rewrite IF. rewrite K2'.
    rewrite (call_parent_hand l1 pc l2 h X s E NH).
    rewrite (owner_step_hand pc h (s_dict s) (s_hand s) (is_spec_deco pc d D) NH).
    rewrite (run_hinit_hand (k_id pc) h X
               (flat_map (fun a => match value_of ks kw1 a with Some v => [(a, v)] | None => [] end)
                         (filter (sel (k_id pc)) (managed ks))) s).
    - destruct (hand_call ks h _ (s_dict s)); reflexivity.
    - intro a. unfold X. rewrite assoc_pentries, (assoc_values (value_of ks kw1)).
      destruct (memb a (managed ks)) eqn:Hm.
      + apply memb_In in Hm. rewrite <- M_names in Hm. apply in_map_iff in Hm.
        destruct Hm as [r [Fn Fi]]. subst a.
        destruct (sel (k_id pc) (r_name r)) eqn:S.
        * assert (Hf : memb (r_name r) (filter (sel (k_id pc)) (managed ks)) = true).
          { apply memb_In. apply filter_In. split; [rewrite <- M_names; apply in_map; exact Fi | exact S]. }
          rewrite Hf.
          assert (Hn : memb (r_name r) (map r_name (m_attrs pm)) = true).
          { apply memb_In. rewrite N2.
            pose proof S as S'. unfold sel in S'. apply andb_prop in S'. destruct S' as [S1 _].
            destruct (owner ks (r_name r)) as [o|] eqn:OO; [|discriminate]. simpl in S1.
            apply Nat.eqb_eq in S1. subst o.
            apply (managed_owned_suffix l1 pc l2); [rewrite <- E; exact C | | rewrite <- E; exact OO].
            rewrite <- E, <- M_names. apply in_map. exact Fi. }
          rewrite Hn. unfold pentry. rewrite (psel_sel (k_id pc) r Fi), S, (M_find r Fi).
          rewrite <- (value_sim r kwm Fi (HK r Fi S)).
          destruct (kw_get (r_name r) kwm) as [v|]; [simpl; rewrite Nat.eqb_refl; reflexivity|].
          destruct (lookup_default (rch ks) r) as [dv|]; [simpl; rewrite Nat.eqb_refl; reflexivity | reflexivity].
        * assert (Hf : memb (r_name r) (filter (sel (k_id pc)) (managed ks)) = false).
          { apply memb_false. intro H. apply filter_In in H. destruct H as [_ H]. congruence. }
          rewrite Hf. unfold pentry. rewrite (psel_sel (k_id pc) r Fi), S.
          destruct (memb (r_name r) (map r_name (m_attrs pm))); reflexivity.
      + assert (Hf : memb a (filter (sel (k_id pc)) (managed ks)) = false).
        { apply memb_false. intro H. apply filter_In in H. destruct H as [H _].
          apply (proj2 (memb_In _ _)) in H. congruence. }
        rewrite Hf. unfold pentry, psel.
        assert (F : find_attr a (m_attrs M) = None) by (apply M_find_managed; apply memb_false; exact Hm).
        rewrite F. destruct (memb a (map r_name (m_attrs pm))); reflexivity.
  Qed.

  (* ---- the whole parent loop *)
  Definition hand_ok (pc : cdesc) (l2 : list cdesc) : Prop :=
    k_hinit pc = None \/ (is_spec pc = true /\ key_of (pc :: l2) = None).

  Definition in_ks (pc : cdesc) : Prop := exists l1 l2, ks = l1 ++ pc :: l2 /\ hand_ok pc l2.

  (* every class of l has a generated constructor, or is a spec class with a hand-written one
     and no key in force *)
  Fixpoint hand_guard (l : list cdesc) : Prop :=
    match l with
    | [] => True
    | k :: t => hand_ok k t /\ hand_guard t
    end.

  Lemma hand_guard_split a pc b : hand_guard (a ++ pc :: b) -> hand_ok pc b.
  Proof. induction a as [|x t IH]; simpl; intros [H1 H2]; [exact H1 | apply IH; exact H2]. Qed.

  Lemma sel_unique r p1 p2 : In r (m_attrs M) ->
    sel p1 (r_name r) = true -> sel p2 (r_name r) = true -> p1 = p2.
  Proof.
    intros H S1 S2. rewrite (sel_attr r p1 H) in S1. rewrite (sel_attr r p2 H) in S2.
    apply andb_prop in S1. destruct S1 as [S1 _]. apply andb_prop in S1. destruct S1 as [S1 _].
    apply andb_prop in S2. destruct S2 as [S2 _]. apply andb_prop in S2. destruct S2 as [S2 _].
    apply Nat.eqb_eq in S1, S2. congruence.
  Qed.

  Lemma parents_fold PL : forall kwm s,
    NoDup (map k_id PL) -> (forall pc, In pc PL -> in_ks pc) ->
    (forall pc r, In pc PL -> In r (m_attrs M) -> sel (k_id pc) (r_name r) = true ->
                  kw_get (r_name r) kwm = assoc (r_name r) kw1) ->
    exists kw',
      fold_left (parent_step cur (rch ks) M) (map k_id PL) (Ok (kwm, s))
      = match fold_left (owner_step ks false kw1) PL (Ok (s_dict s, s_hand s)) with
        | Ok (d, hc) => Ok (kw', mkst d (s_post s) hc)
        | Err e => Err e end
      /\ (forall r, In r (m_attrs M) -> (forall pc, In pc PL -> sel (k_id pc) (r_name r) = false) ->
                    assoc (r_name r) kw' = assoc (r_name r) kwm)
      /\ content kw' = content kwm.
  Proof.
    induction PL as [|pc t IH]; intros kwm s ND HI HK.
    - exists kwm. simpl. destruct s. repeat split; reflexivity.
    - inversion ND as [|? ? Hx NDt]; subst.
      destruct (HI pc (or_introl eq_refl)) as [l1 [l2 [E HO]]].
      assert (HKpc : forall r, In r (m_attrs M) -> sel (k_id pc) (r_name r) = true ->
                               kw_get (r_name r) kwm = assoc (r_name r) kw1).
      { intros r Hr S. apply (HK pc r); [left; reflexivity | exact Hr | exact S]. }
      assert (PS : exists kw',
                 parent_step cur (rch ks) M (Ok (kwm, s)) (k_id pc)
                 = match owner_step ks false kw1 (Ok (s_dict s, s_hand s)) pc with
                   | Ok (d, hc) => Ok (kw', mkst d (s_post s) hc)
                   | Err e => Err e end
                 /\ (forall b, psel (k_id pc) b = false -> assoc b kw' = assoc b kwm)
                 /\ content kw' = content kwm).
      { unfold hand_ok in HO. destruct (k_hinit pc) as [h|] eqn:NH.
        - destruct HO as [HO|[HS HKN]]; [discriminate|].
          unfold is_spec in HS. destruct (k_deco pc) as [d|] eqn:D; [|discriminate].
          apply (parent_step_sim_hand l1 pc l2 d h kwm s E D NH HKN HKpc).
        - apply (parent_step_sim l1 pc l2 kwm s E NH HKpc). }
      destruct PS as [kwA [EA [KA CA]]].
      cbn [map fold_left]. rewrite EA.
      destruct (owner_step ks false kw1 (Ok (s_dict s, s_hand s)) pc) as [[d hc]|e] eqn:OS.
      + destruct (IH kwA (mkst d (s_post s) hc) NDt) as [kwB [EB [KB CB]]].
        * intros x Hx'. apply HI. right. exact Hx'.
        * intros pc' r Hp Hr S. unfold kw_get. rewrite KA.
          -- apply (HK pc' r); [right; exact Hp | exact Hr | exact S].
          -- rewrite (psel_sel (k_id pc) r Hr). destruct (sel (k_id pc) (r_name r)) eqn:S0; [|reflexivity].
             exfalso. apply Hx. rewrite (sel_unique r _ _ Hr S0 S). apply in_map. exact Hp.
        * exists kwB. split; [exact EB|]. split.
          -- intros r Hr HS. rewrite (KB r Hr) by (intros x Hx'; apply HS; right; exact Hx').
             apply KA. rewrite (psel_sel (k_id pc) r Hr). apply HS. left. reflexivity.
          -- rewrite CB. exact CA.
      + exists kwm. split; [|split; reflexivity].
        rewrite !fold_err; try reflexivity.
  Qed.
  (* ---- the top-level call of InitMethod.init *)
  Lemma unknown_accepted a : is_unknown cur M a = negb (accepted ks a).
  Proof.
    unfold is_unknown, accepted. simpl q_drop_noninit_ovf.
    destruct M_inv as [_ [OV _]].
    destruct (find_attr a (m_attrs M)) as [r|] eqn:F.
    - apply find_attr_Some in F. destruct F as [Fi Fn].
      destruct (M_attr r Fi) as [_ [N _]]. rewrite Fn in N.
      assert (Hm : memb a (managed ks) = true).
      { apply memb_In. rewrite <- M_names, <- Fn. apply in_map. exact Fi. }
      rewrite Hm, <- N, <- OV. simpl. destruct (r_init r); destruct (opt_eqb (m_ovf M) a); reflexivity.
    - apply M_find_managed in F. apply memb_false in F. rewrite F. reflexivity.
  Qed.

  Definition wrap (kw : list (aid * aval)) : kwargs := map (fun p => (fst p, Some (snd p))) kw.

  Definition ph_ok (ph : kwargs) : Prop :=
    ph = [] \/ exists ka, ph = [(ka, None)] /\ assoc ka kw1 = None.

  Lemma assoc_wrap a kw : assoc a (wrap kw) = option_map Some (assoc a kw).
  Proof. unfold wrap. apply (assoc_map_snd Some). Qed.

  Lemma kw_get_wrap ph a : ph_ok ph -> kw_get a (ph ++ wrap kw1) = assoc a kw1.
  Proof.
    intros [H|[ka [H K]]]; subst ph; unfold kw_get.
    - simpl. rewrite assoc_wrap. destruct (assoc a kw1); reflexivity.
    - simpl. destruct (ka =? a) eqn:E.
      + apply Nat.eqb_eq in E. subst. rewrite K. reflexivity.
      + rewrite assoc_wrap. destruct (assoc a kw1); reflexivity.
  Qed.

  Lemma content_wrap_all kw :
    content (wrap kw) = filter (fun p => negb (accepted ks (fst p))) kw.
  Proof.
    unfold content, wrap. induction kw as [|[a v] t IH]; [reflexivity|].
    cbn [map flat_map fst snd filter]. rewrite unknown_accepted.
    destruct (accepted ks a); simpl; [exact IH | f_equal; exact IH].
  Qed.

  Lemma content_wrap ph : ph_ok ph ->
    content (ph ++ wrap kw1) = filter (fun p => negb (accepted ks (fst p))) kw1.
  Proof.
    intro H. assert (E : content (ph ++ wrap kw1) = content (wrap kw1)).
    { destruct H as [H|[ka [H _]]]; subst ph; [reflexivity|].
      unfold content. simpl. destruct (is_unknown cur M ka); reflexivity. }
    rewrite E. apply content_wrap_all.
  Qed.

  Lemma first_post_rch l :
    first_some (fun r => if rc_post r then Some (rc_id r) else None) (rch l)
    = match find k_post l with Some k => Some (k_id k) | None => None end.
  Proof.
    induction l as [|k t IH]; [reflexivity|]. simpl. destruct (k_post k); [reflexivity | exact IH].
  Qed.

  Lemma owner_step_top pc d0 hc :
    is_spec pc = true ->
    owner_step ks true kw1 (Ok (d0, hc)) pc
    = match fold_left spec_step (filter (sel (k_id pc)) (managed ks)) (Ok d0) with
      | Ok d' => Ok (d', hc) | Err e => Err e end.
  Proof. intro S. unfold owner_step. rewrite S. reflexivity. Qed.

  Lemma init_top_sim pre m t' d ph :
    ks = pre ++ m :: t' -> k_deco m = Some d -> hand_guard t' ->
    ph_ok ph ->
    init_top cur (rch ks) M (rone m (rch t')) (ph ++ wrap kw1) (mkst [] [] [])
    = match fold_left (owner_step ks false kw1) (rev t') (Ok ([], [])) with
      | Err e => Err e
      | Ok dh =>
          match owner_step ks true kw1 (Ok dh) m with
          | Err e => Err e
          | Ok (d1, hc) =>
              match (match ovf_of ks with
                     | Some o => assign ks o (ADict (filter (fun p => negb (accepted ks (fst p))) kw1)) d1
                     | None => Ok d1 end) with
              | Err e => Err e
              | Ok d2 => Ok (mkst d2 (map (fun c => (c, map fst d2)) (post_of ks)) hc)
              end
          end
      end.
  Proof.
    intros E D NH PH. unfold init_top.
    cbn [rc_mro rone tl rc_id]. rewrite rch_ids, <- map_rev.
    assert (CT : chain (m :: t')) by (apply (chain_app_r pre); rewrite <- E; exact C).
    destruct (parents_fold (rev t') (ph ++ wrap kw1) (mkst [] [] [])) as [kwF [EF [KF CF]]].
    { rewrite map_rev. apply NoDup_rev. apply chain_NoDup. exact (chain_tail _ _ CT). }
    { intros pc Hp. apply in_rev in Hp. apply in_split in Hp. destruct Hp as [a [b Hp]].
      exists (pre ++ m :: a), b. split.
      - rewrite E, Hp. rewrite <- app_assoc. reflexivity.
      - apply (hand_guard_split a pc b). rewrite <- Hp. exact NH. }
    { intros pc r _ _ _. apply kw_get_wrap. exact PH. }
    rewrite EF. cbn [s_dict s_hand s_post].
    destruct (fold_left (owner_step ks false kw1) (rev t') (Ok ([], []))) as [[d0 hc]|e]; [|reflexivity].
    rewrite (owner_step_top m d0 hc (is_spec_deco m d D)).
    rewrite own_loop_sim.
    - cbn [s_dict lift].
      destruct (fold_left spec_step (filter (sel (k_id m)) (managed ks)) (Ok d0)) as [d1|e]; [|reflexivity].
      cbn [lift s_post s_hand].
      destruct M_inv as [_ [OV _]]. rewrite OV.
      destruct (ovf_of ks) as [o|].
      + rewrite set_attr_assign. cbn [s_dict]. fold (content kwF). rewrite CF, (content_wrap ph PH).
        destruct (assign ks o _ d1) as [d2|e]; [|reflexivity].
        cbn [lift s_post s_hand s_dict]. simpl q_static_post. cbv iota.
        rewrite first_post_rch. unfold post_of. destruct (find k_post ks); reflexivity.
      + simpl q_static_post. cbv iota.
        rewrite first_post_rch. unfold post_of. destruct (find k_post ks); reflexivity.
    - intros r Hr S. apply value_sim; [exact Hr|]. unfold kw_get. rewrite (KF r Hr).
      + apply kw_get_wrap. exact PH.
      + intros pc Hp. destruct (sel (k_id pc) (r_name r)) eqn:S0; [|reflexivity].
        exfalso. pose proof (sel_unique r _ _ Hr S0 S) as EQ.
        destruct CT as [CT _]. apply CT. rewrite <- EQ. apply in_map. apply in_rev. exact Hp.
  Qed.
  (* ---- the generated wrapper: advertised keywords *)
  Lemma valid_accepted a :
    (forall k, key_of ks = Some k -> accepted ks k = true) ->
    opt_eqb (m_key M) a || memb a (valid_kwargs M) = accepted ks a.
  Proof.
    intro KG. destruct M_inv as [KE [OV _]].
    destruct (opt_eqb (m_key M) a) eqn:K.
    - simpl. rewrite KE in K. destruct (key_of ks) as [k|]; [|discriminate]. simpl in K.
      apply Nat.eqb_eq in K. subst a. symmetry. apply KG. reflexivity.
    - simpl. unfold accepted.
      destruct (memb a (managed ks)) eqn:Hm.
      + apply memb_In in Hm. rewrite <- M_names in Hm. apply in_map_iff in Hm.
        destruct Hm as [r [Fn Fi]]. destruct (M_attr r Fi) as [_ [N _]]. rewrite Fn in N.
        rewrite <- N, <- OV. simpl.
        destruct (r_init r && negb (opt_eqb (m_ovf M) a)) eqn:B.
        * apply memb_In. unfold valid_kwargs. rewrite <- Fn. apply in_map. apply filter_In.
          split; [exact Fi|]. rewrite Fn, K. apply andb_prop in B. destruct B as [B1 B2].
          rewrite B1, B2. reflexivity.
        * apply memb_false. unfold valid_kwargs. intro H. apply in_map_iff in H.
          destruct H as [r' [Fn' H]]. apply filter_In in H. destruct H as [Fi' H].
          assert (r' = r).
          { pose proof (M_find r Fi) as F1. pose proof (M_find r' Fi') as F2.
            rewrite Fn in F1. rewrite Fn' in F2. congruence. }
          subst r'. rewrite Fn, K in H. simpl in H. rewrite andb_true_r in H.
          congruence.
      + simpl. apply memb_false. unfold valid_kwargs. intro H. apply in_map_iff in H.
        destruct H as [r' [Fn' H]]. apply filter_In in H. destruct H as [Fi' _].
        apply memb_false in Hm. apply Hm. rewrite <- M_names, <- Fn'. apply in_map. exact Fi'.
  Qed.

  Lemma forallb_filter_nil {A} (f : A -> bool) l :
    forallb f l = match filter (fun x => negb (f x)) l with [] => true | _ => false end.
  Proof.
    induction l as [|x t IH]; [reflexivity|]. simpl. destruct (f x); simpl; [exact IH | reflexivity].
  Qed.

  Lemma forallb_map' {A B} (f : B -> bool) (g : A -> B) l :
    forallb f (map g l) = forallb (fun x => f (g x)) l.
  Proof. induction l as [|x t IH]; simpl; [reflexivity | rewrite IH; reflexivity]. Qed.

  Lemma forallb_ext' {A} (f g : A -> bool) l : (forall x, f x = g x) -> forallb f l = forallb g l.
  Proof. intro H. induction l as [|x t IH]; simpl; [reflexivity | rewrite H, IH; reflexivity]. Qed.

  Lemma wrapper_sim ph :
    (forall k, key_of ks = Some k -> accepted ks k = true) ->
    (ph = [] \/ exists ka, ph = [(ka, None)] /\ m_key M = Some ka) ->
    wrapper_ok M (ph ++ wrap kw1)
    = negb (negb (opt_is (ovf_of ks))
            && negb (match filter (fun p => negb (accepted ks (fst p))) kw1 with [] => true | _ => false end)).
  Proof.
    intros KG PH. unfold wrapper_ok. destruct M_inv as [_ [OV _]]. rewrite OV.
    destruct (opt_is (ovf_of ks)); [reflexivity|]. simpl. rewrite negb_involutive.
    rewrite forallb_app.
    match goal with |- context [forallb ?f ph] => assert (E1 : forallb f ph = true) end.
    { destruct PH as [PH|[ka [PH K]]]; subst ph; [reflexivity|]. simpl. rewrite K. simpl.
      rewrite Nat.eqb_refl. reflexivity. }
    etransitivity; [apply (f_equal2 andb E1 (eq_refl _))|].
    simpl andb. unfold wrap. rewrite forallb_map'. simpl fst.
    rewrite (forallb_ext' _ (fun p => accepted ks (fst p))) by (intro p; apply valid_accepted; exact KG).
    apply forallb_filter_nil.
  Qed.
End Sim.

(* ------------------------------------------------------------------ the constructor call on a chain *)
Definition out_of (r : res st) : res outcome :=
  match r with Ok s => Ok (mkout (s_dict s) (s_post s) (s_hand s)) | Err e => Err e end.

(* side conditions on the call: the key attribute is an initialisable attribute other than
   the overflow attribute, and - when the key is omitted - no plain class between the
   constructor's class and the nearest spec class that mentions the key gives a default to
   a key that has none there (the generated signature is fixed from that declaration) *)
Definition key_guard (ks : list cdesc) (pos : option aval) (kw : list (aid * aval)) : Prop :=
  forall k, key_of ks = Some k ->
    accepted ks k = true
    /\ (pos <> None \/ has k kw = true
        \/ opt_is (nearest_default (owner ks k) k (ms ks))
           = opt_is (nearest_default (owner ks k) k (built_from k ks))).

Lemma meta_anc_head_spec l m t : meta_anc l = m :: t -> is_spec m = true.
Proof.
  induction l as [|k l' IH]; [discriminate|]. simpl. destruct (is_spec k) eqn:S.
  - intro H. injection H as H _. subst. exact S.
  - exact IH.
Qed.

Lemma first_init_rch pre m t' d :
  (forall c, In c pre -> is_spec c = false /\ k_hinit c = None) ->
  k_deco m = Some d -> k_hinit m = None ->
  first_some (fun r => match rc_init r with Some i => Some (r, i) | None => None end)
             (rch (pre ++ m :: t')) = Some (rone m (rch t'), IGen).
Proof.
  intros P D NH. induction pre as [|c t IH].
  - simpl. rewrite NH, D. reflexivity.
  - simpl. destruct (P c (or_introl eq_refl)) as [S H]. rewrite H.
    unfold is_spec in S. destruct (k_deco c); [discriminate|].
    apply IH. intros x Hx. apply P. right. exact Hx.
Qed.

Lemma first_init_none pre :
  (forall c, In c pre -> is_spec c = false /\ k_hinit c = None) ->
  first_some (fun r => match rc_init r with Some i => Some (r, i) | None => None end) (rch pre) = None.
Proof.
  intro P. induction pre as [|c t IH]; [reflexivity|].
  simpl. destruct (P c (or_introl eq_refl)) as [S H]. rewrite H.
  unfold is_spec in S. destruct (k_deco c); [discriminate|].
  apply IH. intros x Hx. apply P. right. exact Hx.
Qed.

Lemma nearest_meta_prefix pre m t' d :
  (forall c, In c pre -> is_spec c = false) -> k_deco m = Some d ->
  nearest_meta (rch (pre ++ m :: t')) = Some (boot m d (rch t')).
Proof.
  intros P D. induction pre as [|c t IH].
  - apply nearest_meta_rch_spec. exact D.
  - simpl app. rewrite nearest_meta_rch_plain.
    + apply IH. intros x Hx. apply P. right. exact Hx.
    + pose proof (P c (or_introl eq_refl)) as S. unfold is_spec in S. destruct (k_deco c); [discriminate | reflexivity].
Qed.

Lemma has_wrap a kw : has a (wrap kw) = has a kw.
Proof. unfold has. rewrite assoc_wrap. destruct (assoc a kw); reflexivity. Qed.

Lemma accepted_find ks M a :
  map r_name (m_attrs M) = managed ks -> accepted ks a = true -> exists r, find_attr a (m_attrs M) = Some r.
Proof.
  intros N A. unfold accepted in A. apply andb_prop in A. destruct A as [A _].
  apply andb_prop in A. destruct A as [A _]. apply memb_In in A. rewrite <- N in A.
  destruct (find_attr a (m_attrs M)) as [r|] eqn:F; [exists r; reflexivity|].
  apply find_attr_None in F. contradiction.
Qed.

(* constructors along the chain: plain classes define none, the constructor's class has the
   generated one, its ancestors the generated one or a hand-written one with no key in force *)
Definition ctor_guard (ks : list cdesc) : Prop :=
  (forall c, In c ks -> is_spec c = false -> k_hinit c = None)
  /\ match ms ks with [] => True | m :: t' => k_hinit m = None /\ hand_guard t' end.

Theorem construct_chain ks pos kw :
  chain ks -> wfc ks -> ctor_guard ks ->
  key_guard ks pos kw ->
  out_of (construct_in cur (rch ks) pos kw) = expected_init ks pos kw.
Proof.
  intros C W [NP NG] KG.
  destruct (meta_anc_split ks) as [pre [E P]].
  assert (P' : forall c, In c pre -> is_spec c = false /\ k_hinit c = None).
  { intros c Hc. split; [apply P; exact Hc|].
    apply NP; [rewrite E; apply in_app_iff; left; exact Hc | apply P; exact Hc]. }
  unfold ms in NG.
  unfold construct_in, expected_init, ms.
  destruct (meta_anc ks) as [|m t'] eqn:MA.
  - rewrite app_nil_r in E. rewrite E. rewrite (first_init_none pre P'). reflexivity.
  - pose proof (meta_anc_head_spec ks m t' MA) as S.
    unfold is_spec in S. destruct (k_deco m) as [d|] eqn:D; [clear S|discriminate].
    destruct NG as [NHm NH].
    rewrite E at 1. rewrite (first_init_rch pre m t' d P' D NHm).
    cbn [rc_meta rone]. rewrite D. unfold self_meta.
    assert (HM : nearest_meta (rch ks) = Some (boot m d (rch t'))).
    { rewrite E at 1. apply nearest_meta_prefix; assumption. }
    rewrite HM. rewrite NHm.
    set (M := boot m d (rch t')) in *.
    destruct (M_inv ks C W M HM) as [KE [OV [NM IA]]].
    assert (KA : forall k, key_of ks = Some k -> accepted ks k = true) by (intros k Hk; apply (KG k Hk)).
    (* the rest of the call once the keywords are bound *)
    assert (REST : forall ph kw1,
               ph_ok kw1 ph -> (ph = [] \/ exists ka, ph = [(ka, None)] /\ m_key M = Some ka) ->
               out_of (if negb (wrapper_ok M (ph ++ wrap kw1)) then Err TypeErr
                       else if m_owner M =? rc_id (rone m (rch t'))
                            then init_top cur (rch ks) M (rone m (rch t')) (ph ++ wrap kw1) (mkst [] [] [])
                            else own_loop (rch ks) M (rc_id (rone m (rch t'))) (ph ++ wrap kw1) (mkst [] [] []))
               = (let unknown := filter (fun p => negb (accepted ks (fst p))) kw1 in
                  if negb (opt_is (ovf_of ks)) && negb (match unknown with [] => true | _ => false end)
                  then Err TypeErr else
                  match fold_left (owner_step ks false kw1) (rev t') (Ok ([], [])) with
                  | Err e => Err e
                  | Ok dh =>
                      match owner_step ks true kw1 (Ok dh) m with
                      | Err e => Err e
                      | Ok (d0, hc) =>
                          match (match ovf_of ks with
                                 | Some o => assign ks o (ADict unknown) d0
                                 | None => Ok d0 end) with
                          | Err e => Err e
                          | Ok d' => Ok (mkout d' (map (fun c => (c, map fst d')) (post_of ks)) hc)
                          end
                      end
                  end)).
    { intros ph kw1 PH1 PH2. cbv zeta.
      rewrite (wrapper_sim ks C W M HM kw1 ph KA PH2). rewrite negb_involutive.
      destruct (negb (opt_is (ovf_of ks)) && negb _) eqn:U; [reflexivity|].
      cbn [m_owner M boot rc_id rone]. rewrite Nat.eqb_refl.
      rewrite (init_top_sim ks C W M HM kw1 pre m t' d ph E D NH PH1).
      destruct (fold_left (owner_step ks false kw1) (rev t') (Ok ([], []))) as [dh|e]; [|reflexivity].
      destruct (owner_step ks true kw1 (Ok dh) m) as [[d0 hc]|e]; [|reflexivity].
      destruct (ovf_of ks) as [o|].
      - destruct (assign ks o _ d0); reflexivity.
      - reflexivity. }
    rewrite KE. fold (wrap kw).
    destruct (key_of ks) as [ka|] eqn:KO.
    + destruct (KG ka KO) as [AK GK].
      rewrite has_wrap.
      destruct pos as [v|].
      * destruct (has ka kw) eqn:HK; [reflexivity|].
        change ((ka, Some v) :: wrap kw) with ([] ++ wrap ((ka, v) :: kw)).
        apply (REST [] ((ka, v) :: kw)); left; reflexivity.
      * destruct (has ka kw) eqn:HK.
        -- cbn [orb]. change (wrap kw) with ([] ++ wrap kw).
           apply (REST [] kw); left; reflexivity.
        -- cbn [orb].
           destruct (accepted_find ks M ka NM AK) as [r F]. rewrite F.
           pose proof (find_attr_Some _ _ _ F) as [Fi Fn].
           destruct (IA r Fi) as [_ [_ [O [_ [_ [I2 _]]]]]]. rewrite Fn in O, I2.
           assert (HD : match r_dflt r with DNone => false | _ => true end
                        = opt_is (nearest_default (owner ks ka) ka (ms ks))).
           { destruct GK as [GK|[GK|GK]]; [congruence | congruence|].
             fold (ms ks) in GK. rewrite GK, O, <- I2. rewrite default_value_eq.
             destruct (r_dflt r); reflexivity. }
           rewrite HD. unfold ms. rewrite MA.
           destruct (opt_is (nearest_default (owner ks ka) ka (m :: t'))); [|reflexivity].
           change ((ka, @None aval) :: wrap kw) with ([(ka, @None aval)] ++ wrap kw).
           apply (REST [(ka, None)] kw).
           ++ right. exists ka. split; [reflexivity|].
              unfold has in HK. destruct (assoc ka kw); [discriminate | reflexivity].
           ++ right. exists ka. split; [reflexivity | exact KE].
    + destruct pos as [v|]; [reflexivity|].
      change (wrap kw) with ([] ++ wrap kw). apply (REST [] kw); left; reflexivity.
Qed.

(* ------------------------------------------------------------------ class tables *)
(* single inheritance: every class has at most one base, defined earlier; names are unique *)
Fixpoint wf_table (ct : list cdesc) : Prop :=
  match ct with
  | [] => True
  | k :: older =>
      ~ In (k_id k) (map k_id older)
      /\ (k_bases k = [] \/ exists p, k_bases k = [p] /\ In p (map k_id older))
      /\ wf_table older
  end.

Definition mro_at (ct : list cdesc) (c : cid) : list cid :=
  match assoc c (mro_tab ct) with Some m => m | None => [] end.

Definition descs (ct : list cdesc) (m : list cid) : list cdesc :=
  flat_map (fun x => match find_desc x ct with Some k => [k] | None => [] end) m.

Lemma anc_descs ct c : anc ct c = descs ct (mro_at ct c).
Proof. reflexivity. Qed.

Lemma descs_cons_notin k older m :
  ~ In (k_id k) m -> descs (k :: older) m = descs older m.
Proof.
  unfold descs. induction m as [|x t IH]; intro H; [reflexivity|].
  cbn [flat_map]. unfold find_desc at 1. cbn [find].
  destruct (k_id k =? x) eqn:E; [apply Nat.eqb_eq in E; exfalso; apply H; left; symmetry; exact E|].
  fold (find_desc x older). f_equal. apply IH. intro H1. apply H. right. exact H1.
Qed.

Lemma mro_at_head k older :
  mro_at (k :: older) (k_id k)
  = mro_of (k_id k) (map (fun b => mro_at older b) (k_bases k)) (k_bases k).
Proof. unfold mro_at. cbn [mro_tab assoc]. rewrite Nat.eqb_refl. reflexivity. Qed.

Lemma mro_at_other k older c : c <> k_id k -> mro_at (k :: older) c = mro_at older c.
Proof.
  intro N. unfold mro_at. cbn [mro_tab assoc].
  destruct (k_id k =? c) eqn:E; [apply Nat.eqb_eq in E; congruence | reflexivity].
Qed.

Lemma ranc_head r rt : ranc (r :: rt) (rc_id r) = rcls_along (r :: rt) (rc_mro r).
Proof. unfold ranc. rewrite find_cls_head. reflexivity. Qed.

Lemma find_cls_other r rt c : c <> rc_id r -> find_cls c (r :: rt) = find_cls c rt.
Proof.
  intro N. unfold find_cls. cbn [find].
  destruct (rc_id r =? c) eqn:E; [apply Nat.eqb_eq in E; congruence | reflexivity].
Qed.

Lemma find_cls_head' r l c : rc_id r = c -> find_cls c (r :: l) = Some r.
Proof. intro H. subst c. apply find_cls_head. Qed.

Lemma ranc_head' r rt c : rc_id r = c -> ranc (r :: rt) c = rcls_along (r :: rt) (rc_mro r).
Proof. intro H. subst c. apply ranc_head. Qed.

Record tab_inv (ct : list cdesc) (c : cid) : Prop := {
  ti_closed : forall x, In x (mro_at ct c) -> In x (map k_id ct);
  ti_chain : chain (anc ct c);
  ti_ids : map k_id (anc ct c) = mro_at ct c;
  ti_head : exists t, mro_at ct c = c :: t;
  ti_found : exists rc, find_cls c (resolve_all cur ct) = Some rc /\ rc_mro rc = mro_at ct c;
  ti_ranc : ranc (resolve_all cur ct) c = rchain (anc ct c);
  ti_sub : forall x, In x (anc ct c) -> In x ct;
}.

Lemma rc_id_resolve_one q k b : rc_id (resolve_one q k b) = k_id k.
Proof. reflexivity. Qed.

Lemma tab_inv_all ct : wf_table ct -> forall c, In c (map k_id ct) -> tab_inv ct c.
Proof.
  induction ct as [|k older IH]; intros WF c Hc; [contradiction|].
  destruct WF as [NI [BS WF]]. specialize (IH WF).
  set (rt := resolve_all cur older).
  set (rc := resolve_one cur k (map (ranc rt) (k_bases k))).
  assert (RA : resolve_all cur (k :: older) = rc :: rt) by reflexivity.
  destruct (Nat.eq_dec c (k_id k)) as [EC|NC].
  - subst c. destruct BS as [B0|[p [B1 Hp]]].
    + (* a root class *)
      assert (EM : mro_at (k :: older) (k_id k) = [k_id k]) by (rewrite mro_at_head, B0; reflexivity).
      assert (EA : anc (k :: older) (k_id k) = [k]).
      { rewrite anc_descs, EM. unfold descs, find_desc. simpl. rewrite Nat.eqb_refl. reflexivity. }
      assert (ER : rc_mro rc = [k_id k]) by (unfold rc; rewrite B0; reflexivity).
      constructor.
      * rewrite EM. intros x [H|[]]. subst. left. reflexivity.
      * rewrite EA. simpl. split; [intros []|]. split; [exact B0 | exact I].
      * rewrite EA, EM. reflexivity.
      * exists []. exact EM.
      * exists rc. rewrite RA. split; [apply find_cls_head'; reflexivity | rewrite ER, EM; reflexivity].
      * rewrite RA. rewrite (ranc_head' rc rt (k_id k) eq_refl), ER.
        rewrite rcls_along_cons. rewrite (find_cls_head' rc rt (k_id k) eq_refl).
        rewrite EA. unfold rc. rewrite B0. reflexivity.
      * rewrite EA. intros x [H|[]]. subst. left. reflexivity.
    + (* one base p *)
      destruct (IH p Hp) as [PC PCh PI [pt PH] [rp [PF PM]] PR PS].
      assert (EM : mro_at (k :: older) (k_id k) = k_id k :: mro_at older p)
        by (rewrite mro_at_head, B1; reflexivity).
      assert (NM : ~ In (k_id k) (mro_at older p)) by (intro H; apply NI; apply PC; exact H).
      assert (EA : anc (k :: older) (k_id k) = k :: anc older p).
      { rewrite anc_descs, EM. unfold descs at 1. cbn [flat_map]. unfold find_desc at 1. cbn [find].
        rewrite Nat.eqb_refl. cbn [app]. f_equal.
        change (descs (k :: older) (mro_at older p) = anc older p).
        rewrite descs_cons_notin by exact NM. reflexivity. }
      assert (EP : ranc rt p = rchain (anc older p)) by exact PR.
      assert (NE : anc older p <> []).
      { intro H. rewrite H in PI. rewrite PH in PI. discriminate. }
      assert (ER : rc_mro rc = k_id k :: mro_at older p).
      { unfold rc. rewrite B1. cbn [map]. rewrite EP. unfold resolve_one. cbn [rc_mro map mro_of].
        rewrite rchain_ids, PI. reflexivity. }
      constructor.
      * rewrite EM. intros x [H|H]; [subst; left; reflexivity | right; apply PC; exact H].
      * rewrite EA. destruct (anc older p) as [|ph ptl] eqn:AP; [congruence|].
        cbn [chain]. split; [|split].
        -- rewrite PI. exact NM.
        -- rewrite B1. f_equal. rewrite PH in PI. cbn [map] in PI. injection PI as PI _. symmetry. exact PI.
        -- exact PCh.
      * rewrite EA, EM. cbn [map]. f_equal. exact PI.
      * exists (mro_at older p). exact EM.
      * exists rc. rewrite RA. split; [apply find_cls_head'; reflexivity | rewrite ER, EM; reflexivity].
      * rewrite RA. rewrite (ranc_head' rc rt (k_id k) eq_refl), ER.
        rewrite rcls_along_cons. rewrite (find_cls_head' rc rt (k_id k) eq_refl).
        cbn [app]. rewrite rcls_along_cons_notin by exact NM.
        rewrite EA. cbn [rchain].
        assert (EQ : rcls_along rt (mro_at older p) = rchain (anc older p)).
        { rewrite <- EP. unfold ranc. fold rt in PF. rewrite PF, PM. reflexivity. }
        rewrite EQ. f_equal. unfold rc. rewrite B1. cbn [map]. rewrite EP.
        destruct (anc older p); [congruence | reflexivity].
      * rewrite EA. intros x [H|H]; [subst; left; reflexivity | right; apply PS; exact H].
  - (* an older class *)
    assert (Hc' : In c (map k_id older)) by (destruct Hc as [H|H]; [congruence | exact H]).
    destruct (IH c Hc') as [PC PCh PI [pt PH] [rp [PF PM]] PR PS].
    assert (EM : mro_at (k :: older) c = mro_at older c) by (apply mro_at_other; exact NC).
    assert (NM : ~ In (k_id k) (mro_at older c)) by (intro H; apply NI; apply PC; exact H).
    assert (EA : anc (k :: older) c = anc older c).
    { rewrite !anc_descs, EM. apply descs_cons_notin. exact NM. }
    constructor.
    + rewrite EM. intros x H. right. apply PC. exact H.
    + rewrite EA. exact PCh.
    + rewrite EA, EM. exact PI.
    + exists pt. rewrite EM. exact PH.
    + exists rp. rewrite RA. split; [rewrite find_cls_other by exact NC; exact PF
                        | rewrite EM; exact PM].
    + rewrite RA. unfold ranc. rewrite find_cls_other by exact NC.
      fold rt in PF. rewrite PF. rewrite rcls_along_cons_notin by (rewrite PM; exact NM).
      rewrite EA, <- PR. unfold ranc. fold rt. rewrite PF. reflexivity.
    + rewrite EA. intros x H. right. apply PS. exact H.
Qed.

(* ------------------------------------------------------------------ main results *)
Definition generated_only (ks : list cdesc) : Prop := forall k, In k ks -> k_hinit k = None.

Lemma hand_guard_generated l : (forall k, In k l -> k_hinit k = None) -> hand_guard l.
Proof.
  induction l as [|k t IH]; intro H; [exact I|]. split.
  - left. apply H. left. reflexivity.
  - apply IH. intros x Hx. apply H. right. exact Hx.
Qed.

Lemma generated_ctor_guard ks : generated_only ks -> ctor_guard ks.
Proof.
  intro G. split; [intros c Hc _; apply G; exact Hc|].
  destruct (ms ks) as [|m t'] eqn:MS; [exact I|].
  assert (SUB : forall x, In x (m :: t') -> In x ks).
  { intros x Hx. unfold ms in MS. destruct (meta_anc_split ks) as [pre [E _]]. rewrite E, MS.
    apply in_app_iff. right. exact Hx. }
  split; [apply G; apply SUB; left; reflexivity|].
  apply hand_guard_generated. intros k Hk. apply G. apply SUB. right. exact Hk.
Qed.

(* hand-written constructors of the documented shape on proper ancestors of the constructor's
   class, provided no key is in force where they are *)
Theorem construct_single_inheritance_hand ct c pos kw :
  wf_table ct -> In c (map k_id ct) ->
  wfc (anc ct c) -> ctor_guard (anc ct c) -> key_guard (anc ct c) pos kw ->
  out_of (construct cur ct c pos kw) = expected ct c pos kw.
Proof.
  intros WT Hc W G KG. unfold construct, expected.
  destruct (tab_inv_all ct WT c Hc) as [_ CH _ _ _ RA _].
  rewrite RA, (rchain_rch _ CH W). apply construct_chain; assumption.
Qed.

Theorem construct_single_inheritance ct c pos kw :
  wf_table ct -> In c (map k_id ct) ->
  wfc (anc ct c) -> generated_only (anc ct c) -> key_guard (anc ct c) pos kw ->
  out_of (construct cur ct c pos kw) = expected ct c pos kw.
Proof.
  intros WT Hc W G KG. apply construct_single_inheritance_hand; try assumption.
  apply generated_ctor_guard. exact G.
Qed.

Lemma expected_post ks pos kw o :
  generated_only ks -> expected_init ks pos kw = Ok o ->
  o_post o = map (fun c => (c, map fst (o_dict o))) (post_of ks).
Proof.
  intros G H. unfold expected_init in H.
  destruct (ms ks) as [|m t] eqn:MS; [discriminate|].
  assert (Hm : In m ks).
  { unfold ms in MS. destruct (meta_anc_split ks) as [pre [E _]]. rewrite E, MS.
    apply in_app_iff. right. left. reflexivity. }
  rewrite (G m Hm) in H.
  destruct (match key_of ks, pos with
            | Some k, Some v => if has k kw then Err TypeErr else Ok ((k, v) :: kw)
            | Some k, None => if has k kw || opt_is (nearest_default (owner ks k) k (m :: t))
                              then Ok kw else Err TypeErr
            | None, Some _ => Err TypeErr
            | None, None => Ok kw end) as [kw1|e]; [|discriminate].
  destruct (negb (opt_is (ovf_of ks)) && _); [discriminate|].
  destruct (fold_left (owner_step ks false kw1) (rev t) (Ok ([], []))) as [dh|e]; [|discriminate].
  destruct (owner_step ks true kw1 (Ok dh) m) as [[d hc]|e]; [|discriminate].
  destruct (match ovf_of ks with Some o0 => _ | None => Ok d end) as [d'|e]; [|discriminate].
  injection H as H. subst o. reflexivity.
Qed.

(* __post_init__ runs exactly once (the one type(self) resolves to), never twice *)
Theorem post_init_once ct c pos kw s :
  wf_table ct -> In c (map k_id ct) ->
  wfc (anc ct c) -> generated_only (anc ct c) -> key_guard (anc ct c) pos kw ->
  construct cur ct c pos kw = Ok s ->
  s_post s = match find k_post (anc ct c) with
             | Some k => [(k_id k, map fst (s_dict s))] | None => [] end.
Proof.
  intros WT Hc W G KG H.
  pose proof (construct_single_inheritance ct c pos kw WT Hc W G KG) as T.
  rewrite H in T. simpl in T. symmetry in T. unfold expected in T.
  apply (expected_post _ _ _ _ G) in T. simpl in T. rewrite T. unfold post_of.
  destruct (find k_post (anc ct c)); reflexivity.
Qed.

(* ------------------------------------------------------------------ decidable hypotheses *)
Definition wf_cls_b (k : cdesc) (t : list cdesc) : bool :=
  match k_deco k with
  | None => match k_annots k with [] => true | _ => false end
  | Some d =>
      (match d_ovf d with Some (Some o) => negb (memb o (map fst (k_annots k))) | _ => true end)
      && (match d_key d with
          | Some (Some x) => memb x (map fst (k_annots k)) || negb (memb x (managed t))
                             || negb (has x (k_dict k))
          | _ => true end)
  end.

Fixpoint wfc_b (l : list cdesc) : bool :=
  match l with [] => true | k :: t => wf_cls_b k t && wfc_b t end.

Lemma wfc_b_sound l : wfc_b l = true -> wfc l.
Proof.
  induction l as [|k t IH]; [intros _; exact I|]. simpl. intro H. apply andb_prop in H.
  destruct H as [H1 H2]. split; [|apply IH; exact H2].
  unfold wf_cls_b in H1. unfold wf_cls, plain_ok. destruct (k_deco k) as [d|].
  - split; [discriminate|]. intros d' E. injection E as E. subst d'.
    apply andb_prop in H1. destruct H1 as [HO HK]. split.
    + intros o EO. rewrite EO in HO. apply memb_false. destruct (memb o _); [discriminate | reflexivity].
    + intros x EX. rewrite EX in HK. apply orb_prop in HK. destruct HK as [HK|HK].
      * apply orb_prop in HK. destruct HK as [HK|HK].
        -- left. apply memb_In. exact HK.
        -- right. left. apply memb_false. destruct (memb x (managed t)); [discriminate | reflexivity].
      * right. right. unfold has in HK. destruct (assoc x (k_dict k)); [discriminate | reflexivity].
  - split; [|discriminate]. intros _. destruct (k_annots k); [reflexivity | discriminate].
Qed.

Fixpoint wf_table_b (ct : list cdesc) : bool :=
  match ct with
  | [] => true
  | k :: older =>
      negb (memb (k_id k) (map k_id older))
      && (match k_bases k with
          | [] => true
          | [p] => memb p (map k_id older)
          | _ => false end)
      && wf_table_b older
  end.

Lemma wf_table_b_sound ct : wf_table_b ct = true -> wf_table ct.
Proof.
  induction ct as [|k older IH]; [intros _; exact I|]. simpl. intro H.
  apply andb_prop in H. destruct H as [H H3]. apply andb_prop in H. destruct H as [H1 H2].
  split; [|split; [|apply IH; exact H3]].
  - apply memb_false. destruct (memb _ _); [discriminate | reflexivity].
  - destruct (k_bases k) as [|p [|q r]]; [left; reflexivity | | discriminate].
    right. exists p. split; [reflexivity | apply memb_In; exact H2].
Qed.

Definition generated_b (ks : list cdesc) : bool :=
  forallb (fun k => match k_hinit k with None => true | Some _ => false end) ks.

Lemma generated_b_sound ks : generated_b ks = true -> generated_only ks.
Proof.
  unfold generated_b, generated_only. intros H k Hk. rewrite forallb_forall in H.
  specialize (H k Hk). destruct (k_hinit k); [discriminate | reflexivity].
Qed.

Definition key_guard_b (ks : list cdesc) (pos : option aval) (kw : list (aid * aval)) : bool :=
  match key_of ks with
  | None => true
  | Some k =>
      accepted ks k
      && (opt_is pos || has k kw
          || Bool.eqb (opt_is (nearest_default (owner ks k) k (ms ks)))
                      (opt_is (nearest_default (owner ks k) k (built_from k ks))))
  end.

Lemma key_guard_b_sound ks pos kw : key_guard_b ks pos kw = true -> key_guard ks pos kw.
Proof.
  unfold key_guard_b, key_guard. intros H k E. rewrite E in H.
  apply andb_prop in H. destruct H as [H1 H2]. split; [exact H1|].
  apply orb_prop in H2. destruct H2 as [H2|H2]; [apply orb_prop in H2; destruct H2 as [H2|H2]|].
  - left. destruct pos; [discriminate | discriminate].
  - right. left. exact H2.
  - right. right. apply eqb_prop. exact H2.
Qed.

Definition hand_ok_b (k : cdesc) (t : list cdesc) : bool :=
  match k_hinit k with
  | None => true
  | Some _ => is_spec k && negb (opt_is (key_of (k :: t)))
  end.

Fixpoint hand_guard_b (l : list cdesc) : bool :=
  match l with [] => true | k :: t => hand_ok_b k t && hand_guard_b t end.

Lemma hand_guard_b_sound l : hand_guard_b l = true -> hand_guard l.
Proof.
  induction l as [|k t IH]; [intros _; exact I|]. simpl. intro H. apply andb_prop in H.
  destruct H as [H1 H2]. split; [|apply IH; exact H2].
  unfold hand_ok_b in H1. unfold hand_ok. destruct (k_hinit k); [|left; reflexivity].
  right. apply andb_prop in H1. destruct H1 as [H1 H3]. split; [exact H1|].
  destruct (key_of (k :: t)); [discriminate | reflexivity].
Qed.

Definition ctor_guard_b (ks : list cdesc) : bool :=
  forallb (fun c => is_spec c || match k_hinit c with None => true | Some _ => false end) ks
  && match ms ks with
     | [] => true
     | m :: t' => match k_hinit m with None => hand_guard_b t' | Some _ => false end
     end.

Lemma ctor_guard_b_sound ks : ctor_guard_b ks = true -> ctor_guard ks.
Proof.
  unfold ctor_guard_b, ctor_guard. intro H. apply andb_prop in H. destruct H as [H1 H2]. split.
  - intros c Hc S. rewrite forallb_forall in H1. specialize (H1 c Hc). rewrite S in H1. simpl in H1.
    destruct (k_hinit c); [discriminate | reflexivity].
  - destruct (ms ks) as [|m t']; [exact I|]. destruct (k_hinit m); [discriminate|].
    split; [reflexivity | apply hand_guard_b_sound; exact H2].
Qed.

(* all hypotheses of construct_single_inheritance_hand, as one computable test *)
Definition in_scope (ct : list cdesc) (c : cid) (pos : option aval) (kw : list (aid * aval)) : bool :=
  wf_table_b ct && memb c (map k_id ct) && wfc_b (anc ct c) && ctor_guard_b (anc ct c)
  && key_guard_b (anc ct c) pos kw.

Theorem construct_in_scope ct c pos kw :
  in_scope ct c pos kw = true ->
  out_of (construct cur ct c pos kw) = expected ct c pos kw.
Proof.
  unfold in_scope. intro H.
  apply andb_prop in H. destruct H as [H H5]. apply andb_prop in H. destruct H as [H H4].
  apply andb_prop in H. destruct H as [H H3]. apply andb_prop in H. destruct H as [H1 H2].
  apply construct_single_inheritance_hand.
  - apply wf_table_b_sound. exact H1.
  - apply memb_In. exact H2.
  - apply wfc_b_sound. exact H3.
  - apply ctor_guard_b_sound. exact H4.
  - apply key_guard_b_sound. exact H5.
Qed.

(* ------------------------------------------------------------------ __post_init__ for ANY hierarchy *)
(* nothing but the end of the top-level call runs __post_init__: holds for every class
   table (multiple inheritance, hand-written constructors, any depth) *)
Lemma set_attr_post m a v s s' : set_attr m a v s = Ok s' -> s_post s' = s_post s.
Proof.
  unfold set_attr. destruct (find_attr a (m_attrs m)) as [r|].
  - destruct (match v with Some x => _ | None => _ end); [|discriminate].
    intro H. injection H as H. subst s'. reflexivity.
  - destruct v; intro H; injection H as H; subst s'; reflexivity.
Qed.

Lemma fold_post {A} (f : res st -> A -> res st) l :
  (forall s x s', f (Ok s) x = Ok s' -> s_post s' = s_post s) ->
  (forall e x, f (Err e) x = Err e) ->
  forall s s', fold_left f l (Ok s) = Ok s' -> s_post s' = s_post s.
Proof.
  intros HS HE. induction l as [|x t IH]; intros s s' H.
  - simpl in H. injection H as H. subst. reflexivity.
  - simpl in H. destruct (f (Ok s) x) as [s1|e] eqn:F.
    + rewrite (IH s1 s' H). apply (HS s x s1 F).
    + rewrite fold_err in H by (intro b; apply HE). discriminate.
Qed.

Lemma own_loop_post ra m p kw s s' : own_loop ra m p kw s = Ok s' -> s_post s' = s_post s.
Proof.
  unfold own_loop. apply fold_post.
  - intros s0 r s1. destruct (_ || _); [intro H; injection H as H; subst; reflexivity|].
    destruct (match kw_get (r_name r) kw with Some v => Some v | None => lookup_default ra r end).
    + apply set_attr_post.
    + intro H; injection H as H; subst; reflexivity.
  - reflexivity.
Qed.

Lemma run_hinit_post m c h kw s s' : run_hinit m c h kw s = Ok s' -> s_post s' = s_post s.
Proof.
  unfold run_hinit. destruct (negb _); [discriminate|].
  match goal with |- context [fold_left ?f ?l (Ok s)] => destruct (fold_left f l (Ok s)) as [s1|e] eqn:F end;
    [|discriminate].
  intro H. injection H as H. subst s'. simpl.
  revert F. apply fold_post.
  - intros s0 p s2. destruct (snd p) as [v|].
    + destruct (apply_fn _ v); [apply set_attr_post | discriminate].
    + destruct (match assoc (fst p) (h_tr h) with Some f => f | None => FId end);
        try discriminate; apply set_attr_post.
  - reflexivity.
Qed.

Lemma call_parent_post ra m parent kw s s' :
  call_parent_init ra m parent kw s = Ok s' -> s_post s' = s_post s.
Proof.
  unfold call_parent_init.
  destruct (first_some _ (rc_mro parent)) as [[g [|h]]|].
  - destruct (rc_meta g) as [gm|]; [|discriminate]. unfold gen_init_inner.
    destruct (negb _); [discriminate | apply own_loop_post].
  - apply run_hinit_post.
  - destruct kw; [|discriminate]. intro H. injection H as H. subst. reflexivity.
Qed.

Lemma parent_step_post q ra m kw s pc kw' s' :
  parent_step q ra m (Ok (kw, s)) pc = Ok (kw', s') -> s_post s' = s_post s.
Proof.
  unfold parent_step. destruct (find_cls pc ra) as [parent|]; [|intro H; injection H as _ H; subst; reflexivity].
  destruct (if q_plain_parent q then _ else _) as [pm|]; [|intro H; injection H as _ H; subst; reflexivity].
  match goal with |- context [fold_left ?f ?l ?a] => destruct (fold_left f l a) as [[pkw kw1]|e] end;
    [|discriminate].
  destruct (call_parent_init ra m parent _ s) as [s1|e] eqn:CP; [|discriminate].
  intro H. injection H as _ H. subst s'. apply (call_parent_post _ _ _ _ _ _ CP).
Qed.

Lemma parents_post q ra m l : forall kw s kw' s',
  fold_left (parent_step q ra m) l (Ok (kw, s)) = Ok (kw', s') -> s_post s' = s_post s.
Proof.
  induction l as [|x t IH]; intros kw s kw' s' H.
  - simpl in H. injection H as _ H. subst. reflexivity.
  - cbn [fold_left] in H. destruct (parent_step q ra m (Ok (kw, s)) x) as [[kw1 s1]|e] eqn:P.
    + rewrite (IH _ _ _ _ H). apply (parent_step_post _ _ _ _ _ _ _ _ P).
    + rewrite fold_err in H by reflexivity. discriminate.
Qed.

Theorem post_init_at_most_once q ct c pos kw s :
  construct q ct c pos kw = Ok s -> length (s_post s) <= 1.
Proof.
  unfold construct, construct_in. set (ra := ranc (resolve_all q ct) c).
  destruct (first_some _ ra) as [[g [|h]]|]; [| |discriminate].
  - destruct (rc_meta g) as [gm|]; [|discriminate]. destruct (self_meta ra) as [m|]; [|discriminate].
    destruct (match m_key gm with Some ka => _ | None => _ end) as [kw1|e]; [|discriminate].
    destruct (negb (wrapper_ok gm kw1)); [discriminate|].
    destruct (m_owner m =? rc_id g).
    + unfold init_top.
      destruct (fold_left (parent_step q ra m) _ _) as [[kw2 s1]|e] eqn:F; [|discriminate].
      destruct (own_loop ra m (rc_id g) kw2 s1) as [s2|e] eqn:O; [|discriminate].
      destruct (match m_ovf m with Some o => _ | None => Ok s2 end) as [s3|e] eqn:V; [|discriminate].
      assert (P3 : s_post s3 = []).
      { assert (P2 : s_post s2 = []).
        { rewrite (own_loop_post _ _ _ _ _ _ O). apply (parents_post _ _ _ _ _ _ _ _ F). }
        destruct (m_ovf m); [rewrite (set_attr_post _ _ _ _ _ V); exact P2 | injection V as V; subst; exact P2]. }
      intro H. injection H as H. subst s.
      destruct (if q_static_post q then _ else _); simpl; rewrite P3; simpl; lia.
    + intro H. rewrite (own_loop_post _ _ _ _ _ _ H). simpl. lia.
  - destruct (self_meta ra) as [m|]; [|discriminate].
    destruct pos as [v|].
    + destruct (h_params h) as [|[p d] t]; [discriminate|].
      destruct (has p _); [discriminate|]. intro H. rewrite (run_hinit_post _ _ _ _ _ _ H). simpl. lia.
    + intro H. rewrite (run_hinit_post _ _ _ _ _ _ H). simpl. lia.
Qed.

(* ------------------------------------------------------------------ resolution = declarative reading *)
Theorem resolve_meets_spec ct c M :
  wf_table ct -> In c (map k_id ct) -> wfc (anc ct c) ->
  nearest_meta (ranc (resolve_all cur ct) c) = Some M ->
  m_key M = key_of (anc ct c)
  /\ m_ovf M = ovf_of (anc ct c)
  /\ map r_name (m_attrs M) = managed (anc ct c)
  /\ forall r, In r (m_attrs M) ->
       r_ty r = ty_of (anc ct c) (r_name r)
       /\ r_init r = init_of (anc ct c) (r_name r)
       /\ owner (anc ct c) (r_name r) = Some (r_owner r)
       /\ r_prep r = prep_of (anc ct c) (r_name r)
       /\ lookup_default (ranc (resolve_all cur ct) c) r
          = nearest_default (Some (r_owner r)) (r_name r) (anc ct c).
Proof.
  intros WT Hc W HM.
  destruct (tab_inv_all ct WT c Hc) as [_ CH _ _ _ RA _].
  rewrite RA, (rchain_rch _ CH W) in *.
  destruct (M_inv _ CH W M HM) as [K [O [N A]]].
  split; [exact K|]. split; [exact O|]. split; [exact N|].
  intros r Hr. destruct (A r Hr) as [T [I [OW [P [L _]]]]].
  repeat split; assumption.
Qed.
