(* C09 — what the class hierarchy specifies for a freshly constructed instance.
   Declarative reading of the property text over the class BODIES along the MRO of the
   constructed class (no bootstrapping, no metadata, no constructor calls):

     ks   the class descriptions along the MRO of type(self), type(self) first
     ms   the same from the nearest spec class on (the class whose generated constructor runs)

   - an attribute is owned by the nearest spec class of ms that declares it (annotation,
     Attr/field object, overflow attribute named by the decorator, or key named by the decorator
     when the class does not inherit an attribute of that name: re-stating an inherited key
     changes nothing);
   - its value is the prepared keyword if one was given, otherwise the nearest class-level
     default along the MRO of type(self) (a default_factory counts on the owner only; past
     the owner only the owner's own ancestors count), otherwise the attribute stays absent;
     init=False attributes are not initialised;
   - the key may be given positionally and is required when the constructor's class has no
     default for it; a keyword that is not an initialisable attribute is unknown: TypeError,
     or - with an overflow attribute - collected there, exactly those, in call order;
   - attributes are assigned owner by owner from the root of the hierarchy down; an owner
     with a hand-written constructor is CALLED with exactly the keywords for the attributes
     it owns (given or defaulted), whatever it then does;
   - __post_init__ (the one type(self) resolves to) runs once, after everything else: it finds
     every attribute of the final instance set, the overflow attribute included.

   Shared with the model as primitives: the MRO, the preparation of one value
   ([prepare_value]: preparer, normalisation, type check) and the callback pool. *)
From Coq Require Import List ZArith Bool Arith.
From SC Require Import Base.Res Init.Model.
Import ListNotations.

Definition is_spec (k : cdesc) : bool := opt_is (k_deco k).

Definition stated_key (k : cdesc) : option (option aid) :=
  match k_deco k with Some d => d_key d | None => None end.
Definition stated_ovf (k : cdesc) : option (option aid) :=
  match k_deco k with Some d => d_ovf d | None => None end.

(* names a spec class body introduces, in order *)
Definition decl_names (k : cdesc) : list aid :=
  if is_spec k then
    map fst (k_annots k)
    ++ (match stated_ovf k with Some (Some o) => [o] | _ => [] end)
    ++ (match stated_key k with Some (Some x) => [x] | _ => [] end)
  else [].

Definition is_attr_entry (o : option entry) : bool :=
  match o with Some (EAttr _ _ _) => true | _ => false end.

Fixpoint nodup_first (l : list aid) : list aid :=
  match l with
  | [] => []
  | a :: t => a :: filter (fun b => negb (b =? a)) (nodup_first t)
  end.

Fixpoint meta_anc (l : list cdesc) : list cdesc :=
  match l with
  | [] => []
  | k :: t => if is_spec k then l else meta_anc t
  end.

(* the MRO of an ancestor is the part of a descendant's MRO it derives from (C3 is
   monotonic): keep the classes reachable through bases from the names in `want` *)
Fixpoint restrict (want : list cid) (l : list cdesc) : list cdesc :=
  match l with
  | [] => []
  | k :: t => if memb (k_id k) want then k :: restrict (k_bases k ++ want) t
              else restrict want t
  end.

(* decorator settings are inherited from the first spec class of the MRO, which inherits
   them from the first spec class of ITS MRO, ...: that line of spec classes *)
Fixpoint lineage (want : list cid) (l : list cdesc) : list cdesc :=
  match l with
  | [] => []
  | k :: t => if memb (k_id k) want
              then (if is_spec k then k :: lineage (k_bases k) t
                    else lineage (k_bases k ++ want) t)
              else lineage want t
  end.

(* names managed along an MRO, in declaration order from the root *)
Definition managed_l (l : list cdesc) : list aid :=
  nodup_first (flat_map decl_names (rev (meta_anc l))).

(* names a spec class body declares outright: annotations and the decorator's overflow attribute *)
Definition hard_names (k : cdesc) : list aid :=
  map fst (k_annots k) ++ match stated_ovf k with Some (Some o) => [o] | _ => [] end.

Definition states_key (k : cdesc) (a : aid) : bool :=
  match stated_key k with Some (Some x) => x =? a | _ => false end.

(* the key named by the decorator introduces an attribute unless the class already inherits
   one of that name (t: the rest of the MRO); re-stating an inherited key changes nothing *)
Definition adds_key (k : cdesc) (t : list cdesc) (a : aid) : bool :=
  states_key k a && negb (memb a (managed_l t)).

Definition declares_at (k : cdesc) (t : list cdesc) (a : aid) : bool :=
  is_spec k && (memb a (hard_names k) || is_attr_entry (assoc a (k_dict k)) || adds_key k t a).

(* a spec class whose body says anything about a *)
Definition mentions_at (k : cdesc) (t : list cdesc) (a : aid) : bool :=
  is_spec k && (memb a (hard_names k) || has a (k_dict k) || adds_key k t a).

(* the nearest class of l that declares a *)
Fixpoint owner_in (l : list cdesc) (a : aid) : option cdesc :=
  match l with
  | [] => None
  | k :: t => if declares_at k t a then Some k else owner_in t a
  end.

(* l from its nearest class that mentions a on, restricted to that class's own MRO *)
Fixpoint built_from (a : aid) (l : list cdesc) : list cdesc :=
  match l with
  | [] => []
  | k :: t => if mentions_at k t a then restrict [k_id k] l else built_from a t
  end.

(* what a class body provides as default for a (o: the owner of a) *)
Definition body_default (o : option cid) (a : aid) (k : cdesc) : option (option aval) :=
  match assoc a (k_dict k) with
  | Some (ELit v) => Some (Some v)
  | Some (EAttr (DVal v) _ _) => Some (Some v)
  | Some (EAttr (DFac v) _ _) => Some (if opt_eqb o (k_id k) then Some v else None)
  | Some (EAttr DNone _ _) => Some None
  | None => None
  end.

(* the nearest class-level default for a, looking from the head of l: the classes up to
   the owner o, from there on the owner's own MRO *)
Fixpoint nearest_default (o : option cid) (a : aid) (l : list cdesc) : option aval :=
  match l with
  | [] => None
  | k :: t =>
      if opt_eqb o (k_id k)
      then match first_some (body_default o a) (restrict [k_id k] l) with
           | Some r => r | None => None end
      else match body_default o a k with
           | Some r => r
           | None => nearest_default o a t
           end
  end.

Section Spec.
  Variable ks : list cdesc.

  Definition ms : list cdesc := meta_anc ks.

  Definition managed : list aid := managed_l ks.

  Definition owner_cls (a : aid) : option cdesc := owner_in ms a.
  Definition owner (a : aid) : option cid :=
    match owner_cls a with Some k => Some (k_id k) | None => None end.

  Definition ty_of (a : aid) : ty :=
    match first_some (fun k => match assoc a (k_annots k) with
                               | Some t => Some t
                               | None => match stated_ovf k with
                                         | Some (Some o) => if o =? a then Some TDictAny else None
                                         | _ => None end
                               end) ms with
    | Some t => t
    | None => TAny
    end.

  Definition init_of (a : aid) : bool :=
    match owner_cls a with
    | Some k => match assoc a (k_dict k) with Some (EAttr _ i _) => i | _ => true end
    | None => true
    end.

  Definition prep_of (a : aid) : option fn :=
    first_some (fun k => assoc a (k_preps k)) (built_from a ms).

  Definition settings_line : list cdesc :=
    match ms with m :: _ => lineage [k_id m] ms | [] => [] end.
  Definition key_of : option aid :=
    match first_some stated_key settings_line with Some x => x | None => None end.
  Definition ovf_of : option aid :=
    match first_some stated_ovf settings_line with Some x => x | None => None end.

  (* keywords the constructor takes as attribute values *)
  Definition accepted (a : aid) : bool :=
    memb a managed && init_of a && negb (opt_eqb ovf_of a).

  Definition post_of : list cid :=
    match find k_post ks with Some k => [k_id k] | None => [] end.

  (* one assignment self.a = v *)
  Definition assign (a : aid) (v : aval) (d : list (aid * aval)) : res (list (aid * aval)) :=
    if memb a managed then
      match prepare_value (ty_of a) (prep_of a) v with
      | Ok x => Ok (assoc_set a x d)
      | Err e => Err e
      end
    else Ok (assoc_set a v d).

  Definition value_of (kw : list (aid * aval)) (a : aid) : option aval :=
    match assoc a kw with
    | Some v => Some v
    | None => nearest_default (owner a) a ks
    end.

  (* the attributes an owner initialises *)
  Definition owned (p : cdesc) : list aid :=
    filter (fun a => opt_eqb (owner a) (k_id p) && accepted a) managed.

  (* a hand-written constructor (user code of the documented shape) called with keywords kw *)
  Definition hand_call (h : hinit) (kw : list (aid * aval)) (d : list (aid * aval))
    : res (list (aid * aval)) :=
    if negb (forallb (fun p => has (fst p) (h_params h)) kw) then Err TypeErr else
    let vals := map (fun p => (fst p, match assoc (fst p) kw with Some v => v | None => snd p end))
                    (h_params h) in
    match fold_left (fun acc p =>
                       match acc with
                       | Err e => Err e
                       | Ok d =>
                           match apply_fn (match assoc (fst p) (h_tr h) with
                                           | Some f => f | None => FId end) (snd p) with
                           | Ok v => assign (fst p) v d
                           | Err e => Err e
                           end
                       end) vals (Ok d) with
    | Err e => Err e
    | Ok d' => Ok (assoc_set A_EXTRA (AList (map snd vals)) d')
    end.

  (* one owner: generated constructor = assign what it owns; hand-written = call it *)
  Definition owner_step (top : bool) (kw : list (aid * aval))
             (acc : res (list (aid * aval) * list cid)) (p : cdesc)
    : res (list (aid * aval) * list cid) :=
    match acc with
    | Err e => Err e
    | Ok (d, hc) =>
        if negb (is_spec p) then Ok (d, hc) else
        match (if top then None else k_hinit p) with
        | Some h =>
            let pkw := flat_map (fun a => match value_of kw a with
                                          | Some v => [(a, v)] | None => [] end) (owned p) in
            match hand_call h pkw d with
            | Ok d' => Ok (d', hc ++ [k_id p])
            | Err e => Err e
            end
        | None =>
            match fold_left (fun acc a =>
                               match acc with
                               | Err e => Err e
                               | Ok d => match value_of kw a with
                                         | Some v => assign a v d
                                         | None => Ok d end
                               end) (owned p) (Ok d) with
            | Ok d' => Ok (d', hc)
            | Err e => Err e
            end
        end
    end.

  Record outcome := mkout {
    o_dict : list (aid * aval);      (* instance attributes in assignment order *)
    o_post : list (cid * list aid);  (* __post_init__ bodies that ran, each with the attribute
                                        names it found set on the instance *)
    o_hand : list cid;               (* hand-written constructors that ran *)
  }.

  Definition expected_init (pos : option aval) (kw : list (aid * aval)) : res outcome :=
    match ms with
    | [] => Err RuntimeErr
    | m :: parents =>
        match k_hinit m with
        | Some h =>
            (* the class's own constructor is user code: it is simply called *)
            match (match pos, h_params h with
                   | None, _ => Ok kw
                   | Some v, (p, _) :: _ => if has p kw then Err TypeErr else Ok ((p, v) :: kw)
                   | Some _, [] => Err TypeErr end) with
            | Err e => Err e
            | Ok kw1 => match hand_call h kw1 [] with
                        | Ok d => Ok (mkout d [] [k_id m])
                        | Err e => Err e end
            end
        | None =>
            (* the key: positional or keyword, required without a default *)
            match (match key_of, pos with
                   | Some k, Some v => if has k kw then Err TypeErr else Ok ((k, v) :: kw)
                   | Some k, None =>
                       if has k kw || opt_is (nearest_default (owner k) k ms) then Ok kw
                       else Err TypeErr
                   | None, Some _ => Err TypeErr
                   | None, None => Ok kw
                   end) with
            | Err e => Err e
            | Ok kw1 =>
                let unknown := filter (fun p => negb (accepted (fst p))) kw1 in
                if negb (opt_is ovf_of) && negb (match unknown with [] => true | _ => false end)
                then Err TypeErr else
                match fold_left (owner_step false kw1) (rev parents) (Ok ([], [])) with
                | Err e => Err e
                | Ok dh =>
                    match owner_step true kw1 (Ok dh) m with
                    | Err e => Err e
                    | Ok (d, hc) =>
                        match (match ovf_of with
                               | Some o => assign o (ADict unknown) d
                               | None => Ok d end) with
                        | Err e => Err e
                        | Ok d' =>
                            (* the hook runs last: it finds every attribute set, overflow included *)
                            Ok (mkout d' (map (fun c => (c, map fst d')) post_of) hc)
                        end
                    end
                end
            end
        end
    end.
End Spec.

(* ------------------------------------------------------------------ linearised ancestry *)
(* class tables list the newest class first; the MRO is Python's (Model.mro_of) *)
Fixpoint mro_tab (ct : list cdesc) : list (cid * list cid) :=
  match ct with
  | [] => []
  | k :: older =>
      let t := mro_tab older in
      (k_id k, mro_of (k_id k)
                      (map (fun b => match assoc b t with Some m => m | None => [] end) (k_bases k))
                      (k_bases k)) :: t
  end.

Definition find_desc (c : cid) (ct : list cdesc) : option cdesc :=
  find (fun k => k_id k =? c) ct.

Definition anc (ct : list cdesc) (c : cid) : list cdesc :=
  flat_map (fun x => match find_desc x ct with Some k => [k] | None => [] end)
           (match assoc c (mro_tab ct) with Some m => m | None => [] end).

(* the property: what constructing class c of table ct with these arguments must give *)
Definition expected (ct : list cdesc) (c : cid) (pos : option aval) (kw : list (aid * aval))
  : res outcome :=
  expected_init (anc ct c) pos kw.
