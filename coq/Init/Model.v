(* C09 — model of class bootstrapping (attribute resolution along a hierarchy) and of the
   generated constructor.  Transliteration, restricted to the grammar of harness/c09.py, of
     spec_classes/spec_class.py   spec_class.bootstrap, build_attr_spec,
                                  SpecClassMetadata.for_class
     spec_classes/types/attr.py   Attr.from_attr_value, lookup_default_value, default_value,
                                  has_default
     spec_classes/methods/core.py InitMethod.init, InitMethod.build_method
     spec_classes/utils/method_builder.py  the generated __init__ wrapper (key positional,
                                  advertised keywords validated, overflow -> **kwargs)
     spec_classes/utils/mutation.py  prepare_attr_value / mutate_attr as seen by one assignment
   Values are identity-free trees (C09 is about WHAT is assigned; sharing is C08's).
   The record [quirks] switches the behaviour of the code before the `fix:` commits back on
   (regression evidence only); [cur] is the code as it is today.  No proofs in this file. *)
From Coq Require Import List ZArith Bool Arith.
From SC Require Import Base.Res.
Import ListNotations.

Definition aid := nat.   (* attribute / keyword names *)
Definition cid := nat.   (* class names *)

(* ------------------------------------------------------------------ values *)
Inductive aval :=
| ANone
| AInt (z : Z)
| AStr (z : Z)                        (* 0 = "", otherwise a non-empty word over {a,b} *)
| AList (l : list aval)
| ADict (l : list (aid * aval))       (* keys are names (str) *)
| ALeaf (z : Z).                      (* instance Leaf(n=z) of the nested spec class *)

Inductive ty := TAny | TInt | TStr | TOptInt | TListInt | TLeaf | TDictAny.

(* callback pool: preparers `_prepare_<a>(self, v)` and the per-attribute transforms of
   hand-written constructors *)
Inductive fn :=
| FId                    (* return v *)
| FInc                   (* return v + 1 *)
| FConst (v : aval)      (* return <literal> *)
| FWrap.                 (* return [v] *)

Definition N_LEAF : aid := 0.    (* the attribute `n` of Leaf *)
Definition A_EXTRA : aid := 99.  (* the unmanaged attribute set by hand-written constructors *)

Definition apply_fn (f : fn) (v : aval) : res aval :=
  match f with
  | FId => Ok v
  | FInc => match v with AInt z => Ok (AInt (z + 1)) | _ => Err TypeErr end
  | FConst c => Ok c
  | FWrap => Ok (AList [v])
  end.

Definition is_int (v : aval) : bool := match v with AInt _ => true | _ => false end.

(* check_type restricted to the type grammar *)
Definition conforms (t : ty) (v : aval) : bool :=
  match t, v with
  | TAny, _ => true
  | TInt, AInt _ => true
  | TStr, AStr _ => true
  | TOptInt, ANone => true
  | TOptInt, AInt _ => true
  | TListInt, AList l => forallb is_int l
  | TLeaf, ALeaf _ => true
  | TDictAny, ADict _ => true
  | _, _ => false
  end.

(* mutate_value step 3: a dict where the type does not accept a dict is a bag of
   constructor arguments: constructor( **value ) *)
Definition cast_dict (t : ty) (d : list (aid * aval)) : res aval :=
  match t with
  | TAny | TDictAny => Ok (ADict d)
  | TInt => match d with [] => Ok (AInt 0) | _ => Err TypeErr end
  | TStr => match d with [] => Ok (AStr 0) | _ => Err TypeErr end
  | TOptInt => Err TypeErr
  | TListInt => match d with [] => Ok (AList []) | _ => Err TypeErr end
  | TLeaf => match d with
             | [] => Ok (ALeaf 0)
             | [(a, AInt z)] => if a =? N_LEAF then Ok (ALeaf z) else Err TypeErr
             | _ => Err TypeErr
             end
  end.

(* SequenceMutator.add_items / _inserter on a fresh list *)
Fixpoint add_int_items (l : list aval) : res (list aval) :=
  match l with
  | [] => Ok []
  | x :: t =>
      match (match x with
             | AInt z => Ok (AInt z)
             | ADict [] => Ok (AInt 0)          (* int( **{} ) *)
             | ADict _ => Err TypeErr
             | _ => Err ValueErr
             end) with
      | Err e => Err e
      | Ok x' => match add_int_items t with Ok t' => Ok (x' :: t') | Err e => Err e end
      end
  end.

(* CollectionAttrMutator.prepare for the two collection types of the grammar *)
Definition normalise (t : ty) (v : aval) : res aval :=
  match t with
  | TListInt =>
      match v with
      | ANone => Ok (AList [])
      | AList l => if forallb is_int l then Ok v
                   else match add_int_items l with Ok l' => Ok (AList l') | Err e => Err e end
      | AStr z => if (z =? 0)%Z then Ok (AList []) else Err ValueErr
      | AInt _ | ALeaf _ => Err TypeErr           (* not iterable *)
      | ADict _ => Ok v                           (* unreachable: cast_dict ran first *)
      end
  | TDictAny =>
      match v with
      | ANone => Ok (ADict [])
      | ADict _ => Ok v
      | _ => Err TypeErr                          (* not a mapping *)
      end
  | _ => Ok v
  end.

(* one assignment `self.a = v` as seen from outside:
   prepare_attr_value (preparer, dict cast, collection normalisation) then the type check of
   mutate_attr.  Shared by model and specification: C09 is about which value reaches which
   attribute, not about the preparation of a single value (C03/C05). *)
Definition prepare_value (t : ty) (p : option fn) (v : aval) : res aval :=
  match (match p with Some f => apply_fn f v | None => Ok v end) with
  | Err e => Err e
  | Ok v1 =>
      match (match v1 with ADict d => cast_dict t d | _ => Ok v1 end) with
      | Err e => Err e
      | Ok v2 =>
          match normalise t v2 with
          | Err e => Err e
          | Ok v3 => if conforms t v3 then Ok v3 else Err TypeErr
          end
      end
  end.

(* `self.a = MISSING` (only a hand-written constructor handed the key placeholder can do
   that): mutate_value falls through to constructor() *)
Definition prepare_missing (t : ty) : res aval :=
  match t with
  | TInt => Ok (AInt 0) | TStr => Ok (AStr 0) | TListInt => Ok (AList [])
  | TLeaf => Ok (ALeaf 0) | TDictAny => Ok (ADict [])
  | TAny | TOptInt => Err TypeErr
  end.

(* ------------------------------------------------------------------ class descriptions *)
Inductive dflt := DNone | DVal (v : aval) | DFac (v : aval).   (* default / default_factory *)

Inductive entry :=                    (* a class-body assignment `a = ...` *)
| ELit (v : aval)                                 (* literal (immutable or mutable) *)
| EAttr (d : dflt) (init : bool) (field : bool).  (* Attr(...) / dataclasses.field(...) *)

Inductive dnc := DncFalse | DncTrue | DncList (l : list aid).

Record deco := mkdeco {
  d_key : option (option aid);   (* key= : not given / None / name *)
  d_ovf : option (option aid);   (* init_overflow_attr= *)
  d_dnc : dnc;                   (* do_not_copy= *)
}.

Record hinit := mkhinit {        (* def __init__(self, p1=d1, ...): self.p1 = t1(p1); ...;
                                    self.extra = [p1, ...] *)
  h_params : list (aid * aval);
  h_tr : list (aid * fn);
}.

Record cdesc := mkcdesc {
  k_id : cid;
  k_bases : list cid;
  k_deco : option deco;             (* Some: decorated with @spec_class(...) *)
  k_annots : list (aid * ty);       (* annotations of the body, in order *)
  k_dict : list (aid * entry);      (* assignments of the body *)
  k_preps : list (aid * fn);        (* _prepare_<a> methods of the body *)
  k_post : bool;                    (* defines __post_init__ *)
  k_hinit : option hinit;           (* hand-written __init__ *)
}.

(* ------------------------------------------------------------------ resolved classes *)
Inductive centry := CVal (v : aval) | CMissing.   (* class attribute after bootstrapping *)

Record rattr := mkrattr {
  r_name : aid;
  r_ty : ty;
  r_dflt : dflt;
  r_init : bool;
  r_owner : cid;
  r_dnc : bool;
  r_prep : option fn;
}.

Record rmeta := mkrmeta {
  m_owner : cid;
  m_key : option aid;
  m_ovf : option aid;
  m_attrs : list rattr;
  m_post : option cid;              (* class whose __post_init__ was captured *)
}.

Inductive init_kind := IGen | IHand (h : hinit).

Record rcls := mkrcls {
  rc_id : cid;
  rc_mro : list cid;
  rc_dict : list (aid * centry);
  rc_annots : list (aid * ty);
  rc_preps : list (aid * fn);
  rc_post : bool;
  rc_meta : option rmeta;           (* own `__spec_class__` (None: plain class) *)
  rc_init : option init_kind;       (* own `__init__` *)
}.

Record quirks := mkq {
  q_plain_parent : bool;   (* parent loop takes inherited metadata of plain classes *)
  q_pass_noninit : bool;   (* parent loop forwards init=False attributes *)
  q_rebuild_drop : bool;   (* bootstrap rebuilds inherited Attr from the class value only *)
  q_pop_ovf : bool;        (* parent loop consumes the overflow attribute's own keyword *)
  q_drop_noninit_ovf : bool; (* keywords naming init=False attributes vanish under overflow *)
  q_static_post : bool;    (* __post_init__ taken from the metadata, not from type(self) *)
  q_fwd_missing : bool;    (* parent loop forwards the MISSING placeholder of an omitted key *)
}.
Definition cur : quirks := mkq false false false false false false false.

(* ------------------------------------------------------------------ small list utilities *)
Fixpoint assoc {B} (a : nat) (l : list (nat * B)) : option B :=
  match l with
  | [] => None
  | (k, v) :: t => if k =? a then Some v else assoc a t
  end.

Definition has {B} (a : nat) (l : list (nat * B)) : bool :=
  match assoc a l with Some _ => true | None => false end.

Fixpoint assoc_del {B} (a : nat) (l : list (nat * B)) : list (nat * B) :=
  match l with
  | [] => []
  | (k, v) :: t => if k =? a then assoc_del a t else (k, v) :: assoc_del a t
  end.

(* dict[a] = v : in place when present, appended otherwise *)
Fixpoint assoc_set {B} (a : nat) (v : B) (l : list (nat * B)) : list (nat * B) :=
  match l with
  | [] => [(a, v)]
  | (k, w) :: t => if k =? a then (k, v) :: t else (k, w) :: assoc_set a v t
  end.

Definition memb (a : nat) (l : list nat) : bool := existsb (Nat.eqb a) l.

Definition opt_is {A} (o : option A) : bool := match o with Some _ => true | None => false end.
Definition opt_eqb (o : option nat) (a : nat) : bool :=
  match o with Some b => b =? a | None => false end.

Fixpoint first_some {A B} (f : A -> option B) (l : list A) : option B :=
  match l with
  | [] => None
  | x :: t => match f x with Some y => Some y | None => first_some f t end
  end.

Definition find_cls (c : cid) (l : list rcls) : option rcls :=
  find (fun r => rc_id r =? c) l.

Definition find_attr (a : aid) (l : list rattr) : option rattr :=
  find (fun r => r_name r =? a) l.

(* dict.update for one Attr: replace in place or append *)
Fixpoint upd_attr (l : list rattr) (r : rattr) : list rattr :=
  match l with
  | [] => [r]
  | x :: t => if r_name x =? r_name r then r :: t else x :: upd_attr t r
  end.

(* ------------------------------------------------------------------ MRO (C3) *)
Definition in_tail (c : cid) (seqs : list (list cid)) : bool :=
  existsb (fun s => memb c (tl s)) seqs.

Definition c3_head (seqs : list (list cid)) : option cid :=
  first_some (fun s => match s with
                       | h :: _ => if in_tail h seqs then None else Some h
                       | [] => None end) seqs.

Definition drop_head (c : cid) (s : list cid) : list cid :=
  match s with h :: t => if h =? c then t else s | [] => [] end.

Fixpoint c3_merge (fuel : nat) (seqs : list (list cid)) : list cid :=
  match fuel with
  | O => []
  | S n =>
      let seqs' := filter (fun s => match s with [] => false | _ => true end) seqs in
      match seqs' with
      | [] => []
      | _ => match c3_head seqs' with
             | None => []      (* inconsistent hierarchy: Python refuses the class *)
             | Some h => h :: c3_merge n (map (drop_head h) seqs')
             end
      end
  end.

Definition mro_of (c : cid) (base_mros : list (list cid)) (bases : list cid) : list cid :=
  match base_mros with
  | [] => [c]
  | [m] => c :: m
  | _ => c :: c3_merge (S (length (concat base_mros) + length bases)) (base_mros ++ [bases])
  end.

(* ------------------------------------------------------------------ bootstrap *)
(* `anc` : the resolved classes along the MRO of the class being bootstrapped, itself excluded *)

Definition raw_centry (e : entry) : centry :=
  match e with
  | ELit v => CVal v
  | EAttr (DVal v) _ _ => CVal v      (* setattr(spec_cls, attr, attr_value.default) *)
  | EAttr _ _ _ => CMissing           (* ... else MISSING *)
  end.

(* getattr(cls, a, MISSING) through the already bootstrapped ancestors *)
Definition anc_getattr (anc : list rcls) (a : aid) : option centry :=
  first_some (fun r => assoc a (rc_dict r)) anc.

Definition centry_dflt (o : option centry) : dflt :=
  match o with Some (CVal v) => DVal v | _ => DNone end.

(* getattr(spec_cls, "_prepare_<a>", MISSING) *)
Definition find_prep (k : cdesc) (anc : list rcls) (a : aid) : option fn :=
  match assoc a (k_preps k) with
  | Some f => Some f
  | None => first_some (fun r => assoc a (rc_preps r)) anc
  end.

Definition dnc_for (d : deco) (a : aid) : bool :=
  match d_dnc d with DncFalse => false | DncTrue => true | DncList l => memb a l end.

(* build_attr_spec (inh: the inherited Attr when an inherited attribute is rebuilt) *)
Definition build_attr_spec (q : quirks) (k : cdesc) (anc : list rcls) (a : aid) (t : ty)
           (dn : bool) (inh : option rattr) : rattr :=
  let p := find_prep k anc a in
  match assoc a (k_dict k) with
  | Some (EAttr d i _) =>
      (* an Attr/Field was declared: lifted, and this class owns the attribute *)
      mkrattr a t d i (k_id k) dn p
  | other =>
      let d := match other with
               | Some (ELit v) => DVal v
               | _ => centry_dflt (anc_getattr anc a)
               end in
      match inh with
      | Some r => mkrattr a t d (if q_rebuild_drop q then true else r_init r) (r_owner r) dn p
      | None => mkrattr a t d true (k_id k) dn p
      end
  end.

Definition own_meta (r : rcls) : option rmeta := rc_meta r.

(* getattr(cls, "__spec_class__", None) for the class heading `anc` *)
Definition nearest_meta (anc : list rcls) : option rmeta := first_some own_meta anc.

Definition nearest_annot (k : cdesc) (anc : list rcls) (a : aid) : ty :=
  match assoc a (k_annots k) with
  | Some t => t
  | None => match first_some (fun r => assoc a (rc_annots r)) anc with
            | Some t => t | None => TAny end
  end.

Definition nearest_post (k : cdesc) (anc : list rcls) : option cid :=
  if k_post k then Some (k_id k)
  else first_some (fun r => if rc_post r then Some (rc_id r) else None) anc.

(* SpecClassMetadata.for_class + spec_class.bootstrap.
   base_ancs: for every base (in declaration order) its resolved MRO, the base first. *)
Definition bootstrap (q : quirks) (k : cdesc) (d : deco) (anc : list rcls)
           (base_ancs : list (list rcls)) : rmeta :=
  (* for_class *)
  let inherited_meta := nearest_meta anc in
  let attrs_inherited :=
    match inherited_meta with
    | None => []
    | Some _ =>
        fold_left (fun acc ba => match nearest_meta ba with
                                 | Some pm => fold_left upd_attr (m_attrs pm) acc
                                 | None => acc end)
                  (rev base_ancs) []
    end in
  let key0 := match inherited_meta with Some m => m_key m | None => None end in
  let ovf0 := match inherited_meta with Some m => m_ovf m | None => None end in
  (* decorator arguments *)
  let key := match d_key d with Some x => x | None => key0 end in
  let ovf := match d_ovf d with Some x => x | None => ovf0 end in
  (* managed attributes: own annotations, then decorator attrs (the overflow attribute) *)
  let ovf_new := match d_ovf d with Some (Some o) => [o] | _ => [] end in
  let managed := map fst (k_annots k) ++ ovf_new in
  let typed := (match d_key d with Some (Some x) => [x] | _ => [] end) ++ managed in
  (* inherited Attr specifications *)
  let attrs1 :=
    map (fun r =>
           if memb (r_name r) typed then r
           else
             let dn := dnc_for d (r_name r) in
             if has (r_name r) (k_dict k) then
               build_attr_spec q k anc (r_name r) (r_ty r) dn (Some r)
             else if negb (Bool.eqb dn (r_dnc r)) then
               if q_rebuild_drop q
               then build_attr_spec q k anc (r_name r) (r_ty r) dn (Some r)
               else mkrattr (r_name r) (r_ty r) (r_dflt r) (r_init r) (r_owner r) dn (r_prep r)
             else r)
        attrs_inherited in
  (* new or re-declared attributes *)
  let attrs2 :=
    fold_left (fun acc a =>
                 let t := if memb a ovf_new then TDictAny else nearest_annot k anc a in
                 upd_attr acc (build_attr_spec q k anc a t (dnc_for d a) None))
              managed attrs1 in
  (* key attribute that is not managed *)
  let attrs3 :=
    match d_key d with
    | Some (Some x) =>
        if opt_is (find_attr x attrs2) then attrs2
        else attrs2 ++ [build_attr_spec q k anc x (nearest_annot k anc x) false None]
    | _ => attrs2
    end in
  mkrmeta (k_id k) key ovf attrs3 (nearest_post k anc).

(* the resolved classes along an MRO given as names; `pool`: where to find them *)
Definition rcls_along (pool : list rcls) (m : list cid) : list rcls :=
  flat_map (fun c => match find_cls c pool with Some r => [r] | None => [] end) m.

(* resolve one class given, for every base, the resolved classes along the base's MRO *)
Definition resolve_one (q : quirks) (k : cdesc) (base_ancs : list (list rcls)) : rcls :=
  let mro := mro_of (k_id k) (map (map rc_id) base_ancs) (k_bases k) in
  let anc := rcls_along (concat base_ancs) (tl mro) in
  mkrcls (k_id k) mro
         (map (fun p => (fst p, raw_centry (snd p))) (k_dict k))
         (k_annots k) (k_preps k) (k_post k)
         (match k_deco k with Some d => Some (bootstrap q k d anc base_ancs) | None => None end)
         (match k_hinit k with
          | Some h => Some (IHand h)
          | None => match k_deco k with Some _ => Some IGen | None => None end
          end).

(* class tables list the newest class first; bases are defined earlier (further back) *)
Definition ranc (rt : list rcls) (c : cid) : list rcls :=
  match find_cls c rt with
  | Some r => rcls_along rt (rc_mro r)
  | None => []
  end.

Fixpoint resolve_all (q : quirks) (ct : list cdesc) : list rcls :=
  match ct with
  | [] => []
  | k :: older =>
      let rt := resolve_all q older in
      resolve_one q k (map (ranc rt) (k_bases k)) :: rt
  end.

(* ------------------------------------------------------------------ construction *)
Record st := mkst {
  s_dict : list (aid * aval);    (* instance __dict__ in insertion order *)
  s_post : list (cid * list aid); (* __post_init__ bodies that ran: defining class and the
                                     attribute names in the instance dict at that moment *)
  s_hand : list cid;             (* hand-written constructors that ran *)
}.

Definition kwargs := list (aid * option aval).   (* None: the MISSING placeholder *)

Definition kw_get (a : aid) (kw : kwargs) : option aval :=
  match assoc a kw with Some (Some v) => Some v | _ => None end.

Section Init.
  Variable q : quirks.
  Variable ra : list rcls.      (* resolved classes along the MRO of type(self), self first *)

  Definition self_meta : option rmeta := nearest_meta ra.

  (* Attr.default_value *)
  Definition default_value (r : rattr) : option aval :=
    match r_dflt r with DNone => None | DVal v => Some v | DFac v => Some v end.

  (* Attr.lookup_default_value(type(self)) *)
  Fixpoint lookup_default_in (r : rattr) (l : list rcls) : option aval :=
    match l with
    | [] => None
    | c :: t =>
        if rc_id c =? r_owner r then default_value r
        else match assoc (r_name r) (rc_dict c) with
             | Some (CVal v) => Some v
             | Some CMissing => None
             | None => lookup_default_in r t
             end
    end.
  Definition lookup_default (r : rattr) : option aval := lookup_default_in r ra.

  (* self.__setattr__(a, v) *)
  Definition set_attr (m : rmeta) (a : aid) (v : option aval) (s : st) : res st :=
    match find_attr a (m_attrs m) with
    | Some r =>
        match (match v with
               | Some x => prepare_value (r_ty r) (r_prep r) x
               | None => prepare_missing (r_ty r) end) with
        | Ok x => Ok (mkst (assoc_set a x (s_dict s)) (s_post s) (s_hand s))
        | Err e => Err e
        end
    | None =>
        match v with
        | Some x => Ok (mkst (assoc_set a x (s_dict s)) (s_post s) (s_hand s))
        | None => Ok s        (* mutate_attr returns at once on MISSING *)
        end
    end.

  (* names the generated wrapper of a class accepts through **kwargs *)
  Definition valid_kwargs (m : rmeta) : list aid :=
    map r_name (filter (fun r => r_init r && negb (opt_eqb (m_key m) (r_name r))
                                 && negb (opt_eqb (m_ovf m) (r_name r))) (m_attrs m)).

  Definition wrapper_ok (m : rmeta) (kw : kwargs) : bool :=
    opt_is (m_ovf m)
    || forallb (fun p => opt_eqb (m_key m) (fst p) || memb (fst p) (valid_kwargs m)) kw.

  (* second half of InitMethod.init: the attributes owned by spec_cls *)
  Definition own_loop (m : rmeta) (spec_cls : cid) (kw : kwargs) (s : st) : res st :=
    fold_left (fun acc r =>
                 match acc with
                 | Err e => Err e
                 | Ok s =>
                     if negb (r_init r) || negb (r_owner r =? spec_cls)
                        || opt_eqb (m_ovf m) (r_name r) then Ok s
                     else
                       match (match kw_get (r_name r) kw with
                              | Some v => Some v
                              | None => lookup_default r end) with
                       | Some v => set_attr m (r_name r) (Some v) s
                       | None => Ok s
                       end
                 end)
              (m_attrs m) (Ok s).

  (* a hand-written constructor of the documented shape *)
  Definition run_hinit (m : rmeta) (c : cid) (h : hinit) (kw : kwargs) (s : st) : res st :=
    if negb (forallb (fun p => has (fst p) (h_params h)) kw) then Err TypeErr else
    let vals := map (fun p => (fst p, match assoc (fst p) kw with
                                      | Some v => v
                                      | None => Some (snd p) end)) (h_params h) in
    match fold_left (fun acc p =>
                       match acc with
                       | Err e => Err e
                       | Ok s =>
                           let f := match assoc (fst p) (h_tr h) with Some f => f | None => FId end in
                           match snd p with
                           | Some v => match apply_fn f v with
                                       | Ok v' => set_attr m (fst p) (Some v') s
                                       | Err e => Err e end
                           | None => match f with
                                     | FId => set_attr m (fst p) None s
                                     | FConst v' => set_attr m (fst p) (Some v') s
                                     | _ => Err TypeErr      (* MISSING + 1, [MISSING] *)
                                     end
                           end
                       end) vals (Ok s) with
    | Err e => Err e
    | Ok s' =>
        let extra := AList (map (fun p => match snd p with Some v => v | None => ANone end) vals) in
        Ok (mkst (assoc_set A_EXTRA extra (s_dict s')) (s_post s') (s_hand s' ++ [c]))
    end.

  (* the generated wrapper followed by the non-top part of InitMethod.init *)
  Definition gen_init_inner (m : rmeta) (g : rcls) (gm : rmeta) (kw : kwargs) (s : st) : res st :=
    if negb (wrapper_ok gm kw) then Err TypeErr
    else own_loop m (rc_id g) kw s.

  (* parent.__init__(self, **kw): resolved along the parent's own MRO *)
  Definition call_parent_init (m : rmeta) (parent : rcls) (kw : kwargs) (s : st) : res st :=
    match first_some (fun c => match find_cls c ra with
                               | Some r => match rc_init r with Some i => Some (r, i) | None => None end
                               | None => None end) (rc_mro parent) with
    | Some (g, IGen) =>
        match rc_meta g with
        | Some gm => gen_init_inner m g gm kw s
        | None => Err RuntimeErr
        end
    | Some (g, IHand h) => run_hinit m (rc_id g) h kw s
    | None => if match kw with [] => true | _ => false end then Ok s else Err TypeErr  (* object.__init__ *)
    end.

  (* first half of InitMethod.init: one parent of the loop *)
  Definition parent_step (m : rmeta) (acc : res (kwargs * st)) (pc : cid) : res (kwargs * st) :=
    match acc with
    | Err e => Err e
    | Ok (kw, s) =>
        match find_cls pc ra with
        | None => Ok (kw, s)                       (* object *)
        | Some parent =>
            match (if q_plain_parent q then nearest_meta (rcls_along ra (rc_mro parent))
                   else rc_meta parent) with
            | None => Ok (kw, s)
            | Some pm =>
                let r := fold_left
                  (fun acc pr =>
                     match acc with
                     | Err e => Err e
                     | Ok (pkw, kw) =>
                         match find_attr (r_name pr) (m_attrs m) with
                         | None => Err KeyErr
                         | Some ir =>
                             if negb (r_owner ir =? rc_id parent)
                                || (negb (q_pass_noninit q) && negb (r_init ir))
                                || (negb (q_pop_ovf q) && opt_eqb (m_ovf m) (r_name ir))
                             then Ok (pkw, kw)
                             else match (match assoc (r_name pr) kw with
                                         | Some None => if q_fwd_missing q then Some None else None
                                         | o => o end) with
                                  | Some v => Ok (pkw ++ [(r_name pr, v)], assoc_del (r_name pr) kw)
                                  | None => match lookup_default ir with
                                            | Some dv => Ok (pkw ++ [(r_name pr, Some dv)], kw)
                                            | None => Ok (pkw, kw)
                                            end
                                  end
                         end
                     end) (m_attrs pm) (Ok ([], kw)) in
                match r with
                | Err e => Err e
                | Ok (pkw, kw') =>
                    let pkw' := match m_key pm with
                                | Some ka => if has ka pkw then pkw else pkw ++ [(ka, None)]
                                | None => pkw end in
                    match call_parent_init m parent pkw' s with
                    | Err e => Err e
                    | Ok s' => Ok (kw', s')
                    end
                end
            end
        end
    end.

  Definition is_unknown (m : rmeta) (a : aid) : bool :=
    match find_attr a (m_attrs m) with
    | None => true
    | Some r => (negb (q_drop_noninit_ovf q) && negb (r_init r)) || opt_eqb (m_ovf m) a
    end.

  (* InitMethod.init(spec_cls, self, **kw) as the top-level call *)
  Definition init_top (m : rmeta) (g : rcls) (kw : kwargs) (s : st) : res st :=
    match fold_left (parent_step m) (rev (tl (rc_mro g))) (Ok (kw, s)) with
    | Err e => Err e
    | Ok (kw1, s1) =>
        match own_loop m (rc_id g) kw1 s1 with
        | Err e => Err e
        | Ok s2 =>
            match (match m_ovf m with
                   | Some o =>
                       let content :=
                         flat_map (fun p => if is_unknown m (fst p)
                                            then match snd p with Some v => [(fst p, v)] | None => [] end
                                            else []) kw1 in
                       set_attr m o (Some (ADict content)) s2
                   | None => Ok s2 end) with
            | Err e => Err e
            | Ok s3 =>
                let post := if q_static_post q then m_post m
                            else first_some (fun r => if rc_post r then Some (rc_id r) else None) ra in
                Ok (match post with
                    | Some pc => mkst (s_dict s3) (s_post s3 ++ [(pc, map fst (s_dict s3))]) (s_hand s3)
                    | None => s3 end)
            end
        end
    end.

  (* the call  type(self)(pos?, **kw) *)
  Definition construct_in (pos : option aval) (kw : list (aid * aval)) : res st :=
    let s0 := mkst [] [] [] in
    let kw0 : kwargs := map (fun p => (fst p, Some (snd p))) kw in
    match first_some (fun r => match rc_init r with Some i => Some (r, i) | None => None end) ra with
    | None => Err RuntimeErr
    | Some (g, IHand h) =>
        match self_meta with
        | None => Err RuntimeErr
        | Some m =>
            match pos, h_params h with
            | None, _ => run_hinit m (rc_id g) h kw0 s0
            | Some v, (p, _) :: _ => if has p kw0 then Err TypeErr
                                     else run_hinit m (rc_id g) h ((p, Some v) :: kw0) s0
            | Some _, [] => Err TypeErr
            end
        end
    | Some (g, IGen) =>
        match rc_meta g, self_meta with
        | Some gm, Some m =>
            (* binding of the generated signature (self, <key>[=MISSING], **kwargs) *)
            match (match m_key gm with
                   | Some ka =>
                       let has_default := match find_attr ka (m_attrs gm) with
                                          | Some r => match r_dflt r with DNone => false | _ => true end
                                          | None => false end in
                       match pos with
                       | Some v => if has ka kw0 then Err TypeErr else Ok ((ka, Some v) :: kw0)
                       | None => if has ka kw0 then Ok kw0
                                 else if has_default then Ok ((ka, None) :: kw0)
                                 else Err TypeErr
                       end
                   | None => match pos with Some _ => Err TypeErr | None => Ok kw0 end
                   end) with
            | Err e => Err e
            | Ok kw1 =>
                if negb (wrapper_ok gm kw1) then Err TypeErr
                else if m_owner m =? rc_id g then init_top m g kw1 s0
                else own_loop m (rc_id g) kw1 s0
            end
        | _, _ => Err RuntimeErr
        end
    end.
End Init.

Definition construct (q : quirks) (ct : list cdesc) (c : cid) (pos : option aval)
           (kw : list (aid * aval)) : res st :=
  construct_in q (ranc (resolve_all q ct) c) pos kw.
