(* Executable model of spec_classes/types/spec_property.py:spec_property
   (__get__ / __set__ / __delete__ exactly as written: ONE instance-__dict__
   slot shared by the user override and the cache), and of what the owning
   class does around the descriptor:
     plain class      : nothing;
     spec class       : methods/core.py __setattr__ (prepare_attr_value for a
                        managed attribute, utils/mutation.py:mutate_attr:
                        sentinels are "no assignment", type check -> TypeError,
                        invalidation), __delattr__ (masked attribute -> raw
                        delattr), __getattr__ (an AttributeError leaving
                        __get__ makes CPython call the generated __getattr__,
                        which calls __getattribute__ and thereby __get__ a
                        second time).
   Everything user supplied is a parameter: the value type, the underlying
   state U the getter reads, getter / custom setter / custom deleter (they
   may change U and may raise), the state changes `poke`, the value
   preparation of the attribute (prepare_attr_value) and its type check.
   No proofs in this file. *)
From Coq Require Import List Bool.
From SC Require Import Base.Res.
Import ListNotations.

(* constructor arguments of spec_property that matter for the protocol *)
Record cfg := mkcfg {
  overridable : bool;      (* overridable=   (default True)  *)
  cache : bool;            (* cache=         (default False) *)
  has_fset : bool;         (* a custom setter was attached with .setter *)
  has_fdel : bool;         (* a custom deleter was attached with .deleter *)
  has_fget : bool;         (* fget is not None *)
  allow_ae : bool          (* allow_attribute_error= (default True) *)
}.

(* who owns the property.  `inval`: the property lists the attribute that
   `Poke` assigns in invalidated_by=[...] *)
Inductive owner :=
| Plain
| SpecUnmanaged (inval : bool)     (* spec class, no annotation for the property *)
| SpecManaged (inval : bool).      (* spec class, `p: T` annotated: prepare + type check *)

Definition managed (o : owner) : bool :=
  match o with SpecManaged _ => true | _ => false end.
Definition is_spec (o : owner) : bool :=
  match o with Plain => false | _ => true end.
Definition invalidates (o : owner) : bool :=
  match o with Plain => false | SpecUnmanaged i | SpecManaged i => i end.

Section SP.
  Context {val U P : Type}.
  Variable is_sentinel : val -> bool.          (* v is MISSING / EMPTY / UNCHANGED *)
  Variable fget : U -> res val * U.            (* self.fget(instance) *)
  Variable fset : U -> val -> res unit * U.    (* self.fset(instance, value) *)
  Variable fdel : U -> res unit * U.           (* self.fdel(instance) *)
  Variable poke : P -> U -> U.                 (* obj.x = z : change of underlying state *)
  Variable prepare : val -> res val.           (* prepare_attr_value(attr_spec, instance, v) *)
  Variable tyok : val -> bool.                 (* check_type(v, attr_spec.type) *)

  Inductive op := Read | Assign (v : val) | Delete | Poke (p : P).
  Inductive out := ONone | OVal (v : val).

  (* instance.__dict__[attr_name] and the rest of the instance *)
  Record mst := mkm { slot : option val; mu : U }.

  Definition lift_val (r : res val * mst) : res out * mst :=
    (match fst r with Ok v => Ok (OVal v) | Err e => Err e end, snd r).
  Definition lift_unit (slot0 : option val) (r : res unit * U) : res out * mst :=
    (match fst r with Ok _ => Ok ONone | Err e => Err e end, mkm slot0 (snd r)).

  (* spec_property.__get__(instance, owner), instance is not None *)
  Definition desc_get (c : cfg) (mg : bool) (s : mst) : res val * mst :=
    match (if overridable c || cache c then slot s else None) with
    | Some v => (Ok v, s)                                  (* cached or overridden *)
    | None =>
      if negb (has_fget c) then (Err AttrErr, s) else
      let '(r, u') := fget (mu s) in
      let s1 := mkm (slot s) u' in
      match r with
      | Err AttrErr => (Err (if allow_ae c then AttrErr else RuntimeErr), s1) (* NestedAttributeError *)
      | Err e => (Err e, s1)
      | Ok v =>
        match (if mg
               then match prepare v with
                    | Err e => Err e
                    | Ok v' => if tyok v' then Ok v' else Err ValueErr
                    end
               else Ok v) with
        | Err e => (Err e, s1)
        | Ok v' =>
          if cache c && negb (is_sentinel v')
          then (Ok v', mkm (Some v') u')
          else (Ok v', s1)
        end
      end
    end.

  (* spec_property.__set__ *)
  Definition desc_set (c : cfg) (v : val) (s : mst) : res out * mst :=
    if has_fset c then lift_unit (slot s) (fset (mu s) v)
    else if overridable c then (Ok ONone, mkm (Some v) (mu s))
    else (Err AttrErr, s).

  (* spec_property.__delete__ *)
  Definition desc_delete (c : cfg) (s : mst) : res out * mst :=
    if has_fdel c then lift_unit (slot s) (fdel (mu s))
    else match (if overridable c || cache c then slot s else None) with
         | Some _ => (Ok ONone, mkm None (mu s))
         | None => (Err AttrErr, s)
         end.

  (* obj.p *)
  Definition obj_read (c : cfg) (o : owner) (s : mst) : res val * mst :=
    let r1 := desc_get c (managed o) s in
    if is_spec o
    then match fst r1 with
         | Err AttrErr => desc_get c (managed o) (snd r1)   (* generated __getattr__ -> __getattribute__ *)
         | _ => r1
         end
    else r1.

  (* obj.p = v *)
  Definition obj_assign (c : cfg) (o : owner) (v : val) (s : mst) : res out * mst :=
    match o with
    | Plain => desc_set c v s
    | SpecUnmanaged _ =>
        if is_sentinel v then (Ok ONone, s)               (* mutate_attr: return obj *)
        else desc_set c v s
    | SpecManaged _ =>
        match prepare v with                               (* __setattr__: prepare_attr_value *)
        | Err e => (Err e, s)
        | Ok v' =>
            if is_sentinel v' then (Ok ONone, s)
            else if tyok v' then desc_set c v' s
            else (Err TypeErr, s)
        end
    end.

  (* del obj.p : plain delattr, or the generated __delattr__ whose masked /
     unmanaged branch is the raw delattr *)
  Definition obj_delete (c : cfg) (o : owner) (s : mst) : res out * mst :=
    desc_delete c s.

  (* obj.x = z ; with invalidated_by=["x"]: invalidate_attrs -> delattr(obj, "p")
     with AttributeError swallowed *)
  Definition obj_poke (c : cfg) (o : owner) (p : P) (s : mst) : res out * mst :=
    let s1 := mkm (slot s) (poke p (mu s)) in
    if invalidates o
    then match desc_delete c s1 with
         | (Err AttrErr, s2) => (Ok ONone, s2)
         | r => r
         end
    else (Ok ONone, s1).

  Definition m_step (c : cfg) (o : owner) (s : mst) (x : op) : res out * mst :=
    match x with
    | Read => lift_val (obj_read c o s)
    | Assign v => obj_assign c o v s
    | Delete => obj_delete c o s
    | Poke p => obj_poke c o p s
    end.

  Fixpoint m_run (c : cfg) (o : owner) (s : mst) (xs : list op) : list (res out) * mst :=
    match xs with
    | [] => ([], s)
    | x :: t => let '(r, s1) := m_step c o s x in
                let '(rs, s2) := m_run c o s1 t in (r :: rs, s2)
    end.

  Definition m_init (u : U) : mst := mkm None u.
End SP.

(* the 16 combinations of the property text, for given fget / allow_attribute_error *)
Definition all_flags (g a : bool) : list cfg :=
  flat_map (fun ov => flat_map (fun ca => flat_map (fun fs => map (fun fd =>
    mkcfg ov ca fs fd g a) [false; true]) [false; true]) [false; true]) [false; true].
Definition all_cfgs : list cfg :=
  all_flags true true ++ all_flags true false ++ all_flags false true ++ all_flags false false.
Definition all_owners : list owner :=
  [Plain; SpecUnmanaged false; SpecUnmanaged true; SpecManaged false; SpecManaged true].
