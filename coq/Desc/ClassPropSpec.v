(* Specification of property C12 for classproperty: the two-slot protocol of
   SpecPropSpec.v, one machine per class of the hierarchy when
   cache_per_subclass is set, one machine for the whole hierarchy otherwise.
   The state is a FUNCTION from machine names to (override, cached); an
   operation through class k touches the machine `which c k` only.  The
   getter receives the class through which the read happens.  Unlike
   spec_property, classproperty has no owner processing (no preparer / type
   check) and caches whatever the getter returns. *)
From Coq Require Import List Bool.
From SC Require Import Base.Res Desc.ClassPropModel.
Import ListNotations.

Section Spec.
  Context {val U P cid : Type}.
  Variable cid_eqb : cid -> cid -> bool.
  Variable fget : cid -> U -> res val * U.
  Variable fset : cid -> U -> val -> res unit * U.
  Variable fdel : cid -> U -> res unit * U.
  Variable poke : P -> U -> U.

  Notation cop := (@cop val P cid).
  Notation cout := (@cout val).
  Notation key := (@key cid).

  Record slots := mksl { c_override : option val; c_cached : option val }.
  Record csst := mkcs { machine : key -> slots; csu : U }.

  (* which machine serves class k *)
  Definition which (c : ccfg) (k : cid) : key :=
    if c_per_sub c then Some k else None.

  Definition upd (f : key -> slots) (n : key) (x : slots) : key -> slots :=
    fun n' => if key_eqb cid_eqb n n' then x else f n'.

  Definition c_getter_result (c : ccfg) (k : cid) (u : U) : res val * U :=
    if c_has_fget c then
      match fget k u with
      | (Err AttrErr, u') => (Err (if c_allow_ae c then AttrErr else RuntimeErr), u')
      | r => r
      end
    else (Err AttrErr, u).

  Definition cs_read (c : ccfg) (k : cid) (s : csst) : res cout * csst :=
    let n := which c k in
    match c_override (machine s n) with
    | Some v => (Ok (CVal v), s)
    | None =>
      match c_cached (machine s n) with
      | Some v => (Ok (CVal v), s)
      | None =>
        let '(r, u') := c_getter_result c k (csu s) in
        match r with
        | Err e => (Err e, mkcs (machine s) u')
        | Ok v => (Ok (CVal v),
                   mkcs (if c_cache c then upd (machine s) n (mksl None (Some v)) else machine s) u')
        end
      end
    end.

  Definition cs_user (s : csst) (r : res unit * U) : res cout * csst :=
    (match fst r with Ok _ => Ok CNone | Err e => Err e end, mkcs (machine s) (snd r)).

  Definition cs_assign (c : ccfg) (k : cid) (v : val) (s : csst) : res cout * csst :=
    let n := which c k in
    if c_has_fset c then cs_user s (fset k (csu s) v)
    else if c_overridable c
         then (Ok CNone, mkcs (upd (machine s) n (mksl (Some v) (c_cached (machine s n)))) (csu s))
         else (Err AttrErr, s).

  Definition cs_delete (c : ccfg) (k : cid) (s : csst) : res cout * csst :=
    let n := which c k in
    if c_has_fdel c then cs_user s (fdel k (csu s))
    else match c_override (machine s n), c_cached (machine s n) with
         | None, None => (Err AttrErr, s)
         | _, _ => (Ok CNone, mkcs (upd (machine s) n (mksl None None)) (csu s))
         end.

  Definition cs_step (c : ccfg) (s : csst) (x : cop) : res cout * csst :=
    match x with
    | CReadC k | CReadI k => cs_read c k s
    | CAssign k v => cs_assign c k v s
    | CDelete k => cs_delete c k s
    | CPoke p => (Ok CNone, mkcs (machine s) (poke p (csu s)))
    end.

  Fixpoint cs_run (c : ccfg) (s : csst) (xs : list cop) : list (res cout) * csst :=
    match xs with
    | [] => ([], s)
    | x :: t => let '(r, s1) := cs_step c s x in
                let '(rs, s2) := cs_run c s1 t in (r :: rs, s2)
    end.

  Definition cs_init (u : U) : csst := mkcs (fun _ => mksl None None) u.

  Definition c_visible (x : slots) : option val :=
    match c_override x with Some v => Some v | None => c_cached x end.
End Spec.
