(* Proofs for C12 (classproperty): the dict-based code simulates the
   per-machine two-slot specification, for every configuration, every type of
   classes with decidable equality (any hierarchy), every getter / setter /
   deleter, every operation sequence. *)
From Coq Require Import List Bool.
From SC Require Import Base.Res Desc.ClassPropModel Desc.ClassPropSpec.
Import ListNotations.

Section Proofs.
  Context {val U P cid : Type}.
  Variable cid_eqb : cid -> cid -> bool.
  Variable fget : cid -> U -> res val * U.
  Variable fset : cid -> U -> val -> res unit * U.
  Variable fdel : cid -> U -> res unit * U.
  Variable poke : P -> U -> U.
  Hypothesis cid_eqb_eq : forall a b, cid_eqb a b = true <-> a = b.

  Notation key := (@key cid).
  Notation key_eqb := (key_eqb cid_eqb).
  Notation d_get := (@d_get val cid cid_eqb).
  Notation d_set := (@d_set val cid cid_eqb).
  Notation d_del := (@d_del val cid cid_eqb).
  Notation cst := (@cst val U cid).
  Notation csst := (@csst val U cid).
  Notation cp_get := (cp_get cid_eqb fget).
  Notation cp_set := (cp_set cid_eqb fset).
  Notation cp_delete := (cp_delete cid_eqb fdel).
  Notation cp_step := (cp_step cid_eqb fget fset fdel poke).
  Notation cp_run := (cp_run cid_eqb fget fset fdel poke).
  Notation cs_read := (cs_read cid_eqb fget).
  Notation cs_assign := (cs_assign cid_eqb fset).
  Notation cs_delete := (cs_delete cid_eqb fdel).
  Notation cs_step := (cs_step cid_eqb fget fset fdel poke).
  Notation cs_run := (cs_run cid_eqb fget fset fdel poke).
  Notation upd := (@upd val cid cid_eqb).

  Lemma key_eqb_eq (a b : key) : key_eqb a b = true <-> a = b.
  Proof.
    destruct a as [x|], b as [y|]; simpl; split; intro H; try discriminate; auto.
    - apply cid_eqb_eq in H. now subst.
    - inversion H; subst. now apply cid_eqb_eq.
  Qed.

  Lemma key_eqb_refl (a : key) : key_eqb a a = true.
  Proof. now apply key_eqb_eq. Qed.

  Lemma key_eqb_neq (a b : key) : a <> b -> key_eqb a b = false.
  Proof.
    intro H. destruct (key_eqb a b) eqn:E; auto. apply key_eqb_eq in E. contradiction.
  Qed.

  Lemma d_get_del_same k d : d_get k (d_del k d) = None.
  Proof.
    unfold d_get, d_del. induction d as [|[k0 v0] d IH]; simpl; auto.
    destruct (key_eqb k k0) eqn:E; simpl; auto. now rewrite E.
  Qed.

  Lemma d_get_del_other k k' d : k <> k' -> d_get k' (d_del k d) = d_get k' d.
  Proof.
    intro N. unfold d_get, d_del. induction d as [|[k0 v0] d IH]; simpl; auto.
    destruct (key_eqb k k0) eqn:E; simpl.
    - apply key_eqb_eq in E; subst k0.
      rewrite (key_eqb_neq k' k); auto.
    - destruct (key_eqb k' k0); simpl; auto.
  Qed.

  Lemma d_get_set_same k v d : d_get k (d_set k v d) = Some v.
  Proof. unfold d_get, d_set; simpl. now rewrite key_eqb_refl. Qed.

  Lemma d_get_set_other k k' v d : k <> k' -> d_get k' (d_set k v d) = d_get k' d.
  Proof.
    intro N. unfold d_set.
    change (d_get k' ((k, v) :: d_del k d)) with
      (option_map snd (if key_eqb k' k then Some (k, v)
                       else find (fun p => key_eqb k' (fst p)) (d_del k d))).
    rewrite (key_eqb_neq k' k); auto. now apply d_get_del_other.
  Qed.

  (* the dict entry of every machine name shows override, else cached *)
  Definition CR (s : csst) (m : cst) : Prop :=
    (forall n, d_get n (cdict m) = c_visible (machine s n)) /\ cu m = csu s.

  Lemma CR_init u : CR (cs_init u) (cp_init u).
  Proof. split; auto. Qed.

  Lemma CR_upd s m n x d :
    CR s m ->
    (d_get n d = c_visible x) ->
    (forall n', n <> n' -> d_get n' d = d_get n' (cdict m)) ->
    forall u, CR (mkcs (upd (machine s) n x) u) (mkc d u).
  Proof.
    intros [H1 H2] Hn Ho u. split; auto. intro n'. simpl. unfold ClassPropSpec.upd.
    destruct (key_eqb n n') eqn:E.
    - apply key_eqb_eq in E; subst n'. exact Hn.
    - rewrite Ho; [apply H1|]. intro; subst. rewrite key_eqb_refl in E. discriminate.
  Qed.

  Lemma which_key c (k : cid) : which c k = cache_key c k.
  Proof. reflexivity. Qed.

  Lemma cget_sim c k s m :
    CR s m ->
    fst (cp_get c k m) = fst (cs_read c k s) /\ CR (snd (cs_read c k s)) (snd (cp_get c k m)).
  Proof.
    intros [H1 H2]. unfold cp_get, cs_read, c_getter_result. fold (cache_key c k). change (which c k) with (cache_key c k).
    rewrite (H1 (cache_key c k)). unfold c_visible. rewrite H2.
    destruct (c_override (machine s (cache_key c k))) as [v|] eqn:Eo; simpl.
    { split; [reflexivity|split; auto]. }
    destruct (c_cached (machine s (cache_key c k))) as [v|] eqn:Ec; simpl.
    { split; [reflexivity|split; auto]. }
    destruct (c_has_fget c); simpl; [|split; [reflexivity|split; auto]].
    destruct (fget k (csu s)) as [[v|e] u']; simpl.
    - destruct (c_cache c); simpl.
      + split; [reflexivity|].
        apply (CR_upd s m); [split; auto| |].
        * now rewrite d_get_set_same.
        * intros n' N. now apply d_get_set_other.
      + split; [reflexivity|split; auto].
    - destruct e; simpl; (split; [reflexivity|split; auto]).
  Qed.

  Lemma cset_sim c k v s m :
    CR s m ->
    fst (cp_set c k v m) = fst (cs_assign c k v s) /\
    CR (snd (cs_assign c k v s)) (snd (cp_set c k v m)).
  Proof.
    intros [H1 H2]. unfold cp_set, cs_assign, c_lift, cs_user. change (which c k) with (cache_key c k). rewrite H2.
    destruct (c_has_fset c); simpl.
    - destruct (fset k (csu s) v) as [[[]|e] u']; simpl; (split; [reflexivity|split; auto]).
    - destruct (c_overridable c); simpl.
      + split; [reflexivity|]. rewrite <- H2.
        apply (CR_upd s m); [split; auto| |].
        * now rewrite d_get_set_same.
        * intros n' N. now apply d_get_set_other.
      + split; [reflexivity|split; auto].
  Qed.

  Lemma cdelete_sim c k s m :
    CR s m ->
    fst (cp_delete c k m) = fst (cs_delete c k s) /\
    CR (snd (cs_delete c k s)) (snd (cp_delete c k m)).
  Proof.
    intros [H1 H2]. unfold cp_delete, cs_delete, c_lift, cs_user. change (which c k) with (cache_key c k). rewrite H2.
    destruct (c_has_fdel c); simpl.
    - destruct (fdel k (csu s)) as [[[]|e] u']; simpl; (split; [reflexivity|split; auto]).
    - rewrite (H1 (cache_key c k)). unfold c_visible.
      assert (D : forall u, CR (mkcs (upd (machine s) (cache_key c k) (mksl None None)) u)
                              (mkc (d_del (cache_key c k) (cdict m)) u)).
      { apply (CR_upd s m); [split; auto| |].
        - now rewrite d_get_del_same.
        - intros n' N. now apply d_get_del_other. }
      destruct (c_override (machine s (cache_key c k))) as [v|]; simpl.
      + split; [reflexivity|]. apply D.
      + destruct (c_cached (machine s (cache_key c k))) as [v|]; simpl.
        * split; [reflexivity|]. apply D.
        * split; [reflexivity|split; auto].
  Qed.

  Lemma cstep_sim c x s m :
    CR s m ->
    fst (cp_step c m x) = fst (cs_step c s x) /\ CR (snd (cs_step c s x)) (snd (cp_step c m x)).
  Proof.
    intro H. destruct x as [k|k|k v|k|p]; simpl.
    - now apply cget_sim.
    - now apply cget_sim.
    - now apply cset_sim.
    - now apply cdelete_sim.
    - destruct H as [H1 H2]. split; [reflexivity|]. split; simpl; auto. now rewrite H2.
  Qed.

  Theorem crun_sim c : forall xs s m,
    CR s m ->
    fst (cp_run c m xs) = fst (cs_run c s xs) /\ CR (snd (cs_run c s xs)) (snd (cp_run c m xs)).
  Proof.
    induction xs as [|x t IH]; intros s m H; simpl; [auto|].
    destruct (cstep_sim c x s m H) as [E1 R1].
    destruct (cp_step c m x) as [r1 m1], (cs_step c s x) as [r2 s2].
    simpl in E1, R1. subst r2.
    destruct (IH s2 m1 R1) as [E2 R2].
    destruct (cp_run c m1 t) as [rs1 m2], (cs_run c s2 t) as [rs2 s3].
    simpl in *. subst rs2. auto.
  Qed.

  Corollary crun_sim_from_new c u xs :
    fst (cp_run c (cp_init u) xs) = fst (cs_run c (cs_init u) xs) /\
    (forall n, d_get n (cdict (snd (cp_run c (cp_init u) xs)))
               = c_visible (machine (snd (cs_run c (cs_init u) xs)) n)) /\
    cu (snd (cp_run c (cp_init u) xs)) = csu (snd (cs_run c (cs_init u) xs)).
  Proof.
    destruct (crun_sim c xs _ _ (CR_init u)) as [E [A B]]. auto.
  Qed.

  (* ---- clauses of the property on the code model ---- *)

  Definition op_class (x : @cop val P cid) : option cid :=
    match x with
    | CReadC k | CReadI k | CAssign k _ | CDelete k => Some k
    | CPoke _ => None
    end.

  (* cache_per_subclass=True: an access through class k leaves the entry of
     every other class alone *)
  Lemma per_subclass_isolated c x m k' :
    c_per_sub c = true -> op_class x <> Some k' ->
    d_get (Some k') (cdict (snd (cp_step c m x))) = d_get (Some k') (cdict m).
  Proof.
    intros Ep N.
    assert (K : forall k, Some k <> Some k' -> cache_key c k <> Some k').
    { intros k Hk. unfold cache_key. now rewrite Ep. }
    destruct x as [k|k|k v|k|p]; simpl in *; try reflexivity.
    - unfold cp_get. destruct (d_get (cache_key c k) (cdict m)); simpl; auto.
      destruct (c_has_fget c); simpl; auto.
      destruct (fget k (cu m)) as [[v|e] u']; simpl.
      + destruct (c_cache c); simpl; auto. apply d_get_set_other; auto.
      + destruct e; reflexivity.
    - unfold cp_get. destruct (d_get (cache_key c k) (cdict m)); simpl; auto.
      destruct (c_has_fget c); simpl; auto.
      destruct (fget k (cu m)) as [[v|e] u']; simpl.
      + destruct (c_cache c); simpl; auto. apply d_get_set_other; auto.
      + destruct e; reflexivity.
    - unfold cp_set, c_lift. destruct (c_has_fset c); simpl; auto.
      destruct (c_overridable c); simpl; auto. apply d_get_set_other; auto.
    - unfold cp_delete, c_lift. destruct (c_has_fdel c); simpl; auto.
      destruct (d_get (cache_key c k) (cdict m)); simpl; auto.
      apply d_get_del_other; auto.
  Qed.

  (* default (cache_per_subclass=False): one entry for the whole hierarchy:
     a value stored through any class is what a read through any class returns *)
  Lemma shared_hit c m v k :
    c_per_sub c = false -> d_get None (cdict m) = Some v ->
    cp_get c k m = (Ok (CVal v), m).
  Proof.
    intros Ep H. unfold cp_get, cache_key. rewrite Ep, H. reflexivity.
  Qed.

  Lemma per_subclass_hit c m v k :
    c_per_sub c = true -> d_get (Some k) (cdict m) = Some v ->
    cp_get c k m = (Ok (CVal v), m).
  Proof.
    intros Ep H. unfold cp_get, cache_key. rewrite Ep, H. reflexivity.
  Qed.

  Lemma cassign_rejected c k v m :
    c_overridable c = false -> c_has_fset c = false ->
    cp_set c k v m = (Err AttrErr, m).
  Proof. intros A B. unfold cp_set. now rewrite A, B. Qed.

  Lemma cdelete_nothing c k m :
    c_has_fdel c = false -> d_get (cache_key c k) (cdict m) = None ->
    cp_delete c k m = (Err AttrErr, m).
  Proof. intros A B. unfold cp_delete. now rewrite A, B. Qed.

  (* reads via the class and via an instance are the same operation *)
  Lemma read_class_instance c k m : cp_step c m (CReadC k) = cp_step c m (CReadI k).
  Proof. reflexivity. Qed.
End Proofs.
