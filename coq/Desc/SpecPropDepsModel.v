(* Two spec_properties on ONE spec-class instance: a trigger `t` and a
   dependant `q` declared with invalidated_by=["t"] (or invalidated_by="*").
   Each of them is the descriptor of Desc/SpecPropModel.v with its own
   instance-__dict__ entry; they share the rest of the instance (the
   underlying state U).  What this file adds is what the OWNER does between
   them (spec_classes/utils/mutation.py:mutate_attr, invalidate_attrs;
   methods/core.py:__delattr__):

     obj.t = v   : sentinel -> return; type check; the raw write
                   (spec_property.__set__); ONLY IF the write returned:
                   invalidate_attrs(obj, "t") = obj.__delattr__("q") with
                   AttributeError swallowed (another exception leaves the
                   assignment);
     del obj.t   : the raw delattr (spec_property.__delete__); only if it
                   returned: invalidate_attrs(obj, "t");
     obj.x = z   : invalidates `q` when q was declared invalidated_by="*";
     obj.q = v, del obj.q, obj.q, obj.t : touch only their own property
                   (a property is never invalidated by itself, `t` is
                   invalidated by nothing).

   No proofs in this file. *)
From Coq Require Import List Bool.
From SC Require Import Base.Res Desc.SpecPropModel.
Import ListNotations.

(* both configurations; is the annotation of t / q managed (`t: T`); was q
   declared with invalidated_by="*" instead of ["t"] *)
Record dcfg := mkd { d_ct : cfg; d_mt : bool; d_cq : cfg; d_mq : bool; d_star : bool }.

Definition spec_owner (mg inval : bool) : owner :=
  if mg then SpecManaged inval else SpecUnmanaged inval.

Section Deps.
  Context {val U P : Type}.
  Variable is_sentinel : val -> bool.
  Variables fget_t fget_q : U -> res val * U.
  Variables fset_t fset_q : U -> val -> res unit * U.
  Variables fdel_t fdel_q : U -> res unit * U.
  Variable poke : P -> U -> U.
  Variables prepare_t prepare_q : val -> res val.
  Variables tyok_t tyok_q : val -> bool.

  Inductive dop :=
  | TRead | TAssign (v : val) | TDelete
  | QRead | QAssign (v : val) | QDelete
  | XPoke (p : P).

  (* instance.__dict__["t"], instance.__dict__["q"], the rest of the instance *)
  Record dmst := mkdm { dslot_t : option val; dslot_q : option val; dmu : U }.

  (* the component machines are those of Desc/SpecPropModel.v; their own
     `Poke` is used with a state change that does nothing: on the dependant
     (an owner with inval = true) it is exactly "invalidate" *)
  Definition nopoke (_ : unit) (u : U) : U := u.
  Notation cop := (@op val unit).

  Definition t_mstep (d : dcfg) : @mst val U -> cop -> res (@out val) * @mst val U :=
    m_step is_sentinel fget_t fset_t fdel_t nopoke prepare_t tyok_t (d_ct d) (spec_owner (d_mt d) false).
  Definition q_mstep (d : dcfg) : @mst val U -> cop -> res (@out val) * @mst val U :=
    m_step is_sentinel fget_q fset_q fdel_q nopoke prepare_q tyok_q (d_cq d) (spec_owner (d_mq d) true).

  Definition m_on_t (d : dcfg) (s : dmst) (x : cop) : res (@out val) * dmst :=
    let '(r, m) := t_mstep d (mkm (dslot_t s) (dmu s)) x in
    (r, mkdm (slot m) (dslot_q s) (mu m)).
  Definition m_on_q (d : dcfg) (s : dmst) (x : cop) : res (@out val) * dmst :=
    let '(r, m) := q_mstep d (mkm (dslot_q s) (dmu s)) x in
    (r, mkdm (dslot_t s) (slot m) (mu m)).

  (* mutate_attr: does the value get as far as the raw write? *)
  Definition m_reaches (d : dcfg) (v : val) : bool :=
    if d_mt d
    then match prepare_t v with
         | Ok v' => negb (is_sentinel v') && tyok_t v'
         | Err _ => false
         end
    else negb (is_sentinel v).

  (* the write `w` on the trigger, then invalidate_attrs -- placed AFTER the
     write, so only reached when the write returned *)
  Definition m_then_invalidate (d : dcfg) (happened : bool) (w : res (@out val) * dmst)
    : res (@out val) * dmst :=
    match w with
    | (Ok o, s1) =>
        if happened
        then match m_on_q d s1 (Poke tt) with
             | (Ok _, s2) => (Ok o, s2)
             | (Err e, s2) => (Err e, s2)
             end
        else (Ok o, s1)
    | (Err e, s1) => (Err e, s1)
    end.

  Definition dm_step (d : dcfg) (s : dmst) (x : dop) : res (@out val) * dmst :=
    match x with
    | TRead => m_on_t d s Read
    | TAssign v => m_then_invalidate d (m_reaches d v) (m_on_t d s (Assign v))
    | TDelete => m_then_invalidate d true (m_on_t d s Delete)
    | QRead => m_on_q d s Read
    | QAssign v => m_on_q d s (Assign v)
    | QDelete => m_on_q d s Delete
    | XPoke p =>
        let s1 := mkdm (dslot_t s) (dslot_q s) (poke p (dmu s)) in
        if d_star d then m_on_q d s1 (Poke tt) else (Ok ONone, s1)
    end.

  Fixpoint dm_run (d : dcfg) (s : dmst) (xs : list dop) : list (res (@out val)) * dmst :=
    match xs with
    | [] => ([], s)
    | x :: t => let '(r, s1) := dm_step d s x in
                let '(rs, s2) := dm_run d s1 t in (r :: rs, s2)
    end.

  Definition dm_init (u : U) : dmst := mkdm None None u.
End Deps.
