(* C18 — executable model of spec_classes/types/alias.py (Alias,
   DeprecatedAlias), following the code branch by branch, over tree-shaped
   objects (AliasBase.v).  No proofs in this file.

   Python semantics modelled by hand (validated by the correspondence check,
   not verified): getattr/setattr/delattr on instances, [] on dicts, their
   exception classes on other kinds of objects, the extra __getattr__ /
   __setattr__ layer of spec classes, copy.deepcopy on trees.

   A reference to an object is its access path from the instance; mutating
   the object behind a reference is [store]. *)
From Coq Require Import List ZArith Bool.
From SC Require Import Base.Res Desc.AliasBase.
Import ListNotations.
Open Scope Z_scope.

(* ---- Python primitives -------------------------------------------------- *)
(* getattr(v, a): AttributeError unless v is an instance that has a
   (spec classes: __getattr__ raises AttributeError as well) *)
Definition py_getattr (v : val) (a : name) : res val :=
  match v with
  | VInst d => match d_get a d with Some x => Ok x | None => Err AttrErr end
  | _ => Err AttrErr
  end.
(* v[k]: KeyError for a dict without k, TypeError for anything that is not a dict *)
Definition py_getitem (v : val) (k : Z) : res val :=
  match v with
  | VDict d => match d_get k d with Some x => Ok x | None => Err KeyErr end
  | _ => Err TypeErr
  end.
(* setattr(v, a, x); on a spec class an annotated attribute is type-checked *)
Definition py_setattr (h : host) (v : val) (a : name) (x : val) : res val :=
  match v with
  | VInst d => if conforms h a x then Ok (VInst (d_set a x d)) else Err TypeErr
  | _ => Err AttrErr
  end.
Definition py_setitem (v : val) (k : Z) (x : val) : res val :=
  match v with
  | VDict d => Ok (VDict (d_set k x d))
  | _ => Err TypeErr
  end.
Definition py_delattr (v : val) (a : name) : res val :=
  match v with
  | VInst d => match d_get a d with Some _ => Ok (VInst (d_del a d)) | None => Err AttrErr end
  | _ => Err AttrErr
  end.
Definition py_delitem (v : val) (k : Z) : res val :=
  match v with
  | VDict d => match d_get k d with Some _ => Ok (VDict (d_del k d)) | None => Err KeyErr end
  | _ => Err TypeErr
  end.

(* write [new] into the object behind the reference [ref] (its access path) *)
Fixpoint store (root : val) (ref : list hop) (new : val) : val :=
  match ref with
  | [] => new
  | SAttr a :: rest =>
      match root with
      | VInst d => match d_get a d with
                   | Some c => VInst (d_set a (store c rest new) d)
                   | None => root
                   end
      | _ => root
      end
  | SItem k :: rest =>
      match root with
      | VDict d => match d_get k d with
                   | Some c => VDict (d_set k (store c rest new) d)
                   | None => root
                   end
      | _ => root
      end
  end.

(* protect_via_deepcopy: immutable values are returned as they are *)
Definition protect (v : val) : out := if is_mutable v then OFresh v else OVal v.

(* ---- transforms handed to the copy-on-write helpers of a spec class -------
   (transform_<a>(g)).  A pure function on trees describes what the callable
   RETURNS; that some of them also write into their argument is invisible here
   and must be invisible in the implementation as well, because the helper hands
   them a protected copy: the harness's callables do mutate (HPush, HPushOne). *)
Inductive hfn :=
| HId          (* lambda v: v *)
| HPush        (* v["l"] = 99 / v.c = 99 in place; return v *)
| HPushOne     (* the same write; return 1 *)
| HWrap        (* lambda v: {"k": v} *)
| HInc         (* lambda v: v + 1 *)
| HSeven.      (* lambda v: 7 *)
Definition apply_hfn (g : hfn) (v : val) : res val :=
  match g, v with
  | HId, _ => Ok v
  | HPush, VDict d => Ok (VDict (d_set 1 (VInt 99) d))
  | HPush, VInst d => Ok (VInst (d_set 3 (VInt 99) d))
  | HPushOne, VDict _ | HPushOne, VInst _ => Ok (VInt 1)
  | HWrap, _ => Ok (VDict [(0, v)])
  | HInc, VInt z => Ok (VInt (z + 1))
  | HSeven, _ => Ok (VInt 7)
  | _, _ => Err TypeErr
  end.
(* The value update_<a>(MISSING) / transform_<a>(g) start from, given what
   getattr(o, a) did (scalar.py:_current_value + mutation.py:mutate_value):
   AttributeError -> MISSING -> the annotation is called (int() = 0; Any()
   raises TypeError); a dict under an `int` annotation is read as constructor
   arguments (an empty dict gives int() = 0, otherwise TypeError); other errors propagate. *)
Definition start_value (is_int_typed : bool) (rd : res out) : res val :=
  match rd with
  | Ok (OVal v) | Ok (OFresh v) =>
      if is_int_typed then
        match v with
        | VDict [] => Ok (VInt 0)
        | VDict _ => Err TypeErr
        | _ => Ok v
        end
      else Ok v
  | Ok _ => Err TypeErr
  | Err AttrErr => if is_int_typed then Ok (VInt 0) else Err TypeErr
  | Err e => Err e
  end.

Section Model.
  Context {fn : Type}.
  Variable apply_fn : fn -> val -> res val.   (* the transform pool *)
  Variable h : host.
  Variable c : cfg fn.

  (* ---- Alias.__lookup_attr_path ---------------------------------------- *)
  (* functools.reduce(lambda obj, attr: obj[literal] if attr.startswith("[") else getattr(obj, attr), path, instance) *)
  Definition lookup_step (r : res val) (s : hop) : res val :=
    match r with
    | Err e => Err e
    | Ok v => match s with SAttr a => py_getattr v a | SItem k => py_getitem v k end
    end.
  Definition lookup_raw (v : val) (p : list hop) : res val :=
    fold_left lookup_step p (Ok v).
  (* except (AttributeError, KeyError) as e: raise AttributeError(...) from e *)
  Definition lookup_attr_path (v : val) (p : list hop) : res val :=
    match lookup_raw v p with
    | Err AttrErr | Err KeyErr => Err AttrErr
    | r => r
    end.

  (* ---- Alias.override_attr --------------------------------------------- *)
  Definition owner_attr : option name := if c_bound c then Some (c_name c) else None.
  Definition override_attr : res (option name) :=
    if c_pt c then Ok None
    else match owner_attr with
         | None => Err RuntimeErr
         | Some n => Ok (Some (ovr n))
         end.

  Definition apply_tr (v : val) : res val :=
    match c_tr c with None => Ok v | Some f => apply_fn f v end.

  (* ---- Alias.__get__ ---------------------------------------------------- *)
  Definition alias_get (instance : option val) : res out :=
    match instance with
    | None => Ok ODescr                                   (* if instance is None: return self *)
    | Some r =>
        let local :=
          match owner_attr, c_pt c with
          | Some n, false =>                              (* hasattr(instance, self.override_attr) *)
              match py_getattr r (ovr n) with Ok v => Some v | Err _ => None end
          | _, _ => None
          end in
        match local with
        | Some v => Ok (OVal v)                           (* getattr(instance, self.override_attr) *)
        | None =>
            match (match lookup_attr_path r (c_path c) with
                   | Ok v => apply_tr v
                   | Err e => Err e
                   end) with
            | Ok v => Ok (OVal v)
            | Err AttrErr =>                              (* except AttributeError *)
                match c_fb c with
                | Some f => Ok (protect f)                (* protect_via_deepcopy(self.fallback) *)
                | None => Err AttrErr
                end
            | Err e => Err e
            end
        end
    end.

  (* the last path element applied to obj: item or attribute *)
  Definition set_last (obj : val) (s : hop) (x : val) : res val :=
    match s with SItem k => py_setitem obj k x | SAttr a => py_setattr h obj a x end.
  Definition del_last (obj : val) (s : hop) : res val :=
    match s with SItem k => py_delitem obj k | SAttr a => py_delattr obj a end.

  (* ---- Alias.__set__ ---------------------------------------------------- *)
  Definition alias_set (r : val) (x : val) : res val :=
    if c_pt c then
      let ref := removelast (c_path c) in
      match lookup_attr_path r ref with                   (* obj = lookup(instance, path[:-1]) *)
      | Err e => Err e
      | Ok obj =>
          match last_opt (c_path c) with
          | None => Err IndexErr                          (* self._attr_path[-1] of an empty path *)
          | Some s => match set_last obj s x with
                      | Err e => Err e
                      | Ok obj' => Ok (store r ref obj')
                      end
          end
      end
    else
      match override_attr with
      | Err e => Err e
      | Ok None => Err TypeErr                            (* unreachable: passthrough is False here *)
      | Ok (Some n) => py_setattr h r n x                 (* setattr(instance, self.override_attr, value) *)
      end.

  (* ---- Alias.__delete__ -------------------------------------------------- *)
  Definition alias_delete (r : val) : res val :=
    if c_pt c then
      let ref := removelast (c_path c) in
      match lookup_attr_path r ref with
      | Err e => Err e
      | Ok obj =>
          match last_opt (c_path c) with
          | None => Err IndexErr
          | Some s => match del_last obj s with
                      | Err e => Err e
                      | Ok obj' => Ok (store r ref obj')
                      end
          end
      end
    else
      match override_attr with
      | Err e => Err e
      | Ok None => Err TypeErr
      | Ok (Some n) => py_delattr r n                     (* delattr(instance, self.override_attr) *)
      end.

  (* ---- DeprecatedAlias.__warn -------------------------------------------- *)
  (* self._owner.__name__ raises AttributeError when __set_name__ never ran *)
  Definition warn (w : Z) : res Z :=
    if c_dep c then (if c_bound c then Ok (w + 1) else Err AttrErr) else Ok w.

  (* state: the instance and the number of warnings emitted so far *)
  Definition st := (val * Z)%type.

  (* the descriptor methods as the class dispatches them
     (DeprecatedAlias: self.__warn(); super().__xxx__(...)) *)
  Definition d_get_ (instance : option val) (w : Z) : res out * Z :=
    match warn w with
    | Err e => (Err e, w)
    | Ok w' => (alias_get instance, w')
    end.
  Definition d_set_ (s : st) (x : val) : res out * st :=
    match warn (snd s) with
    | Err e => (Err e, s)
    | Ok w' => match alias_set (fst s) x with
               | Err e => (Err e, (fst s, w'))
               | Ok r' => (Ok ONone, (r', w'))
               end
    end.
  Definition d_delete_ (s : st) : res out * st :=
    match warn (snd s) with
    | Err e => (Err e, s)
    | Ok w' => match alias_delete (fst s) with
               | Err e => (Err e, (fst s, w'))
               | Ok r' => (Ok ONone, (r', w'))
               end
    end.

  (* ---- attribute access on the host class --------------------------------- *)
  (* o.y.  A spec class has __getattr__, which Python calls when __get__
     raised AttributeError; for a masked attribute it calls __getattribute__
     again, i.e. __get__ runs a second time. *)
  Definition host_get (s : st) : res out * st :=
    let '(r1, w1) := d_get_ (Some (fst s)) (snd s) in
    match r1 with
    | Err AttrErr =>
        if h_spec h then let '(r2, w2) := d_get_ (Some (fst s)) w1 in (r2, (fst s, w2))
        else (r1, (fst s, w1))
    | _ => (r1, (fst s, w1))
    end.
  (* o.y = x.  The spec class __setattr__ type-checks the managed attribute
     first (mutate_attr), then calls the raw setattr, i.e. __set__. *)
  Definition host_set (s : st) (x : val) : res out * st :=
    if conforms h (c_name c) x then d_set_ s x else (Err TypeErr, s).
  (* del o.y: masked attribute -> raw delattr, i.e. __delete__ *)
  Definition host_delete (s : st) : res out * st := d_delete_ s.
  (* Host.y *)
  Definition host_class_get (s : st) : res out * st :=
    let '(r, w) := d_get_ None (snd s) in (r, (fst s, w)).

  (* ---- direct access to the target: o.a.b["k"], ... = x, del ... ---------- *)
  Definition target_get (r : val) : res out :=
    match lookup_raw r (c_path c) with Ok v => Ok (OVal v) | Err e => Err e end.
  Definition target_set (r : val) (x : val) : res val :=
    let ref := removelast (c_path c) in
    match lookup_raw r ref with
    | Err e => Err e
    | Ok obj =>
        match last_opt (c_path c) with
        | None => Err IndexErr
        | Some s => match set_last obj s x with
                    | Err e => Err e
                    | Ok obj' => Ok (store r ref obj')
                    end
        end
    end.
  Definition target_delete (r : val) : res val :=
    let ref := removelast (c_path c) in
    match lookup_raw r ref with
    | Err e => Err e
    | Ok obj =>
        match last_opt (c_path c) with
        | None => Err IndexErr
        | Some s => match del_last obj s with
                    | Err e => Err e
                    | Ok obj' => Ok (store r ref obj')
                    end
        end
    end.

  Definition lift (s : st) (r : res val) : res out * st :=
    match r with Ok r' => (Ok ONone, (r', snd s)) | Err e => (Err e, s) end.

  Definition step (s : st) (o : op) : res out * st :=
    match o with
    | RdAlias => host_get s
    | WrAlias x => host_set s x
    | DelAlias => host_delete s
    | RdClass => host_class_get s
    | RdTarget => (target_get (fst s), s)
    | WrTarget x => lift s (target_set (fst s) x)
    | DelTarget => lift s (target_delete (fst s))
    end.

  Fixpoint run (s : st) (os : list op) : list (res out) * st :=
    match os with
    | [] => ([], s)
    | o :: t => let '(r, s') := step s o in
                let '(rs, s'') := run s' t in (r :: rs, s'')
    end.

  (* ---- several live instances: copies -------------------------------------- *)
  Inductive xop :=
  | XOn (i : nat) (o : op)          (* an operation of the property on instance i *)
  | XDeepCopy (i : nat)             (* copy.deepcopy(o_i): the copy becomes the next instance *)
  | XWithAlias (i : nat) (x : val)  (* o_i.with_y(x)   (spec classes) *)
  | XWithTarget (i : nat) (x : val) (* o_i.with_a(x)   (spec classes, path = [a]) *)
  (* the other copy-on-write scalar helpers of a spec class, on the alias and
     on the target attribute (path = [a]) *)
  | XTransformAlias (i : nat) (g : hfn)         (* o_i.transform_y(g) *)
  | XUpdateAlias (i : nat) (x : option val)     (* o_i.update_y(x); None = MISSING *)
  | XResetAlias (i : nat)                       (* o_i.reset_y() *)
  | XTransformTarget (i : nat) (g : hfn)        (* o_i.transform_a(g) *)
  | XUpdateTarget (i : nat) (x : option val)    (* o_i.update_a(x) *)
  | XResetTarget (i : nat).                     (* o_i.reset_a() *)

  Definition xst := (list val * Z)%type.

  Fixpoint set_nth (n : nat) (x : val) (l : list val) : list val :=
    match n, l with
    | O, _ :: t => x :: t
    | S n', y :: t => y :: set_nth n' x t
    | _, [] => []
    end.

  (* with_y(x) on instance r, warnings so far w: WithAttrMethod ->
     mutate_attr(inplace=False): type check, deepcopy, raw setattr on the
     copy, i.e. __set__ *)
  Definition with_alias (s : xst) (r : val) (w : Z) (x : val) : res out * xst :=
    if conforms h (c_name c) x then
      let '(res, (r', w')) := d_set_ (r, w) x in
      match res with
      | Ok _ => (Ok ONone, (fst s ++ [r'], w'))
      | Err e => (Err e, (fst s, w'))
      end
    else (Err TypeErr, (fst s, w)).
  Definition with_target (s : xst) (r : val) (a : name) (x : val) : res out * xst :=
    match py_setattr h r a x with
    | Ok r' => (Ok ONone, (fst s ++ [r'], snd s))
    | Err e => (Err e, s)
    end.
  (* transform_<n>(g) = with_<n>(g(value the helper starts from)); [rd] is
     what getattr(o, n) did *)
  Definition transform_then {A} (n : name) (rd : res out) (g : hfn) (fail : err -> A) (k : val -> A) : A :=
    match start_value (typed h n) rd with
    | Err e => fail e
    | Ok v0 => match apply_hfn g v0 with
               | Err e => fail e
               | Ok v1 => k v1
               end
    end.

  (* getattr(o, y, MISSING) behind lazy_object_proxy.Proxy: AttributeError
     becomes MISSING; when the factory raises anything else, Proxy.__wrapped__
     runs it a second time before the error surfaces (observable: a
     DeprecatedAlias warns twice) *)
  Definition helper_read (r : val) (w : Z) : res out * Z :=
    let '(rd, (_, w1)) := host_get (r, w) in
    match rd with
    | Err AttrErr => (rd, w1)
    | Err _ => let '(rd2, (_, w2)) := host_get (r, w1) in (rd2, w2)
    | Ok _ => (rd, w1)
    end.

  Definition xstep (s : xst) (o : xop) : res out * xst :=
    match o with
    | XOn i o' =>
        match nth_error (fst s) i with
        | None => (Err IndexErr, s)
        | Some r => let '(res, (r', w')) := step (r, snd s) o' in
                    (res, (set_nth i r' (fst s), w'))
        end
    | XDeepCopy i =>
        (* DeepCopyMethod / object.__reduce_ex__: copies __dict__ entry by
           entry without touching descriptors; a copy of a tree is that tree *)
        match nth_error (fst s) i with
        | None => (Err IndexErr, s)
        | Some r => (Ok ONone, (fst s ++ [r], snd s))
        end
    | XWithAlias i x =>
        (* WithAttrMethod -> mutate_attr(inplace=False): type check, deepcopy,
           raw setattr on the copy, i.e. __set__ *)
        match nth_error (fst s) i with
        | None => (Err IndexErr, s)
        | Some r =>
            if negb (h_spec h) then (Err AttrErr, s)
            else if conforms h (c_name c) x then
              let '(res, (r', w')) := d_set_ (r, snd s) x in
              match res with
              | Ok _ => (Ok ONone, (fst s ++ [r'], w'))
              | Err e => (Err e, (fst s, w'))
              end
            else (Err TypeErr, s)
        end
    | XWithTarget i x =>
        match nth_error (fst s) i, c_path c with
        | Some r, [SAttr a] =>
            if negb (h_spec h) then (Err AttrErr, s)
            else match py_setattr h r a x with
                 | Ok r' => (Ok ONone, (fst s ++ [r'], snd s))
                 | Err e => (Err e, s)
                 end
        | _, _ => (Err IndexErr, s)
        end
    | XTransformAlias i g =>
        (* TransformAttrMethod: getattr(o, y, MISSING) (the host's attribute
           read, twice on AttributeError), protect_via_deepcopy, g, with_y *)
        match nth_error (fst s) i with
        | None => (Err IndexErr, s)
        | Some r =>
            if negb (h_spec h) then (Err AttrErr, s)
            else let '(rd, w1) := helper_read r (snd s) in
                 transform_then (c_name c) rd g
                   (fun e => (Err e, (fst s, w1)))
                   (fun v1 => with_alias s r w1 v1)
        end
    | XUpdateAlias i x =>
        (* UpdateAttrMethod: a value replaces the old one unread (= with_y);
           MISSING keeps (a protected copy of) the current value *)
        match nth_error (fst s) i with
        | None => (Err IndexErr, s)
        | Some r =>
            if negb (h_spec h) then (Err AttrErr, s)
            else match x with
                 | Some v => with_alias s r (snd s) v
                 | None =>
                     let '(rd, w1) := helper_read r (snd s) in
                     transform_then (c_name c) rd HId
                       (fun e => (Err e, (fst s, w1)))
                       (fun v1 => with_alias s r w1 v1)
                 end
        end
    | XResetAlias i =>
        (* ResetAttrMethod: deepcopy, delattr(copy, y) *)
        match nth_error (fst s) i with
        | None => (Err IndexErr, s)
        | Some r =>
            if negb (h_spec h) then (Err AttrErr, s)
            else let '(res, (r', w')) := host_delete (r, snd s) in
                 match res with
                 | Ok _ => (Ok ONone, (fst s ++ [r'], w'))
                 | Err e => (Err e, (fst s, w'))
                 end
        end
    | XTransformTarget i g =>
        match nth_error (fst s) i, c_path c with
        | Some r, [SAttr a] =>
            if negb (h_spec h) then (Err AttrErr, s)
            else transform_then a (target_get r) g (fun e => (Err e, s)) (fun v1 => with_target s r a v1)
        | _, _ => (Err IndexErr, s)
        end
    | XUpdateTarget i x =>
        match nth_error (fst s) i, c_path c with
        | Some r, [SAttr a] =>
            if negb (h_spec h) then (Err AttrErr, s)
            else match x with
                 | Some v => with_target s r a v
                 | None => transform_then a (target_get r) HId (fun e => (Err e, s)) (fun v1 => with_target s r a v1)
                 end
        | _, _ => (Err IndexErr, s)
        end
    | XResetTarget i =>
        match nth_error (fst s) i, c_path c with
        | Some r, [SAttr a] =>
            if negb (h_spec h) then (Err AttrErr, s)
            else match target_delete r with
                 | Ok r' => (Ok ONone, (fst s ++ [r'], snd s))
                 | Err e => (Err e, s)
                 end
        | _, _ => (Err IndexErr, s)
        end
    end.

  Fixpoint xrun (s : xst) (os : list xop) : list (res out * xst) :=
    match os with
    | [] => []
    | o :: t => let '(r, s') := xstep s o in (r, s') :: xrun s' t
    end.

  (* Alias.__set_name__ *)
  Definition set_name (n : name) : cfg fn :=
    mkcfg (c_path c) (c_pt c) (c_tr c) (c_fb c) n true (c_dep c).
End Model.
