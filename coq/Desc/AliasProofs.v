(* C18 — proofs: every step of the model of alias.py is a step of the
   two-variable reference machine and changes only the location it may
   change; for every configuration, every path (any length), every object
   tree and every operation sequence. *)
From Coq Require Import List ZArith Bool Lia.
From SC Require Import Base.Res Desc.AliasBase Desc.AliasModel Desc.AliasSpec.
Import ListNotations.
Open Scope Z_scope.

(* ---- dictionaries ---------------------------------------------------------- *)
Section DictLaws.
  Context {A : Type}.
  Implicit Types (d : list (Z * A)) (x : A).

  Lemma d_get_set_same k x d : d_get k (d_set k x d) = Some x.
  Proof.
    induction d as [|[k' y] t IH]; simpl.
    - rewrite Z.eqb_refl; reflexivity.
    - destruct (k =? k') eqn:E; simpl; rewrite E; auto.
  Qed.

  Lemma d_get_set_other k k' x d : k' <> k -> d_get k' (d_set k x d) = d_get k' d.
  Proof.
    intro N. induction d as [|[k0 y] t IH]; simpl.
    - destruct (k' =? k) eqn:E; [apply Z.eqb_eq in E; congruence | reflexivity].
    - destruct (k =? k0) eqn:E; simpl.
      + apply Z.eqb_eq in E; subst k0.
        destruct (k' =? k) eqn:E2; [apply Z.eqb_eq in E2; congruence | reflexivity].
      + destruct (k' =? k0); auto.
  Qed.

  Lemma d_get_del_same k d : d_get k (d_del k d) = None.
  Proof.
    induction d as [|[k0 y] t IH]; simpl; auto.
    destruct (k =? k0) eqn:E; simpl; auto. rewrite E; auto.
  Qed.

  Lemma d_get_del_other k k' d : k' <> k -> d_get k' (d_del k d) = d_get k' d.
  Proof.
    intro N. induction d as [|[k0 y] t IH]; simpl; auto.
    destruct (k =? k0) eqn:E; simpl.
    - apply Z.eqb_eq in E; subst k0.
      destruct (k' =? k) eqn:E2; [apply Z.eqb_eq in E2; congruence | auto].
    - destruct (k' =? k0); auto.
  Qed.
End DictLaws.

(* ---- induction on values, decidable equality ---------------------------------- *)
Section ValInd.
  Variable P : val -> Prop.
  Hypothesis HNone : P VNone.
  Hypothesis HInt : forall z, P (VInt z).
  Hypothesis HStr : forall z, P (VStr z).
  Hypothesis HInst : forall d, Forall (fun p => P (snd p)) d -> P (VInst d).
  Hypothesis HDict : forall d, Forall (fun p => P (snd p)) d -> P (VDict d).
  Hypothesis HTuple : forall d, Forall (fun p => P (snd p)) d -> P (VTuple d).
  Hypothesis HFrozen : forall d, Forall (fun p => P (snd p)) d -> P (VFrozen d).
  Fixpoint val_ind' (v : val) : P v :=
    match v with
    | VNone => HNone
    | VInt z => HInt z
    | VStr z => HStr z
    | VInst d =>
        HInst d ((fix go (d : list (Z * val)) : Forall (fun p => P (snd p)) d :=
                    match d with
                    | [] => Forall_nil _
                    | p :: t => Forall_cons p (val_ind' (snd p)) (go t)
                    end) d)
    | VDict d =>
        HDict d ((fix go (d : list (Z * val)) : Forall (fun p => P (snd p)) d :=
                    match d with
                    | [] => Forall_nil _
                    | p :: t => Forall_cons p (val_ind' (snd p)) (go t)
                    end) d)
    | VTuple d =>
        HTuple d ((fix go (d : list (Z * val)) : Forall (fun p => P (snd p)) d :=
                    match d with
                    | [] => Forall_nil _
                    | p :: t => Forall_cons p (val_ind' (snd p)) (go t)
                    end) d)
    | VFrozen d =>
        HFrozen d ((fix go (d : list (Z * val)) : Forall (fun p => P (snd p)) d :=
                    match d with
                    | [] => Forall_nil _
                    | p :: t => Forall_cons p (val_ind' (snd p)) (go t)
                    end) d)
    end.
End ValInd.

Lemma alist_eqb_eq d :
  Forall (fun p => forall b, val_eqb (snd p) b = true <-> snd p = b) d ->
  forall e, alist_eqb (fun x y => val_eqb x y) d e = true <-> d = e.
Proof.
  induction 1 as [|[k x] t Hx _ IH]; intros [|[l y] e]; simpl; split; intro E;
    try reflexivity; try discriminate.
  - apply andb_true_iff in E as [E E3]. apply andb_true_iff in E as [E1 E2].
    apply Z.eqb_eq in E1. apply Hx in E2. apply IH in E3. simpl in E2. congruence.
  - inversion E; subst. rewrite Z.eqb_refl. simpl.
    replace (val_eqb y y) with true by (symmetry; apply Hx; reflexivity).
    simpl. apply IH. reflexivity.
Qed.

Lemma val_eqb_eq a : forall b, val_eqb a b = true <-> a = b.
Proof.
  induction a using val_ind'; intros [| | | | | |]; simpl; split; intro E;
    try reflexivity; try discriminate;
    try (apply Z.eqb_eq in E; congruence);
    try (inversion E; apply Z.eqb_refl);
    try (f_equal; apply (alist_eqb_eq d H); exact E);
    try (inversion E; subst; apply (alist_eqb_eq _ H); reflexivity).
Qed.

Lemma val_eqb_refl a : val_eqb a a = true.
Proof. apply val_eqb_eq. reflexivity. Qed.

(* ---- lists ------------------------------------------------------------------- *)
Lemma last_opt_snoc {A} (l : list A) x : last_opt (l ++ [x]) = Some x.
Proof.
  induction l as [|y t IH]; simpl; auto.
  destruct (t ++ [x]) eqn:E; [destruct t; discriminate | exact IH].
Qed.

Lemma snoc_cases {A} (l : list A) : l = [] \/ exists p s, l = p ++ [s].
Proof.
  destruct l as [|a l]; [left; reflexivity | right].
  destruct (exists_last (l := a :: l)) as [p [s E]]; [discriminate | eauto].
Qed.

Lemma last_opt_cons {A} (s : A) r : r <> [] -> last_opt (s :: r) = last_opt r.
Proof. destruct r; [congruence | reflexivity]. Qed.

(* ---- one step down ------------------------------------------------------------ *)
Lemma child_set_same v s x :
  (forall e, child v s <> Broken e) ->
  child (set_child v s x) s = match x with Some y => Present y | None => Absent end.
Proof.
  intro NB. destruct s as [a|k], v; simpl in *; try (exfalso; eapply NB; reflexivity);
    destruct x; rewrite ?d_get_set_same, ?d_get_del_same; reflexivity.
Qed.

Lemma child_set_other v s s' x : s <> s' -> child (set_child v s x) s' = child v s'.
Proof.
  intro N. destruct s as [a|k], s' as [a'|k'], v; simpl; try reflexivity;
    destruct x; rewrite ?d_get_set_other, ?d_get_del_other; try reflexivity; congruence.
Qed.

Lemma child_broken_err v s e : child v s = Broken e -> e = AttrErr \/ e = TypeErr.
Proof.
  destruct s, v; simpl; try destruct (d_get _ _); intro E; inversion E; auto.
Qed.

(* ---- paths: the model's reduce against the meaning of a path ---------------------- *)
Definition last_err (p : list hop) : err :=
  match last_opt p with Some s => miss_err s | None => AttrErr end.
Definition to_res (p : list hop) (t : tstate) : res val :=
  match t with Present x => Ok x | Absent => Err (last_err p) | Broken e => Err e end.

Lemma fold_err p e : fold_left lookup_step p (Err e) = Err e.
Proof. induction p; simpl; auto. Qed.

Lemma lookup_step_child v s :
  lookup_step (Ok v) s =
  match child v s with Present x => Ok x | Absent => Err (miss_err s) | Broken e => Err e end.
Proof. destruct s, v; simpl; try reflexivity; destruct (d_get _ _); reflexivity. Qed.

Lemma lookup_raw_resolve p : forall v, lookup_raw v p = to_res p (resolve v p).
Proof.
  induction p as [|s rest IH]; intro v; [reflexivity|].
  change (lookup_raw v (s :: rest)) with (fold_left lookup_step rest (lookup_step (Ok v) s)).
  rewrite lookup_step_child. simpl resolve.
  destruct (child v s) eqn:C.
  - change (fold_left lookup_step rest (Ok v0)) with (lookup_raw v0 rest). rewrite IH.
    destruct rest; reflexivity.
  - rewrite fold_err. destruct rest; reflexivity.
  - rewrite fold_err. reflexivity.
Qed.

Lemma resolve_snoc p : forall v s,
  resolve v (p ++ [s]) =
  match resolve v p with
  | Present obj => child obj s
  | Absent => Broken (last_err p)
  | Broken e => Broken e
  end.
Proof.
  induction p as [|s0 rest IH]; intros v s.
  - simpl. destruct (child v s); reflexivity.
  - simpl app. simpl resolve. destruct (child v s0) eqn:C.
    + rewrite IH. destruct (resolve v0 rest) eqn:R; try reflexivity.
      destruct rest; [discriminate | reflexivity].
    + destruct rest; simpl; reflexivity.
    + reflexivity.
Qed.

Lemma put_cons_nonempty v s0 r x :
  r <> [] ->
  put v (s0 :: r) x =
  match child v s0 with Present y => set_child v s0 (Some (put y r x)) | _ => v end.
Proof. destruct r; [congruence | reflexivity]. Qed.

Lemma store_cons v s0 rest new y :
  child v s0 = Present y -> store v (s0 :: rest) new = set_child v s0 (Some (store y rest new)).
Proof.
  destruct s0, v; simpl; try discriminate; destruct (d_get _ _) eqn:G; intro E; inversion E; subst; reflexivity.
Qed.

(* writing through the reference to the parent = [put] at the full path *)
Lemma put_snoc p : forall v s x obj,
  resolve v p = Present obj -> put v (p ++ [s]) x = store v p (set_child obj s x).
Proof.
  induction p as [|s0 rest IH]; intros v s x obj R.
  - simpl in R. inversion R; subst. reflexivity.
  - simpl in R. destruct (child v s0) eqn:C; try discriminate.
    + simpl app. rewrite put_cons_nonempty by (destruct rest; discriminate).
      rewrite C. rewrite (IH _ _ _ _ R). symmetry. apply store_cons. exact C.
    + destruct rest; discriminate.
Qed.

(* after [put] the location holds what was put ... *)
Lemma resolve_put p : forall v x,
  p <> [] -> (forall e, resolve v p <> Broken e) ->
  resolve (put v p x) p = match x with Some y => Present y | None => Absent end.
Proof.
  induction p as [|s rest IH]; intros v x NE NB; [congruence|].
  destruct rest as [|s1 rest'].
  - simpl put. simpl resolve. simpl in NB.
    rewrite child_set_same.
    + destruct x; reflexivity.
    + intros e C. apply (NB e). rewrite C. reflexivity.
  - rewrite put_cons_nonempty by discriminate.
    simpl resolve in NB. destruct (child v s) eqn:C.
    + change (resolve (set_child v s (Some (put v0 (s1 :: rest') x))) (s :: s1 :: rest'))
        with (match child (set_child v s (Some (put v0 (s1 :: rest') x))) s with
              | Present y => resolve y (s1 :: rest')
              | Absent => Broken (miss_err s)
              | Broken e => Broken e
              end).
      rewrite child_set_same by (intros e C'; rewrite C in C'; discriminate).
      apply IH; [discriminate | exact NB].
    + exfalso. apply (NB (miss_err s)). reflexivity.
    + exfalso. apply (NB e). reflexivity.
Qed.

(* ... and no location off the path changes *)
Lemma resolve_cons v s q :
  resolve v (s :: q) =
  match child v s with
  | Present y => resolve y q
  | Absent => match q with [] => Absent | _ => Broken (miss_err s) end
  | Broken e => Broken e
  end.
Proof. reflexivity. Qed.

Lemma put_head v s p x :
  put v (s :: p) x = v \/ exists y, put v (s :: p) x = set_child v s y.
Proof.
  destruct p.
  - right. eexists. reflexivity.
  - rewrite put_cons_nonempty by discriminate.
    destruct (child v s); [right; eexists; reflexivity | left; reflexivity | left; reflexivity].
Qed.

Lemma put_frame r : forall v s s' p' q' x,
  s <> s' -> resolve (put v (r ++ s :: p') x) (r ++ s' :: q') = resolve v (r ++ s' :: q').
Proof.
  induction r as [|s0 r IH]; intros v s s' p' q' x N.
  - simpl app. rewrite !resolve_cons.
    destruct (put_head v s p' x) as [E | [y E]]; rewrite E; [reflexivity|].
    rewrite child_set_other by exact N. reflexivity.
  - simpl app. rewrite put_cons_nonempty by (destruct r; discriminate).
    destruct (child v s0) eqn:C; try reflexivity.
    rewrite (resolve_cons (set_child _ _ _)).
    rewrite child_set_same by (intros e C'; rewrite C in C'; discriminate).
    rewrite resolve_cons, C. apply IH. exact N.
Qed.

Lemma put_frame_diverges v p q x : diverges p q -> resolve (put v p x) q = resolve v q.
Proof.
  intros (r & s & s' & p' & q' & -> & -> & N). apply put_frame. exact N.
Qed.

(* the first hop decides whether a path can see a slot of the root *)
Lemma resolve_set_child_other v s x q0 q :
  s <> q0 -> resolve (set_child v s x) (q0 :: q) = resolve v (q0 :: q).
Proof. intro N. rewrite !resolve_cons, child_set_other by exact N. reflexivity. Qed.

Lemma child_put_other v p x s s' :
  s <> s' -> child (put v (s :: p) x) s' = child v s'.
Proof.
  intro N. destruct (put_head v s p x) as [E | [y E]]; rewrite E; [reflexivity|].
  apply child_set_other. exact N.
Qed.

(* ---- the last element of the path ------------------------------------------------ *)
Definition hop_ok (h : host) (s : hop) (x : val) : bool :=
  match s with SAttr a => conforms h a x | SItem _ => true end.

Lemma set_last_spec h obj s x :
  set_last h obj s x =
  match child obj s with
  | Broken e => Err e
  | _ => if hop_ok h s x then Ok (set_child obj s (Some x)) else Err TypeErr
  end.
Proof.
  destruct s, obj; simpl; try reflexivity; destruct (d_get _ _); try reflexivity;
    destruct (conforms _ _ _); reflexivity.
Qed.

Lemma del_last_spec obj s :
  del_last obj s =
  match child obj s with
  | Present _ => Ok (set_child obj s None)
  | Absent => Err (miss_err s)
  | Broken e => Err e
  end.
Proof. destruct s, obj; simpl; try reflexivity; destruct (d_get _ _); reflexivity. Qed.

Definition map_err {A} (f : err -> err) (r : res A) : res A :=
  match r with Ok a => Ok a | Err e => Err (f e) end.

Lemma lookup_attr_path_raw v p : lookup_attr_path v p = map_err as_attr_err (lookup_raw v p).
Proof. unfold lookup_attr_path. destruct (lookup_raw v p) as [|[]]; reflexivity. Qed.

Section Sim.
  Context {fn : Type}.
  Variable apply_fn : fn -> val -> res val.
  (* transforms do not raise AttributeError (the code would answer with the fallback) *)
  Hypothesis tr_total : forall f v, apply_fn f v <> Err AttrErr.
  Variable h : host.
  Variable c : cfg fn.
  Hypothesis Hwf : wf h c.

  Notation machine := (machine apply_fn h c).
  Notation abs := (abs c).
  Notation step := (step apply_fn h c).
  Notation run := (run apply_fn h c).
  Notation step_ok := (step_ok apply_fn h c).
  Notation path := (c_path c).

  Lemma Hbound : c_bound c = true.
  Proof. exact (proj1 Hwf). Qed.
  Lemma Hovr : typed h (ovr (c_name c)) = false.
  Proof. exact (proj1 (proj2 Hwf)). Qed.

  Lemma path_snoc : exists p s, path = p ++ [s].
  Proof.
    destruct (snoc_cases path) as [E | E]; [|exact E].
    pose proof Hwf as (_ & _ & W). rewrite E in W. contradiction.
  Qed.

  Lemma path_head : exists s q, path = s :: q /\ s <> SAttr (c_name c) /\ s <> local_slot c.
  Proof.
    pose proof Hwf as (_ & _ & W). destruct path as [|s q]; [contradiction|].
    exists s, q. tauto.
  Qed.

  (* what writing / deleting at the path does, in the Spec's words *)
  Definition walk_set (r : val) (x : val) : res val :=
    match write_target h c (resolve r path) x with
    | Ok _ => Ok (put r path (Some x))
    | Err e => Err e
    end.
  Definition walk_del (r : val) : res val :=
    match delete_target c (resolve r path) with
    | Ok _ => Ok (put r path None)
    | Err e => Err e
    end.

  Lemma slot_ok_hop p s x : path = p ++ [s] -> slot_ok h c x = hop_ok h s x.
  Proof. intro E. unfold slot_ok. rewrite E, last_opt_snoc. destruct s; reflexivity. Qed.

  Lemma empty_err_hop p s : path = p ++ [s] -> empty_err c = miss_err s.
  Proof. intro E. unfold empty_err. rewrite E, last_opt_snoc. destruct s; reflexivity. Qed.

  Lemma target_set_spec r x : target_set h c r x = walk_set r x.
  Proof.
    destruct path_snoc as (p & s & E).
    unfold target_set, walk_set.
    rewrite E, removelast_last, last_opt_snoc, lookup_raw_resolve, resolve_snoc.
    destruct (resolve r p) as [obj| |e] eqn:R; simpl to_res; cbv iota.
    - rewrite set_last_spec. unfold write_target. rewrite <- E, (slot_ok_hop p s x E).
      destruct (child obj s) eqn:C; try reflexivity;
        (destruct (hop_ok h s x); [|reflexivity]);
        rewrite E, (put_snoc p r s (Some x) obj R); reflexivity.
    - reflexivity.
    - reflexivity.
  Qed.

  Lemma target_delete_spec r : target_delete c r = walk_del r.
  Proof.
    destruct path_snoc as (p & s & E).
    unfold target_delete, walk_del.
    rewrite E, removelast_last, last_opt_snoc, lookup_raw_resolve, resolve_snoc.
    destruct (resolve r p) as [obj| |e] eqn:R; simpl to_res; cbv iota.
    - rewrite del_last_spec. unfold delete_target. rewrite <- E, (empty_err_hop p s E).
      destruct (child obj s) eqn:C; try reflexivity.
      rewrite E, (put_snoc p r s None obj R). reflexivity.
    - reflexivity.
    - reflexivity.
  Qed.

  Lemma as_attr_err_last p : as_attr_err (last_err p) = AttrErr.
  Proof. unfold last_err. destruct (last_opt p) as [[|]|]; reflexivity. Qed.

  (* passthrough: __set__ / __delete__ are the target operations, with the
     errors of the walk reported as AttributeError *)
  Lemma alias_set_pt r x :
    c_pt c = true -> alias_set h c r x = map_err as_attr_err (walk_set r x).
  Proof.
    intro Hpt. destruct path_snoc as (p & s & E).
    unfold alias_set, walk_set. rewrite Hpt, lookup_attr_path_raw.
    rewrite E, removelast_last, last_opt_snoc, lookup_raw_resolve, resolve_snoc.
    destruct (resolve r p) as [obj| |e] eqn:R; simpl to_res; simpl map_err; cbv iota.
    - rewrite set_last_spec. unfold write_target. rewrite <- E, (slot_ok_hop p s x E).
      destruct (child obj s) eqn:C.
      + destruct (hop_ok h s x); [|reflexivity].
        rewrite E, (put_snoc p r s (Some x) obj R). reflexivity.
      + destruct (hop_ok h s x); [|reflexivity].
        rewrite E, (put_snoc p r s (Some x) obj R). reflexivity.
      + destruct (child_broken_err _ _ _ C); subst; reflexivity.
    - reflexivity.
    - reflexivity.
  Qed.

  Lemma alias_delete_pt r :
    c_pt c = true ->
    alias_delete c r =
    match resolve r path with
    | Broken e => Err (as_attr_err e)
    | _ => walk_del r
    end.
  Proof.
    intro Hpt. destruct path_snoc as (p & s & E).
    unfold alias_delete, walk_del. rewrite Hpt, lookup_attr_path_raw.
    rewrite E, removelast_last, last_opt_snoc, lookup_raw_resolve, resolve_snoc.
    destruct (resolve r p) as [obj| |e] eqn:R; simpl to_res; simpl map_err; cbv iota.
    - rewrite del_last_spec. unfold delete_target. rewrite <- E, (empty_err_hop p s E).
      destruct (child obj s) eqn:C.
      + rewrite E, (put_snoc p r s None obj R). reflexivity.
      + reflexivity.
      + destruct (child_broken_err _ _ _ C); subst; reflexivity.
    - reflexivity.
    - reflexivity.
  Qed.

  (* not passthrough: only the private slot of the instance *)
  Lemma alias_set_local d x :
    c_pt c = false -> alias_set h c (VInst d) x = Ok (set_child (VInst d) (local_slot c) (Some x)).
  Proof.
    intro Hpt. unfold alias_set, override_attr, owner_attr. rewrite Hpt, Hbound.
    simpl. unfold conforms. rewrite Hovr. reflexivity.
  Qed.

  Lemma alias_delete_local d :
    c_pt c = false ->
    alias_delete c (VInst d) =
    match local_of c (VInst d) with
    | Some _ => Ok (set_child (VInst d) (local_slot c) None)
    | None => Err AttrErr
    end.
  Proof.
    intro Hpt. unfold alias_delete, override_attr, owner_attr, local_of. rewrite Hpt, Hbound.
    simpl. destruct (d_get (ovr (c_name c)) d); reflexivity.
  Qed.

  (* the machine's read, and the fact that reads leave its state alone *)
  Definition rd_out (t : tstate) (l : option val) : res out :=
    match (if c_pt c then None else l) with
    | Some v => Ok (OVal v)
    | None =>
        match t with
        | Present v => transformed apply_fn c v
        | Absent => missing c
        | Broken e => match as_attr_err e with AttrErr => missing c | e' => Err e' end
        end
    end.

  Lemma machine_rd t l : machine (t, l) RdAlias = (rd_out t l, (t, l)).
  Proof.
    unfold rd_out. simpl. destruct (if c_pt c then None else l); [reflexivity|].
    destruct t as [v| |e]; try reflexivity. destruct (as_attr_err e); reflexivity.
  Qed.

  Lemma alias_get_spec d :
    alias_get apply_fn c (Some (VInst d)) = rd_out (resolve (VInst d) path) (local_of c (VInst d)).
  Proof.
    unfold alias_get, owner_attr, rd_out, local_of. rewrite Hbound.
    assert (L : match c_pt c with
                | false => match py_getattr (VInst d) (ovr (c_name c)) with Ok v => Some v | Err _ => None end
                | true => None
                end = (if c_pt c then None
                       else match child (VInst d) (local_slot c) with Present v => Some v | _ => None end)).
    { destruct (c_pt c); [reflexivity|]. simpl. destruct (d_get _ d); reflexivity. }
    rewrite L. clear L.
    destruct (if c_pt c then None else _); [reflexivity|].
    rewrite lookup_attr_path_raw, lookup_raw_resolve.
    destruct (resolve (VInst d) path) as [v| |e]; simpl to_res; simpl map_err; cbv iota.
    - unfold apply_tr, transformed. destruct (c_tr c) as [f|]; [|reflexivity].
      destruct (apply_fn f v) as [y|e] eqn:A; [reflexivity|].
      destruct e; try reflexivity. exfalso. exact (tr_total _ _ A).
    - rewrite as_attr_err_last. unfold missing, protect. destruct (c_fb c); reflexivity.
    - unfold missing, protect. destruct e; simpl; try reflexivity; destruct (c_fb c); reflexivity.
  Qed.

  (* ---- the two variables after a change ------------------------------------------ *)
  Lemma local_slot_not_head : exists s q, path = s :: q /\ local_slot c <> s.
  Proof. destruct path_head as (s & q & E & _ & N). exists s, q. split; [exact E | congruence]. Qed.

  Lemma abs_local_set d x :
    abs (set_child (VInst d) (local_slot c) x) = (resolve (VInst d) path, x).
  Proof.
    destruct local_slot_not_head as (s & q & E & N).
    unfold abs, local_of. rewrite E, resolve_set_child_other by exact N.
    rewrite child_set_same by (intros e; simpl; destruct (d_get _ _); discriminate).
    destruct x; reflexivity.
  Qed.

  Lemma abs_put r x :
    (forall e, resolve r path <> Broken e) ->
    abs (put r path x) = (match x with Some y => Present y | None => Absent end, local_of c r).
  Proof.
    intro NB. destruct local_slot_not_head as (s & q & E & N).
    unfold abs, local_of. rewrite resolve_put; [|rewrite E; discriminate|exact NB].
    rewrite E. rewrite child_put_other by congruence. reflexivity.
  Qed.

  Lemma put_inst d x : exists d', put (VInst d) path x = VInst d'.
  Proof.
    destruct path_head as (s & q & E & _). rewrite E.
    destruct (put_head (VInst d) s q x) as [E1 | [y E1]]; rewrite E1; [eauto|].
    destruct s; simpl; eauto.
  Qed.

  Lemma warn_spec w : warn c w = Ok (if c_dep c then w + 1 else w).
  Proof. unfold warn. rewrite Hbound. destruct (c_dep c); reflexivity. Qed.

  Definition inst (r : val) : Prop := exists d, r = VInst d.

  Lemma step_ok_intro pre o res n post :
    res = fst (machine (abs pre) o) -> abs post = snd (machine (abs pre) o) ->
    post = expected_tree c pre o res -> warns_ok h c o n = true ->
    step_ok pre o res n post.
  Proof. unfold AliasSpec.step_ok. auto. Qed.

  Lemma warns_none o : reaches_alias h c o = false -> warns_ok h c o 0 = true.
  Proof. intro E. unfold warns_ok. rewrite E, andb_false_r. reflexivity. Qed.

  Lemma warns_dep o w : reaches_alias h c o = true ->
    warns_ok h c o ((if c_dep c then w + 1 else w) - w) = true.
  Proof.
    intro E. unfold warns_ok. rewrite E, andb_true_r. destruct (c_dep c).
    - apply Z.leb_le. lia.
    - apply Z.eqb_eq. lia.
  Qed.

  (* ---- one operation --------------------------------------------------------------- *)
  Lemma sim_rd_target d w :
    let '(res, (r', w')) := step (VInst d, w) RdTarget in
    step_ok (VInst d) RdTarget res (w' - w) r' /\ inst r'.
  Proof.
    simpl. split; [|eexists; reflexivity]. rewrite Z.sub_diag.
    apply step_ok_intro.
    - unfold target_get, abs. simpl. rewrite lookup_raw_resolve.
      destruct (resolve (VInst d) path); reflexivity.
    - reflexivity.
    - unfold target_get. destruct (lookup_raw _ _); reflexivity.
    - apply warns_none. reflexivity.
  Qed.

  Lemma write_target_ok t x t' : write_target h c t x = Ok t' -> t' = Present x /\ forall e, t <> Broken e.
  Proof.
    unfold write_target. destruct t; try discriminate; destruct (slot_ok h c x); try discriminate;
      intro E; inversion E; split; [reflexivity | discriminate | reflexivity | discriminate].
  Qed.

  Lemma delete_target_ok t t' : delete_target c t = Ok t' -> t' = Absent /\ forall e, t <> Broken e.
  Proof.
    unfold delete_target. destruct t; try discriminate. intro E; inversion E. split; [reflexivity | discriminate].
  Qed.

  Lemma machine_wr_target t l x :
    machine (t, l) (WrTarget x) =
    match write_target h c t x with Ok t' => (Ok ONone, (t', l)) | Err e => (Err e, (t, l)) end.
  Proof. reflexivity. Qed.
  Lemma machine_del_target t l :
    machine (t, l) DelTarget =
    match delete_target c t with Ok t' => (Ok ONone, (t', l)) | Err e => (Err e, (t, l)) end.
  Proof. reflexivity. Qed.

  Lemma sim_wr_target d w x :
    let '(res, (r', w')) := step (VInst d, w) (WrTarget x) in
    step_ok (VInst d) (WrTarget x) res (w' - w) r' /\ inst r'.
  Proof.
    cbn [step AliasModel.step fst snd]. rewrite target_set_spec. unfold walk_set, lift.
    destruct (write_target h c (resolve (VInst d) path) x) as [t'|e] eqn:W; cbn [fst snd].
    - destruct (write_target_ok _ _ _ W) as [-> NB].
      split; [|apply put_inst]. rewrite Z.sub_diag. apply step_ok_intro.
      + unfold abs. rewrite machine_wr_target, W. reflexivity.
      + unfold abs at 2. rewrite machine_wr_target, W. cbn [snd]. apply abs_put. exact NB.
      + reflexivity.
      + apply warns_none. reflexivity.
    - split; [|eexists; reflexivity]. rewrite Z.sub_diag. apply step_ok_intro.
      + unfold abs. rewrite machine_wr_target, W. reflexivity.
      + unfold abs at 2. rewrite machine_wr_target, W. reflexivity.
      + reflexivity.
      + apply warns_none. reflexivity.
  Qed.

  Lemma sim_del_target d w :
    let '(res, (r', w')) := step (VInst d, w) DelTarget in
    step_ok (VInst d) DelTarget res (w' - w) r' /\ inst r'.
  Proof.
    cbn [step AliasModel.step fst snd]. rewrite target_delete_spec. unfold walk_del, lift.
    destruct (delete_target c (resolve (VInst d) path)) as [t'|e] eqn:W; cbn [fst snd].
    - destruct (delete_target_ok _ _ W) as [-> NB].
      split; [|apply put_inst]. rewrite Z.sub_diag. apply step_ok_intro.
      + unfold abs. rewrite machine_del_target, W. reflexivity.
      + unfold abs at 2. rewrite machine_del_target, W. cbn [snd]. apply abs_put. exact NB.
      + reflexivity.
      + apply warns_none. reflexivity.
    - split; [|eexists; reflexivity]. rewrite Z.sub_diag. apply step_ok_intro.
      + unfold abs. rewrite machine_del_target, W. reflexivity.
      + unfold abs at 2. rewrite machine_del_target, W. reflexivity.
      + reflexivity.
      + apply warns_none. reflexivity.
  Qed.

  Lemma machine_wr_alias t l x :
    machine (t, l) (WrAlias x) =
    if negb (conforms h (c_name c) x) then (Err TypeErr, (t, l))
    else if c_pt c then
           match write_target h c t x with
           | Ok t' => (Ok ONone, (t', l))
           | Err e => (Err (as_attr_err e), (t, l))
           end
         else (Ok ONone, (t, Some x)).
  Proof. reflexivity. Qed.
  Lemma machine_del_alias t l :
    machine (t, l) DelAlias =
    if c_pt c then
      match delete_target c t with
      | Ok t' => (Ok ONone, (t', l))
      | Err e => (Err (match t with Broken _ => as_attr_err e | _ => e end), (t, l))
      end
    else match l with
         | Some _ => (Ok ONone, (t, None))
         | None => (Err AttrErr, (t, l))
         end.
  Proof. reflexivity. Qed.

  Lemma warns_calc o (n : Z) :
    (if c_dep c && reaches_alias h c o then 1 <= n else n = 0) -> warns_ok h c o n = true.
  Proof.
    unfold warns_ok. destruct (c_dep c && reaches_alias h c o); intro H.
    - apply Z.leb_le. exact H.
    - apply Z.eqb_eq. exact H.
  Qed.

  Lemma sim_rd_class d w :
    let '(res, (r', w')) := step (VInst d, w) RdClass in
    step_ok (VInst d) RdClass res (w' - w) r' /\ inst r'.
  Proof.
    cbn [step AliasModel.step]. unfold host_class_get, d_get_. cbn [fst snd]. rewrite warn_spec.
    cbn [alias_get]. split; [|eexists; reflexivity]. apply step_ok_intro; try reflexivity.
    apply warns_calc. cbn [reaches_alias]. rewrite andb_true_r. destruct (c_dep c); lia.
  Qed.

  Lemma sim_rd_alias d w :
    let '(res, (r', w')) := step (VInst d, w) RdAlias in
    step_ok (VInst d) RdAlias res (w' - w) r' /\ inst r'.
  Proof.
    cbn [step AliasModel.step]. unfold host_get, d_get_. cbn [fst snd]. rewrite !warn_spec.
    rewrite alias_get_spec.
    assert (G : forall n, (if c_dep c then 1 <= n else n = 0) ->
                step_ok (VInst d) RdAlias (rd_out (resolve (VInst d) path) (local_of c (VInst d))) n (VInst d)).
    { intros n Hn. apply step_ok_intro.
      - unfold abs. rewrite machine_rd. reflexivity.
      - unfold abs at 2. rewrite machine_rd. reflexivity.
      - destruct (rd_out _ _); reflexivity.
      - apply warns_calc. cbn [reaches_alias]. rewrite andb_true_r. exact Hn. }
    destruct (rd_out (resolve (VInst d) path) (local_of c (VInst d))) as [o|e] eqn:R.
    - split; [|eexists; reflexivity]. apply G. destruct (c_dep c); lia.
    - assert (G1 : step_ok (VInst d) RdAlias (Err e) ((if c_dep c then w + 1 else w) - w) (VInst d))
        by (apply G; destruct (c_dep c); lia).
      destruct e; try (split; [exact G1 | eexists; reflexivity]).
      destruct (h_spec h).
      + split; [|eexists; reflexivity]. apply G. destruct (c_dep c); lia.
      + split; [exact G1 | eexists; reflexivity].
  Qed.

  Lemma set_child_inst d s x : exists d', set_child (VInst d) s x = VInst d'.
  Proof. destruct s; simpl; eauto. Qed.

  Lemma sim_wr_alias d w x :
    let '(res, (r', w')) := step (VInst d, w) (WrAlias x) in
    step_ok (VInst d) (WrAlias x) res (w' - w) r' /\ inst r'.
  Proof.
    cbn [step AliasModel.step]. unfold host_set.
    destruct (conforms h (c_name c) x) eqn:Cf.
    2:{ split; [|eexists; reflexivity]. rewrite Z.sub_diag. apply step_ok_intro.
        - unfold abs. rewrite machine_wr_alias, Cf. reflexivity.
        - unfold abs at 2. rewrite machine_wr_alias, Cf. reflexivity.
        - reflexivity.
        - apply warns_none. exact Cf. }
    unfold d_set_. cbn [fst snd]. rewrite warn_spec.
    assert (Wn : warns_ok h c (WrAlias x) ((if c_dep c then w + 1 else w) - w) = true)
      by (apply warns_dep; exact Cf).
    destruct (c_pt c) eqn:Hpt.
    - rewrite (alias_set_pt _ _ Hpt). unfold walk_set.
      destruct (write_target h c (resolve (VInst d) path) x) as [t'|e] eqn:W; cbn [map_err].
      + destruct (write_target_ok _ _ _ W) as [-> NB].
        split; [|apply put_inst]. apply step_ok_intro.
        * unfold abs. rewrite machine_wr_alias, Cf, Hpt, W. reflexivity.
        * unfold abs at 2. rewrite machine_wr_alias, Cf, Hpt, W. cbn [snd negb]. apply abs_put. exact NB.
        * cbn [expected_tree]. rewrite Hpt. reflexivity.
        * exact Wn.
      + split; [|eexists; reflexivity]. apply step_ok_intro.
        * unfold abs. rewrite machine_wr_alias, Cf, Hpt, W. reflexivity.
        * unfold abs at 2. rewrite machine_wr_alias, Cf, Hpt, W. reflexivity.
        * reflexivity.
        * exact Wn.
    - rewrite (alias_set_local _ _ Hpt).
      split; [|apply set_child_inst]. apply step_ok_intro.
      + unfold abs. rewrite machine_wr_alias, Cf, Hpt. reflexivity.
      + unfold abs at 2. rewrite machine_wr_alias, Cf, Hpt. cbn [snd negb]. apply abs_local_set.
      + cbn [expected_tree]. rewrite Hpt. reflexivity.
      + exact Wn.
  Qed.

  Lemma sim_del_alias d w :
    let '(res, (r', w')) := step (VInst d, w) DelAlias in
    step_ok (VInst d) DelAlias res (w' - w) r' /\ inst r'.
  Proof.
    cbn [step AliasModel.step]. unfold host_delete, d_delete_. cbn [fst snd]. rewrite warn_spec.
    assert (Wn : warns_ok h c DelAlias ((if c_dep c then w + 1 else w) - w) = true)
      by (apply warns_dep; reflexivity).
    destruct (c_pt c) eqn:Hpt.
    - rewrite (alias_delete_pt _ Hpt). unfold walk_del.
      destruct (resolve (VInst d) path) as [v| |e] eqn:R; cbn [delete_target].
      + split; [|apply put_inst]. apply step_ok_intro.
        * unfold abs. rewrite machine_del_alias, Hpt, R. reflexivity.
        * unfold abs at 2. rewrite machine_del_alias, Hpt, R. cbn [snd delete_target]. apply abs_put.
          rewrite R. discriminate.
        * cbn [expected_tree]. rewrite Hpt. reflexivity.
        * exact Wn.
      + split; [|eexists; reflexivity]. apply step_ok_intro.
        * unfold abs. rewrite machine_del_alias, Hpt, R. reflexivity.
        * unfold abs. rewrite machine_del_alias, Hpt, R. reflexivity.
        * reflexivity.
        * exact Wn.
      + split; [|eexists; reflexivity]. apply step_ok_intro.
        * unfold abs. rewrite machine_del_alias, Hpt, R. reflexivity.
        * unfold abs. rewrite machine_del_alias, Hpt, R. reflexivity.
        * reflexivity.
        * exact Wn.
    - rewrite (alias_delete_local _ Hpt).
      destruct (local_of c (VInst d)) as [v|] eqn:L.
      + split; [|apply set_child_inst]. apply step_ok_intro.
        * unfold abs. rewrite machine_del_alias, Hpt, L. reflexivity.
        * unfold abs at 2. rewrite machine_del_alias, Hpt, L. cbn [snd]. apply abs_local_set.
        * cbn [expected_tree]. rewrite Hpt. reflexivity.
        * exact Wn.
      + split; [|eexists; reflexivity]. apply step_ok_intro.
        * unfold abs. rewrite machine_del_alias, Hpt, L. reflexivity.
        * unfold abs. rewrite machine_del_alias, Hpt, L. reflexivity.
        * reflexivity.
        * exact Wn.
  Qed.

  (* ---- every step of the model, from every instance --------------------------------- *)
  Theorem step_sim d w o :
    let '(res, (r', w')) := step (VInst d, w) o in
    step_ok (VInst d) o res (w' - w) r' /\ inst r'.
  Proof.
    destruct o.
    - apply sim_rd_alias.
    - apply sim_wr_alias.
    - apply sim_del_alias.
    - apply sim_rd_target.
    - apply sim_wr_target.
    - apply sim_del_target.
    - apply sim_rd_class.
  Qed.

  (* every operation of a sequence is judged [step_ok] *)
  Fixpoint steps_ok (s : val * Z) (os : list op) : Prop :=
    match os with
    | [] => True
    | o :: t => step_ok (fst s) o (fst (step s o)) (snd (snd (step s o)) - snd s) (fst (snd (step s o)))
                /\ steps_ok (snd (step s o)) t
    end.

  Theorem run_steps_ok os : forall d w, steps_ok (VInst d, w) os.
  Proof.
    induction os as [|o t IH]; intros d w; [exact I|].
    pose proof (step_sim d w o) as S.
    cbn [steps_ok]. destruct (step (VInst d, w) o) as [res [r' w']]. destruct S as [S [d' ->]].
    split; [exact S | apply IH].
  Qed.

  (* simulation: the model's run is the machine's run on the two variables *)
  Theorem run_refines_machine os : forall d w,
    fst (run (VInst d, w) os) = fst (machine_run apply_fn h c (abs (VInst d)) os) /\
    abs (fst (snd (run (VInst d, w) os))) = snd (machine_run apply_fn h c (abs (VInst d)) os) /\
    inst (fst (snd (run (VInst d, w) os))).
  Proof.
    induction os as [|o t IH]; intros d w.
    - simpl. repeat split. eexists; reflexivity.
    - pose proof (step_sim d w o) as S.
      cbn [run AliasModel.run machine_run].
      destruct (step (VInst d, w) o) as [res [r' w']]. destruct S as [(S1 & S2 & _) [d' ->]].
      destruct (machine (abs (VInst d)) o) as [mres ms] eqn:M. cbn [fst snd] in S1, S2.
      specialize (IH d' w'). rewrite S2 in IH.
      destruct (run (VInst d', w') t) as [rs s''].
      destruct (machine_run apply_fn h c ms t) as [mrs ms'']. cbn [fst snd] in *.
      destruct IH as (I1 & I2 & I3). subst. repeat split; assumption.
  Qed.

  (* a local (non-passthrough) assignment or deletion changes nothing that a
     path not starting at the private slot can see — the target in particular *)
  Theorem local_write_changes_only_the_private_slot d w o :
    c_pt c = false -> (exists x, o = WrAlias x) \/ o = DelAlias ->
    let r' := fst (snd (step (VInst d, w) o)) in
    (forall q0 q, q0 <> local_slot c -> resolve r' (q0 :: q) = resolve (VInst d) (q0 :: q)) /\
    resolve r' path = resolve (VInst d) path.
  Proof.
    intros Hpt Ho. pose proof (step_sim d w o) as S.
    destruct (step (VInst d, w) o) as [res [r' w']]. cbn [fst snd].
    destruct S as [(_ & _ & S3 & _) _].
    assert (F : forall q0 q, q0 <> local_slot c -> resolve r' (q0 :: q) = resolve (VInst d) (q0 :: q)).
    { intros q0 q N. subst r'. destruct Ho as [[x ->] | ->]; destruct res; cbn [expected_tree]; rewrite ?Hpt;
        try reflexivity; apply resolve_set_child_other; congruence. }
    split; [exact F|]. destruct local_slot_not_head as (s & q & E & N). rewrite E. apply F. congruence.
  Qed.

  (* a passthrough assignment that succeeds puts the value at exactly the
     target location; one that fails changes nothing *)
  Theorem passthrough_write_reaches_exactly_the_target d w x :
    c_pt c = true ->
    let res := fst (step (VInst d, w) (WrAlias x)) in
    let r' := fst (snd (step (VInst d, w) (WrAlias x))) in
    match res with
    | Ok _ => r' = put (VInst d) path (Some x) /\ resolve r' path = Present x /\
              (forall q, diverges path q -> resolve r' q = resolve (VInst d) q) /\
              local_of c r' = local_of c (VInst d)
    | Err _ => r' = VInst d
    end.
  Proof.
    intro Hpt. pose proof (step_sim d w (WrAlias x)) as S.
    destruct (step (VInst d, w) (WrAlias x)) as [res [r' w']]. cbn [fst snd].
    destruct S as [(S1 & S2 & S3 & _) _].
    destruct res as [o|e]; cbn [expected_tree] in S3; rewrite ?Hpt in S3; [|exact S3].
    unfold abs at 2 in S2. rewrite machine_wr_alias, Hpt in S2.
    unfold abs in S1. rewrite machine_wr_alias, Hpt in S1.
    destruct (negb (conforms h (c_name c) x)); [discriminate|].
    destruct (write_target h c (resolve (VInst d) path) x) eqn:W; [|discriminate].
    destruct (write_target_ok _ _ _ W) as [-> _]. cbn [snd] in S2. unfold abs in S2.
    inversion S2 as [[S2a S2b]].
    repeat split; try assumption.
    intros q Dv. subst r'. apply put_frame_diverges. exact Dv.
  Qed.

  Theorem passthrough_delete_reaches_exactly_the_target d w :
    c_pt c = true ->
    let res := fst (step (VInst d, w) DelAlias) in
    let r' := fst (snd (step (VInst d, w) DelAlias)) in
    match res with
    | Ok _ => r' = put (VInst d) path None /\ resolve r' path = Absent /\
              (forall q, diverges path q -> resolve r' q = resolve (VInst d) q) /\
              local_of c r' = local_of c (VInst d)
    | Err _ => r' = VInst d
    end.
  Proof.
    intro Hpt. pose proof (step_sim d w DelAlias) as S.
    destruct (step (VInst d, w) DelAlias) as [res [r' w']]. cbn [fst snd].
    destruct S as [(S1 & S2 & S3 & _) _].
    destruct res as [o|e]; cbn [expected_tree] in S3; rewrite ?Hpt in S3; [|exact S3].
    unfold abs at 2 in S2. rewrite machine_del_alias, Hpt in S2.
    unfold abs in S1. rewrite machine_del_alias, Hpt in S1.
    destruct (delete_target c (resolve (VInst d) path)) eqn:W; [|discriminate].
    destruct (delete_target_ok _ _ W) as [-> _]. cbn [snd] in S2. unfold abs in S2.
    inversion S2 as [[S2a S2b]].
    repeat split; try assumption.
    intros q Dv. subst r'. apply put_frame_diverges. exact Dv.
  Qed.

  (* missing target: a fresh copy of the fallback, or AttributeError *)
  Theorem missing_target_reads_fallback d w :
    (resolve (VInst d) path = Absent \/
     exists e, resolve (VInst d) path = Broken e /\ as_attr_err e = AttrErr) ->
    (c_pt c = true \/ local_of c (VInst d) = None) ->
    fst (step (VInst d, w) RdAlias) =
    match c_fb c with
    | Some f => Ok (if is_mutable f then OFresh f else OVal f)
    | None => Err AttrErr
    end.
  Proof.
    intros Hm Hl. pose proof (step_sim d w RdAlias) as S.
    destruct (step (VInst d, w) RdAlias) as [res [r' w']]. cbn [fst snd].
    destruct S as [(S1 & _) _]. unfold abs in S1. rewrite machine_rd in S1. cbn [fst] in S1.
    subst res. unfold rd_out.
    assert (L : (if c_pt c then None else local_of c (VInst d)) = None)
      by (destruct Hl as [-> | ->]; [reflexivity | destruct (c_pt c); reflexivity]).
    rewrite L. destruct Hm as [-> | (e & -> & E)]; [reflexivity|]. rewrite E. reflexivity.
  Qed.

  (* live view: with no local value the alias reads the transformed target,
     a local value is returned as it is *)
  Theorem present_target_reads_live_view d w v :
    resolve (VInst d) path = Present v ->
    fst (step (VInst d, w) RdAlias) =
    match (if c_pt c then None else local_of c (VInst d)) with
    | Some l => Ok (OVal l)
    | None => transformed apply_fn c v
    end.
  Proof.
    intros Hp. pose proof (step_sim d w RdAlias) as S.
    destruct (step (VInst d, w) RdAlias) as [res [r' w']]. cbn [fst snd].
    destruct S as [(S1 & _) _]. unfold abs in S1. rewrite machine_rd in S1. cbn [fst] in S1.
    subst res. unfold rd_out. rewrite Hp. reflexivity.
  Qed.
End Sim.

(* ---- DeprecatedAlias = Alias + a warning counter -------------------------------- *)
Definition undeprecated {fn} (c : cfg fn) : cfg fn :=
  mkcfg (c_path c) (c_pt c) (c_tr c) (c_fb c) (c_name c) (c_bound c) false.

Section Dep.
  Context {fn : Type}.
  Variable apply_fn : fn -> val -> res val.
  Hypothesis tr_total : forall f v, apply_fn f v <> Err AttrErr.
  Variable h : host.
  Variable c : cfg fn.
  Hypothesis Hwf : wf h c.

  Lemma wf_undeprecated : wf h (undeprecated c).
  Proof. exact Hwf. Qed.

  (* the same outcomes and the same objects, whatever the counters *)
  Theorem deprecated_changes_nothing_else os : forall d w w0,
    fst (run apply_fn h c (VInst d, w) os) = fst (run apply_fn h (undeprecated c) (VInst d, w0) os) /\
    fst (snd (run apply_fn h c (VInst d, w) os)) =
    fst (snd (run apply_fn h (undeprecated c) (VInst d, w0) os)).
  Proof.
    induction os as [|o t IH]; intros d w w0; [split; reflexivity|].
    pose proof (step_sim apply_fn tr_total h c Hwf d w o) as S.
    pose proof (step_sim apply_fn tr_total h (undeprecated c) wf_undeprecated d w0 o) as S0.
    cbn [run].
    destruct (step apply_fn h c (VInst d, w) o) as [res [r' w']].
    destruct (step apply_fn h (undeprecated c) (VInst d, w0) o) as [res0 [r0 w0']].
    destruct S as [(S1 & _ & S3 & _) [d' E]]. destruct S0 as [(T1 & _ & T3 & _) _].
    assert (R1 : res0 = res) by (rewrite S1, T1; reflexivity).
    rewrite R1 in T3.
    assert (R2 : r0 = r') by (rewrite S3, T3; reflexivity).
    clear S1 T1 S3 T3. subst res0 r0 r'.
    specialize (IH d' w' w0').
    destruct (run apply_fn h c (VInst d', w') t) as [rs s2].
    destruct (run apply_fn h (undeprecated c) (VInst d', w0') t) as [rs0 s0]. cbn [fst snd] in *.
    destruct IH as [-> ->]. split; reflexivity.
  Qed.

  (* number of operations of a sequence that reach the alias *)
  Fixpoint accesses (os : list op) : Z :=
    match os with
    | [] => 0
    | o :: t => (if reaches_alias h c o then 1 else 0) + accesses t
    end.

  Theorem warnings_counted os : forall d w,
    let w' := snd (snd (run apply_fn h c (VInst d, w) os)) in
    if c_dep c then w + accesses os <= w' else w' = w.
  Proof.
    induction os as [|o t IH]; intros d w.
    - simpl. destruct (c_dep c); lia.
    - pose proof (step_sim apply_fn tr_total h c Hwf d w o) as S. cbn [run accesses].
      destruct (step apply_fn h c (VInst d, w) o) as [res [r' w1]].
      destruct S as [(_ & _ & _ & S4) [d' ->]].
      specialize (IH d' w1). destruct (run apply_fn h c (VInst d', w1) t) as [rs s2]. cbn [fst snd] in *.
      unfold warns_ok in S4. destruct (c_dep c); cbn [andb] in S4.
      + destruct (reaches_alias h c o).
        * apply Z.leb_le in S4. lia.
        * apply Z.eqb_eq in S4. lia.
      + apply Z.eqb_eq in S4. lia.
  Qed.
End Dep.

(* ---- the executable oracle is the predicate of the theorems ------------------------- *)
Lemma out_eqb_eq a b : out_eqb a b = true <-> a = b.
Proof.
  destruct a, b; simpl; split; intro E; try reflexivity; try discriminate;
    try (apply val_eqb_eq in E; congruence); inversion E; apply val_eqb_refl.
Qed.

Lemma res_out_eqb_eq a b : res_out_eqb a b = true <-> a = b.
Proof.
  destruct a, b; simpl; split; intro E; try discriminate.
  - apply out_eqb_eq in E. congruence.
  - inversion E. apply out_eqb_eq. reflexivity.
  - apply err_eqb_eq in E. congruence.
  - inversion E. apply err_eqb_eq. reflexivity.
Qed.

Lemma sstate_eqb_eq a b : sstate_eqb a b = true <-> a = b.
Proof.
  destruct a as [t l], b as [t' l']. unfold sstate_eqb. cbn [fst snd]. split.
  - intro E. apply andb_true_iff in E as [E1 E2]. f_equal.
    + destruct t, t'; try discriminate; try reflexivity.
      * apply val_eqb_eq in E1. congruence.
      * apply err_eqb_eq in E1. congruence.
    + destruct l, l'; try discriminate; try reflexivity. apply val_eqb_eq in E2. congruence.
  - intro E. inversion E; subst. apply andb_true_iff. split.
    + destruct t'; try reflexivity; [apply val_eqb_refl | apply err_eqb_eq; reflexivity].
    + destruct l'; [apply val_eqb_refl | reflexivity].
Qed.

Theorem step_okb_iff {fn} (apply_fn : fn -> val -> res val) h c pre o res n post :
  step_okb apply_fn h c pre o res n post = true <-> step_ok apply_fn h c pre o res n post.
Proof.
  unfold step_okb, step_ok. rewrite !andb_true_iff, res_out_eqb_eq, sstate_eqb_eq, val_eqb_eq. tauto.
Qed.
