(* Specification of C12 for an instance that carries TWO spec_properties, a
   trigger `t` and a dependant `q` (invalidated_by=["t"] or "*").

   Each property is its own two-slot protocol machine of Desc/SpecPropSpec.v
   (override, cached) over the shared underlying state.  The only traffic
   between them:

     - an assignment to `t` that reached the property and RETURNED, and a
       deletion of `t` that RETURNED, delete `q` (its override and its cached
       value; AttributeError ignored);
     - with invalidated_by="*" an assignment to the plain attribute x
       deletes `q` as well;
     - EVERYTHING ELSE LEAVES THE OTHER PROPERTY ALONE.  In particular a
       rejected assignment / deletion ("raises ... and changes nothing")
       leaves the override of `q` set and its cached value "cached since the
       last deletion"; a read never touches the other property.

   Only the types dcfg / dop / owner are shared with the model file. *)
From Coq Require Import List Bool.
From SC Require Import Base.Res Desc.SpecPropModel Desc.SpecPropSpec Desc.SpecPropDepsModel.
Import ListNotations.

Section DepsSpec.
  Context {val U P : Type}.
  Variable is_sentinel : val -> bool.
  Variables fget_t fget_q : U -> res val * U.
  Variables fset_t fset_q : U -> val -> res unit * U.
  Variables fdel_t fdel_q : U -> res unit * U.
  Variable poke : P -> U -> U.
  Variables prepare_t prepare_q : val -> res val.
  Variables tyok_t tyok_q : val -> bool.

  Notation dop := (@dop val P).
  Notation cop := (@op val unit).
  Notation out := (@out val).

  Record dsst := mkds {
    t_override : option val; t_cached : option val;
    q_override : option val; q_cached : option val;
    dsu : U }.

  Definition t_sstep (d : dcfg) : @sst val U -> cop -> res out * @sst val U :=
    spec_step is_sentinel fget_t fset_t fdel_t (@nopoke U) prepare_t tyok_t (d_ct d) (spec_owner (d_mt d) false).
  Definition q_sstep (d : dcfg) : @sst val U -> cop -> res out * @sst val U :=
    spec_step is_sentinel fget_q fset_q fdel_q (@nopoke U) prepare_q tyok_q (d_cq d) (spec_owner (d_mq d) true).

  (* an operation of `t`'s own protocol machine; q's slots are not mentioned *)
  Definition s_on_t (d : dcfg) (s : dsst) (x : cop) : res out * dsst :=
    let '(r, s1) := t_sstep d (mks (t_override s) (t_cached s) (dsu s)) x in
    (r, mkds (override s1) (cached s1) (q_override s) (q_cached s) (su s1)).
  Definition s_on_q (d : dcfg) (s : dsst) (x : cop) : res out * dsst :=
    let '(r, s1) := q_sstep d (mks (q_override s) (q_cached s) (dsu s)) x in
    (r, mkds (t_override s) (t_cached s) (override s1) (cached s1) (su s1)).

  (* did the owner hand a value to the property `t`? *)
  Definition s_reaches (d : dcfg) (v : val) : bool :=
    match incoming is_sentinel prepare_t tyok_t (spec_owner (d_mt d) false) v with
    | Ok (Some _) => true
    | _ => false
    end.

  (* "delete q, AttributeError ignored" is the Poke of q's machine (an owner
     that invalidates) with a state change that does nothing *)
  Definition s_after_success (d : dcfg) (happened : bool) (w : res out * dsst) : res out * dsst :=
    match w with
    | (Ok o, s1) =>
        if happened
        then match s_on_q d s1 (Poke tt) with
             | (Ok _, s2) => (Ok o, s2)
             | (Err e, s2) => (Err e, s2)
             end
        else (Ok o, s1)
    | (Err e, s1) => (Err e, s1)     (* rejected: q is left alone *)
    end.

  Definition ds_step (d : dcfg) (s : dsst) (x : dop) : res out * dsst :=
    match x with
    | TRead => s_on_t d s Read
    | TAssign v => s_after_success d (s_reaches d v) (s_on_t d s (Assign v))
    | TDelete => s_after_success d true (s_on_t d s Delete)
    | QRead => s_on_q d s Read
    | QAssign v => s_on_q d s (Assign v)
    | QDelete => s_on_q d s Delete
    | XPoke p =>
        let s1 := mkds (t_override s) (t_cached s) (q_override s) (q_cached s) (poke p (dsu s)) in
        if d_star d then s_on_q d s1 (Poke tt) else (Ok ONone, s1)
    end.

  Fixpoint ds_run (d : dcfg) (s : dsst) (xs : list dop) : list (res out) * dsst :=
    match xs with
    | [] => ([], s)
    | x :: t => let '(r, s1) := ds_step d s x in
                let '(rs, s2) := ds_run d s1 t in (r :: rs, s2)
    end.

  Definition ds_init (u : U) : dsst := mkds None None None None u.

  (* what the two instance-__dict__ entries must show *)
  Definition t_visible (s : dsst) : option val :=
    match t_override s with Some v => Some v | None => t_cached s end.
  Definition q_visible (s : dsst) : option val :=
    match q_override s with Some v => Some v | None => q_cached s end.
End DepsSpec.
