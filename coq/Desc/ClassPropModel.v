(* Executable model of spec_classes/types/spec_property.py:classproperty:
   one dict `_cache` per descriptor, keyed by the class through which the
   access happens (cache_per_subclass=True) or by None (default); __get__,
   __set__ and __delete__ as written.  Classes are an arbitrary type `cid`
   with decidable equality; the hierarchy enters only through what getter /
   setter / deleter / poke do with the class they receive (all parameters),
   so nothing here depends on the shape of the hierarchy.  Reads happen via
   the class (C.p) or via an instance (C().p): both reach __get__(obj, C).
   Assignment and deletion happen via instances (type(obj) is the class).
   No proofs in this file. *)
From Coq Require Import List Bool.
From SC Require Import Base.Res.
Import ListNotations.

Record ccfg := mkccfg {
  c_overridable : bool;    (* overridable=         (default False) *)
  c_cache : bool;          (* cache=               (default False) *)
  c_per_sub : bool;        (* cache_per_subclass=  (default False) *)
  c_has_fset : bool;
  c_has_fdel : bool;
  c_has_fget : bool;
  c_allow_ae : bool
}.

Section CP.
  Context {val U P cid : Type}.
  Variable cid_eqb : cid -> cid -> bool.
  Variable fget : cid -> U -> res val * U.           (* self.fget.__get__(obj, objtype)() *)
  Variable fset : cid -> U -> val -> res unit * U.   (* self.fset.__get__(None, cls)(value) *)
  Variable fdel : cid -> U -> res unit * U.          (* self.fdel.__get__(None, cls)() *)
  Variable poke : P -> U -> U.                       (* K.x = z *)

  Definition key := option cid.
  Definition key_eqb (a b : key) : bool :=
    match a, b with
    | None, None => true
    | Some x, Some y => cid_eqb x y
    | _, _ => false
    end.

  (* the dict self._cache *)
  Definition dict := list (key * val).
  Definition d_get (k : key) (d : dict) : option val :=
    option_map snd (find (fun p => key_eqb k (fst p)) d).
  Definition d_del (k : key) (d : dict) : dict :=
    filter (fun p => negb (key_eqb k (fst p))) d.
  Definition d_set (k : key) (v : val) (d : dict) : dict := (k, v) :: d_del k d.

  Inductive cop :=
  | CReadC (k : cid)            (* K.p *)
  | CReadI (k : cid)            (* K().p *)
  | CAssign (k : cid) (v : val) (* K().p = v *)
  | CDelete (k : cid)           (* del K().p *)
  | CPoke (p : P).
  Inductive cout := CNone | CVal (v : val).

  Record cst := mkc { cdict : dict; cu : U }.

  (* classproperty._cache_key *)
  Definition cache_key (c : ccfg) (k : cid) : key :=
    if c_per_sub c then Some k else None.

  Definition c_lift (d : dict) (r : res unit * U) : res cout * cst :=
    (match fst r with Ok _ => Ok CNone | Err e => Err e end, mkc d (snd r)).

  (* classproperty.__get__(obj, objtype) *)
  Definition cp_get (c : ccfg) (k : cid) (s : cst) : res cout * cst :=
    match d_get (cache_key c k) (cdict s) with
    | Some v => (Ok (CVal v), s)
    | None =>
      if negb (c_has_fget c) then (Err AttrErr, s) else
      let '(r, u') := fget k (cu s) in
      match r with
      | Err AttrErr => (Err (if c_allow_ae c then AttrErr else RuntimeErr), mkc (cdict s) u')
      | Err e => (Err e, mkc (cdict s) u')
      | Ok v =>
        if c_cache c
        then (Ok (CVal v), mkc (d_set (cache_key c k) v (cdict s)) u')
        else (Ok (CVal v), mkc (cdict s) u')
      end
    end.

  (* classproperty.__set__(obj, value), obj an instance of k *)
  Definition cp_set (c : ccfg) (k : cid) (v : val) (s : cst) : res cout * cst :=
    if c_has_fset c then c_lift (cdict s) (fset k (cu s) v)
    else if c_overridable c then (Ok CNone, mkc (d_set (cache_key c k) v (cdict s)) (cu s))
    else (Err AttrErr, s).

  (* classproperty.__delete__(obj) *)
  Definition cp_delete (c : ccfg) (k : cid) (s : cst) : res cout * cst :=
    if c_has_fdel c then c_lift (cdict s) (fdel k (cu s))
    else match d_get (cache_key c k) (cdict s) with
         | Some _ => (Ok CNone, mkc (d_del (cache_key c k) (cdict s)) (cu s))
         | None => (Err AttrErr, s)
         end.

  Definition cp_step (c : ccfg) (s : cst) (x : cop) : res cout * cst :=
    match x with
    | CReadC k | CReadI k => cp_get c k s
    | CAssign k v => cp_set c k v s
    | CDelete k => cp_delete c k s
    | CPoke p => (Ok CNone, mkc (cdict s) (poke p (cu s)))
    end.

  Fixpoint cp_run (c : ccfg) (s : cst) (xs : list cop) : list (res cout) * cst :=
    match xs with
    | [] => ([], s)
    | x :: t => let '(r, s1) := cp_step c s x in
                let '(rs, s2) := cp_run c s1 t in (r :: rs, s2)
    end.

  Definition cp_init (u : U) : cst := mkc [] u.
End CP.
