(* The two-property owner of Desc/SpecPropDepsModel.v (code: one __dict__
   entry per property, invalidate_attrs placed after the raw write) simulates
   the specification Desc/SpecPropDepsSpec.v (two two-slot machines that leave
   each other alone except after a successful assignment / deletion of the
   trigger), for every pair of configurations, every getter / setter /
   deleter / preparer / type check of either property and every operation
   sequence.  Built on the per-property simulation of Desc/SpecPropProofs.v. *)
From Coq Require Import List Bool.
From SC Require Import Base.Res Desc.SpecPropModel Desc.SpecPropSpec Desc.SpecPropProofs
  Desc.SpecPropDepsModel Desc.SpecPropDepsSpec.
Import ListNotations.

Section DepsProofs.
  Context {val U P : Type}.
  Variable is_sentinel : val -> bool.
  Variables fget_t fget_q : U -> res val * U.
  Variables fset_t fset_q : U -> val -> res unit * U.
  Variables fdel_t fdel_q : U -> res unit * U.
  Variable poke : P -> U -> U.
  Variables prepare_t prepare_q : val -> res val.
  Variables tyok_t tyok_q : val -> bool.

  Notation dmst := (@dmst val U).
  Notation dsst := (@dsst val U).
  Notation dop := (@dop val P).
  Notation m_on_t := (m_on_t is_sentinel fget_t fset_t fdel_t prepare_t tyok_t).
  Notation m_on_q := (m_on_q is_sentinel fget_q fset_q fdel_q prepare_q tyok_q).
  Notation s_on_t := (s_on_t is_sentinel fget_t fset_t fdel_t prepare_t tyok_t).
  Notation s_on_q := (s_on_q is_sentinel fget_q fset_q fdel_q prepare_q tyok_q).
  Notation m_reaches := (m_reaches is_sentinel prepare_t tyok_t).
  Notation s_reaches := (s_reaches is_sentinel prepare_t tyok_t).
  Notation m_then_invalidate := (m_then_invalidate is_sentinel fget_q fset_q fdel_q prepare_q tyok_q).
  Notation s_after_success := (s_after_success is_sentinel fget_q fset_q fdel_q prepare_q tyok_q).
  Notation dm_step := (dm_step is_sentinel fget_t fget_q fset_t fset_q fdel_t fdel_q poke prepare_t prepare_q tyok_t tyok_q).
  Notation ds_step := (ds_step is_sentinel fget_t fget_q fset_t fset_q fdel_t fdel_q poke prepare_t prepare_q tyok_t tyok_q).
  Notation dm_run := (dm_run is_sentinel fget_t fget_q fset_t fset_q fdel_t fdel_q poke prepare_t prepare_q tyok_t tyok_q).
  Notation ds_run := (ds_run is_sentinel fget_t fget_q fset_t fset_q fdel_t fdel_q poke prepare_t prepare_q tyok_t tyok_q).

  (* both properties are related as in Desc/SpecPropProofs.v, over the same
     underlying state *)
  Definition DR (d : dcfg) (s : dsst) (m : dmst) : Prop :=
    R (d_ct d) (mks (t_override s) (t_cached s) (dsu s)) (mkm (dslot_t m) (dmu m)) /\
    R (d_cq d) (mks (q_override s) (q_cached s) (dsu s)) (mkm (dslot_q m) (dmu m)).

  Lemma DR_init d u : DR d (ds_init u) (dm_init u).
  Proof. split; apply R_init. Qed.

  (* R does not look at the underlying state beyond "equal on both sides" *)
  Lemma R_move_u c (ov ca sl : option val) (u u' : U) :
    R c (mks ov ca u) (mkm sl u) -> R c (mks ov ca u') (mkm sl u').
  Proof. unfold R, visible; simpl. intros (A & _ & B & C). auto. Qed.

  Lemma on_t_sim d x s m :
    DR d s m ->
    fst (m_on_t d m x) = fst (s_on_t d s x) /\ DR d (snd (s_on_t d s x)) (snd (m_on_t d m x)).
  Proof.
    intros [Ht Hq]. unfold m_on_t, s_on_t, t_mstep, t_sstep.
    destruct (step_sim is_sentinel fget_t fset_t fdel_t (@nopoke U) prepare_t tyok_t
                (d_ct d) (spec_owner (d_mt d) false) x _ _ Ht) as [E1 R1].
    destruct (m_step _ _ _ _ _ _ _ _ _ (mkm (dslot_t m) (dmu m)) x) as [r1 m1].
    destruct (spec_step _ _ _ _ _ _ _ _ _ (mks (t_override s) (t_cached s) (dsu s)) x) as [r2 s2].
    simpl in *. subst r2. split; [reflexivity|].
    assert (Eu : mu m1 = su s2) by (destruct R1 as (_ & A & _); exact A).
    split; simpl.
    - destruct s2, m1; exact R1.
    - rewrite Eu. apply R_move_u with (u := dsu s).
      destruct Hq as (A & B & C & D). unfold R in *; simpl in *. rewrite <- B. auto.
  Qed.

  Lemma on_q_sim d x s m :
    DR d s m ->
    fst (m_on_q d m x) = fst (s_on_q d s x) /\ DR d (snd (s_on_q d s x)) (snd (m_on_q d m x)).
  Proof.
    intros [Ht Hq]. unfold m_on_q, s_on_q, q_mstep, q_sstep.
    destruct (step_sim is_sentinel fget_q fset_q fdel_q (@nopoke U) prepare_q tyok_q
                (d_cq d) (spec_owner (d_mq d) true) x _ _ Hq) as [E1 R1].
    destruct (m_step _ _ _ _ _ _ _ _ _ (mkm (dslot_q m) (dmu m)) x) as [r1 m1].
    destruct (spec_step _ _ _ _ _ _ _ _ _ (mks (q_override s) (q_cached s) (dsu s)) x) as [r2 s2].
    simpl in *. subst r2. split; [reflexivity|].
    assert (Eu : mu m1 = su s2) by (destruct R1 as (_ & A & _); exact A).
    split; simpl.
    - rewrite Eu. apply R_move_u with (u := dsu s).
      destruct Ht as (A & B & C & D). unfold R in *; simpl in *. rewrite <- B. auto.
    - destruct s2, m1; exact R1.
  Qed.

  Lemma reaches_agree d v : m_reaches d v = s_reaches d v.
  Proof.
    unfold m_reaches, s_reaches, incoming, spec_owner.
    destruct (d_mt d); simpl.
    - destruct (prepare_t v) as [v'|e]; simpl; [|reflexivity].
      destruct (is_sentinel v'); simpl; [reflexivity|].
      destruct (tyok_t v'); reflexivity.
    - destruct (is_sentinel v); reflexivity.
  Qed.

  Lemma then_invalidate_sim d b wm ws :
    fst wm = fst ws -> DR d (snd ws) (snd wm) ->
    fst (m_then_invalidate d b wm) = fst (s_after_success d b ws) /\
    DR d (snd (s_after_success d b ws)) (snd (m_then_invalidate d b wm)).
  Proof.
    destruct wm as [r1 m1], ws as [r2 s2]; simpl. intros E H. subst r2.
    destruct r1 as [o|e]; simpl; [|auto].
    destruct b; simpl; [|auto].
    destruct (on_q_sim d (Poke tt) s2 m1 H) as [E1 R1].
    destruct (m_on_q d m1 (Poke tt)) as [r3 m3], (s_on_q d s2 (Poke tt)) as [r4 s4].
    simpl in *. subst r4. destruct r3; simpl; auto.
  Qed.

  Lemma dstep_sim d x s m :
    DR d s m ->
    fst (dm_step d m x) = fst (ds_step d s x) /\ DR d (snd (ds_step d s x)) (snd (dm_step d m x)).
  Proof.
    intro H. destruct x as [|v| | |v| |p]; unfold dm_step, ds_step.
    - apply on_t_sim; auto.
    - rewrite reaches_agree. apply then_invalidate_sim; apply on_t_sim; auto.
    - apply then_invalidate_sim; apply on_t_sim; auto.
    - apply on_q_sim; auto.
    - apply on_q_sim; auto.
    - apply on_q_sim; auto.
    - assert (H1 : DR d (mkds (t_override s) (t_cached s) (q_override s) (q_cached s) (poke p (dsu s)))
                        (mkdm (dslot_t m) (dslot_q m) (poke p (dmu m)))).
      { destruct H as [Ht Hq]. split; simpl.
        - assert (E : dmu m = dsu s) by (destruct Ht as (_ & A & _); exact A).
          rewrite E. apply R_move_u with (u := dsu s). rewrite <- E at 2. exact Ht.
        - assert (E : dmu m = dsu s) by (destruct Hq as (_ & A & _); exact A).
          rewrite E. apply R_move_u with (u := dsu s). rewrite <- E at 2. exact Hq. }
      destruct (d_star d); [apply on_q_sim; auto|simpl; auto].
  Qed.

  Theorem drun_sim d : forall xs s m,
    DR d s m ->
    fst (dm_run d m xs) = fst (ds_run d s xs) /\ DR d (snd (ds_run d s xs)) (snd (dm_run d m xs)).
  Proof.
    induction xs as [|x t IH]; intros s m H; simpl; [auto|].
    destruct (dstep_sim d x s m H) as [E1 R1].
    destruct (dm_step d m x) as [r1 m1], (ds_step d s x) as [r2 s2].
    simpl in E1, R1. subst r2.
    destruct (IH s2 m1 R1) as [E2 R2].
    destruct (dm_run d m1 t) as [rs1 m2], (ds_run d s2 t) as [rs2 s3].
    simpl in *. subst rs2. auto.
  Qed.

  Corollary drun_sim_from_new d u xs :
    fst (dm_run d (dm_init u) xs) = fst (ds_run d (ds_init u) xs) /\
    dslot_t (snd (dm_run d (dm_init u) xs)) = t_visible (snd (ds_run d (ds_init u) xs)) /\
    dslot_q (snd (dm_run d (dm_init u) xs)) = q_visible (snd (ds_run d (ds_init u) xs)) /\
    dmu (snd (dm_run d (dm_init u) xs)) = dsu (snd (ds_run d (ds_init u) xs)).
  Proof.
    destruct (drun_sim d xs _ _ (DR_init d u)) as [E [(A & B & _) (C & _)]].
    simpl in *. auto.
  Qed.

  (* "assignment raises AttributeError and changes nothing when the property is
     neither overridable nor has a setter" with a dependant on the instance:
     the ENTIRE state is unchanged -- the entry of the other property (its
     override / its cached value) included -- and AttributeError is raised
     whenever a value reaches the property *)
  Theorem trigger_assignment_rejected d v m :
    overridable (d_ct d) = false -> has_fset (d_ct d) = false ->
    snd (dm_step d m (TAssign v)) = m /\
    (m_reaches d v = true -> fst (dm_step d m (TAssign v)) = Err AttrErr).
  Proof.
    intros Eo Es. simpl. unfold m_on_t, t_mstep. simpl.
    destruct (assign_rejected is_sentinel fset_t prepare_t tyok_t (d_ct d)
                (spec_owner (d_mt d) false) v (mkm (dslot_t m) (dmu m)) Eo Es) as (A & B & C & D).
    destruct (obj_assign _ _ _ _ (d_ct d) (spec_owner (d_mt d) false) v (mkm (dslot_t m) (dmu m)))
      as [r m1] eqn:E. simpl in *. subst m1. simpl.
    rewrite reaches_agree. unfold s_reaches.
    destruct (incoming is_sentinel prepare_t tyok_t (spec_owner (d_mt d) false) v) as [[v'|]|e].
    - rewrite (B v' eq_refl). simpl. destruct m; auto.
    - rewrite (C eq_refl). simpl. destruct m; split; [reflexivity|discriminate].
    - rewrite (D e eq_refl). simpl. destruct m; split; [reflexivity|discriminate].
  Qed.

  (* deletion of the trigger with nothing stored and no custom deleter: raises,
     and the dependant keeps what it holds *)
  Theorem trigger_deletion_rejected d m :
    has_fdel (d_ct d) = false -> dslot_t m = None ->
    dm_step d m TDelete = (Err AttrErr, m).
  Proof.
    intros Ed En. simpl. unfold m_on_t, t_mstep. simpl.
    rewrite (delete_nothing fdel_t (d_ct d) (spec_owner (d_mt d) false) (mkm (dslot_t m) (dmu m)) Ed En).
    simpl. destruct m; reflexivity.
  Qed.
End DepsProofs.
