(* C18 — what the property says, independent of how alias.py computes it.

   (1) the meaning of a path: which location of the object tree it names
       ([resolve], [put]);
   (2) the two-variable reference machine of the property text: the current
       state of the target along the path, and the local override;
   (3) [step_ok]: one observed operation (state before, operation, outcome,
       state after) is a step of that machine and changes nothing but the
       location the property allows it to change.
   The theorems say that every step of the model satisfies [step_ok]; the
   correspondence check evaluates the same predicate ([step_okb]) on what the
   implementation did. *)
From Coq Require Import List ZArith Bool.
From SC Require Import Base.Res Desc.AliasBase.
Import ListNotations.
Open Scope Z_scope.

(* ---- (1) paths ----------------------------------------------------------- *)
(* the first variable: the target as the path sees it now *)
Inductive tstate :=
| Present (v : val)     (* the location holds v *)
| Absent                (* the object that should hold it exists, the slot is empty *)
| Broken (e : err).     (* the path cannot be followed: the Python error of following it *)

(* one step down: `.a` needs an instance, `["k"]` needs a dict *)
Definition child (v : val) (s : hop) : tstate :=
  match s, v with
  | SAttr a, VInst d => match d_get a d with Some x => Present x | None => Absent end
  | SAttr _, _ => Broken AttrErr          (* no such attribute on a non-instance *)
  | SItem k, VDict d => match d_get k d with Some x => Present x | None => Absent end
  | SItem _, _ => Broken TypeErr          (* not subscriptable *)
  end.
Definition miss_err (s : hop) : err :=
  match s with SAttr _ => AttrErr | SItem _ => KeyErr end.

Fixpoint resolve (v : val) (p : list hop) : tstate :=
  match p with
  | [] => Present v
  | s :: rest =>
      match child v s with
      | Present x => resolve x rest
      | Absent => match rest with [] => Absent | _ => Broken (miss_err s) end
      | Broken e => Broken e
      end
  end.

(* set (Some x) or empty (None) the slot s of v, if v has such slots *)
Definition set_child (v : val) (s : hop) (x : option val) : val :=
  match s, v with
  | SAttr a, VInst d => VInst (match x with Some y => d_set a y d | None => d_del a d end)
  | SItem k, VDict d => VDict (match x with Some y => d_set k y d | None => d_del k d end)
  | _, _ => v
  end.

(* the tree in which the location named by p holds x / is empty, and nothing
   else differs *)
Fixpoint put (v : val) (p : list hop) (x : option val) : val :=
  match p with
  | [] => v
  | s :: rest =>
      match rest with
      | [] => set_child v s x
      | _ => match child v s with
             | Present y => set_child v s (Some (put y rest x))
             | _ => v
             end
      end
  end.

(* two paths that part ways name locations that do not contain one another *)
Definition diverges (p q : list hop) : Prop :=
  exists r s s' p' q', p = r ++ s :: p' /\ q = r ++ s' :: q' /\ s <> s'.

(* ---- (2) the reference machine -------------------------------------------- *)
Section Spec.
  Context {fn : Type}.
  Variable apply_fn : fn -> val -> res val.
  Variable h : host.
  Variable c : cfg fn.

  Definition sstate := (tstate * option val)%type.   (* target, local override *)

  (* a path ending in ["k"] names a dict slot (KeyError when empty, untyped);
     one ending in .a names an attribute (AttributeError when empty, typed on
     a spec class when annotated int) *)
  Definition empty_err : err :=
    match last_opt (c_path c) with Some (SItem _) => KeyErr | _ => AttrErr end.
  Definition slot_ok (x : val) : bool :=
    match last_opt (c_path c) with Some (SAttr a) => conforms h a x | _ => true end.
  (* the alias reports AttributeError and KeyError as AttributeError *)
  Definition as_attr_err (e : err) : err :=
    match e with KeyErr => AttrErr | _ => e end.

  Definition transformed (v : val) : res out :=
    match c_tr c with
    | None => Ok (OVal v)
    | Some f => match apply_fn f v with Ok y => Ok (OVal y) | Err e => Err e end
    end.
  (* missing target: a fresh copy of the fallback, AttributeError without one *)
  Definition missing : res out :=
    match c_fb c with
    | Some f => Ok (if is_mutable f then OFresh f else OVal f)
    | None => Err AttrErr
    end.

  Definition read_target (t : tstate) : res out :=
    match t with Present v => Ok (OVal v) | Absent => Err empty_err | Broken e => Err e end.
  Definition write_target (t : tstate) (x : val) : res tstate :=
    match t with
    | Broken e => Err e
    | _ => if slot_ok x then Ok (Present x) else Err TypeErr
    end.
  Definition delete_target (t : tstate) : res tstate :=
    match t with Present _ => Ok Absent | Absent => Err empty_err | Broken e => Err e end.

  Definition machine (s : sstate) (o : op) : res out * sstate :=
    let '(t, l) := s in
    match o with
    | RdClass => (Ok ODescr, s)
    | RdAlias =>
        match (if c_pt c then None else l) with
        | Some v => (Ok (OVal v), s)                     (* shadowed: the local value, untransformed *)
        | None =>
            match t with
            | Present v => (transformed v, s)            (* live view *)
            | Absent => (missing, s)
            | Broken e => match as_attr_err e with
                          | AttrErr => (missing, s)
                          | e' => (Err e', s)
                          end
            end
        end
    | WrAlias x =>
        if negb (conforms h (c_name c) x) then (Err TypeErr, s)   (* managed attribute of a spec class *)
        else if c_pt c then
          match write_target t x with
          | Ok t' => (Ok ONone, (t', l))                 (* forwarded *)
          | Err e => (Err (as_attr_err e), s)
          end
        else (Ok ONone, (t, Some x))                     (* shadows; target untouched *)
    | DelAlias =>
        if c_pt c then
          match delete_target t with
          | Ok t' => (Ok ONone, (t', l))                 (* forwarded *)
          | Err e => (Err (match t with Broken _ => as_attr_err e | _ => e end), s)
          end
        else match l with
             | Some _ => (Ok ONone, (t, None))           (* live view restored *)
             | None => (Err AttrErr, s)
             end
    | RdTarget => (read_target t, s)
    | WrTarget x =>
        match write_target t x with
        | Ok t' => (Ok ONone, (t', l))
        | Err e => (Err e, s)
        end
    | DelTarget =>
        match delete_target t with
        | Ok t' => (Ok ONone, (t', l))
        | Err e => (Err e, s)
        end
    end.

  Fixpoint machine_run (s : sstate) (os : list op) : list (res out) * sstate :=
    match os with
    | [] => ([], s)
    | o :: t => let '(r, s') := machine s o in
                let '(rs, s'') := machine_run s' t in (r :: rs, s'')
    end.

  (* ---- (3) observed steps --------------------------------------------------- *)
  Definition local_slot : hop := SAttr (ovr (c_name c)).
  Definition local_of (r : val) : option val :=
    match child r local_slot with Present v => Some v | _ => None end.
  (* the two variables, read off an object tree *)
  Definition abs (r : val) : sstate := (resolve r (c_path c), local_of r).

  (* the only tree an operation with this outcome may leave behind *)
  Definition expected_tree (pre : val) (o : op) (res : res out) : val :=
    match res, o with
    | Ok _, WrAlias x => if c_pt c then put pre (c_path c) (Some x) else set_child pre local_slot (Some x)
    | Ok _, DelAlias => if c_pt c then put pre (c_path c) None else set_child pre local_slot None
    | Ok _, WrTarget x => put pre (c_path c) (Some x)
    | Ok _, DelTarget => put pre (c_path c) None
    | _, _ => pre
    end.

  (* DeprecatedAlias warns on every access of the alias, a plain Alias never,
     and nothing else ever warns (n = warnings emitted by the operation).
     An assignment that the spec class rejects for its type never reaches the
     alias. *)
  Definition reaches_alias (o : op) : bool :=
    match o with
    | WrAlias x => conforms h (c_name c) x
    | RdAlias | DelAlias | RdClass => true
    | _ => false
    end.
  Definition warns_ok (o : op) (n : Z) : bool :=
    if c_dep c && reaches_alias o then 1 <=? n else n =? 0.

  Definition step_ok (pre : val) (o : op) (res : res out) (n : Z) (post : val) : Prop :=
    res = fst (machine (abs pre) o) /\
    abs post = snd (machine (abs pre) o) /\
    post = expected_tree pre o res /\
    warns_ok o n = true.

  Definition sstate_eqb (a b : sstate) : bool :=
    (match fst a, fst b with
     | Present x, Present y => val_eqb x y
     | Absent, Absent => true
     | Broken e, Broken f => err_eqb e f
     | _, _ => false
     end) &&
    (match snd a, snd b with
     | Some x, Some y => val_eqb x y
     | None, None => true
     | _, _ => false
     end).

  Definition step_okb (pre : val) (o : op) (res : res out) (n : Z) (post : val) : bool :=
    res_out_eqb res (fst (machine (abs pre) o)) &&
    sstate_eqb (abs post) (snd (machine (abs pre) o)) &&
    val_eqb post (expected_tree pre o res) &&
    warns_ok o n.

  (* configurations the property speaks about: a descriptor assigned in a
     class body, a non-empty path that does not start at the alias itself
     (self-reference) or at its private override slot *)
  Definition wf : Prop :=
    c_bound c = true /\
    typed h (ovr (c_name c)) = false /\       (* the private slot is not an annotated attribute *)
    match c_path c with
    | [] => False
    | s :: _ => s <> SAttr (c_name c) /\ s <> local_slot
    end.
End Spec.
