(* Proofs for C12 (spec_property): the one-slot code simulates the two-slot
   specification for every configuration, owner kind, getter / setter /
   deleter / preparer / type check, and every operation sequence. *)
From Coq Require Import List Bool.
From SC Require Import Base.Res Desc.SpecPropModel Desc.SpecPropSpec.
Import ListNotations.

Section Proofs.
  Context {val U P : Type}.
  Variable is_sentinel : val -> bool.
  Variable fget : U -> res val * U.
  Variable fset : U -> val -> res unit * U.
  Variable fdel : U -> res unit * U.
  Variable poke : P -> U -> U.
  Variable prepare : val -> res val.
  Variable tyok : val -> bool.

  Notation op := (@op val P).
  Notation out := (@out val).
  Notation mst := (@mst val U).
  Notation sst := (@sst val U).
  Notation desc_get := (desc_get is_sentinel fget prepare tyok).
  Notation desc_set := (@desc_set val U fset).
  Notation desc_delete := (@desc_delete val U fdel).
  Notation obj_read := (obj_read is_sentinel fget prepare tyok).
  Notation obj_assign := (obj_assign is_sentinel fset prepare tyok).
  Notation obj_poke := (@obj_poke val U P fdel poke).
  Notation obj_delete := (@obj_delete val U fdel).
  Notation m_step := (m_step is_sentinel fget fset fdel poke prepare tyok).
  Notation m_run := (m_run is_sentinel fget fset fdel poke prepare tyok).
  Notation proto_read := (proto_read is_sentinel fget prepare tyok).
  Notation spec_read := (spec_read is_sentinel fget prepare tyok).
  Notation proto_assign := (@proto_assign val U fset).
  Notation proto_delete := (@proto_delete val U fdel).
  Notation spec_assign := (spec_assign is_sentinel fset prepare tyok).
  Notation spec_poke := (@spec_poke val U P fdel poke).
  Notation spec_step := (spec_step is_sentinel fget fset fdel poke prepare tyok).
  Notation spec_run := (spec_run is_sentinel fget fset fdel poke prepare tyok).
  Notation incoming := (incoming is_sentinel prepare tyok).

  (* the simulation relation: the single __dict__ entry shows the override,
     else the cached value; an override exists only on overridable
     properties, a cached value only on caching ones *)
  Definition R (c : cfg) (s : sst) (m : mst) : Prop :=
    slot m = visible s /\ mu m = su s /\
    (override s <> None -> overridable c = true) /\
    (cached s <> None -> cache c = true).

  Lemma R_init c u : R c (spec_init u) (m_init u).
  Proof. unfold R; simpl; repeat split; intro H; now elim H. Qed.


  Lemma get_sim c o s m :
    R c s m ->
    fst (desc_get c (managed o) m) = fst (proto_read c o s) /\
    R c (snd (proto_read c o s)) (snd (desc_get c (managed o) m)).
  Proof.
    intros (Hs & Hu & Ho & Hc).
    destruct s as [ov ca u], m as [sl mu0]; simpl in *; subst mu0 sl.
    unfold desc_get, proto_read, getter_result, through_owner, visible, R; simpl.
    destruct ov as [v|].
    - (* override set *)
      rewrite (Ho ltac:(discriminate)); simpl. repeat split; auto.
    - destruct ca as [v|].
      + rewrite (Hc ltac:(discriminate)), orb_true_r; simpl. repeat split; auto.
      + assert (E : (if overridable c || cache c then @None val else None) = None)
          by (destruct (overridable c || cache c); reflexivity).
        rewrite E; clear E.
        destruct (has_fget c); simpl; [|repeat split; auto].
        destruct (fget u) as [[v0|e] u']; simpl.
        * destruct (managed o); simpl.
          -- destruct (prepare v0) as [v1|e1]; simpl; [|repeat split; auto; discriminate].
             destruct (tyok v1); simpl; [|repeat split; auto; discriminate].
             destruct (cache c) eqn:Ec; simpl; [|repeat split; auto; discriminate].
             destruct (is_sentinel v1); simpl; repeat split; auto; discriminate.
          -- destruct (cache c) eqn:Ec; simpl; [|repeat split; auto; discriminate].
             destruct (is_sentinel v0); simpl; repeat split; auto; discriminate.
        * destruct e; simpl; repeat split; auto; discriminate.
  Qed.

  Lemma read_sim c o s m :
    R c s m ->
    fst (obj_read c o m) = fst (spec_read c o s) /\
    R c (snd (spec_read c o s)) (snd (obj_read c o m)).
  Proof.
    intro H. unfold obj_read, spec_read.
    destruct (get_sim c o s m H) as [E1 R1].
    destruct (is_spec o); [|auto].
    rewrite E1.
    remember (fst (proto_read c o s)) as r eqn:E2.
    destruct r as [v|e]; [split; [congruence|exact R1]|].
    destruct e; try (split; [congruence|exact R1]).
    apply get_sim; exact R1.
  Qed.

  Lemma set_sim c v s m :
    R c s m ->
    fst (desc_set c v m) = fst (proto_assign c v s) /\
    R c (snd (proto_assign c v s)) (snd (desc_set c v m)).
  Proof.
    intros (Hs & Hu & Ho & Hc).
    destruct s as [ov ca u], m as [sl mu0]; simpl in *; subst mu0 sl.
    unfold desc_set, proto_assign, lift_unit, user_call, R, visible; simpl.
    destruct (has_fset c); simpl.
    - destruct (fset u v) as [[[]|e] u']; simpl; repeat split; auto.
    - destruct (overridable c) eqn:Eo; simpl; repeat split; auto.
  Qed.

  Lemma delete_sim c s m :
    R c s m ->
    fst (desc_delete c m) = fst (proto_delete c s) /\
    R c (snd (proto_delete c s)) (snd (desc_delete c m)).
  Proof.
    intros (Hs & Hu & Ho & Hc).
    destruct s as [ov ca u], m as [sl mu0]; simpl in *; subst mu0 sl.
    unfold desc_delete, proto_delete, lift_unit, user_call, R, visible; simpl.
    destruct (has_fdel c); simpl.
    - destruct (fdel u) as [[[]|e] u']; simpl; repeat split; auto.
    - destruct ov as [v|].
      + rewrite (Ho ltac:(discriminate)); simpl. repeat split; auto; intro H; now elim H.
      + destruct ca as [v|].
        * rewrite (Hc ltac:(discriminate)), orb_true_r; simpl.
          repeat split; auto; intro H; now elim H.
        * destruct (overridable c || cache c); simpl; repeat split; auto.
  Qed.

  Lemma assign_sim c o v s m :
    R c s m ->
    fst (obj_assign c o v m) = fst (spec_assign c o v s) /\
    R c (snd (spec_assign c o v s)) (snd (obj_assign c o v m)).
  Proof.
    intro H. unfold obj_assign, spec_assign, incoming.
    destruct o as [|i|i].
    - apply set_sim; auto.
    - destruct (is_sentinel v); simpl; auto. apply set_sim; auto.
    - destruct (prepare v) as [v'|e]; simpl; auto.
      destruct (is_sentinel v'); simpl; auto.
      destruct (tyok v'); simpl; auto. apply set_sim; auto.
  Qed.

  Lemma poke_sim c o p s m :
    R c s m ->
    fst (obj_poke c o p m) = fst (spec_poke c o p s) /\
    R c (snd (spec_poke c o p s)) (snd (obj_poke c o p m)).
  Proof.
    intro H. unfold obj_poke, spec_poke.
    assert (H1 : R c (mks (override s) (cached s) (poke p (su s)))
                     (mkm (slot m) (poke p (mu m)))).
    { destruct H as (Hs & Hu & Ho & Hc). unfold R, visible in *; simpl.
      rewrite Hu. repeat split; auto. }
    destruct (invalidates o); [|simpl; auto].
    destruct (delete_sim c _ _ H1) as [E1 R1].
    destruct (desc_delete c (mkm (slot m) (poke p (mu m)))) as [r1 m1].
    destruct (proto_delete c (mks (override s) (cached s) (poke p (su s)))) as [r2 s2].
    simpl in E1, R1. subst r2.
    destruct r1 as [x|e]; simpl; auto.
    destruct e; simpl; auto.
  Qed.

  Lemma step_sim c o x s m :
    R c s m ->
    fst (m_step c o m x) = fst (spec_step c o s x) /\
    R c (snd (spec_step c o s x)) (snd (m_step c o m x)).
  Proof.
    intro H. destruct x as [|v| |p]; simpl.
    - destruct (read_sim c o s m H) as [E1 R1]. unfold lift_val; simpl.
      rewrite E1. auto.
    - apply assign_sim; auto.
    - apply delete_sim; auto.
    - apply poke_sim; auto.
  Qed.

  (* every operation sequence *)
  Theorem run_sim c o : forall xs s m,
    R c s m ->
    fst (m_run c o m xs) = fst (spec_run c o s xs) /\
    R c (snd (spec_run c o s xs)) (snd (m_run c o m xs)).
  Proof.
    induction xs as [|x t IH]; intros s m H; simpl; [auto|].
    destruct (step_sim c o x s m H) as [E1 R1].
    destruct (m_step c o m x) as [r1 m1], (spec_step c o s x) as [r2 s2].
    simpl in E1, R1. subst r2.
    destruct (IH s2 m1 R1) as [E2 R2].
    destruct (m_run c o m1 t) as [rs1 m2], (spec_run c o s2 t) as [rs2 s3].
    simpl in *. subst rs2. auto.
  Qed.

  Corollary run_sim_from_new c o u xs :
    fst (m_run c o (m_init u) xs) = fst (spec_run c o (spec_init u) xs) /\
    slot (snd (m_run c o (m_init u) xs)) = visible (snd (spec_run c o (spec_init u) xs)) /\
    mu (snd (m_run c o (m_init u) xs)) = su (snd (spec_run c o (spec_init u) xs)).
  Proof.
    destruct (run_sim c o xs _ _ (R_init c u)) as [E (A & B & _)]. auto.
  Qed.

  (* the enumeration of configurations is complete: the theorems, which
     quantify over the record, cover all 16 flag combinations (x fget present
     or not x allow_attribute_error) and all five owner kinds *)
  Lemma all_cfgs_complete c : In c all_cfgs.
  Proof.
    destruct c as [[] [] [] [] [] []]; vm_compute; tauto.
  Qed.
  Lemma all_owners_complete o : In o all_owners.
  Proof. destruct o as [|[]|[]]; vm_compute; tauto. Qed.

  (* ---- the individual clauses of the property, on the code model ---- *)

  (* assignment to a property that is neither overridable nor has a setter:
     nothing changes, on every owner; AttributeError whenever the owner hands
     a value to the descriptor *)
  Lemma assign_rejected c o v m :
    overridable c = false -> has_fset c = false ->
    snd (obj_assign c o v m) = m /\
    (forall v', incoming o v = Ok (Some v') -> fst (obj_assign c o v m) = Err AttrErr) /\
    (incoming o v = Ok None -> fst (obj_assign c o v m) = Ok ONone) /\
    (forall e, incoming o v = Err e -> fst (obj_assign c o v m) = Err e).
  Proof.
    intros Eo Es. unfold obj_assign, incoming, desc_set. rewrite Eo, Es.
    destruct o as [|i|i]; simpl.
    - repeat split; auto; intros; discriminate.
    - destruct (is_sentinel v); simpl; repeat split; auto; intros; discriminate.
    - destruct (prepare v) as [v'|e]; simpl.
      + destruct (is_sentinel v'); simpl; [repeat split; auto; intros; discriminate|].
        destruct (tyok v'); simpl; repeat split; auto; intros; try discriminate.
        now inversion H.
      + repeat split; auto; intros; try discriminate. now inversion H.
  Qed.

  Lemma assign_rejected_plain c v m :
    overridable c = false -> has_fset c = false ->
    obj_assign c Plain v m = (Err AttrErr, m).
  Proof. intros Eo Es. unfold obj_assign, desc_set. now rewrite Eo, Es. Qed.

  (* deletion with nothing stored and no custom deleter *)
  Lemma delete_nothing c o m :
    has_fdel c = false -> slot m = None ->
    obj_delete c o m = (Err AttrErr, m).
  Proof.
    intros Ed Es. unfold obj_delete, desc_delete. rewrite Ed, Es.
    destruct (overridable c || cache c); reflexivity.
  Qed.

  (* deletion with something stored, no custom deleter: the entry is gone *)
  Lemma delete_something c o s m v :
    R c s m -> has_fdel c = false -> slot m = Some v ->
    obj_delete c o m = (Ok ONone, mkm None (mu m)).
  Proof.
    intros (Hs & Hu & Ho & Hc) Ed Es. unfold obj_delete, desc_delete.
    rewrite Ed, Es. rewrite Es in Hs. unfold visible in Hs.
    destruct (override s) eqn:E1.
    - rewrite (Ho ltac:(discriminate)). reflexivity.
    - destruct (cached s) eqn:E2; [|discriminate].
      rewrite (Hc ltac:(discriminate)), orb_true_r. reflexivity.
  Qed.

  (* a stored value is returned without running the getter: the whole state,
     including whatever the getter would have changed or counted, is as before *)
  Lemma read_hit c o s m v :
    R c s m -> slot m = Some v -> obj_read c o m = (Ok v, m).
  Proof.
    intros (Hs & Hu & Ho & Hc) Es. unfold obj_read, desc_get.
    rewrite Es in *. unfold visible in Hs.
    assert (E : overridable c || cache c = true).
    { destruct (override s) eqn:E1.
      - rewrite (Ho ltac:(discriminate)). reflexivity.
      - destruct (cached s) eqn:E2; [|discriminate].
        rewrite (Hc ltac:(discriminate)). apply orb_true_r. }
    rewrite E. simpl. destruct (is_spec o); reflexivity.
  Qed.

  (* on a managed spec-class attribute a value that comes out of the getter
     path is the prepared getter result and passes the type check *)
  Lemma get_managed_checked c m v m' :
    desc_get c true m = (Ok v, m') ->
    (if overridable c || cache c then slot m else None) = None ->
    tyok v = true /\
    exists v0, fst (fget (mu m)) = Ok v0 /\ prepare v0 = Ok v.
  Proof.
    unfold desc_get. intros H E. rewrite E in H.
    destruct (has_fget c); simpl in H; [|discriminate].
    destruct (fget (mu m)) as [[v0|e] u'] eqn:Eg; simpl in *.
    - destruct (prepare v0) as [v1|e1] eqn:Ep; [|discriminate].
      destruct (tyok v1) eqn:Et; [|discriminate].
      destruct (cache c && negb (is_sentinel v1)); inversion H; subst;
        (split; [assumption | exists v0; split; auto]).
    - destruct e; discriminate.
  Qed.

  (* typed invariant: on a managed attribute whatever is stored is well typed,
     hence every read of every history returns a well-typed value *)
  Definition slot_typed (m : mst) : Prop :=
    match slot m with Some v => tyok v = true | None => True end.

  Lemma get_managed_typed c m :
    slot_typed m ->
    slot_typed (snd (desc_get c true m)) /\
    (forall v, fst (desc_get c true m) = Ok v -> tyok v = true).
  Proof.
    intro T. unfold desc_get, slot_typed in *.
    destruct (if overridable c || cache c then slot m else None) as [v|] eqn:E.
    - simpl. split; auto. intros v0 H; inversion H; subst.
      destruct (overridable c || cache c); [|discriminate]. now rewrite E in T.
    - destruct (has_fget c); simpl; [|split; [auto|intros; discriminate]].
      destruct (fget (mu m)) as [[v0|e] u']; simpl.
      + destruct (prepare v0) as [v1|e1]; simpl; [|split; [auto|intros; discriminate]].
        destruct (tyok v1) eqn:Et; simpl; [|split; [auto|intros; discriminate]].
        destruct (cache c && negb (is_sentinel v1)); simpl;
          (split; [auto | intros v2 H; inversion H; subst; auto]).
      + destruct e; simpl; split; auto; intros; discriminate.
  Qed.

  Lemma step_managed_typed c i x m :
    slot_typed m ->
    slot_typed (snd (m_step c (SpecManaged i) m x)) /\
    (forall v, fst (m_step c (SpecManaged i) m x) = Ok (OVal v) -> x = Read -> tyok v = true).
  Proof.
    intro T. destruct x as [|v| |p]; simpl.
    - unfold obj_read, lift_val; simpl.
      destruct (get_managed_typed c m T) as [T1 V1].
      destruct (desc_get c true m) as [r1 m1] eqn:E1; simpl in *.
      destruct r1 as [v|e].
      + split; auto. intros v0 H _. inversion H; subst. auto.
      + destruct e; simpl; try (split; [auto|intros; discriminate]).
        destruct (get_managed_typed c m1 T1) as [T2 V2].
        destruct (desc_get c true m1) as [r2 m2]; simpl in *.
        split; auto. intros v0 H _. destruct r2; inversion H; subst. auto.
    - split; [|intros; discriminate].
      unfold obj_assign.
      destruct (prepare v) as [v'|e]; simpl; auto.
      destruct (is_sentinel v'); simpl; auto.
      destruct (tyok v') eqn:Et; simpl; auto.
      unfold desc_set, lift_unit.
      destruct (has_fset c); simpl; [exact T|].
      destruct (overridable c); simpl; auto.
    - split; [|intros; discriminate].
      unfold obj_delete, desc_delete, lift_unit.
      destruct (has_fdel c); simpl; [exact T|].
      destruct (if overridable c || cache c then slot m else None); simpl; auto.
      exact I.
    - split; [|intros; discriminate].
      unfold obj_poke. destruct i; simpl; [|exact T].
      unfold desc_delete, lift_unit; simpl.
      destruct (has_fdel c); simpl.
      + destruct (fdel (poke p (mu m))) as [[[]|e] u']; simpl; [exact T|].
        destruct e; exact T.
      + destruct (if overridable c || cache c then slot m else None); simpl; [exact I|exact T].
  Qed.

  Theorem run_managed_typed c i : forall xs m,
    slot_typed m ->
    slot_typed (snd (m_run c (SpecManaged i) m xs)) /\
    Forall2 (fun x r => forall v, x = Read -> r = Ok (OVal v) -> tyok v = true)
            xs (fst (m_run c (SpecManaged i) m xs)).
  Proof.
    induction xs as [|x t IH]; intros m T; simpl; [split; [auto|constructor]|].
    destruct (step_managed_typed c i x m T) as [T1 V1].
    destruct (m_step c (SpecManaged i) m x) as [r1 m1]; simpl in *.
    destruct (IH m1 T1) as [T2 V2].
    destruct (m_run c (SpecManaged i) m1 t) as [rs m2]; simpl in *.
    split; [exact T2|].
    constructor; [intros v Hx Hr; apply (V1 v Hr Hx)|exact V2].
  Qed.

  (* ---- a property that is neither overridable nor cached never looks at, and
     never writes, the instance-__dict__ entry under its own name: whatever is
     stored there (e.g. by a custom setter that keeps its backing value under
     that name) is not served as an override / cached value -- every read is
     the getter's result on current state ---- *)
  Definition agree_but_slot (m1 m2 : mst) : Prop := mu m1 = mu m2.

  Lemma get_slot_ignored c mg m1 m2 :
    overridable c = false -> cache c = false -> agree_but_slot m1 m2 ->
    fst (desc_get c mg m1) = fst (desc_get c mg m2) /\
    agree_but_slot (snd (desc_get c mg m1)) (snd (desc_get c mg m2)) /\
    slot (snd (desc_get c mg m1)) = slot m1 /\ slot (snd (desc_get c mg m2)) = slot m2.
  Proof.
    intros Eo Ec E. unfold agree_but_slot in *. unfold desc_get. rewrite Eo, Ec, E. simpl.
    destruct (has_fget c); simpl; [|auto].
    destruct (fget (mu m2)) as [[v|e] u']; simpl.
    - destruct mg; simpl; [|auto].
      destruct (prepare v) as [v'|e']; simpl; [|auto].
      destruct (tyok v'); simpl; auto.
    - destruct e; simpl; auto.
  Qed.

  Lemma step_slot_ignored c o x m1 m2 :
    overridable c = false -> cache c = false -> agree_but_slot m1 m2 ->
    fst (m_step c o m1 x) = fst (m_step c o m2 x) /\
    agree_but_slot (snd (m_step c o m1 x)) (snd (m_step c o m2 x)) /\
    slot (snd (m_step c o m1 x)) = slot m1 /\ slot (snd (m_step c o m2 x)) = slot m2.
  Proof.
    intros Eo Ec E.
    assert (SET : forall v, fst (desc_set c v m1) = fst (desc_set c v m2) /\
              agree_but_slot (snd (desc_set c v m1)) (snd (desc_set c v m2)) /\
              slot (snd (desc_set c v m1)) = slot m1 /\ slot (snd (desc_set c v m2)) = slot m2).
    { intro v. unfold desc_set, lift_unit, agree_but_slot in *. rewrite Eo, E.
      destruct (has_fset c); simpl; auto. }
    assert (DEL : forall p, fst (desc_delete c (mkm (slot m1) (p (mu m1)))) = fst (desc_delete c (mkm (slot m2) (p (mu m2)))) /\
              agree_but_slot (snd (desc_delete c (mkm (slot m1) (p (mu m1))))) (snd (desc_delete c (mkm (slot m2) (p (mu m2))))) /\
              slot (snd (desc_delete c (mkm (slot m1) (p (mu m1))))) = slot m1 /\
              slot (snd (desc_delete c (mkm (slot m2) (p (mu m2))))) = slot m2).
    { intro p. unfold desc_delete, lift_unit, agree_but_slot in *. rewrite Eo, Ec, E. simpl.
      destruct (has_fdel c); simpl; auto. }
    destruct x as [|v| |p]; simpl.
    - unfold lift_val, obj_read.
      destruct (get_slot_ignored c (managed o) m1 m2 Eo Ec E) as (A & B & C & D).
      destruct (get_slot_ignored c (managed o) _ _ Eo Ec B) as (A2 & B2 & C2 & D2).
      destruct (is_spec o); simpl; [|rewrite A; auto].
      rewrite <- A.
      destruct (fst (desc_get c (managed o) m1)) as [v0|e0] eqn:E1; simpl;
        [rewrite E1, <- A; auto|].
      destruct e0; simpl; try (rewrite E1, <- A; now auto).
      rewrite A2, C2, D2. auto.
    - unfold obj_assign. destruct o as [|i|i].
      + apply SET.
      + destruct (is_sentinel v); simpl; auto.
      + destruct (prepare v) as [v'|e]; simpl; auto.
        destruct (is_sentinel v'); simpl; auto.
        destruct (tyok v'); simpl; auto.
    - unfold obj_delete. destruct m1 as [s1 u1], m2 as [s2 u2].
      apply (DEL (fun u => u)).
    - unfold obj_poke. destruct (invalidates o); simpl.
      + destruct (DEL (poke p)) as (A & B & C & D).
        destruct (desc_delete c (mkm (slot m1) (poke p (mu m1)))) as [r1 n1].
        destruct (desc_delete c (mkm (slot m2) (poke p (mu m2)))) as [r2 n2].
        simpl in *. subst r2. destruct r1 as [x|e]; simpl; auto. destruct e; simpl; auto.
      + unfold agree_but_slot in *. rewrite E. auto.
  Qed.

  (* whole histories: the outcomes and the underlying state do not depend on
     what the own-name entry holds, and the entry is never written *)
  Theorem run_slot_ignored c o : forall xs m1 m2,
    overridable c = false -> cache c = false -> mu m1 = mu m2 ->
    fst (m_run c o m1 xs) = fst (m_run c o m2 xs) /\
    mu (snd (m_run c o m1 xs)) = mu (snd (m_run c o m2 xs)) /\
    slot (snd (m_run c o m1 xs)) = slot m1.
  Proof.
    induction xs as [|x t IH]; intros m1 m2 Eo Ec E; simpl; [auto|].
    destruct (step_slot_ignored c o x m1 m2 Eo Ec E) as (A & B & C & D).
    destruct (m_step c o m1 x) as [r1 n1], (m_step c o m2 x) as [r2 n2]. simpl in *. subst r2.
    destruct (IH n1 n2 Eo Ec B) as (A2 & B2 & C2).
    destruct (m_run c o n1 t) as [rs1 k1], (m_run c o n2 t) as [rs2 k2]. simpl in *.
    subst rs2. rewrite C2. auto.
  Qed.
End Proofs.
