(* C18 — data shared by the model and the specification of
   spec_classes/types/alias.py: values, paths, configurations, operations.
   Nothing in this file describes what the code does.

   Objects are trees.  The instance that carries the alias is a [VInst]
   (its attribute dictionary, insertion ordered like a Python __dict__);
   the objects reachable from it are instances and dicts again.  In a tree
   the identity of an object is its access path from the root; the
   operations of the property (read/write/delete of the alias and of the
   target location, copies) can neither create nor observe sharing between
   two objects, provided the values handed to a write are fresh.  The one
   place where identity matters — a missing target must yield a FRESH copy
   of the fallback — is kept as an explicit outcome ([OFresh]). *)
From Coq Require Import List ZArith Bool Lia.
From SC Require Import Base.Res.
Import ListNotations.
Open Scope Z_scope.

Definition name := Z.

(* one element of the parsed attribute path: `.a` or `["k"]` *)
Inductive hop := SAttr (a : name) | SItem (k : Z).

Inductive val :=
| VNone
| VInt (z : Z)
| VStr (z : Z)
| VInst (attrs : list (Z * val))      (* an instance: its __dict__ *)
| VDict (items : list (Z * val))      (* a dict with string keys *)
| VTuple (elems : list (Z * val))     (* a tuple; elements tagged with their position *)
| VFrozen (elems : list (Z * val)).   (* a frozenset; elements in canonical order, tags unused *)

Definition hop_eqb (a b : hop) : bool :=
  match a, b with
  | SAttr x, SAttr y => x =? y
  | SItem x, SItem y => x =? y
  | _, _ => false
  end.

Lemma hop_eqb_eq a b : hop_eqb a b = true <-> a = b.
Proof.
  destruct a, b; simpl; split; intro H; try discriminate;
    try (apply Z.eqb_eq in H; subst; reflexivity);
    try (inversion H; apply Z.eqb_refl).
Qed.

(* ---- insertion-ordered dictionaries (str -> A) -------------------------- *)
Section Dict.
  Context {A : Type}.
  Fixpoint d_get (k : Z) (d : list (Z * A)) : option A :=
    match d with
    | [] => None
    | (k', x) :: t => if k =? k' then Some x else d_get k t
    end.
  (* an existing key keeps its position, a new key goes last *)
  Fixpoint d_set (k : Z) (x : A) (d : list (Z * A)) : list (Z * A) :=
    match d with
    | [] => [(k, x)]
    | (k', y) :: t => if k =? k' then (k', x) :: t else (k', y) :: d_set k x t
    end.
  Fixpoint d_del (k : Z) (d : list (Z * A)) : list (Z * A) :=
    match d with
    | [] => []
    | (k', y) :: t => if k =? k' then d_del k t else (k', y) :: d_del k t
    end.
End Dict.

(* ---- decidable equality of values -------------------------------------- *)
Section AlistEqb.
  Variable f : val -> val -> bool.
  Fixpoint alist_eqb (d e : list (Z * val)) {struct d} : bool :=
    match d, e with
    | [], [] => true
    | (k, x) :: d', (l, y) :: e' => (k =? l) && f x y && alist_eqb d' e'
    | _, _ => false
    end.
End AlistEqb.

Fixpoint val_eqb (a b : val) {struct a} : bool :=
  match a, b with
  | VNone, VNone => true
  | VInt x, VInt y => x =? y
  | VStr x, VStr y => x =? y
  | VInst d, VInst e => alist_eqb (fun x y => val_eqb x y) d e
  | VDict d, VDict e => alist_eqb (fun x y => val_eqb x y) d e
  | VTuple d, VTuple e => alist_eqb (fun x y => val_eqb x y) d e
  | VFrozen d, VFrozen e => alist_eqb (fun x y => val_eqb x y) d e
  | _, _ => false
  end.

Section AlistExists.
  Variable f : val -> bool.
  Fixpoint alist_exists (d : list (Z * val)) : bool :=
    match d with
    | [] => false
    | (_, x) :: t => f x || alist_exists t
    end.
End AlistExists.

(* some mutable object (instance, dict) is reachable from v; tuples and
   frozensets are immutable themselves but may hold mutable objects *)
Fixpoint is_mutable (v : val) : bool :=
  match v with
  | VInst _ | VDict _ => true
  | VTuple d | VFrozen d => alist_exists (fun x => is_mutable x) d
  | _ => false
  end.
Definition is_int (v : val) : bool :=
  match v with VInt _ => true | _ => false end.

(* ---- what an operation returns ------------------------------------------ *)
Inductive out :=
| ONone                 (* assignment / deletion *)
| OVal (v : val)        (* an existing object or an immutable value *)
| OFresh (v : val)      (* a value equal to v none of whose reachable mutable objects existed before *)
| ODescr.               (* the descriptor itself (class-level access) *)

Definition out_eqb (a b : out) : bool :=
  match a, b with
  | ONone, ONone | ODescr, ODescr => true
  | OVal x, OVal y | OFresh x, OFresh y => val_eqb x y
  | _, _ => false
  end.

Definition res_out_eqb (a b : res out) : bool :=
  match a, b with
  | Ok x, Ok y => out_eqb x y
  | Err e, Err f => err_eqb e f
  | _, _ => false
  end.

(* ---- the operations of the property ------------------------------------- *)
Inductive op :=
| RdAlias | WrAlias (v : val) | DelAlias        (* o.y ; o.y = v ; del o.y *)
| RdTarget | WrTarget (v : val) | DelTarget     (* o.a.b["k"] ; ... = v ; del ... *)
| RdClass.                                      (* Host.y *)

Definition is_alias_op (o : op) : bool :=
  match o with RdAlias | WrAlias _ | DelAlias | RdClass => true | _ => false end.

(* ---- a configuration: Alias(...) / DeprecatedAlias(...) as a class attribute *)
Record cfg {fn : Type} := mkcfg {
  c_path : list hop;        (* the parsed `attr` *)
  c_pt : bool;               (* passthrough *)
  c_tr : option fn;          (* transform *)
  c_fb : option val;         (* fallback; None = MISSING *)
  c_name : name;             (* the class attribute holding the descriptor *)
  c_bound : bool;            (* __set_name__ has run (always, for a class-body assignment) *)
  c_dep : bool               (* DeprecatedAlias *)
}.
Arguments cfg : clear implicits.
Arguments mkcfg {fn}.

(* f"__spec_classes_Alias_{name}_override": injective, disjoint from the
   user-visible names (which are >= 0) *)
Definition ovr (n : name) : name := - n - 1.

(* the class that carries the alias: a plain class, or a spec class on which
   some attributes are annotated `int` (the others `Any`) *)
Record host := mkhost { h_spec : bool; h_int : list name }.
Definition typed (h : host) (a : name) : bool :=
  h_spec h && existsb (Z.eqb a) (h_int h).
Definition conforms (h : host) (a : name) (v : val) : bool :=
  if typed h a then is_int v else true.

Fixpoint last_opt {A} (l : list A) : option A :=
  match l with
  | [] => None
  | x :: t => match t with [] => Some x | _ => last_opt t end
  end.
