(* Specification of property C12 for spec_property: a machine with TWO
   independent slots, the user override and the cache, next to the underlying
   state the getter reads.  It is written from the property text, not from
   the control flow of the code (which has one slot and tests flags on every
   path):

     read    : the override if one is set; else the value cached since the
               last deletion; else the getter's result on the current state
               (on a spec class with a managed annotation: passed through the
               attribute's preparer, then type-checked), which is remembered
               as the cached value when caching is on;
     assign  : handed to the custom setter if there is one; else recorded as
               the override if the property is overridable; else
               AttributeError and nothing changes;
     delete  : handed to the custom deleter if there is one; else override
               and cache are both dropped ("cached SINCE the last deletion"),
               AttributeError if there is neither;
     a spec-class owner first treats the assigned value like with_<attr>:
               prepared and type-checked (TypeError) when managed, a sentinel
               (MISSING/EMPTY/UNCHANGED) is "no assignment";
     an attribute listed in invalidated_by, when assigned, deletes the
               property, AttributeError ignored;
     Python's attribute lookup on a spec class retries a read that ended in
               AttributeError once (the generated __getattr__ falls back to
               __getattribute__).

   Types cfg / owner / op / out are shared with the model file; nothing else
   of the model is used. *)
From Coq Require Import List Bool.
From SC Require Import Base.Res Desc.SpecPropModel.
Import ListNotations.

Section Spec.
  Context {val U P : Type}.
  Variable is_sentinel : val -> bool.
  Variable fget : U -> res val * U.
  Variable fset : U -> val -> res unit * U.
  Variable fdel : U -> res unit * U.
  Variable poke : P -> U -> U.
  Variable prepare : val -> res val.
  Variable tyok : val -> bool.

  Notation op := (@op val P).
  Notation out := (@out val).

  Record sst := mks { override : option val; cached : option val; su : U }.

  (* "the getter's result on current state" *)
  Definition getter_result (c : cfg) (u : U) : res val * U :=
    if has_fget c then
      match fget u with
      | (Err AttrErr, u') => (Err (if allow_ae c then AttrErr else RuntimeErr), u')
      | r => r
      end
    else (Err AttrErr, u).

  (* "on a spec class the getter result passes through the attribute's
     preparer and type check" *)
  Definition through_owner (o : owner) (v : val) : res val :=
    if managed o then
      match prepare v with
      | Err e => Err e
      | Ok v' => if tyok v' then Ok v' else Err ValueErr
      end
    else Ok v.

  Definition proto_read (c : cfg) (o : owner) (s : sst) : res val * sst :=
    match override s with
    | Some v => (Ok v, s)
    | None =>
      match cached s with
      | Some v => (Ok v, s)
      | None =>
        let '(r, u') := getter_result c (su s) in
        match r with
        | Err e => (Err e, mks None None u')
        | Ok v0 =>
          match through_owner o v0 with
          | Err e => (Err e, mks None None u')
          | Ok v => (Ok v, mks None (if cache c && negb (is_sentinel v) then Some v else None) u')
          end
        end
      end
    end.

  Definition spec_read (c : cfg) (o : owner) (s : sst) : res val * sst :=
    let r1 := proto_read c o s in
    match is_spec o, fst r1 with
    | true, Err AttrErr => proto_read c o (snd r1)
    | _, _ => r1
    end.

  Definition user_call (s : sst) (r : res unit * U) : res out * sst :=
    (match fst r with Ok _ => Ok ONone | Err e => Err e end,
     mks (override s) (cached s) (snd r)).

  Definition proto_assign (c : cfg) (v : val) (s : sst) : res out * sst :=
    if has_fset c then user_call s (fset (su s) v)
    else if overridable c then (Ok ONone, mks (Some v) (cached s) (su s))
    else (Err AttrErr, s).

  Definition proto_delete (c : cfg) (s : sst) : res out * sst :=
    if has_fdel c then user_call s (fdel (su s))
    else match override s, cached s with
         | None, None => (Err AttrErr, s)
         | _, _ => (Ok ONone, mks None None (su s))
         end.

  (* what the owner hands to the descriptor for `obj.p = v` *)
  Definition incoming (o : owner) (v : val) : res (option val) :=
    match o with
    | Plain => Ok (Some v)
    | SpecUnmanaged _ => Ok (if is_sentinel v then None else Some v)
    | SpecManaged _ =>
        match prepare v with
        | Err e => Err e
        | Ok v' => if is_sentinel v' then Ok None
                   else if tyok v' then Ok (Some v') else Err TypeErr
        end
    end.

  Definition spec_assign (c : cfg) (o : owner) (v : val) (s : sst) : res out * sst :=
    match incoming o v with
    | Err e => (Err e, s)
    | Ok None => (Ok ONone, s)
    | Ok (Some v') => proto_assign c v' s
    end.

  Definition spec_poke (c : cfg) (o : owner) (p : P) (s : sst) : res out * sst :=
    let s1 := mks (override s) (cached s) (poke p (su s)) in
    if invalidates o
    then match proto_delete c s1 with
         | (Err AttrErr, s2) => (Ok ONone, s2)
         | r => r
         end
    else (Ok ONone, s1).

  Definition spec_step (c : cfg) (o : owner) (s : sst) (x : op) : res out * sst :=
    match x with
    | Read => let r := spec_read c o s in
              (match fst r with Ok v => Ok (OVal v) | Err e => Err e end, snd r)
    | Assign v => spec_assign c o v s
    | Delete => proto_delete c s
    | Poke p => spec_poke c o p s
    end.

  Fixpoint spec_run (c : cfg) (o : owner) (s : sst) (xs : list op) : list (res out) * sst :=
    match xs with
    | [] => ([], s)
    | x :: t => let '(r, s1) := spec_step c o s x in
                let '(rs, s2) := spec_run c o s1 t in (r :: rs, s2)
    end.

  Definition spec_init (u : U) : sst := mks None None u.

  (* what the single instance-__dict__ entry of the implementation must show *)
  Definition visible (s : sst) : option val :=
    match override s with Some v => Some v | None => cached s end.
End Spec.
