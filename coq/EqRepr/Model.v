(* C10 — model of spec_classes/methods/core.py: EqMethod.eq, DeepCopyMethod.deepcopy,
   InitMethod.init (flat, for re-construction) and ReprMethod.repr, plus the CPython
   semantics they rely on (==, != on builtin values, reflected operand rule of rich
   comparison, getattr with class-level fallback, copy.deepcopy dispatch, the recursion
   guard of list/tuple/dict __repr__).  No proofs in this file.

   Part 1 (equality, deepcopy, re-construction) works on values as TREES: every acyclic
   object graph is a tree as far as == can see (sharing is invisible to ==; the identity
   shortcut of container comparison agrees with == because == is reflexive, which is
   proved).  A method bound to the instance that holds it — the only cycle == tolerates,
   because EqMethod.eq never follows it — is the leaf [VMeth f true].

   Part 2 (repr) works on a HEAP, because repr must terminate on cyclic structures. *)
From Coq Require Import List ZArith Bool Arith.
From SC Require Import Base.Res.
Import ListNotations.

Definition cid := nat.   (* class identity *)
Definition aid := nat.   (* attribute name *)

(* ------------------------------------------------------------------ values (trees) *)
Inductive val : Type :=
| VMissing                         (* the MISSING sentinel (result of getattr(..., MISSING)) *)
| VNone
| VBool (b : bool)
| VInt (z : Z)
| VStr (s : Z)                     (* strings, injectively numbered by the harness *)
| VAtom (k : Z)                    (* function, class, module: compared by identity *)
| VMeth (f : Z) (self : bool)      (* bound method of function f; self = bound to the
                                      instance that holds it as an attribute value *)
| VTuple (l : list val)
| VList (l : list val)
| VDict (kvs : list (val * val))   (* insertion order *)
| VInst (c : cid) (d : list (aid * val)).   (* class and instance __dict__, in order *)

(* ------------------------------------------------------------------ class table *)
Inductive cattr : Type :=
| CFun (f : Z)          (* a function defined in the class body under the attribute's name *)
| CVal (v : val).       (* a plain class attribute (e.g. the default of an init=False attribute) *)

Record attr : Type := mkattr {
  a_name : aid;
  a_compare : bool;
  a_repr : bool;
  a_init : bool;
  a_dnc : bool;                 (* Attr.do_not_copy *)
  a_default : option val;       (* what lookup_default_value yields (None = MISSING) *)
  a_cls : option cattr          (* what the class (MRO) itself holds under this name *)
}.

Record cls : Type := mkcls {
  c_anc : list cid;             (* proper ancestors (spec or plain) *)
  c_attrs : list attr;          (* __spec_class__.attrs, resolved, in declaration order *)
  c_frozen : bool;
  c_dnc : bool;                 (* class-level do_not_copy *)
  c_key : option aid
}.

Definition ctable := cid -> cls.

(* ------------------------------------------------------------------ small helpers *)
Definition bindr {A B} (r : res A) (f : A -> res B) : res B :=
  match r with Ok a => f a | Err e => Err e end.

Fixpoint lookup (x : aid) (d : list (aid * val)) : option val :=
  match d with
  | [] => None
  | (y, v) :: t => if Nat.eqb x y then Some v else lookup x t
  end.

Fixpoint find_attr (x : aid) (l : list attr) : option attr :=
  match l with
  | [] => None
  | a :: t => if Nat.eqb x (a_name a) then Some a else find_attr x t
  end.

(* class-level lookup: a function becomes a method bound to the instance *)
Definition cls_attr (ct : ctable) (c : cid) (x : aid) : val :=
  match find_attr x (c_attrs (ct c)) with
  | Some a => match a_cls a with
              | Some (CFun f) => VMeth f true
              | Some (CVal v) => v
              | None => VMissing
              end
  | None => VMissing
  end.

(* getattr(obj, x, MISSING): instance __dict__, then the class, then MISSING
   (GetAttrMethod raises AttributeError for unassigned spec attributes) *)
Definition getattr (ct : ctable) (c : cid) (d : list (aid * val)) (x : aid) : val :=
  match lookup x d with
  | Some v => v
  | None => cls_attr ct c x
  end.

Definition is_sub (ct : ctable) (c c' : cid) : bool :=   (* issubclass(c, c') *)
  Nat.eqb c c' || existsb (Nat.eqb c') (c_anc (ct c)).

Definition isinstance (ct : ctable) (v : val) (c : cid) : bool :=
  match v with
  | VInst c' _ => is_sub ct c' c
  | _ => false
  end.

(* == on values that are not containers/instances/methods: None, bool, int (True == 1),
   str, identity for atoms and for MISSING; False across kinds *)
Definition num_of (v : val) : option Z :=
  match v with
  | VBool b => Some (if b then 1%Z else 0%Z)
  | VInt z => Some z
  | _ => None
  end.

Definition scalar_eqb (a b : val) : bool :=
  match a, b with
  | VMissing, VMissing => true
  | VNone, VNone => true
  | VStr s, VStr t => Z.eqb s t
  | VAtom k, VAtom j => Z.eqb k j
  | _, _ => match num_of a, num_of b with
            | Some x, Some y => Z.eqb x y
            | _, _ => false
            end
  end.

Fixpoint dict_get (k : val) (d : list (val * val)) : option val :=
  match d with
  | [] => None
  | (k', v) :: t => if scalar_eqb k k' then Some v else dict_get k t
  end.

(* ------------------------------------------------------------------ == *)
Section Eq.
  Variable ct : ctable.
  (* [fixed = true]: the code today (after `fix: __eq__ keeps comparing ...`);
     [fixed = false]: the code before, kept for the refutation example *)
  Variable fixed : bool.

  (* list_richcompare / the common prefix walk of tuplerichcompare *)
  Fixpoint all2M (eqf : val -> val -> res bool) (l1 l2 : list val) : res bool :=
    match l1, l2 with
    | x :: t1, y :: t2 =>
        bindr (eqf x y) (fun r => if r then all2M eqf t1 t2 else Ok false)
    | [], [] => Ok true
    | _, _ => Ok false          (* tuple: lengths compared after the common prefix *)
    end.

  (* dict_equal: every entry of the left operand is looked up in the right one *)
  Fixpoint dict_sub (eqf : val -> val -> res bool) (d1 d2 : list (val * val)) : res bool :=
    match d1 with
    | [] => Ok true
    | (k, v) :: t =>
        match dict_get k d2 with
        | None => Ok false
        | Some v2 => bindr (eqf v v2) (fun r => if r then dict_sub eqf t d2 else Ok false)
        end
    end.

  (* the loop of EqMethod.eq; [nef] is `!=` on attribute values *)
  Fixpoint eq_loop (nef : val -> val -> res bool)
           (cs : cid) (ds : list (aid * val)) (co : cid) (dx : list (aid * val))
           (attrs : list attr) : res bool :=
    match attrs with
    | [] => Ok true
    | a :: t =>
        if negb (a_compare a) then eq_loop nef cs ds co dx t          (* continue *)
        else
          let vs := getattr ct cs ds (a_name a) in
          let vo := getattr ct co dx (a_name a) in
          match vs, vo with
          | VMeth f _, VMeth g _ =>                       (* inspect.ismethod on both *)
              if fixed
              then if Z.eqb f g then eq_loop nef cs ds co dx t else Ok false
              else Ok (Z.eqb f g)                          (* old code: return at once *)
          | _, _ =>
              bindr (nef vs vo) (fun ne => if ne then Ok false else eq_loop nef cs ds co dx t)
          end
    end.

  (* EqMethod.eq(self, other) *)
  Definition inst_eq_with (nef : val -> val -> res bool)
             (cs : cid) (ds : list (aid * val)) (other : val) : res bool :=
    if isinstance ct other cs
    then match other with
         | VInst co dx => eq_loop nef cs ds co dx (c_attrs (ct cs))
         | _ => Ok false
         end
    else Ok false.

  (* a == b for arbitrary values, with fuel *)
  Fixpoint val_eq (n : nat) (a b : val) {struct n} : res bool :=
    match n with
    | O => Err Fuel
    | S n' =>
        let ne := fun x y => bindr (val_eq n' x y) (fun r => Ok (negb r)) in
        match a, b with
        | VList l1, VList l2 =>
            if Nat.eqb (length l1) (length l2) then all2M (val_eq n') l1 l2 else Ok false
        | VTuple l1, VTuple l2 => all2M (val_eq n') l1 l2
        | VDict d1, VDict d2 =>
            if Nat.eqb (length d1) (length d2) then dict_sub (val_eq n') d1 d2 else Ok false
        | VMeth f s, VMeth g t => Ok (Z.eqb f g && Bool.eqb s t)   (* same receiver, same function *)
        | VInst c1 d1, VInst c2 d2 =>
            (* do_richcompare: the right operand goes first when its type is a proper
               subclass of the left operand's type; __eq__ never returns NotImplemented *)
            if negb (Nat.eqb c1 c2) && is_sub ct c2 c1
            then inst_eq_with ne c2 d2 a
            else inst_eq_with ne c1 d1 b
        | VInst c1 d1, _ => inst_eq_with ne c1 d1 b            (* isinstance fails: False *)
        | _, VInst c2 d2 => inst_eq_with ne c2 d2 a            (* reflected: False *)
        | _, _ => Ok (scalar_eqb a b)
        end
    end.

  Definition val_ne (n : nat) (a b : val) : res bool :=
    bindr (val_eq n a b) (fun r => Ok (negb r)).

  (* a.__eq__(b) called directly on an instance (no operand swapping) *)
  Definition inst_eq (n : nat) (a b : val) : res bool :=
    match a with
    | VInst c d => inst_eq_with (val_ne n) c d b
    | _ => Err TypeErr
    end.
End Eq.

(* the operator == between two values, on today's code *)
Definition py_eq (ct : ctable) (n : nat) (a b : val) : res bool := val_eq ct true n a b.
Definition py_ne (ct : ctable) (n : nat) (a b : val) : res bool := val_ne ct true n a b.
Definition py_eq_old (ct : ctable) (n : nat) (a b : val) : res bool := val_eq ct false n a b.

(* number of constructors; fuel above [size a + size b] is always enough *)
Fixpoint size (v : val) : nat :=
  match v with
  | VTuple l | VList l => S (fold_right (fun x acc => size x + acc) 0 l)
  | VDict kvs => S (fold_right (fun kv acc => size (fst kv) + size (snd kv) + acc) 0 kvs)
  | VInst _ d => S (S (fold_right (fun xv acc => S (size (snd xv)) + acc) 0 d))
  | _ => 1
  end.

Definition fuel_for (a b : val) : nat := S (size a + size b).

(* ------------------------------------------------------------------ copy.deepcopy *)
Definition attr_dnc (ct : ctable) (c : cid) (x : aid) : bool :=
  match find_attr x (c_attrs (ct c)) with
  | Some a => a_dnc a
  | None => false
  end.

Definition is_self_meth (v : val) : bool :=
  match v with
  | VMeth _ true => true
  | _ => false
  end.

Section DeepCopy.
  Variable ct : ctable.
  (* [fixed = false]: before `fix: __deepcopy__ re-binds methods ...` the attribute
     holding a method bound to the instance was skipped *)
  Variable fixed : bool.

  Fixpoint dc (v : val) : val :=
    match v with
    | VTuple l => VTuple (map dc l)
    | VList l => VList (map dc l)
    | VDict kvs => VDict (map (fun kv => (dc (fst kv), dc (snd kv))) kvs)
    | VMeth f s => VMeth f s            (* _deepcopy_method: same function, copied receiver *)
    | VInst c d =>
        (* DeepCopyMethod.deepcopy *)
        if c_dnc (ct c) then v           (* `if self.__spec_class__.do_not_copy: return self` *)
        else VInst c
               (flat_map (fun xv =>
                  if is_self_meth (snd xv)                  (* ismethod and __self__ is self *)
                  then if fixed then [(fst xv, snd xv)]     (* same function, bound to the copy *)
                       else []                              (* old code: continue *)
                  else if attr_dnc ct c (fst xv) then [(fst xv, snd xv)]
                       else [(fst xv, dc (snd xv))]) d)
    | _ => v                            (* atomic types are returned as they are *)
    end.
End DeepCopy.

Definition deepcopy (ct : ctable) (v : val) : val := dc ct true v.
Definition deepcopy_old (ct : ctable) (v : val) : val := dc ct false v.

(* ------------------------------------------------------------------ re-construction *)
(* a method bound to x, handed to somebody else, is bound to "another object" *)
Definition as_arg (v : val) : val :=
  match v with
  | VMeth f true => VMeth f false
  | _ => v
  end.

(* {a: getattr(x, a) for a in attrs if a.init and hasattr(x, a)} *)
Definition own_kwargs (ct : ctable) (c : cid) (d : list (aid * val)) : list (aid * val) :=
  flat_map (fun a =>
    if a_init a then
      match getattr ct c d (a_name a) with
      | VMissing => []
      | v => [(a_name a, as_arg v)]
      end
    else []) (c_attrs (ct c)).

(* InitMethod.init for a class whose attributes are all owned by one constructor:
   keyword value (deep-copied unless do_not_copy), else the default, else nothing;
   init=False attributes are not touched.  Preparers and type checks are not part of
   this property (C03, C05, C09). *)
Definition construct (ct : ctable) (c : cid) (kwargs : list (aid * val)) : val :=
  VInst c
    (flat_map (fun a =>
       if a_init a then
         match lookup (a_name a) kwargs with
         | Some VMissing | None =>
             match a_default a with
             | Some v => [(a_name a, v)]
             | None => []
             end
         | Some v => [(a_name a, if a_dnc a then v else deepcopy ct v)]
         end
       else []) (c_attrs (ct c))).

Definition rebuild (ct : ctable) (x : val) : val :=
  match x with
  | VInst c d => construct ct c (own_kwargs ct c d)
  | _ => x
  end.

(* ------------------------------------------------------------------ repr (heap) *)
Inductive hval : Type :=
| HMissing
| HLeaf                                  (* None/bool/int/str/function/class/module *)
| HMeth (f : Z) (recv : option nat)      (* bound method; receiver on the heap or opaque *)
| HRef (l : nat).

Inductive hobj : Type :=
| OList (xs : list hval)
| OTuple (xs : list hval)
| ODict (kvs : list (hval * hval))
| OInst (c : cid) (d : list (aid * hval)).

Definition heap := list hobj.

(* what a rendering looks like (not the string) *)
Inductive rep : Type :=
| RSelf                                   (* <self> *)
| RMissing                                (* MISSING *)
| RLeaf                                   (* builtin repr of a scalar / atom *)
| RCycle                                  (* [...]  {...}  (...) *)
| RMethSelf                               (* <bound method f of self> *)
| RMeth (r : rep)                         (* <bound method f of r> *)
| ROpaque                                 (* repr of an object outside the model *)
| RCompact (c : cid) (k : option rep)     (* C(...)  /  C(key=..., ...) *)
| RFull (c : cid) (indented : bool) (fs : list (aid * rep))
| RSeq (items : list rep)
| RMap (items : list (rep * rep)).

Inductive mode : Type := MFalse | MTrue | MNone.   (* the `indent` argument *)

Fixpoint mapM {A B} (f : A -> res B) (l : list A) : res (list B) :=
  match l with
  | [] => Ok []
  | x :: t => bindr (f x) (fun y => bindr (mapM f t) (fun ys => Ok (y :: ys)))
  end.

Fixpoint hlookup (x : aid) (d : list (aid * hval)) : option hval :=
  match d with
  | [] => None
  | (y, v) :: t => if Nat.eqb x y then Some v else hlookup x t
  end.

Definition mem (l : nat) (s : list nat) : bool := existsb (Nat.eqb l) s.

Section Repr.
  Variable ct : ctable.
  Variable h : heap.
  (* does the one-line form of the instance at l, rendered while the containers in
     [act] are being rendered, exceed indent_threshold (or contain a newline)?  The
     model does not compute strings; theorems hold for every oracle. *)
  Variable long : list nat -> nat -> bool.
  (* [guarded = false]: the indented expansion before `fix: indented __repr__ ...` *)
  Variable guarded : bool.

  Definition hgetattr (self : nat) (c : cid) (d : list (aid * hval)) (x : aid) : hval :=
    match hlookup x d with
    | Some v => v
    | None =>
        match find_attr x (c_attrs (ct c)) with
        | Some a => match a_cls a with
                    | Some (CFun f) => HMeth f (Some self)
                    | Some (CVal _) => HLeaf
                    | None => HMissing
                    end
        | None => HMissing
        end
    end.

  Definition repr_attrs (c : cid) : list attr := filter a_repr (c_attrs (ct c)).

  (* py_repr: builtin repr(v); [act] is CPython's list of containers being rendered
     (Py_ReprEnter).  repr_inst: ReprMethod.repr(self, indent=mode).
     object_repr: the inner function of ReprMethod.repr; [seen] = `parents`. *)
  Fixpoint py_repr (n : nat) (act : list nat) (v : hval) {struct n} : res rep :=
    match n with
    | O => Err Fuel
    | S n' =>
        match v with
        | HMissing => Ok RMissing
        | HLeaf => Ok RLeaf
        | HMeth f None => Ok (RMeth ROpaque)
        | HMeth f (Some r) => bindr (py_repr n' act (HRef r)) (fun x => Ok (RMeth x))
        | HRef l =>
            match nth_error h l with
            | None => Err RuntimeErr
            | Some (OList xs) | Some (OTuple xs) =>
                if mem l act then Ok RCycle
                else bindr (mapM (py_repr n' (l :: act)) xs) (fun rs => Ok (RSeq rs))
            | Some (ODict kvs) =>
                if mem l act then Ok RCycle
                else bindr (mapM (fun kv =>
                              bindr (py_repr n' (l :: act) (fst kv)) (fun k =>
                              bindr (py_repr n' (l :: act) (snd kv)) (fun x => Ok (k, x)))) kvs)
                           (fun rs => Ok (RMap rs))
            | Some (OInst c d) => repr_inst n' act l MNone      (* obj.__repr__() *)
            end
        end
    end
  with repr_inst (n : nat) (act : list nat) (self : nat) (m : mode) {struct n} : res rep :=
    match n with
    | O => Err Fuel
    | S n' =>
        match nth_error h self with
        | Some (OInst c d) =>
            let vals := map (fun a => (a_name a, hgetattr self c d (a_name a))) (repr_attrs c) in
            let render := fun (ind : bool) =>
              mapM (fun xv => bindr (object_repr n' act self ind [] (snd xv))
                                    (fun r => Ok (fst xv, r))) vals in
            match m with
            | MFalse => bindr (render false) (fun fs => Ok (RFull c false fs))
            | MTrue => bindr (render true) (fun fs => Ok (RFull c true fs))
            | MNone =>
                bindr (render false) (fun fs =>
                  if long act self
                  then bindr (render true) (fun fs' => Ok (RFull c true fs'))
                  else Ok (RFull c false fs))
            end
        | _ => Err TypeErr
        end
    end
  with object_repr (n : nat) (act : list nat) (self : nat) (ind : bool) (seen : list nat)
                   (v : hval) {struct n} : res rep :=
    match n with
    | O => Err Fuel
    | S n' =>
        match v with
        | HMissing => Ok RMissing            (* MISSING.__repr__(indent=...) -> TypeError -> repr *)
        | HLeaf => Ok RLeaf
        | HMeth f None => Ok (RMeth ROpaque)
        | HMeth f (Some r) =>
            if Nat.eqb r self then Ok RMethSelf
            else bindr (object_repr n' act self false [] (HRef r)) (fun x => Ok (RMeth x))
        | HRef l =>
            if Nat.eqb l self then Ok RSelf
            else
              match nth_error h l with
              | None => Err RuntimeErr
              | Some (OInst c d) =>                  (* obj.__repr__(indent=.., compact=True) *)
                  match c_key (ct c) with
                  | None => Ok (RCompact c None)
                  | Some k => bindr (py_repr n' act (hgetattr l c d k))
                                    (fun r => Ok (RCompact c (Some r)))
                  end
              | Some (OList xs) =>
                  if ind then
                    if guarded && mem l seen then Ok RCycle
                    else bindr (mapM (object_repr n' act self true (l :: seen)) xs)
                               (fun rs => Ok (RSeq rs))
                  else py_repr n' act v
              | Some (ODict kvs) =>
                  if ind then
                    if guarded && mem l seen then Ok RCycle
                    else bindr (mapM (fun kv =>
                                  bindr (py_repr n' act (fst kv)) (fun k =>
                                  bindr (object_repr n' act self true (l :: seen) (snd kv))
                                        (fun x => Ok (k, x)))) kvs)
                               (fun rs => Ok (RMap rs))
                  else py_repr n' act v
              | Some (OTuple _) => py_repr n' act v
              end
        end
    end.
End Repr.

(* repr(x) / x.__repr__(indent=m) on today's code *)
Definition repr (ct : ctable) (h : heap) (long : list nat -> nat -> bool) (n : nat) (l : nat) (m : mode) : res rep :=
  repr_inst ct h long true n [] l m.
Definition repr_old (ct : ctable) (h : heap) (long : list nat -> nat -> bool) (n : nat) (l : nat) (m : mode) : res rep :=
  repr_inst ct h long false n [] l m.

(* the attribute names a rendering shows, in order *)
Definition repr_names (r : rep) : list aid :=
  match r with
  | RFull _ _ fs => map fst fs
  | _ => []
  end.
