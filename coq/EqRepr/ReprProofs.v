(* C10 — proofs about the repr part of EqRepr/Model.v: the rendering exists for every
   well-formed heap (cyclic or not) and lists exactly the repr-enabled attributes. *)
From Coq Require Import List ZArith Bool Arith Lia.
From SC Require Import Base.Res EqRepr.Model EqRepr.Spec.
Import ListNotations.

Lemma mapM_ok {A B} (f : A -> res B) l :
  (forall x, In x l -> exists r, f x = Ok r) -> exists rs, mapM f l = Ok rs.
Proof.
  induction l as [|x t IH]; simpl; intro H; eauto.
  destruct (H x) as [r E]; auto. rewrite E. simpl.
  destruct IH as [rs E2]; [intros; apply H; auto|]. rewrite E2. simpl. eauto.
Qed.

Lemma mapM_fst {A B} (g : A -> res B) (vals : list (aid * A)) : forall fs,
  mapM (fun xv => bindr (g (snd xv)) (fun r => Ok (fst xv, r))) vals = Ok fs ->
  map fst fs = map fst vals.
Proof.
  induction vals as [|[x v] t IH]; simpl; intros fs E.
  - inversion E; reflexivity.
  - destruct (g v) as [r|]; simpl in E; try discriminate.
    destruct (mapM _ t) as [rs|] eqn:M; simpl in E; try discriminate.
    inversion E; subst. simpl. f_equal. apply IH; auto.
Qed.

Lemma mem_false l s : mem l s = false <-> ~ In l s.
Proof.
  unfold mem. split.
  - intros H I. assert (X : existsb (Nat.eqb l) s = true).
    { apply existsb_exists. exists l. split; auto. apply Nat.eqb_refl. }
    congruence.
  - intro N. destruct (existsb (Nat.eqb l) s) eqn:E; auto.
    apply existsb_exists in E as [x [I E]]. apply Nat.eqb_eq in E; subst. tauto.
Qed.

Lemma pigeon (H : nat) s l :
  NoDup s -> (forall x, In x s -> x < H) -> l < H -> ~ In l s -> length s < H.
Proof.
  intros ND B L N.
  assert (ND2 : NoDup (l :: s)) by (constructor; auto).
  assert (INC : incl (l :: s) (seq 0 H)).
  { intros x [E|I]; apply in_seq; [subst|apply B in I]; lia. }
  apply NoDup_incl_length in INC; auto. rewrite seq_length in INC. simpl in INC. lia.
Qed.

Section Unfold.
  Variables (ct : ctable) (h : heap) (long : list nat -> nat -> bool) (g : bool).

  Lemma py_repr_S n act v :
    py_repr ct h long g (S n) act v =
        match v with
        | HMissing => Ok RMissing
        | HLeaf => Ok RLeaf
        | HMeth f None => Ok (RMeth ROpaque)
        | HMeth f (Some r) => bindr (py_repr ct h long g n act (HRef r)) (fun x => Ok (RMeth x))
        | HRef l =>
            match nth_error h l with
            | None => Err RuntimeErr
            | Some (OList xs) | Some (OTuple xs) =>
                if mem l act then Ok RCycle
                else bindr (mapM (py_repr ct h long g n (l :: act)) xs) (fun rs => Ok (RSeq rs))
            | Some (ODict kvs) =>
                if mem l act then Ok RCycle
                else bindr (mapM (fun kv =>
                              bindr (py_repr ct h long g n (l :: act) (fst kv)) (fun k =>
                              bindr (py_repr ct h long g n (l :: act) (snd kv)) (fun x => Ok (k, x)))) kvs)
                           (fun rs => Ok (RMap rs))
            | Some (OInst c d) => repr_inst ct h long g n act l MNone      (* obj.__repr__() *)
            end
        end.
  Proof. reflexivity. Qed.

  Lemma repr_inst_S n act self m :
    repr_inst ct h long g (S n) act self m =
        match nth_error h self with
        | Some (OInst c d) =>
            let vals := map (fun a => (a_name a, hgetattr ct self c d (a_name a))) (repr_attrs ct c) in
            let render := fun (ind : bool) =>
              mapM (fun xv => bindr (object_repr ct h long g n act self ind [] (snd xv))
                                    (fun r => Ok (fst xv, r))) vals in
            match m with
            | MFalse => bindr (render false) (fun fs => Ok (RFull c false fs))
            | MTrue => bindr (render true) (fun fs => Ok (RFull c true fs))
            | MNone =>
                bindr (render false) (fun fs =>
                  if long act self
                  then bindr (render true) (fun fs' => Ok (RFull c true fs'))
                  else Ok (RFull c false fs))
            end
        | _ => Err TypeErr
        end.
  Proof. reflexivity. Qed.

  Lemma object_repr_S n act self ind seen v :
    object_repr ct h long g (S n) act self ind seen v =
        match v with
        | HMissing => Ok RMissing            (* MISSING.__repr__(indent=...) -> TypeError -> repr *)
        | HLeaf => Ok RLeaf
        | HMeth f None => Ok (RMeth ROpaque)
        | HMeth f (Some r) =>
            if Nat.eqb r self then Ok RMethSelf
            else bindr (object_repr ct h long g n act self false [] (HRef r)) (fun x => Ok (RMeth x))
        | HRef l =>
            if Nat.eqb l self then Ok RSelf
            else
              match nth_error h l with
              | None => Err RuntimeErr
              | Some (OInst c d) =>                  (* obj.__repr__(indent=.., compact=True) *)
                  match c_key (ct c) with
                  | None => Ok (RCompact c None)
                  | Some k => bindr (py_repr ct h long g n act (hgetattr ct l c d k))
                                    (fun r => Ok (RCompact c (Some r)))
                  end
              | Some (OList xs) =>
                  if ind then
                    if g && mem l seen then Ok RCycle
                    else bindr (mapM (object_repr ct h long g n act self true (l :: seen)) xs)
                               (fun rs => Ok (RSeq rs))
                  else py_repr ct h long g n act v
              | Some (ODict kvs) =>
                  if ind then
                    if g && mem l seen then Ok RCycle
                    else bindr (mapM (fun kv =>
                                  bindr (py_repr ct h long g n act (fst kv)) (fun k =>
                                  bindr (object_repr ct h long g n act self true (l :: seen) (snd kv))
                                        (fun x => Ok (k, x)))) kvs)
                               (fun rs => Ok (RMap rs))
                  else py_repr ct h long g n act v
              | Some (OTuple _) => py_repr ct h long g n act v
              end
        end.
  Proof. reflexivity. Qed.
End Unfold.

Section ReprTotal.
  Variable ct : ctable.
  Variable h : heap.
  Variable long : list nat -> nat -> bool.
  Hypothesis WF : wf_heap ct h.

  Notation H := (length h).
  Notation py_repr := (py_repr ct h long true).
  Notation repr_inst := (repr_inst ct h long true).
  Notation object_repr := (object_repr ct h long true).

  Definition set_ok (s : list nat) (m : nat) : Prop :=
    NoDup s /\ (forall x, In x s -> x < H) /\ length s + m = H.

  Lemma set_ok_push s m l :
    set_ok s m -> l < H -> ~ In l s -> exists m', m = S m' /\ set_ok (l :: s) m'.
  Proof.
    intros [ND [B L]] LT N. assert (P := pigeon H s l ND B LT N).
    destruct m as [|m']; [lia|]. exists m'. split; auto.
    split; [constructor; auto|]. split.
    - intros x [E|I]; subst; auto.
    - simpl. lia.
  Qed.

  Lemma set_ok_nil : set_ok [] H.
  Proof. split; [constructor|]. split; simpl; [tauto|lia]. Qed.

  Definition is_container (o : hobj) : Prop :=
    match o with OInst _ _ => False | _ => True end.

  Definition A (m : nat) : Prop := forall n act v,
    set_ok act m -> hval_ok h v -> need_pc H m + H + 6 <= n -> exists r, py_repr n act v = Ok r.
  Definition B (m : nat) : Prop := forall n act l o,
    set_ok act m -> nth_error h l = Some o -> is_container o -> need_pc H m <= n ->
    exists r, py_repr n act (HRef l) = Ok r.
  Definition C (m : nat) : Prop := forall n act l md c d,
    set_ok act m -> nth_error h l = Some (OInst c d) -> need_pc H m + H + 4 <= n ->
    exists r, repr_inst n act l md = Ok r.
  Definition D0r (m : nat) : Prop := forall n act self seen l,
    set_ok act m -> l < H -> need_pc H m + 1 <= n ->
    exists r, object_repr n act self false seen (HRef l) = Ok r.
  Definition D0 (m : nat) : Prop := forall n act self seen v,
    set_ok act m -> hval_ok h v -> need_pc H m + 2 <= n ->
    exists r, object_repr n act self false seen v = Ok r.
  Definition D1 (m : nat) : Prop := forall s n act self seen v,
    set_ok act m -> set_ok seen s -> hval_ok h v -> need_pc H m + s + 2 <= n ->
    exists r, object_repr n act self true seen v = Ok r.

  Lemma need_pc_pos m : 4 <= need_pc H m.
  Proof. induction m; simpl; lia. Qed.

  Lemma scalar_repr n act v : is_hscalar v = true -> 1 <= n -> exists r, py_repr n act v = Ok r.
  Proof. intros HS N. destruct n; [lia|]. rewrite py_repr_S. destruct v; try discriminate; eauto. Qed.

  Lemma nth_lt l o : nth_error h l = Some o -> l < H.
  Proof. intro E. apply nth_error_Some. congruence. Qed.

  Lemma B_of_A m : (forall m', m = S m' -> A m') -> B m.
  Proof.
    intros IH n act l o SO E CO N.
    assert (P := need_pc_pos m). destruct n as [|n]; [lia|]. rewrite py_repr_S, E.
    assert (OK := WF l o E). assert (LT := nth_lt l o E).
    destruct o as [xs|xs|kvs|c d]; simpl in CO; try tauto; simpl in OK.
    - destruct (mem l act) eqn:M; eauto. apply mem_false in M.
      destruct (set_ok_push act m l SO LT M) as [m' [Em SO']]. subst m.
      destruct (mapM_ok (py_repr n (l :: act)) xs) as [rs R].
      { intros x I. rewrite Forall_forall in OK. apply (IH m' eq_refl); auto. simpl in N. lia. }
      rewrite R. simpl. eauto.
    - destruct (mem l act) eqn:M; eauto. apply mem_false in M.
      destruct (set_ok_push act m l SO LT M) as [m' [Em SO']]. subst m.
      destruct (mapM_ok (py_repr n (l :: act)) xs) as [rs R].
      { intros x I. rewrite Forall_forall in OK. apply (IH m' eq_refl); auto. simpl in N. lia. }
      rewrite R. simpl. eauto.
    - destruct (mem l act) eqn:M; eauto. apply mem_false in M.
      destruct (set_ok_push act m l SO LT M) as [m' [Em SO']]. subst m.
      match goal with |- exists r, bindr (mapM ?f kvs) _ = _ =>
        destruct (mapM_ok f kvs) as [rs R] end.
      { intros [k v] I. rewrite Forall_forall in OK. destruct (OK _ I) as [K V]. simpl in *.
        destruct (scalar_repr n (l :: act) k K) as [rk Ek]; [simpl in N; lia|].
        rewrite Ek. simpl.
        destruct (IH m' eq_refl n (l :: act) v) as [rv Ev]; auto; [simpl in N; lia|].
        rewrite Ev. simpl. eauto. }
      rewrite R. simpl. eauto.
  Qed.

  Lemma compact_ok n act l c d :
    nth_error h l = Some (OInst c d) -> 1 <= n ->
    exists r, match c_key (ct c) with
              | None => Ok (RCompact c None)
              | Some k => bindr (py_repr n act (hgetattr ct l c d k))
                                (fun r => Ok (RCompact c (Some r)))
              end = Ok r.
  Proof.
    intros E N. destruct (c_key (ct c)) as [k|] eqn:K; eauto.
    destruct (WF l _ E) as [_ KS]. specialize (KS k K).
    destruct (scalar_repr n act _ KS N) as [r R]. rewrite R. simpl. eauto.
  Qed.

  Lemma D0r_of_B m : B m -> D0r m.
  Proof.
    intros HB n act self seen l SO LT N.
    assert (P := need_pc_pos m). destruct n as [|n]; [lia|]. rewrite object_repr_S.
    destruct (Nat.eqb l self); eauto.
    destruct (nth_error h l) as [o|] eqn:E; [|apply nth_error_None in E; lia].
    destruct o as [xs|xs|kvs|c d].
    - eapply HB; eauto; simpl; auto. lia.
    - eapply HB; eauto; simpl; auto. lia.
    - eapply HB; eauto; simpl; auto. lia.
    - eapply compact_ok; eauto. lia.
  Qed.

  Lemma D0_of_D0r m : D0r m -> D0 m.
  Proof.
    intros HD n act self seen v SO OK N.
    assert (P := need_pc_pos m). destruct n as [|n]; [lia|].
    destruct v as [| |f [r|]|l]; try (rewrite object_repr_S; eauto; fail).
    - rewrite object_repr_S. destruct (Nat.eqb r self); eauto.
      destruct (HD n act self [] r) as [x E]; auto; [lia|]. rewrite E. simpl. eauto.
    - apply (HD (S n)); auto. lia.
  Qed.

  Lemma D1_of m : B m -> D0r m -> D1 m.
  Proof.
    intros HB HD s. induction s as [|s IH]; intros n act self seen v SO SS OK N;
      assert (P := need_pc_pos m); (destruct n as [|n]; [lia|]);
      (destruct v as [| |f [r|]|l]; try (rewrite object_repr_S; eauto; fail)).
    - rewrite object_repr_S. destruct (Nat.eqb r self); eauto.
      destruct (HD n act self [] r) as [x E]; auto; [lia|]. rewrite E. simpl. eauto.
    - rewrite object_repr_S. destruct (Nat.eqb l self); eauto. simpl in OK.
      destruct (nth_error h l) as [o|] eqn:E; [|apply nth_error_None in E; lia].
      destruct o as [xs|xs|kvs|c d].
      + destruct (mem l seen) eqn:M; simpl; eauto. apply mem_false in M.
        destruct (set_ok_push seen 0 l SS OK M) as [m' [Em _]]. discriminate.
      + eapply HB; eauto; simpl; auto. lia.
      + destruct (mem l seen) eqn:M; simpl; eauto. apply mem_false in M.
        destruct (set_ok_push seen 0 l SS OK M) as [m' [Em _]]. discriminate.
      + eapply compact_ok; eauto. lia.
    - rewrite object_repr_S. destruct (Nat.eqb r self); eauto.
      destruct (HD n act self [] r) as [x E]; auto; [lia|]. rewrite E. simpl. eauto.
    - rewrite object_repr_S. destruct (Nat.eqb l self); eauto. simpl in OK.
      destruct (nth_error h l) as [o|] eqn:E; [|apply nth_error_None in E; lia].
      assert (OO := WF l o E).
      destruct o as [xs|xs|kvs|c d]; simpl in OO.
      + destruct (mem l seen) eqn:M; simpl; eauto. apply mem_false in M.
        destruct (set_ok_push seen (S s) l SS OK M) as [m' [Em SS']]. inversion Em; subst m'.
        destruct (mapM_ok (object_repr n act self true (l :: seen)) xs) as [rs R].
        { intros x I. rewrite Forall_forall in OO. apply IH; auto. lia. }
        rewrite R. simpl. eauto.
      + eapply HB; eauto; simpl; auto. lia.
      + destruct (mem l seen) eqn:M; simpl; eauto. apply mem_false in M.
        destruct (set_ok_push seen (S s) l SS OK M) as [m' [Em SS']]. inversion Em; subst m'.
        match goal with |- exists r, bindr (mapM ?f kvs) _ = _ =>
          destruct (mapM_ok f kvs) as [rs R] end.
        { intros [k v] I. rewrite Forall_forall in OO. destruct (OO _ I) as [K V]. simpl in *.
          destruct (scalar_repr n act k K) as [rk Ek]; [lia|]. rewrite Ek. simpl.
          destruct (IH n act self (l :: seen) v) as [rv Ev]; auto; [lia|].
          rewrite Ev. simpl. eauto. }
        rewrite R. simpl. eauto.
      + eapply compact_ok; eauto. lia.
  Qed.

  Lemma hgetattr_ok l c d x : nth_error h l = Some (OInst c d) -> hval_ok h (hgetattr ct l c d x).
  Proof.
    intro E. unfold hgetattr. destruct (hlookup x d) as [v|] eqn:L.
    - destruct (WF l _ E) as [F _]. rewrite Forall_forall in F.
      assert (I : In (x, v) d).
      { clear -L. induction d as [|[y w] t IH]; simpl in *; try discriminate.
        destruct (Nat.eqb x y) eqn:Q; [apply Nat.eqb_eq in Q; inversion L; subst; auto | auto]. }
      apply (F _ I).
    - destruct (find_attr x (c_attrs (ct c))) as [a|]; simpl; auto.
      destruct (a_cls a) as [[f|v]|]; simpl; auto. eapply nth_lt; eauto.
  Qed.

  Lemma C_of m : D0 m -> D1 m -> C m.
  Proof.
    intros HD0 HD1 n act l md c d SO E N.
    destruct n as [|n]; [lia|]. rewrite repr_inst_S, E. cbv zeta.
    set (vals := map (fun a => (a_name a, hgetattr ct l c d (a_name a))) (repr_attrs ct c)).
    assert (R : forall ind, exists fs,
              mapM (fun xv => bindr (object_repr n act l ind [] (snd xv)) (fun r => Ok (fst xv, r))) vals = Ok fs).
    { intro ind. apply mapM_ok. intros [x v] I. simpl.
      assert (OK : hval_ok h v).
      { unfold vals in I. apply in_map_iff in I as [a [Ea _]]. inversion Ea; subst.
        apply hgetattr_ok; auto. }
      destruct ind.
      - destruct (HD1 H n act l [] v) as [r Er]; auto; [apply set_ok_nil | lia|].
        rewrite Er. simpl. eauto.
      - destruct (HD0 n act l [] v) as [r Er]; auto; [lia|]. rewrite Er. simpl. eauto. }
    destruct (R true) as [ft Et]. destruct (R false) as [ff Ef].
    destruct md; rewrite ?Et, ?Ef; simpl; eauto.
    destruct (long act l); rewrite ?Et; simpl; eauto.
  Qed.

  Lemma A_of m : B m -> C m -> A m.
  Proof.
    intros HB HC n act v SO OK N.
    assert (P := need_pc_pos m). destruct n as [|n]; [lia|].
    assert (REF : forall k l, need_pc H m + H + 5 <= k -> l < H -> exists r, py_repr k act (HRef l) = Ok r).
    { intros k l Nk LT.
      destruct (nth_error h l) as [o|] eqn:E; [|apply nth_error_None in E; lia].
      destruct o as [xs|xs|kvs|c d].
      - eapply HB; eauto; simpl; auto. lia.
      - eapply HB; eauto; simpl; auto. lia.
      - eapply HB; eauto; simpl; auto. lia.
      - destruct k as [|k]; [lia|]. rewrite py_repr_S, E. eapply HC; eauto. lia. }
    destruct v as [| |f [r|]|l]; try (rewrite py_repr_S; eauto; fail).
    - rewrite py_repr_S. simpl in OK. destruct (REF n r) as [x E]; auto; [lia|]. rewrite E. simpl. eauto.
    - apply REF; auto. lia.
  Qed.

  Lemma all_m m : A m /\ B m /\ C m.
  Proof.
    induction m as [|m IH].
    - assert (HB : B 0) by (apply B_of_A; intros; discriminate).
      assert (HD : D0r 0) by (apply D0r_of_B; auto).
      assert (HC : C 0) by (apply C_of; [apply D0_of_D0r | apply D1_of]; auto).
      split; [apply A_of|]; auto.
    - destruct IH as [HA _].
      assert (HB : B (S m)) by (apply B_of_A; intros m' E; inversion E; subst; auto).
      assert (HD : D0r (S m)) by (apply D0r_of_B; auto).
      assert (HC : C (S m)) by (apply C_of; [apply D0_of_D0r | apply D1_of]; auto).
      split; [apply A_of|]; auto.
  Qed.

  Theorem repr_total n l md c d :
    nth_error h l = Some (OInst c d) -> repr_fuel h <= n ->
    exists r, repr ct h long n l md = Ok r.
  Proof.
    intros E N. unfold repr. destruct (all_m H) as [_ [_ HC]].
    eapply HC; eauto. apply set_ok_nil. unfold repr_fuel in N. lia.
  Qed.
End ReprTotal.

(* the rendering names exactly the repr-enabled attributes, in declaration order
   (for either code version, any fuel, any active set, any mode) *)
Theorem repr_names_exact ct h long g n act l md c d r :
  nth_error h l = Some (OInst c d) ->
  repr_inst ct h long g n act l md = Ok r ->
  repr_names r = spec_repr_names ct c.
Proof.
  intros E R. destruct n as [|n]; [discriminate|]. rewrite repr_inst_S, E in R. cbv zeta in R.
  set (vals := map (fun a => (a_name a, hgetattr ct l c d (a_name a))) (repr_attrs ct c)) in *.
  assert (V : map fst vals = spec_repr_names ct c).
  { unfold vals, spec_repr_names, repr_attrs. rewrite map_map. reflexivity. }
  destruct md.
  - destruct (mapM _ vals) as [fs|] eqn:M; simpl in R; try discriminate.
    inversion R; subst. simpl. rewrite <- V. eapply mapM_fst; eauto.
  - destruct (mapM _ vals) as [fs|] eqn:M; simpl in R; try discriminate.
    inversion R; subst. simpl. rewrite <- V. eapply mapM_fst; eauto.
  - destruct (mapM _ vals) as [fs|] eqn:M; simpl in R; try discriminate.
    destruct (long act l).
    + destruct (mapM (fun xv => bindr (object_repr ct h long g n act l true [] (snd xv)) _) vals)
        as [fs'|] eqn:M'; simpl in R; try discriminate.
      inversion R; subst. simpl. rewrite <- V. eapply mapM_fst; eauto.
    + inversion R; subst. simpl. rewrite <- V. eapply mapM_fst; eauto.
Qed.

(* ------------------------------------------------------------------ the code before the fix *)
Definition ct_demo : ctable := fun _ =>
  mkcls [] [mkattr 0 true true true false None None] false false None.
(* x = C(); l = [..]; l.append(l); x.a = l *)
Definition heap_demo : heap := [OInst 0 [(0, HRef 1)]; OList [HRef 1]].

Lemma old_object_repr_diverges long n : forall seen,
  object_repr ct_demo heap_demo long false n [] 0 true seen (HRef 1) = Err Fuel.
Proof.
  induction n as [|n IH]; intro seen; [reflexivity|].
  rewrite object_repr_S. simpl. rewrite IH. reflexivity.
Qed.

Lemma old_repr_diverges long n : repr_old ct_demo heap_demo long n 0 MTrue = Err Fuel.
Proof.
  destruct n as [|n]; [reflexivity|]. unfold repr_old. rewrite repr_inst_S. cbv zeta. simpl.
  rewrite old_object_repr_diverges. reflexivity.
Qed.
