(* C10 — what the property means, independently of the control flow of the code.

   Equality: two values are equal when they have the same shape and equal parts; two
   instances are equal when they have THE SAME CLASS and, for every compare-enabled
   attribute of that class, equal field values, where
     - a missing attribute equals only a missing attribute,
     - two bound methods count as equal fields when they wrap the same function
       (whatever they are bound to),
     - compare=False attributes and the order of attributes play no role.
   No operand order, no early exit, no isinstance, no reflected-operand rule here.
   (The recursion is on a fuel argument only because Coq needs a decreasing argument;
   any fuel above [size a + size b] gives the same answer — Proofs.v.)

   "Compatible classes" is read as "the same class": CPython tries the operand whose
   class is a proper subclass first and EqMethod.eq answers False (not NotImplemented)
   when `other` is not an instance of `self.__class__`, so an instance of a class and an
   instance of its subclass are never equal, in either direction.  This is the only
   reading under which == can be transitive (S1(x=1) == B(x=1) == S2(x=1)).

   Repr: the rendering lists exactly the repr-enabled attributes, in declaration order,
   and exists (no exception) for every heap, cyclic or not. *)
From Coq Require Import List ZArith Bool Arith.
From SC Require Import Base.Res EqRepr.Model.
Import ListNotations.

(* ------------------------------------------------------------------ equality *)
Fixpoint forall2b {A} (f : A -> A -> bool) (l1 l2 : list A) : bool :=
  match l1, l2 with
  | [], [] => true
  | x :: t1, y :: t2 => f x y && forall2b f t1 t2
  | _, _ => false
  end.

(* every entry of d1 has an equal entry under the same key in d2 *)
Definition dict_le (eqv : val -> val -> bool) (d1 d2 : list (val * val)) : bool :=
  forallb (fun kv => match dict_get (fst kv) d2 with
                     | Some v2 => eqv (snd kv) v2
                     | None => false
                     end) d1.

(* equality of two field values (results of getattr(..., MISSING)) *)
Definition field_eqb (eqv : val -> val -> bool) (u v : val) : bool :=
  match u, v with
  | VMeth f _, VMeth g _ => Z.eqb f g
  | _, _ => eqv u v                       (* VMissing equals only VMissing *)
  end.

Section Spec.
  Variable ct : ctable.

  Fixpoint spec_eqb (n : nat) (a b : val) {struct n} : bool :=
    match n with
    | O => false
    | S n' =>
        match a, b with
        | VTuple l1, VTuple l2 => forall2b (spec_eqb n') l1 l2
        | VList l1, VList l2 => forall2b (spec_eqb n') l1 l2
        | VDict d1, VDict d2 =>
            dict_le (spec_eqb n') d1 d2 && dict_le (spec_eqb n') d2 d1
        | VMeth f s, VMeth g t => Z.eqb f g && Bool.eqb s t
        | VInst c1 d1, VInst c2 d2 =>
            Nat.eqb c1 c2 &&
            forallb (fun a => negb (a_compare a) ||
                              field_eqb (spec_eqb n')
                                        (getattr ct c1 d1 (a_name a))
                                        (getattr ct c2 d2 (a_name a)))
                    (c_attrs (ct c1))
        | _, _ => scalar_eqb a b
        end
    end.

  Definition spec_eq (a b : val) : bool := spec_eqb (fuel_for a b) a b.
End Spec.

Definition same_class (a b : val) : Prop :=
  match a, b with
  | VInst c1 _, VInst c2 _ => c1 = c2
  | _, _ => False
  end.

(* equality of two field values, stated with the model's own == on the values:
   used by the one-level characterisation C10_eq_iff_attrs *)
Definition field_eq (ct : ctable) (n : nat) (u v : val) : Prop :=
  match u, v with
  | VMeth f _, VMeth g _ => f = g
  | _, _ => py_eq ct n u v = Ok true
  end.

(* ------------------------------------------------------------------ well-formedness *)
Definition is_key (v : val) : bool :=     (* hashable scalars used as dict keys *)
  match v with
  | VNone | VBool _ | VInt _ | VStr _ | VAtom _ => true
  | _ => false
  end.

(* keys that are == have the same normal form *)
Definition knorm (v : val) : val :=
  match v with
  | VBool b => VInt (if b then 1%Z else 0%Z)
  | _ => v
  end.

Definition is_meth (v : val) : bool :=
  match v with VMeth _ _ => true | _ => false end.

(* Values as Python can build them: dict keys are hashable scalars, pairwise different;
   bound methods occur only directly as attribute values (the property: "attributes
   holding bound methods"; inside a list CPython compares the receivers by identity,
   which a tree cannot express); MISSING is never stored. *)
Inductive wf : val -> Prop :=
| wf_none : wf VNone
| wf_bool b : wf (VBool b)
| wf_int z : wf (VInt z)
| wf_str s : wf (VStr s)
| wf_atom k : wf (VAtom k)
| wf_tuple l : Forall wf l -> wf (VTuple l)
| wf_list l : Forall wf l -> wf (VList l)
| wf_dict d :
    Forall (fun kv => is_key (fst kv) = true /\ wf (snd kv)) d ->
    NoDup (map (fun kv => knorm (fst kv)) d) ->
    wf (VDict d)
| wf_inst c d :
    Forall (fun xv => is_meth (snd xv) = true \/ wf (snd xv)) d ->
    wf (VInst c d).

Definition wf_field (v : val) : Prop := v = VMissing \/ is_meth v = true \/ wf v.

(* class tables: the class hierarchy is acyclic (ancestors are numbered below their
   descendants), attribute names are distinct, plain class-level values (the default of
   an init=False attribute stays on the class) are scalars, defaults are well-formed *)
Definition wf_ct (ct : ctable) : Prop :=
  forall c,
    (forall c', In c' (c_anc (ct c)) -> c' < c) /\
    NoDup (map a_name (c_attrs (ct c))) /\
    (forall a v, In a (c_attrs (ct c)) -> a_cls a = Some (CVal v) -> is_key v = true) /\
    (forall a v, In a (c_attrs (ct c)) -> a_default a = Some v -> wf v).

(* ------------------------------------------------------------------ repr *)
Definition spec_repr_names (ct : ctable) (c : cid) : list aid :=
  map a_name (filter a_repr (c_attrs (ct c))).

(* heaps: references in bounds; dict keys and key-attribute values are scalars
   (a key identifies an item: it is hashable, hence not a spec-class instance or a
   container of them) *)
Definition hval_ok (h : heap) (v : hval) : Prop :=
  match v with
  | HRef l => l < length h
  | HMeth _ (Some l) => l < length h
  | _ => True
  end.

Definition is_hscalar (v : hval) : bool :=
  match v with HLeaf | HMissing => true | _ => false end.

Definition obj_ok (ct : ctable) (h : heap) (self : nat) (o : hobj) : Prop :=
  match o with
  | OList xs | OTuple xs => Forall (hval_ok h) xs
  | ODict kvs => Forall (fun kv => is_hscalar (fst kv) = true /\ hval_ok h (snd kv)) kvs
  | OInst c d =>
      Forall (fun xv => hval_ok h (snd xv)) d /\
      (forall k, c_key (ct c) = Some k ->
                 is_hscalar (hgetattr ct self c d k) = true)
  end.

Definition wf_heap (ct : ctable) (h : heap) : Prop :=
  forall l o, nth_error h l = Some o -> obj_ok ct h l o.

(* fuel that always suffices for repr on a heap of H cells (Proofs.v) *)
Fixpoint need_pc (H m : nat) : nat :=
  match m with
  | O => 4
  | S m' => need_pc H m' + H + 12
  end.
Definition repr_fuel (h : heap) : nat := need_pc (length h) (length h) + length h + 8.
