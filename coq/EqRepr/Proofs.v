(* C10 — proofs about EqRepr/Model.v against EqRepr/Spec.v (equality part). *)
From Coq Require Import List ZArith Bool Arith Lia.
From SC Require Import Base.Res EqRepr.Model EqRepr.Spec.
Import ListNotations.

(* ================================================================== scalars *)
Lemma scalar_eqb_sym a b : scalar_eqb a b = scalar_eqb b a.
Proof.
  destruct a, b; simpl; try reflexivity; try apply Z.eqb_sym.
Qed.

Lemma scalar_eqb_trans a b c :
  scalar_eqb a b = true -> scalar_eqb b c = true -> scalar_eqb a c = true.
Proof.
  destruct a, b; simpl; try discriminate; destruct c; simpl; try discriminate;
    try (intros; reflexivity);
    intros H1 H2; apply Z.eqb_eq in H1; apply Z.eqb_eq in H2; apply Z.eqb_eq; congruence.
Qed.

Lemma scalar_eqb_congr k k2 k' :
  scalar_eqb k k2 = true -> scalar_eqb k k' = scalar_eqb k2 k'.
Proof.
  intro H. destruct (scalar_eqb k k') eqn:E1; destruct (scalar_eqb k2 k') eqn:E2; auto.
  - rewrite scalar_eqb_sym in H. rewrite (scalar_eqb_trans _ _ _ H E1) in E2. discriminate.
  - rewrite (scalar_eqb_trans _ _ _ H E2) in E1. discriminate.
Qed.

Definition kind (v : val) : nat :=
  match v with
  | VMeth _ _ => 1 | VTuple _ => 2 | VList _ => 3 | VDict _ => 4 | VInst _ _ => 5
  | _ => 0
  end.

Lemma scalar_eqb_kind a b : scalar_eqb a b = true -> kind a = 0 /\ kind b = 0.
Proof. destruct a, b; simpl; try discriminate; auto. Qed.

(* ================================================================== list helpers *)
Lemma forall2b_sym {A} (f : A -> A -> bool) l1 : forall l2,
  (forall x y, In x l1 -> f x y = f y x) -> forall2b f l1 l2 = forall2b f l2 l1.
Proof.
  induction l1 as [|x t IH]; intros [|y t2] H; simpl; auto.
  rewrite (H x y (or_introl eq_refl)). f_equal. apply IH. intros; apply H; right; auto.
Qed.

Lemma forall2b_trans {A} (f : A -> A -> bool) l1 : forall l2 l3,
  (forall x y z, In x l1 -> f x y = true -> f y z = true -> f x z = true) ->
  forall2b f l1 l2 = true -> forall2b f l2 l3 = true -> forall2b f l1 l3 = true.
Proof.
  induction l1 as [|x t IH]; intros [|y t2] [|z t3] H; simpl; try discriminate; auto.
  intros H1 H2. apply andb_true_iff in H1 as [A1 B1]. apply andb_true_iff in H2 as [A2 B2].
  apply andb_true_iff; split.
  - eapply H; eauto. left; auto.
  - eapply IH; eauto. intros; eapply H; eauto. right; auto.
Qed.

Lemma forall2b_refl {A} (f : A -> A -> bool) l :
  (forall x, In x l -> f x x = true) -> forall2b f l l = true.
Proof.
  induction l; simpl; auto. intro H. rewrite H by (left; auto). simpl.
  apply IHl. intros; apply H; right; auto.
Qed.

Lemma forall2b_length {A} (f : A -> A -> bool) l1 : forall l2,
  forall2b f l1 l2 = true -> length l1 = length l2.
Proof.
  induction l1; intros [|y t]; simpl; try discriminate; auto.
  intro H. apply andb_true_iff in H as [_ H]. f_equal; auto.
Qed.

(* ================================================================== dicts *)
Lemma dict_get_in k d v :
  dict_get k d = Some v -> exists k', In (k', v) d /\ scalar_eqb k k' = true.
Proof.
  induction d as [|[k' v'] t IH]; simpl; try discriminate.
  destruct (scalar_eqb k k') eqn:E.
  - intro H; inversion H; subst. exists k'; auto.
  - intro H. destruct (IH H) as [k2 [I E2]]. exists k2; auto.
Qed.

Lemma dict_get_congr k k2 d :
  scalar_eqb k k2 = true -> dict_get k d = dict_get k2 d.
Proof.
  intro H. induction d as [|[k' v'] t IH]; simpl; auto.
  rewrite (scalar_eqb_congr _ _ k' H). rewrite IH. reflexivity.
Qed.

Lemma dict_le_trans (f : val -> val -> bool) d1 d2 d3 :
  (forall k x y z, In (k, x) d1 -> f x y = true -> f y z = true -> f x z = true) ->
  dict_le f d1 d2 = true -> dict_le f d2 d3 = true -> dict_le f d1 d3 = true.
Proof.
  unfold dict_le. intros H H1 H2. rewrite forallb_forall in *.
  intros [k x] I. specialize (H1 _ I). simpl in *.
  destruct (dict_get k d2) as [y|] eqn:G; try discriminate.
  destruct (dict_get_in _ _ _ G) as [k2 [I2 E2]].
  specialize (H2 _ I2). simpl in H2.
  rewrite (dict_get_congr _ _ d3 E2).
  destruct (dict_get k2 d3) as [z|]; try discriminate.
  eapply H; eauto.
Qed.

(* is_key scalars: == is equality of normal forms *)
Lemma scalar_eqb_knorm a b :
  is_key a = true -> is_key b = true -> (scalar_eqb a b = true <-> knorm a = knorm b).
Proof.
  destruct a, b; simpl; try discriminate; intros _ _; split; intro H;
    try discriminate; try reflexivity;
    try (apply Z.eqb_eq in H; subst; reflexivity);
    try (inversion H; subst; apply Z.eqb_refl);
    try (destruct b; destruct b0; simpl in *; try discriminate; reflexivity);
    try (destruct b; simpl in *; try discriminate; reflexivity).
Qed.

Definition keys_ok (d : list (val * val)) : Prop :=
  Forall (fun kv => is_key (fst kv) = true) d /\ NoDup (map (fun kv => knorm (fst kv)) d).

Lemma keys_ok_tail kv d : keys_ok (kv :: d) -> keys_ok d.
Proof. intros [A B]. inversion A; inversion B; subst. split; auto. Qed.

(* with distinct keys, an entry of the dict is what dict_get finds under its key *)
Lemma dict_get_own d : keys_ok d -> forall k v, In (k, v) d -> dict_get k d = Some v.
Proof.
  induction d as [|[k' v'] t IH]; intros KO k v I; simpl in *; try tauto.
  destruct I as [I|I].
  - inversion I; subst. destruct KO as [A _]. inversion A; subst. simpl in *.
    assert (E : scalar_eqb k k = true) by (apply scalar_eqb_knorm; auto).
    rewrite E. reflexivity.
  - destruct (scalar_eqb k k') eqn:E.
    + exfalso. destruct KO as [A B]. inversion A; inversion B; subst. simpl in *.
      assert (Kk : is_key k = true).
      { rewrite Forall_forall in H2. apply (H2 (k, v)); auto. }
      apply scalar_eqb_knorm in E; auto.
      apply H5. rewrite <- E. apply (in_map (fun kv => knorm (fst kv)) t (k, v)); auto.
    + apply IH; auto. eapply keys_ok_tail; eauto.
Qed.

Lemma dict_le_keys_incl f d1 d2 :
  keys_ok d1 -> keys_ok d2 -> dict_le f d1 d2 = true ->
  incl (map (fun kv => knorm (fst kv)) d1) (map (fun kv => knorm (fst kv)) d2).
Proof.
  intros [K1 _] [K2 _] H x I. apply in_map_iff in I as [[k v] [E I]]. simpl in E; subst.
  unfold dict_le in H. rewrite forallb_forall in H. specialize (H _ I). simpl in H.
  destruct (dict_get k d2) as [v2|] eqn:G; try discriminate.
  destruct (dict_get_in _ _ _ G) as [k2 [I2 E2]].
  rewrite Forall_forall in K1, K2.
  apply scalar_eqb_knorm in E2; [| apply (K1 (k, v)); auto | apply (K2 (k2, v2)); auto].
  rewrite E2. apply (in_map (fun kv => knorm (fst kv)) d2 (k2, v2)); auto.
Qed.

(* CPython's dict_equal (same length + one-sided lookup) is the two-sided inclusion *)
Lemma dict_le_converse f d1 d2 :
  keys_ok d1 -> keys_ok d2 -> length d1 = length d2 ->
  (forall k x y, In (k, x) d1 -> f x y = f y x) ->
  dict_le f d1 d2 = true -> dict_le f d2 d1 = true.
Proof.
  intros K1 K2 L S H.
  assert (INC := dict_le_keys_incl f d1 d2 K1 K2 H).
  assert (INC2 : incl (map (fun kv => knorm (fst kv)) d2) (map (fun kv => knorm (fst kv)) d1)).
  { apply NoDup_length_incl; auto. apply K1. rewrite !map_length. lia. }
  unfold dict_le. rewrite forallb_forall. intros [k2 v2] I2. simpl.
  assert (IK : In (knorm k2) (map (fun kv => knorm (fst kv)) d1)).
  { apply INC2. apply (in_map (fun kv => knorm (fst kv)) d2 (k2, v2)); auto. }
  apply in_map_iff in IK as [[k1 v1] [E I1]]. simpl in E.
  destruct K1 as [K1a K1b]. destruct K2 as [K2a K2b].
  assert (Kk1 : is_key k1 = true) by (rewrite Forall_forall in K1a; apply (K1a (k1, v1)); auto).
  assert (Kk2 : is_key k2 = true) by (rewrite Forall_forall in K2a; apply (K2a (k2, v2)); auto).
  assert (E12 : scalar_eqb k1 k2 = true) by (apply scalar_eqb_knorm; auto).
  assert (G1 : dict_get k1 d1 = Some v1) by (apply dict_get_own; auto; split; auto).
  assert (G2 : dict_get k2 d2 = Some v2) by (apply dict_get_own; auto; split; auto).
  rewrite scalar_eqb_sym in E12.
  rewrite (dict_get_congr _ _ d1 E12), G1.
  unfold dict_le in H. rewrite forallb_forall in H. specialize (H _ I1). simpl in H.
  rewrite scalar_eqb_sym in E12.
  rewrite (dict_get_congr _ _ d2 E12), G2 in H.
  rewrite <- (S k1 v1 v2 I1). exact H.
Qed.

Lemma dict_le_both_length f d1 d2 :
  keys_ok d1 -> keys_ok d2 ->
  dict_le f d1 d2 = true -> dict_le f d2 d1 = true -> length d1 = length d2.
Proof.
  intros K1 K2 H1 H2.
  assert (A := dict_le_keys_incl f d1 d2 K1 K2 H1).
  assert (B := dict_le_keys_incl f d2 d1 K2 K1 H2).
  apply NoDup_incl_length in A; [| apply K1]. apply NoDup_incl_length in B; [| apply K2].
  rewrite !map_length in *. lia.
Qed.

Lemma dict_le_refl f d :
  keys_ok d -> (forall k v, In (k, v) d -> f v v = true) -> dict_le f d d = true.
Proof.
  intros K H. unfold dict_le. rewrite forallb_forall. intros [k v] I. simpl.
  rewrite (dict_get_own d K k v I). eapply H; eauto.
Qed.

(* ================================================================== laws of the specification *)
Lemma forallb_ext_in {A} (f g : A -> bool) l :
  (forall x, In x l -> f x = g x) -> forallb f l = forallb g l.
Proof.
  induction l; simpl; auto. intro H. rewrite H by (left; auto). f_equal.
  apply IHl; intros; apply H; right; auto.
Qed.

Lemma field_eqb_sym f u v : f u v = f v u -> field_eqb f u v = field_eqb f v u.
Proof. destruct u, v; simpl; auto; intros; apply Z.eqb_sym. Qed.

Lemma field_eqb_meth_l f g s v :
  field_eqb f (VMeth g s) v = match v with VMeth g' _ => Z.eqb g g' | _ => f (VMeth g s) v end.
Proof. destruct v; reflexivity. Qed.

Section Laws.
  Variable ct : ctable.

  Lemma spec_sym n : forall a b, spec_eqb ct n a b = spec_eqb ct n b a.
  Proof.
    induction n as [|n IH]; intros a b; [reflexivity|].
    destruct a, b; simpl; try reflexivity; try apply Z.eqb_sym.
    - rewrite Z.eqb_sym. destruct self, self0; reflexivity.
    - apply forall2b_sym; intros; apply IH.
    - apply forall2b_sym; intros; apply IH.
    - apply andb_comm.
    - destruct (Nat.eqb_spec c c0) as [E|E].
      + subst. rewrite Nat.eqb_refl. simpl. apply forallb_ext_in. intros a _.
        f_equal. apply field_eqb_sym. apply IH.
      + destruct (Nat.eqb_spec c0 c); [congruence | reflexivity].
  Qed.

  Lemma spec_kind n a b : spec_eqb ct n a b = true -> kind a = kind b.
  Proof.
    destruct n; [discriminate|].
    destruct a, b; simpl; try discriminate; auto.
  Qed.

  Lemma field_eqb_trans n u v w :
    (forall x y z, spec_eqb ct n x y = true -> spec_eqb ct n y z = true -> spec_eqb ct n x z = true) ->
    field_eqb (spec_eqb ct n) u v = true -> field_eqb (spec_eqb ct n) v w = true ->
    field_eqb (spec_eqb ct n) u w = true.
  Proof.
    intros T H1 H2.
    destruct (kind u =? 1) eqn:Ku.
    - (* u is a method *)
      destruct u; try discriminate.
      rewrite field_eqb_meth_l in H1.
      destruct v; try (apply spec_kind in H1; discriminate).
      rewrite field_eqb_meth_l in H2. rewrite field_eqb_meth_l.
      destruct w; try (apply spec_kind in H2; discriminate).
      apply Z.eqb_eq in H1, H2. apply Z.eqb_eq. congruence.
    - assert (Kv : kind v <> 1).
      { intro K. destruct v; try discriminate.
        destruct u; simpl in H1; try discriminate; try (apply spec_kind in H1; discriminate). }
      assert (E1 : field_eqb (spec_eqb ct n) u v = spec_eqb ct n u v).
      { destruct u; try discriminate; reflexivity. }
      assert (Kw : kind w <> 1).
      { intro K. destruct w; try discriminate.
        destruct v; simpl in H2; try discriminate; try (apply spec_kind in H2; discriminate);
          simpl in Kv; congruence. }
      assert (E2 : field_eqb (spec_eqb ct n) v w = spec_eqb ct n v w).
      { destruct v; try reflexivity. simpl in Kv; congruence. }
      assert (E3 : field_eqb (spec_eqb ct n) u w = spec_eqb ct n u w).
      { destruct u; try discriminate; reflexivity. }
      rewrite E1 in H1. rewrite E2 in H2. rewrite E3. eapply T; eauto.
  Qed.

  Lemma spec_trans n : forall a b c,
    spec_eqb ct n a b = true -> spec_eqb ct n b c = true -> spec_eqb ct n a c = true.
  Proof.
    induction n as [|n IH]; intros a b c H1 H2; [discriminate|].
    assert (K1 := spec_kind _ _ _ H1). assert (K2 := spec_kind _ _ _ H2).
    destruct a; destruct b; try discriminate; destruct c; try discriminate;
      simpl in H1, H2 |- *; try reflexivity; try discriminate;
      try (apply Z.eqb_eq in H1; apply Z.eqb_eq in H2; apply Z.eqb_eq; congruence).
    - (* methods *)
      apply andb_true_iff in H1 as [A1 B1]. apply andb_true_iff in H2 as [A2 B2].
      apply Z.eqb_eq in A1, A2. apply eqb_prop in B1, B2. subst.
      rewrite Z.eqb_refl. destruct self1; reflexivity.
    - eapply forall2b_trans; eauto.
    - eapply forall2b_trans; eauto.
    - apply andb_true_iff in H1 as [A1 B1]. apply andb_true_iff in H2 as [A2 B2].
      apply andb_true_iff; split.
      + eapply dict_le_trans; [| exact A1 | exact A2]. intros; eapply IH; eauto.
      + eapply dict_le_trans; [| exact B2 | exact B1]. intros; eapply IH; eauto.
    - apply andb_true_iff in H1 as [A1 B1]. apply andb_true_iff in H2 as [A2 B2].
      apply Nat.eqb_eq in A1, A2. subst. rewrite Nat.eqb_refl. simpl.
      rewrite forallb_forall in *. intros a I. specialize (B1 a I). specialize (B2 a I).
      destruct (a_compare a); simpl in *; auto.
      eapply field_eqb_trans; eauto.
  Qed.
End Laws.

(* ================================================================== sizes, getattr *)
Lemma size_pos v : 1 <= size v.
Proof. destruct v; simpl; lia. Qed.

Lemma size_in_sum l x : In x l -> size x <= fold_right (fun x acc => size x + acc) 0 l.
Proof. induction l; simpl; intros []; subst; try lia. specialize (IHl H). lia. Qed.

Lemma size_in_list l x : In x l -> size x < size (VList l).
Proof. intro I. apply size_in_sum in I. simpl. lia. Qed.

Lemma size_in_tuple l x : In x l -> size x < size (VTuple l).
Proof. intro I. apply size_in_sum in I. simpl. lia. Qed.

Lemma size_in_dict d k v : In (k, v) d -> size k + size v < size (VDict d).
Proof.
  simpl. induction d as [|[k' v'] t IH]; simpl; intros []; try lia.
  - inversion H; subst. lia.
  - specialize (IH H). lia.
Qed.

Lemma size_in_inst c d x v : In (x, v) d -> size v + 2 < size (VInst c d).
Proof.
  simpl. induction d as [|[x' v'] t IH]; simpl; intros []; try lia.
  - inversion H; subst. lia.
  - specialize (IH H). lia.
Qed.

Lemma lookup_in x d v : lookup x d = Some v -> In (x, v) d.
Proof.
  induction d as [|[y w] t IH]; simpl; try discriminate.
  destruct (Nat.eqb_spec x y); intro H.
  - inversion H; subst. left; auto.
  - right; auto.
Qed.

Lemma find_attr_in x l a : find_attr x l = Some a -> In a l /\ a_name a = x.
Proof.
  induction l as [|b t IH]; simpl; try discriminate.
  destruct (Nat.eqb_spec x (a_name b)); intro H.
  - inversion H; subst. auto.
  - destruct (IH H); auto.
Qed.

Lemma is_key_wf v : is_key v = true -> wf v.
Proof. destruct v; simpl; try discriminate; constructor. Qed.

Lemma is_key_size v : is_key v = true -> size v = 1.
Proof. destruct v; simpl; try discriminate; reflexivity. Qed.

Section GetAttr.
  Variable ct : ctable.
  Hypothesis CT : wf_ct ct.

  Lemma cls_attr_cases c x :
    cls_attr ct c x = VMissing \/ (exists f, cls_attr ct c x = VMeth f true) \/
    is_key (cls_attr ct c x) = true.
  Proof.
    unfold cls_attr. destruct (find_attr x (c_attrs (ct c))) as [a|] eqn:F; auto.
    destruct (a_cls a) as [[f|v]|] eqn:E; auto.
    - right; left; eauto.
    - right; right. apply find_attr_in in F as [I _].
      destruct (CT c) as [_ [_ [H _]]]. eapply H; eauto.
  Qed.

  Lemma cls_attr_size c x : size (cls_attr ct c x) = 1.
  Proof.
    destruct (cls_attr_cases c x) as [H|[[f H]|H]]; try rewrite H; auto.
    apply is_key_size; auto.
  Qed.

  Lemma cls_attr_wf c x : wf_field (cls_attr ct c x).
  Proof.
    destruct (cls_attr_cases c x) as [H|[[f H]|H]]; unfold wf_field.
    - auto.
    - rewrite H; auto.
    - right; right; apply is_key_wf; auto.
  Qed.

  Lemma getattr_size c d x : size (getattr ct c d x) < size (VInst c d).
  Proof.
    unfold getattr. destruct (lookup x d) eqn:L.
    - apply lookup_in in L. apply (size_in_inst c) in L. lia.
    - rewrite cls_attr_size. simpl. lia.
  Qed.

  Lemma getattr_wf c d x : wf (VInst c d) -> wf_field (getattr ct c d x).
  Proof.
    intro W. unfold getattr. destruct (lookup x d) eqn:L.
    - apply lookup_in in L. inversion W as [| | | | | | | | c0 d0 H1]; subst. rewrite Forall_forall in H1.
      specialize (H1 _ L). simpl in H1. unfold wf_field. tauto.
    - apply cls_attr_wf.
  Qed.

  (* -------------------------------------------------------------- reflexivity *)
  Lemma spec_refl n : forall a, wf_field a -> size a + size a < n -> spec_eqb ct n a a = true.
  Proof.
    induction n as [|n IH]; intros a W S; [lia|].
    destruct W as [W|[W|W]].
    - subst; reflexivity.
    - destruct a; try discriminate. simpl. rewrite Z.eqb_refl. destruct self; reflexivity.
    - destruct a; inversion W; subst; simpl; try reflexivity; try apply Z.eqb_refl.
      + apply forall2b_refl. intros x I. apply IH.
        * right; right. rewrite Forall_forall in H0; auto.
        * apply size_in_tuple in I. lia.
      + apply forall2b_refl. intros x I. apply IH.
        * right; right. rewrite Forall_forall in H0; auto.
        * apply size_in_list in I. lia.
      + assert (KO : keys_ok kvs).
        { split; auto. rewrite Forall_forall in *. intros kv I. apply H0; auto. }
        assert (R : dict_le (spec_eqb ct n) kvs kvs = true).
        { apply dict_le_refl; auto. intros k v I. apply IH.
          - right; right. rewrite Forall_forall in H0. apply (H0 (k, v)); auto.
          - apply size_in_dict in I. lia. }
        rewrite R. reflexivity.
      + rewrite Nat.eqb_refl. simpl. apply forallb_forall. intros a _.
        destruct (a_compare a); simpl; auto.
        assert (Wg := getattr_wf c d (a_name a) W).
        assert (Sg := getattr_size c d (a_name a)).
        remember (getattr ct c d (a_name a)) as u.
        assert (R : spec_eqb ct n u u = true) by (apply IH; auto; lia).
        destruct u; simpl; auto. apply Z.eqb_refl.
  Qed.
End GetAttr.

(* ================================================================== the model is total on trees *)
Definition func_of (v : val) : Z := match v with VMeth f _ => f | _ => 0%Z end.

Lemma field_eqb_cases g u v :
  field_eqb g u v = if is_meth u && is_meth v then Z.eqb (func_of u) (func_of v) else g u v.
Proof. destruct u, v; reflexivity. Qed.

Section ModelSpec.
  Variable ct : ctable.
  Hypothesis CT : wf_ct ct.

  Lemma eq_loop_step fx nef cs ds co dx a t :
    eq_loop ct fx nef cs ds co dx (a :: t) =
    if negb (a_compare a) then eq_loop ct fx nef cs ds co dx t
    else let vs := getattr ct cs ds (a_name a) in
         let vo := getattr ct co dx (a_name a) in
         if is_meth vs && is_meth vo
         then (if fx then if Z.eqb (func_of vs) (func_of vo) then eq_loop ct fx nef cs ds co dx t else Ok false
               else Ok (Z.eqb (func_of vs) (func_of vo)))
         else bindr (nef vs vo) (fun ne => if ne then Ok false else eq_loop ct fx nef cs ds co dx t).
  Proof.
    simpl. destruct (negb (a_compare a)); auto.
    destruct (getattr ct cs ds (a_name a)), (getattr ct co dx (a_name a)); reflexivity.
  Qed.

  Lemma all2M_ok eqf l1 : forall l2,
    (forall x y, In x l1 -> In y l2 -> exists r, eqf x y = Ok r) ->
    exists r, all2M eqf l1 l2 = Ok r.
  Proof.
    induction l1 as [|x t IH]; intros [|y t2] H; simpl; eauto.
    destruct (H x y) as [r E]; simpl; auto. rewrite E. simpl. destruct r; eauto.
    apply IH. intros; apply H; simpl; auto.
  Qed.

  Lemma dict_sub_ok eqf d1 d2 :
    (forall k v v2, In (k, v) d1 -> dict_get k d2 = Some v2 -> exists r, eqf v v2 = Ok r) ->
    exists r, dict_sub eqf d1 d2 = Ok r.
  Proof.
    induction d1 as [|[k v] t IH]; intro H; simpl; eauto.
    destruct (dict_get k d2) as [v2|] eqn:G; eauto.
    destruct (H k v v2) as [r E]; simpl; auto. rewrite E. simpl. destruct r; eauto.
    apply IH. intros; eapply H; simpl; eauto.
  Qed.

  Lemma eq_loop_ok fx nef cs ds co dx attrs :
    (forall x, exists r, nef (getattr ct cs ds x) (getattr ct co dx x) = Ok r) ->
    exists r, eq_loop ct fx nef cs ds co dx attrs = Ok r.
  Proof.
    intro H. induction attrs as [|a t IH]; [simpl; eauto|].
    rewrite eq_loop_step. destruct (negb (a_compare a)); auto. cbv zeta.
    destruct (is_meth _ && is_meth _).
    - destruct fx; eauto. destruct (Z.eqb _ _); eauto.
    - destruct (H (a_name a)) as [r E]. rewrite E. simpl. destruct r; eauto.
  Qed.

  Lemma inst_eq_with_ok fx nef cs ds b :
    (forall co dx x, b = VInst co dx ->
                     exists r, nef (getattr ct cs ds x) (getattr ct co dx x) = Ok r) ->
    exists r, inst_eq_with ct fx nef cs ds b = Ok r.
  Proof.
    intro H. unfold inst_eq_with. destruct (isinstance ct b cs); eauto.
    destruct b; eauto. apply eq_loop_ok. intros; eapply H; eauto.
  Qed.

  Lemma enough fx n : forall a b, size a + size b < n -> exists r, val_eq ct fx n a b = Ok r.
  Proof.
    induction n as [|n IH]; intros a b S; [lia|].
    assert (NE : forall cs ds co dx x,
               size (VInst cs ds) + size (VInst co dx) <= size a + size b ->
               exists r, bindr (val_eq ct fx n (getattr ct cs ds x) (getattr ct co dx x))
                               (fun r => Ok (negb r)) = Ok r).
    { intros. assert (A := getattr_size ct CT cs ds x). assert (B := getattr_size ct CT co dx x).
      destruct (IH (getattr ct cs ds x) (getattr ct co dx x)) as [r E]; [lia|].
      rewrite E. simpl. eauto. }
    destruct a, b; simpl; eauto;
      try (apply inst_eq_with_ok; intros; discriminate).
    - apply all2M_ok. intros x y Ix Iy. apply IH.
      apply size_in_tuple in Ix, Iy. lia.
    - destruct (Nat.eqb _ _); eauto. apply all2M_ok. intros x y Ix Iy. apply IH.
      apply size_in_list in Ix, Iy. lia.
    - destruct (Nat.eqb _ _); eauto. apply dict_sub_ok. intros k v v2 I G. apply IH.
      apply dict_get_in in G as [k2 [I2 _]].
      apply size_in_dict in I, I2. lia.
    - destruct (negb (c =? c0) && is_sub ct c0 c).
      + apply inst_eq_with_ok. intros co dx x E. inversion E; subst. apply NE. lia.
      + apply inst_eq_with_ok. intros co dx x E. inversion E; subst. apply NE. lia.
  Qed.

  (* ================================================================ the model computes the specification *)
  Lemma all2M_spec eqf g l1 : forall l2 r,
    (forall x y q, In x l1 -> In y l2 -> eqf x y = Ok q -> q = g x y) ->
    all2M eqf l1 l2 = Ok r -> r = forall2b g l1 l2.
  Proof.
    induction l1 as [|x t IH]; intros [|y t2] r H E; simpl in *;
      try (inversion E; reflexivity).
    destruct (eqf x y) as [q|] eqn:Q; simpl in E; try discriminate.
    rewrite <- (H x y q); auto. destruct q; simpl.
    - apply IH; auto; intros; eapply H; simpl; eauto.
    - inversion E; reflexivity.
  Qed.

  Lemma dict_sub_spec eqf g d1 d2 : forall r,
    (forall k v v2 q, In (k, v) d1 -> dict_get k d2 = Some v2 -> eqf v v2 = Ok q -> q = g v v2) ->
    dict_sub eqf d1 d2 = Ok r -> r = dict_le g d1 d2.
  Proof.
    induction d1 as [|[k v] t IH]; intros r H E; simpl in *; try (inversion E; reflexivity).
    destruct (dict_get k d2) as [v2|] eqn:G; try (inversion E; reflexivity).
    destruct (eqf v v2) as [q|] eqn:Q; simpl in E; try discriminate.
    rewrite <- (H k v v2 q); auto. destruct q; simpl.
    - apply IH; auto; intros; eapply H; simpl; eauto.
    - inversion E; reflexivity.
  Qed.

  Lemma eq_loop_spec nef g cs ds co dx attrs : forall r,
    (forall x q, nef (getattr ct cs ds x) (getattr ct co dx x) = Ok q ->
                 q = negb (g (getattr ct cs ds x) (getattr ct co dx x))) ->
    eq_loop ct true nef cs ds co dx attrs = Ok r ->
    r = forallb (fun a => negb (a_compare a) ||
                          field_eqb g (getattr ct cs ds (a_name a)) (getattr ct co dx (a_name a))) attrs.
  Proof.
    intros r H. induction attrs as [|a t IH]; intro E; [inversion E; reflexivity|].
    rewrite eq_loop_step in E. simpl forallb.
    destruct (negb (a_compare a)); simpl; auto. cbv zeta in E.
    rewrite field_eqb_cases.
    destruct (is_meth _ && is_meth _).
    - destruct (Z.eqb _ _); simpl; auto. inversion E; reflexivity.
    - destruct (nef _ _) as [q|] eqn:Q; simpl in E; try discriminate.
      apply H in Q. subst q.
      destruct (g _ _); simpl in *; auto. inversion E; reflexivity.
  Qed.

  Lemma is_sub_antisym c c' : c <> c' -> is_sub ct c c' = true -> is_sub ct c' c = false.
  Proof.
    intros NE H. unfold is_sub in *.
    destruct (Nat.eqb_spec c c'); [congruence|]. destruct (Nat.eqb_spec c' c); [congruence|].
    simpl in *. apply existsb_exists in H as [x [I E]]. apply Nat.eqb_eq in E; subst x.
    destruct (existsb (Nat.eqb c) (c_anc (ct c'))) eqn:X; auto.
    apply existsb_exists in X as [x [I2 E2]]. apply Nat.eqb_eq in E2; subst x.
    destruct (CT c) as [A _]. destruct (CT c') as [B _].
    apply A in I. apply B in I2. lia.
  Qed.

  Lemma wf_of_field v : 2 <= kind v -> wf_field v -> wf v.
  Proof. intros K [H|[H|H]]; auto; destruct v; simpl in *; try discriminate; lia. Qed.

  Lemma wf_dict_keys d : wf (VDict d) -> keys_ok d.
  Proof.
    intro W. inversion W; subst. split; auto.
    rewrite Forall_forall in *. intros kv I. apply H0; auto.
  Qed.

  Lemma model_spec n : forall a b r,
    wf_field a -> wf_field b -> val_eq ct true n a b = Ok r -> r = spec_eqb ct n a b.
  Proof.
    induction n as [|n IH]; intros a b r Wa Wb E; [discriminate|].
    assert (NE : forall cs ds co dx x q,
               wf (VInst cs ds) -> wf (VInst co dx) ->
               bindr (val_eq ct true n (getattr ct cs ds x) (getattr ct co dx x))
                     (fun r => Ok (negb r)) = Ok q ->
               q = negb (spec_eqb ct n (getattr ct cs ds x) (getattr ct co dx x))).
    { intros cs ds co dx x q W1 W2 Q.
      destruct (val_eq ct true n _ _) as [q'|] eqn:Q'; simpl in Q; try discriminate.
      inversion Q; subst. f_equal. apply IH; auto; apply getattr_wf; auto. }
    destruct a, b; simpl in E |- *;
      try (inversion E; reflexivity);
      try (unfold inst_eq_with in E; simpl in E; inversion E; reflexivity).
    - (* tuples *)
      apply wf_of_field in Wa, Wb; simpl; try lia. inversion Wa; inversion Wb; subst.
      rewrite Forall_forall in *.
      eapply all2M_spec; [|exact E]. intros x y q Ix Iy Q. apply IH; auto; right; right; auto.
    - (* lists *)
      apply wf_of_field in Wa, Wb; simpl; try lia. inversion Wa; inversion Wb; subst.
      rewrite Forall_forall in *.
      destruct (Nat.eqb_spec (length l) (length l0)) as [L|L].
      + eapply all2M_spec; [|exact E]. intros x y q Ix Iy Q. apply IH; auto; right; right; auto.
      + inversion E; subst. destruct (forall2b _ l l0) eqn:F; auto.
        apply forall2b_length in F. congruence.
    - (* dicts *)
      apply wf_of_field in Wa, Wb; simpl; try lia.
      assert (K1 := wf_dict_keys _ Wa). assert (K2 := wf_dict_keys _ Wb).
      inversion Wa as [| | | | | | | d1 F1 N1 |]; inversion Wb as [| | | | | | | d2 F2 N2 |]; subst.
      rewrite Forall_forall in F1, F2.
      destruct (Nat.eqb_spec (length kvs) (length kvs0)) as [L|L].
      + assert (R : r = dict_le (spec_eqb ct n) kvs kvs0).
        { eapply dict_sub_spec; [|exact E]. intros k v v2 q I G Q.
          apply dict_get_in in G as [k2 [I2 _]].
          apply IH; auto; right; right.
          - apply (F1 (k, v)); auto.
          - apply (F2 (k2, v2)); auto. }
        subst r. destruct (dict_le (spec_eqb ct n) kvs kvs0) eqn:D; auto. simpl.
        symmetry. apply dict_le_converse; auto. intros; apply spec_sym.
      + inversion E; subst.
        destruct (dict_le (spec_eqb ct n) kvs kvs0) eqn:D1; auto.
        destruct (dict_le (spec_eqb ct n) kvs0 kvs) eqn:D2; auto.
        exfalso. apply L. eapply dict_le_both_length; eauto.
    - (* instances *)
      apply wf_of_field in Wa, Wb; simpl; try lia.
      destruct (Nat.eqb_spec c c0) as [EQ|NEQ]; simpl in E.
      + subst c0. unfold inst_eq_with in E. simpl in E.
        unfold is_sub in E. rewrite Nat.eqb_refl in E. simpl in E.
        eapply eq_loop_spec; [|exact E]. intros x q Q. eapply NE; eauto.
      + destruct (is_sub ct c0 c) eqn:SUB.
        * unfold inst_eq_with in E. simpl in E.
          rewrite is_sub_antisym in E; auto. inversion E; reflexivity.
        * unfold inst_eq_with in E. simpl in E. rewrite SUB in E. inversion E; reflexivity.
  Qed.

  (* on trees, with enough fuel, == is exactly the specification *)
  Theorem val_eq_spec n a b :
    wf_field a -> wf_field b -> size a + size b < n ->
    val_eq ct true n a b = Ok (spec_eqb ct n a b).
  Proof.
    intros Wa Wb S. destruct (enough true n a b S) as [r E].
    rewrite E. f_equal. apply model_spec; auto.
  Qed.
End ModelSpec.
