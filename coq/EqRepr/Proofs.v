(* C10 — proofs about EqRepr/Model.v against EqRepr/Spec.v (equality part). *)
From Coq Require Import List ZArith Bool Arith Lia.
From SC Require Import Base.Res EqRepr.Model EqRepr.Spec.
Import ListNotations.

(* ================================================================== scalars *)
Lemma scalar_eqb_sym a b : scalar_eqb a b = scalar_eqb b a.
Proof.
  destruct a, b; simpl; try reflexivity; try apply Z.eqb_sym.
Qed.

Lemma scalar_eqb_trans a b c :
  scalar_eqb a b = true -> scalar_eqb b c = true -> scalar_eqb a c = true.
Proof.
  destruct a, b; simpl; try discriminate; destruct c; simpl; try discriminate;
    try (intros; reflexivity);
    intros H1 H2; apply Z.eqb_eq in H1; apply Z.eqb_eq in H2; apply Z.eqb_eq; congruence.
Qed.

Lemma scalar_eqb_congr k k2 k' :
  scalar_eqb k k2 = true -> scalar_eqb k k' = scalar_eqb k2 k'.
Proof.
  intro H. destruct (scalar_eqb k k') eqn:E1; destruct (scalar_eqb k2 k') eqn:E2; auto.
  - rewrite scalar_eqb_sym in H. rewrite (scalar_eqb_trans _ _ _ H E1) in E2. discriminate.
  - rewrite (scalar_eqb_trans _ _ _ H E2) in E1. discriminate.
Qed.

Definition kind (v : val) : nat :=
  match v with
  | VMeth _ _ => 1 | VTuple _ => 2 | VList _ => 3 | VDict _ => 4 | VInst _ _ => 5
  | _ => 0
  end.

Lemma scalar_eqb_kind a b : scalar_eqb a b = true -> kind a = 0 /\ kind b = 0.
Proof. destruct a, b; simpl; try discriminate; auto. Qed.

(* ================================================================== list helpers *)
Lemma forall2b_sym {A} (f : A -> A -> bool) l1 : forall l2,
  (forall x y, In x l1 -> f x y = f y x) -> forall2b f l1 l2 = forall2b f l2 l1.
Proof.
  induction l1 as [|x t IH]; intros [|y t2] H; simpl; auto.
  rewrite (H x y (or_introl eq_refl)). f_equal. apply IH. intros; apply H; right; auto.
Qed.

Lemma forall2b_trans {A} (f : A -> A -> bool) l1 : forall l2 l3,
  (forall x y z, In x l1 -> f x y = true -> f y z = true -> f x z = true) ->
  forall2b f l1 l2 = true -> forall2b f l2 l3 = true -> forall2b f l1 l3 = true.
Proof.
  induction l1 as [|x t IH]; intros [|y t2] [|z t3] H; simpl; try discriminate; auto.
  intros H1 H2. apply andb_true_iff in H1 as [A1 B1]. apply andb_true_iff in H2 as [A2 B2].
  apply andb_true_iff; split.
  - eapply H; eauto. left; auto.
  - eapply IH; eauto. intros; eapply H; eauto. right; auto.
Qed.

Lemma forall2b_refl {A} (f : A -> A -> bool) l :
  (forall x, In x l -> f x x = true) -> forall2b f l l = true.
Proof.
  induction l; simpl; auto. intro H. rewrite H by (left; auto). simpl.
  apply IHl. intros; apply H; right; auto.
Qed.

Lemma forall2b_length {A} (f : A -> A -> bool) l1 : forall l2,
  forall2b f l1 l2 = true -> length l1 = length l2.
Proof.
  induction l1; intros [|y t]; simpl; try discriminate; auto.
  intro H. apply andb_true_iff in H as [_ H]. f_equal; auto.
Qed.

(* ================================================================== dicts *)
Lemma dict_get_in k d v :
  dict_get k d = Some v -> exists k', In (k', v) d /\ scalar_eqb k k' = true.
Proof.
  induction d as [|[k' v'] t IH]; simpl; try discriminate.
  destruct (scalar_eqb k k') eqn:E.
  - intro H; inversion H; subst. exists k'; auto.
  - intro H. destruct (IH H) as [k2 [I E2]]. exists k2; auto.
Qed.

Lemma dict_get_congr k k2 d :
  scalar_eqb k k2 = true -> dict_get k d = dict_get k2 d.
Proof.
  intro H. induction d as [|[k' v'] t IH]; simpl; auto.
  rewrite (scalar_eqb_congr _ _ k' H). rewrite IH. reflexivity.
Qed.

Lemma dict_le_trans (f : val -> val -> bool) d1 d2 d3 :
  (forall k x y z, In (k, x) d1 -> f x y = true -> f y z = true -> f x z = true) ->
  dict_le f d1 d2 = true -> dict_le f d2 d3 = true -> dict_le f d1 d3 = true.
Proof.
  unfold dict_le. intros H H1 H2. rewrite forallb_forall in *.
  intros [k x] I. specialize (H1 _ I). simpl in *.
  destruct (dict_get k d2) as [y|] eqn:G; try discriminate.
  destruct (dict_get_in _ _ _ G) as [k2 [I2 E2]].
  specialize (H2 _ I2). simpl in H2.
  rewrite (dict_get_congr _ _ d3 E2).
  destruct (dict_get k2 d3) as [z|]; try discriminate.
  eapply H; eauto.
Qed.

(* is_key scalars: == is equality of normal forms *)
Lemma scalar_eqb_knorm a b :
  is_key a = true -> is_key b = true -> (scalar_eqb a b = true <-> knorm a = knorm b).
Proof.
  destruct a, b; simpl; try discriminate; intros _ _; split; intro H;
    try discriminate; try reflexivity;
    try (apply Z.eqb_eq in H; subst; reflexivity);
    try (inversion H; subst; apply Z.eqb_refl);
    try (destruct b; destruct b0; simpl in *; try discriminate; reflexivity);
    try (destruct b; simpl in *; try discriminate; reflexivity).
Qed.

Definition keys_ok (d : list (val * val)) : Prop :=
  Forall (fun kv => is_key (fst kv) = true) d /\ NoDup (map (fun kv => knorm (fst kv)) d).

Lemma keys_ok_tail kv d : keys_ok (kv :: d) -> keys_ok d.
Proof. intros [A B]. inversion A; inversion B; subst. split; auto. Qed.

(* with distinct keys, an entry of the dict is what dict_get finds under its key *)
Lemma dict_get_own d : keys_ok d -> forall k v, In (k, v) d -> dict_get k d = Some v.
Proof.
  induction d as [|[k' v'] t IH]; intros KO k v I; simpl in *; try tauto.
  destruct I as [I|I].
  - inversion I; subst. destruct KO as [A _]. inversion A; subst. simpl in *.
    assert (E : scalar_eqb k k = true) by (apply scalar_eqb_knorm; auto).
    rewrite E. reflexivity.
  - destruct (scalar_eqb k k') eqn:E.
    + exfalso. destruct KO as [A B]. inversion A; inversion B; subst. simpl in *.
      assert (Kk : is_key k = true).
      { rewrite Forall_forall in H2. apply (H2 (k, v)); auto. }
      apply scalar_eqb_knorm in E; auto.
      apply H5. rewrite <- E. apply (in_map (fun kv => knorm (fst kv)) t (k, v)); auto.
    + apply IH; auto. eapply keys_ok_tail; eauto.
Qed.

Lemma dict_le_keys_incl f d1 d2 :
  keys_ok d1 -> keys_ok d2 -> dict_le f d1 d2 = true ->
  incl (map (fun kv => knorm (fst kv)) d1) (map (fun kv => knorm (fst kv)) d2).
Proof.
  intros [K1 _] [K2 _] H x I. apply in_map_iff in I as [[k v] [E I]]. simpl in E; subst.
  unfold dict_le in H. rewrite forallb_forall in H. specialize (H _ I). simpl in H.
  destruct (dict_get k d2) as [v2|] eqn:G; try discriminate.
  destruct (dict_get_in _ _ _ G) as [k2 [I2 E2]].
  rewrite Forall_forall in K1, K2.
  apply scalar_eqb_knorm in E2; [| apply (K1 (k, v)); auto | apply (K2 (k2, v2)); auto].
  rewrite E2. apply (in_map (fun kv => knorm (fst kv)) d2 (k2, v2)); auto.
Qed.

(* CPython's dict_equal (same length + one-sided lookup) is the two-sided inclusion *)
Lemma dict_le_converse f d1 d2 :
  keys_ok d1 -> keys_ok d2 -> length d1 = length d2 ->
  (forall k x y, In (k, x) d1 -> f x y = f y x) ->
  dict_le f d1 d2 = true -> dict_le f d2 d1 = true.
Proof.
  intros K1 K2 L S H.
  assert (INC := dict_le_keys_incl f d1 d2 K1 K2 H).
  assert (INC2 : incl (map (fun kv => knorm (fst kv)) d2) (map (fun kv => knorm (fst kv)) d1)).
  { apply NoDup_length_incl; auto. apply K1. rewrite !map_length. lia. }
  unfold dict_le. rewrite forallb_forall. intros [k2 v2] I2. simpl.
  assert (IK : In (knorm k2) (map (fun kv => knorm (fst kv)) d1)).
  { apply INC2. apply (in_map (fun kv => knorm (fst kv)) d2 (k2, v2)); auto. }
  apply in_map_iff in IK as [[k1 v1] [E I1]]. simpl in E.
  destruct K1 as [K1a K1b]. destruct K2 as [K2a K2b].
  assert (Kk1 : is_key k1 = true) by (rewrite Forall_forall in K1a; apply (K1a (k1, v1)); auto).
  assert (Kk2 : is_key k2 = true) by (rewrite Forall_forall in K2a; apply (K2a (k2, v2)); auto).
  assert (E12 : scalar_eqb k1 k2 = true) by (apply scalar_eqb_knorm; auto).
  assert (G1 : dict_get k1 d1 = Some v1) by (apply dict_get_own; auto; split; auto).
  assert (G2 : dict_get k2 d2 = Some v2) by (apply dict_get_own; auto; split; auto).
  rewrite scalar_eqb_sym in E12.
  rewrite (dict_get_congr _ _ d1 E12), G1.
  unfold dict_le in H. rewrite forallb_forall in H. specialize (H _ I1). simpl in H.
  rewrite scalar_eqb_sym in E12.
  rewrite (dict_get_congr _ _ d2 E12), G2 in H.
  rewrite <- (S k1 v1 v2 I1). exact H.
Qed.

Lemma dict_le_both_length f d1 d2 :
  keys_ok d1 -> keys_ok d2 ->
  dict_le f d1 d2 = true -> dict_le f d2 d1 = true -> length d1 = length d2.
Proof.
  intros K1 K2 H1 H2.
  assert (A := dict_le_keys_incl f d1 d2 K1 K2 H1).
  assert (B := dict_le_keys_incl f d2 d1 K2 K1 H2).
  apply NoDup_incl_length in A; [| apply K1]. apply NoDup_incl_length in B; [| apply K2].
  rewrite !map_length in *. lia.
Qed.

Lemma dict_le_refl f d :
  keys_ok d -> (forall k v, In (k, v) d -> f v v = true) -> dict_le f d d = true.
Proof.
  intros K H. unfold dict_le. rewrite forallb_forall. intros [k v] I. simpl.
  rewrite (dict_get_own d K k v I). eapply H; eauto.
Qed.

(* ================================================================== laws of the specification *)
Lemma forallb_ext_in {A} (f g : A -> bool) l :
  (forall x, In x l -> f x = g x) -> forallb f l = forallb g l.
Proof.
  induction l; simpl; auto. intro H. rewrite H by (left; auto). f_equal.
  apply IHl; intros; apply H; right; auto.
Qed.

Lemma field_eqb_sym f u v : f u v = f v u -> field_eqb f u v = field_eqb f v u.
Proof. destruct u, v; simpl; auto; intros; apply Z.eqb_sym. Qed.

Lemma field_eqb_meth_l f g s v :
  field_eqb f (VMeth g s) v = match v with VMeth g' _ => Z.eqb g g' | _ => f (VMeth g s) v end.
Proof. destruct v; reflexivity. Qed.

Section Laws.
  Variable ct : ctable.

  Lemma spec_sym n : forall a b, spec_eqb ct n a b = spec_eqb ct n b a.
  Proof.
    induction n as [|n IH]; intros a b; [reflexivity|].
    destruct a, b; simpl; try reflexivity; try apply Z.eqb_sym.
    - rewrite Z.eqb_sym. destruct self, self0; reflexivity.
    - apply forall2b_sym; intros; apply IH.
    - apply forall2b_sym; intros; apply IH.
    - apply andb_comm.
    - destruct (Nat.eqb_spec c c0) as [E|E].
      + subst. rewrite Nat.eqb_refl. simpl. apply forallb_ext_in. intros a _.
        f_equal. apply field_eqb_sym. apply IH.
      + destruct (Nat.eqb_spec c0 c); [congruence | reflexivity].
  Qed.

  Lemma spec_kind n a b : spec_eqb ct n a b = true -> kind a = kind b.
  Proof.
    destruct n; [discriminate|].
    destruct a, b; simpl; try discriminate; auto.
  Qed.

  Lemma field_eqb_trans n u v w :
    (forall x y z, spec_eqb ct n x y = true -> spec_eqb ct n y z = true -> spec_eqb ct n x z = true) ->
    field_eqb (spec_eqb ct n) u v = true -> field_eqb (spec_eqb ct n) v w = true ->
    field_eqb (spec_eqb ct n) u w = true.
  Proof.
    intros T H1 H2.
    destruct (kind u =? 1) eqn:Ku.
    - (* u is a method *)
      destruct u; try discriminate.
      rewrite field_eqb_meth_l in H1.
      destruct v; try (apply spec_kind in H1; discriminate).
      rewrite field_eqb_meth_l in H2. rewrite field_eqb_meth_l.
      destruct w; try (apply spec_kind in H2; discriminate).
      apply Z.eqb_eq in H1, H2. apply Z.eqb_eq. congruence.
    - assert (Kv : kind v <> 1).
      { intro K. destruct v; try discriminate.
        destruct u; simpl in H1; try discriminate; try (apply spec_kind in H1; discriminate). }
      assert (E1 : field_eqb (spec_eqb ct n) u v = spec_eqb ct n u v).
      { destruct u; try discriminate; reflexivity. }
      assert (Kw : kind w <> 1).
      { intro K. destruct w; try discriminate.
        destruct v; simpl in H2; try discriminate; try (apply spec_kind in H2; discriminate);
          simpl in Kv; congruence. }
      assert (E2 : field_eqb (spec_eqb ct n) v w = spec_eqb ct n v w).
      { destruct v; try reflexivity. simpl in Kv; congruence. }
      assert (E3 : field_eqb (spec_eqb ct n) u w = spec_eqb ct n u w).
      { destruct u; try discriminate; reflexivity. }
      rewrite E1 in H1. rewrite E2 in H2. rewrite E3. eapply T; eauto.
  Qed.

  Lemma spec_trans n : forall a b c,
    spec_eqb ct n a b = true -> spec_eqb ct n b c = true -> spec_eqb ct n a c = true.
  Proof.
    induction n as [|n IH]; intros a b c H1 H2; [discriminate|].
    assert (K1 := spec_kind _ _ _ H1). assert (K2 := spec_kind _ _ _ H2).
    destruct a; destruct b; try discriminate; destruct c; try discriminate;
      simpl in H1, H2 |- *; try reflexivity; try discriminate;
      try (apply Z.eqb_eq in H1; apply Z.eqb_eq in H2; apply Z.eqb_eq; congruence).
    - (* methods *)
      apply andb_true_iff in H1 as [A1 B1]. apply andb_true_iff in H2 as [A2 B2].
      apply Z.eqb_eq in A1, A2. apply eqb_prop in B1, B2. subst.
      rewrite Z.eqb_refl. destruct self1; reflexivity.
    - eapply forall2b_trans; eauto.
    - eapply forall2b_trans; eauto.
    - apply andb_true_iff in H1 as [A1 B1]. apply andb_true_iff in H2 as [A2 B2].
      apply andb_true_iff; split.
      + eapply dict_le_trans; [| exact A1 | exact A2]. intros; eapply IH; eauto.
      + eapply dict_le_trans; [| exact B2 | exact B1]. intros; eapply IH; eauto.
    - apply andb_true_iff in H1 as [A1 B1]. apply andb_true_iff in H2 as [A2 B2].
      apply Nat.eqb_eq in A1, A2. subst. rewrite Nat.eqb_refl. simpl.
      rewrite forallb_forall in *. intros a I. specialize (B1 a I). specialize (B2 a I).
      destruct (a_compare a); simpl in *; auto.
      eapply field_eqb_trans; eauto.
  Qed.
End Laws.

(* ================================================================== sizes, getattr *)
Lemma size_pos v : 1 <= size v.
Proof. destruct v; simpl; lia. Qed.

Lemma size_in_sum l x : In x l -> size x <= fold_right (fun x acc => size x + acc) 0 l.
Proof. induction l; simpl; intros []; subst; try lia. specialize (IHl H). lia. Qed.

Lemma size_in_list l x : In x l -> size x < size (VList l).
Proof. intro I. apply size_in_sum in I. simpl. lia. Qed.

Lemma size_in_tuple l x : In x l -> size x < size (VTuple l).
Proof. intro I. apply size_in_sum in I. simpl. lia. Qed.

Lemma size_in_dict d k v : In (k, v) d -> size k + size v < size (VDict d).
Proof.
  simpl. induction d as [|[k' v'] t IH]; simpl; intros []; try lia.
  - inversion H; subst. lia.
  - specialize (IH H). lia.
Qed.

Lemma size_in_inst c d x v : In (x, v) d -> size v + 2 < size (VInst c d).
Proof.
  simpl. induction d as [|[x' v'] t IH]; simpl; intros []; try lia.
  - inversion H; subst. lia.
  - specialize (IH H). lia.
Qed.

Lemma lookup_in x d v : lookup x d = Some v -> In (x, v) d.
Proof.
  induction d as [|[y w] t IH]; simpl; try discriminate.
  destruct (Nat.eqb_spec x y); intro H.
  - inversion H; subst. left; auto.
  - right; auto.
Qed.

Lemma find_attr_in x l a : find_attr x l = Some a -> In a l /\ a_name a = x.
Proof.
  induction l as [|b t IH]; simpl; try discriminate.
  destruct (Nat.eqb_spec x (a_name b)); intro H.
  - inversion H; subst. auto.
  - destruct (IH H); auto.
Qed.

Lemma is_key_wf v : is_key v = true -> wf v.
Proof. destruct v; simpl; try discriminate; constructor. Qed.

Lemma is_key_size v : is_key v = true -> size v = 1.
Proof. destruct v; simpl; try discriminate; reflexivity. Qed.

Section GetAttr.
  Variable ct : ctable.
  Hypothesis CT : wf_ct ct.

  Lemma cls_attr_cases c x :
    cls_attr ct c x = VMissing \/ (exists f, cls_attr ct c x = VMeth f true) \/
    is_key (cls_attr ct c x) = true.
  Proof.
    unfold cls_attr. destruct (find_attr x (c_attrs (ct c))) as [a|] eqn:F; auto.
    destruct (a_cls a) as [[f|v]|] eqn:E; auto.
    - right; left; eauto.
    - right; right. apply find_attr_in in F as [I _].
      destruct (CT c) as [_ [_ [H _]]]. eapply H; eauto.
  Qed.

  Lemma cls_attr_size c x : size (cls_attr ct c x) = 1.
  Proof.
    destruct (cls_attr_cases c x) as [H|[[f H]|H]]; try rewrite H; auto.
    apply is_key_size; auto.
  Qed.

  Lemma cls_attr_wf c x : wf_field (cls_attr ct c x).
  Proof.
    destruct (cls_attr_cases c x) as [H|[[f H]|H]]; unfold wf_field.
    - auto.
    - rewrite H; auto.
    - right; right; apply is_key_wf; auto.
  Qed.

  Lemma getattr_size c d x : size (getattr ct c d x) < size (VInst c d).
  Proof.
    unfold getattr. destruct (lookup x d) eqn:L.
    - apply lookup_in in L. apply (size_in_inst c) in L. lia.
    - rewrite cls_attr_size. simpl. lia.
  Qed.

  Lemma getattr_wf c d x : wf (VInst c d) -> wf_field (getattr ct c d x).
  Proof.
    intro W. unfold getattr. destruct (lookup x d) eqn:L.
    - apply lookup_in in L. inversion W as [| | | | | | | | c0 d0 H1]; subst. rewrite Forall_forall in H1.
      specialize (H1 _ L). simpl in H1. unfold wf_field. tauto.
    - apply cls_attr_wf.
  Qed.

  (* -------------------------------------------------------------- reflexivity *)
  Lemma spec_refl n : forall a, wf_field a -> size a + size a < n -> spec_eqb ct n a a = true.
  Proof.
    induction n as [|n IH]; intros a W S; [lia|].
    destruct W as [W|[W|W]].
    - subst; reflexivity.
    - destruct a; try discriminate. simpl. rewrite Z.eqb_refl. destruct self; reflexivity.
    - destruct a; inversion W; subst; simpl; try reflexivity; try apply Z.eqb_refl.
      + apply forall2b_refl. intros x I. apply IH.
        * right; right. rewrite Forall_forall in H0; auto.
        * apply size_in_tuple in I. lia.
      + apply forall2b_refl. intros x I. apply IH.
        * right; right. rewrite Forall_forall in H0; auto.
        * apply size_in_list in I. lia.
      + assert (KO : keys_ok kvs).
        { split; auto. rewrite Forall_forall in *. intros kv I. apply H0; auto. }
        assert (R : dict_le (spec_eqb ct n) kvs kvs = true).
        { apply dict_le_refl; auto. intros k v I. apply IH.
          - right; right. rewrite Forall_forall in H0. apply (H0 (k, v)); auto.
          - apply size_in_dict in I. lia. }
        rewrite R. reflexivity.
      + rewrite Nat.eqb_refl. simpl. apply forallb_forall. intros a _.
        destruct (a_compare a); simpl; auto.
        assert (Wg := getattr_wf c d (a_name a) W).
        assert (Sg := getattr_size c d (a_name a)).
        remember (getattr ct c d (a_name a)) as u.
        assert (R : spec_eqb ct n u u = true) by (apply IH; auto; lia).
        destruct u; simpl; auto. apply Z.eqb_refl.
  Qed.
End GetAttr.

(* ================================================================== the model is total on trees *)
Definition func_of (v : val) : Z := match v with VMeth f _ => f | _ => 0%Z end.

Lemma field_eqb_cases g u v :
  field_eqb g u v = if is_meth u && is_meth v then Z.eqb (func_of u) (func_of v) else g u v.
Proof. destruct u, v; reflexivity. Qed.

Section ModelSpec.
  Variable ct : ctable.
  Hypothesis CT : wf_ct ct.

  Lemma eq_loop_step fx nef cs ds co dx a t :
    eq_loop ct fx nef cs ds co dx (a :: t) =
    if negb (a_compare a) then eq_loop ct fx nef cs ds co dx t
    else let vs := getattr ct cs ds (a_name a) in
         let vo := getattr ct co dx (a_name a) in
         if is_meth vs && is_meth vo
         then (if fx then if Z.eqb (func_of vs) (func_of vo) then eq_loop ct fx nef cs ds co dx t else Ok false
               else Ok (Z.eqb (func_of vs) (func_of vo)))
         else bindr (nef vs vo) (fun ne => if ne then Ok false else eq_loop ct fx nef cs ds co dx t).
  Proof.
    simpl. destruct (negb (a_compare a)); auto.
    destruct (getattr ct cs ds (a_name a)), (getattr ct co dx (a_name a)); reflexivity.
  Qed.

  Lemma all2M_ok eqf l1 : forall l2,
    (forall x y, In x l1 -> In y l2 -> exists r, eqf x y = Ok r) ->
    exists r, all2M eqf l1 l2 = Ok r.
  Proof.
    induction l1 as [|x t IH]; intros [|y t2] H; simpl; eauto.
    destruct (H x y) as [r E]; simpl; auto. rewrite E. simpl. destruct r; eauto.
    apply IH. intros; apply H; simpl; auto.
  Qed.

  Lemma dict_sub_ok eqf d1 d2 :
    (forall k v v2, In (k, v) d1 -> dict_get k d2 = Some v2 -> exists r, eqf v v2 = Ok r) ->
    exists r, dict_sub eqf d1 d2 = Ok r.
  Proof.
    induction d1 as [|[k v] t IH]; intro H; simpl; eauto.
    destruct (dict_get k d2) as [v2|] eqn:G; eauto.
    destruct (H k v v2) as [r E]; simpl; auto. rewrite E. simpl. destruct r; eauto.
    apply IH. intros; eapply H; simpl; eauto.
  Qed.

  Lemma eq_loop_ok fx nef cs ds co dx attrs :
    (forall x, exists r, nef (getattr ct cs ds x) (getattr ct co dx x) = Ok r) ->
    exists r, eq_loop ct fx nef cs ds co dx attrs = Ok r.
  Proof.
    intro H. induction attrs as [|a t IH]; [simpl; eauto|].
    rewrite eq_loop_step. destruct (negb (a_compare a)); auto. cbv zeta.
    destruct (is_meth _ && is_meth _).
    - destruct fx; eauto. destruct (Z.eqb _ _); eauto.
    - destruct (H (a_name a)) as [r E]. rewrite E. simpl. destruct r; eauto.
  Qed.

  Lemma inst_eq_with_ok fx nef cs ds b :
    (forall co dx x, b = VInst co dx ->
                     exists r, nef (getattr ct cs ds x) (getattr ct co dx x) = Ok r) ->
    exists r, inst_eq_with ct fx nef cs ds b = Ok r.
  Proof.
    intro H. unfold inst_eq_with. destruct (isinstance ct b cs); eauto.
    destruct b; eauto. apply eq_loop_ok. intros; eapply H; eauto.
  Qed.

  Lemma enough fx n : forall a b, size a + size b < n -> exists r, val_eq ct fx n a b = Ok r.
  Proof.
    induction n as [|n IH]; intros a b S; [lia|].
    assert (NE : forall cs ds co dx x,
               size (VInst cs ds) + size (VInst co dx) <= size a + size b ->
               exists r, bindr (val_eq ct fx n (getattr ct cs ds x) (getattr ct co dx x))
                               (fun r => Ok (negb r)) = Ok r).
    { intros. assert (A := getattr_size ct CT cs ds x). assert (B := getattr_size ct CT co dx x).
      destruct (IH (getattr ct cs ds x) (getattr ct co dx x)) as [r E]; [lia|].
      rewrite E. simpl. eauto. }
    destruct a, b; simpl; eauto;
      try (apply inst_eq_with_ok; intros; discriminate).
    - apply all2M_ok. intros x y Ix Iy. apply IH.
      apply size_in_tuple in Ix, Iy. lia.
    - destruct (Nat.eqb _ _); eauto. apply all2M_ok. intros x y Ix Iy. apply IH.
      apply size_in_list in Ix, Iy. lia.
    - destruct (Nat.eqb _ _); eauto. apply dict_sub_ok. intros k v v2 I G. apply IH.
      apply dict_get_in in G as [k2 [I2 _]].
      apply size_in_dict in I, I2. lia.
    - destruct (negb (c =? c0) && is_sub ct c0 c).
      + apply inst_eq_with_ok. intros co dx x E. inversion E; subst. apply NE. lia.
      + apply inst_eq_with_ok. intros co dx x E. inversion E; subst. apply NE. lia.
  Qed.

  (* ================================================================ the model computes the specification *)
  Lemma all2M_spec eqf g l1 : forall l2 r,
    (forall x y q, In x l1 -> In y l2 -> eqf x y = Ok q -> q = g x y) ->
    all2M eqf l1 l2 = Ok r -> r = forall2b g l1 l2.
  Proof.
    induction l1 as [|x t IH]; intros [|y t2] r H E; simpl in *;
      try (inversion E; reflexivity).
    destruct (eqf x y) as [q|] eqn:Q; simpl in E; try discriminate.
    rewrite <- (H x y q); auto. destruct q; simpl.
    - apply IH; auto; intros; eapply H; simpl; eauto.
    - inversion E; reflexivity.
  Qed.

  Lemma dict_sub_spec eqf g d1 d2 : forall r,
    (forall k v v2 q, In (k, v) d1 -> dict_get k d2 = Some v2 -> eqf v v2 = Ok q -> q = g v v2) ->
    dict_sub eqf d1 d2 = Ok r -> r = dict_le g d1 d2.
  Proof.
    induction d1 as [|[k v] t IH]; intros r H E; simpl in *; try (inversion E; reflexivity).
    destruct (dict_get k d2) as [v2|] eqn:G; try (inversion E; reflexivity).
    destruct (eqf v v2) as [q|] eqn:Q; simpl in E; try discriminate.
    rewrite <- (H k v v2 q); auto. destruct q; simpl.
    - apply IH; auto; intros; eapply H; simpl; eauto.
    - inversion E; reflexivity.
  Qed.

  Lemma eq_loop_spec nef g cs ds co dx attrs : forall r,
    (forall x q, nef (getattr ct cs ds x) (getattr ct co dx x) = Ok q ->
                 q = negb (g (getattr ct cs ds x) (getattr ct co dx x))) ->
    eq_loop ct true nef cs ds co dx attrs = Ok r ->
    r = forallb (fun a => negb (a_compare a) ||
                          field_eqb g (getattr ct cs ds (a_name a)) (getattr ct co dx (a_name a))) attrs.
  Proof.
    intros r H. induction attrs as [|a t IH]; intro E; [inversion E; reflexivity|].
    rewrite eq_loop_step in E. simpl forallb.
    destruct (negb (a_compare a)); simpl; auto. cbv zeta in E.
    rewrite field_eqb_cases.
    destruct (is_meth _ && is_meth _).
    - destruct (Z.eqb _ _); simpl; auto. inversion E; reflexivity.
    - destruct (nef _ _) as [q|] eqn:Q; simpl in E; try discriminate.
      apply H in Q. subst q.
      destruct (g _ _); simpl in *; auto. inversion E; reflexivity.
  Qed.

  Lemma is_sub_antisym c c' : c <> c' -> is_sub ct c c' = true -> is_sub ct c' c = false.
  Proof.
    intros NE H. unfold is_sub in *.
    destruct (Nat.eqb_spec c c'); [congruence|]. destruct (Nat.eqb_spec c' c); [congruence|].
    simpl in *. apply existsb_exists in H as [x [I E]]. apply Nat.eqb_eq in E; subst x.
    destruct (existsb (Nat.eqb c) (c_anc (ct c'))) eqn:X; auto.
    apply existsb_exists in X as [x [I2 E2]]. apply Nat.eqb_eq in E2; subst x.
    destruct (CT c) as [A _]. destruct (CT c') as [B _].
    apply A in I. apply B in I2. lia.
  Qed.

  Lemma wf_of_field v : 2 <= kind v -> wf_field v -> wf v.
  Proof. intros K [H|[H|H]]; auto; destruct v; simpl in *; try discriminate; lia. Qed.

  Lemma wf_dict_keys d : wf (VDict d) -> keys_ok d.
  Proof.
    intro W. inversion W; subst. split; auto.
    rewrite Forall_forall in *. intros kv I. apply H0; auto.
  Qed.

  Lemma model_spec n : forall a b r,
    wf_field a -> wf_field b -> val_eq ct true n a b = Ok r -> r = spec_eqb ct n a b.
  Proof.
    induction n as [|n IH]; intros a b r Wa Wb E; [discriminate|].
    assert (NE : forall cs ds co dx x q,
               wf (VInst cs ds) -> wf (VInst co dx) ->
               bindr (val_eq ct true n (getattr ct cs ds x) (getattr ct co dx x))
                     (fun r => Ok (negb r)) = Ok q ->
               q = negb (spec_eqb ct n (getattr ct cs ds x) (getattr ct co dx x))).
    { intros cs ds co dx x q W1 W2 Q.
      destruct (val_eq ct true n _ _) as [q'|] eqn:Q'; simpl in Q; try discriminate.
      inversion Q; subst. f_equal. apply IH; auto; apply getattr_wf; auto. }
    destruct a, b; simpl in E |- *;
      try (inversion E; reflexivity);
      try (unfold inst_eq_with in E; simpl in E; inversion E; reflexivity).
    - (* tuples *)
      apply wf_of_field in Wa, Wb; simpl; try lia. inversion Wa; inversion Wb; subst.
      rewrite Forall_forall in *.
      eapply all2M_spec; [|exact E]. intros x y q Ix Iy Q. apply IH; auto; right; right; auto.
    - (* lists *)
      apply wf_of_field in Wa, Wb; simpl; try lia. inversion Wa; inversion Wb; subst.
      rewrite Forall_forall in *.
      destruct (Nat.eqb_spec (length l) (length l0)) as [L|L].
      + eapply all2M_spec; [|exact E]. intros x y q Ix Iy Q. apply IH; auto; right; right; auto.
      + inversion E; subst. destruct (forall2b _ l l0) eqn:F; auto.
        apply forall2b_length in F. congruence.
    - (* dicts *)
      apply wf_of_field in Wa, Wb; simpl; try lia.
      assert (K1 := wf_dict_keys _ Wa). assert (K2 := wf_dict_keys _ Wb).
      inversion Wa as [| | | | | | | d1 F1 N1 |]; inversion Wb as [| | | | | | | d2 F2 N2 |]; subst.
      rewrite Forall_forall in F1, F2.
      destruct (Nat.eqb_spec (length kvs) (length kvs0)) as [L|L].
      + assert (R : r = dict_le (spec_eqb ct n) kvs kvs0).
        { eapply dict_sub_spec; [|exact E]. intros k v v2 q I G Q.
          apply dict_get_in in G as [k2 [I2 _]].
          apply IH; auto; right; right.
          - apply (F1 (k, v)); auto.
          - apply (F2 (k2, v2)); auto. }
        subst r. destruct (dict_le (spec_eqb ct n) kvs kvs0) eqn:D; auto. simpl.
        symmetry. apply dict_le_converse; auto. intros; apply spec_sym.
      + inversion E; subst.
        destruct (dict_le (spec_eqb ct n) kvs kvs0) eqn:D1; auto.
        destruct (dict_le (spec_eqb ct n) kvs0 kvs) eqn:D2; auto.
        exfalso. apply L. eapply dict_le_both_length; eauto.
    - (* instances *)
      apply wf_of_field in Wa, Wb; simpl; try lia.
      destruct (Nat.eqb_spec c c0) as [EQ|NEQ]; simpl in E.
      + subst c0. unfold inst_eq_with in E. simpl in E.
        unfold is_sub in E. rewrite Nat.eqb_refl in E. simpl in E.
        eapply eq_loop_spec; [|exact E]. intros x q Q. eapply NE; eauto.
      + destruct (is_sub ct c0 c) eqn:SUB.
        * unfold inst_eq_with in E. simpl in E.
          rewrite is_sub_antisym in E; auto. inversion E; reflexivity.
        * unfold inst_eq_with in E. simpl in E. rewrite SUB in E. inversion E; reflexivity.
  Qed.

  (* on trees, with enough fuel, == is exactly the specification *)
  Theorem val_eq_spec n a b :
    wf_field a -> wf_field b -> size a + size b < n ->
    val_eq ct true n a b = Ok (spec_eqb ct n a b).
  Proof.
    intros Wa Wb S. destruct (enough true n a b S) as [r E].
    rewrite E. f_equal. apply model_spec; auto.
  Qed.
End ModelSpec.

(* ================================================================== the property theorems (equality) *)
Lemma map_id_in {A} (f : A -> A) l : (forall x, In x l -> f x = x) -> map f l = l.
Proof.
  induction l; simpl; auto. intro H. rewrite H by (left; auto). f_equal.
  apply IHl; intros; apply H; right; auto.
Qed.

Lemma flat_map_single_in {A} (f : A -> list A) l : (forall x, In x l -> f x = [x]) -> flat_map f l = l.
Proof.
  induction l; simpl; auto. intro H. rewrite H by (left; auto). simpl. f_equal.
  apply IHl; intros; apply H; right; auto.
Qed.

Definition collect (G : attr -> option val) (l : list attr) : list (aid * val) :=
  flat_map (fun a => match G a with Some v => [(a_name a, v)] | None => [] end) l.

Lemma lookup_collect_none G l x : ~ In x (map a_name l) -> lookup x (collect G l) = None.
Proof.
  induction l as [|b t IH]; simpl; auto. intro N.
  destruct (G b); simpl.
  - destruct (Nat.eqb_spec x (a_name b)); [exfalso; apply N; auto|]. apply IH; tauto.
  - apply IH; tauto.
Qed.

Lemma lookup_collect G l a :
  NoDup (map a_name l) -> In a l -> lookup (a_name a) (collect G l) = G a.
Proof.
  induction l as [|b t IH]; simpl; [tauto|]. intros ND [E|I].
  - subst b. inversion ND; subst. destruct (G a); simpl.
    + rewrite Nat.eqb_refl. reflexivity.
    + apply lookup_collect_none; auto.
  - inversion ND; subst.
    assert (NE : a_name a <> a_name b).
    { intro E. apply H1. rewrite <- E. apply in_map; auto. }
    destruct (G b); simpl.
    + destruct (Nat.eqb_spec (a_name a) (a_name b)); [congruence|]. apply IH; auto.
    + apply IH; auto.
Qed.

Section Theorems.
  Variable ct : ctable.
  Hypothesis CT : wf_ct ct.

  Theorem py_eq_total n a b : size a + size b < n -> exists r, py_eq ct n a b = Ok r.
  Proof. apply enough; auto. Qed.

  Theorem py_eq_refl n a : wf_field a -> size a + size a < n -> py_eq ct n a a = Ok true.
  Proof.
    intros W S. unfold py_eq. rewrite val_eq_spec; auto. f_equal. apply spec_refl; auto.
  Qed.

  Theorem py_eq_sym n a b :
    wf_field a -> wf_field b -> size a + size b < n -> py_eq ct n a b = py_eq ct n b a.
  Proof.
    intros Wa Wb S. unfold py_eq. rewrite !val_eq_spec; auto; try lia. f_equal. apply spec_sym.
  Qed.

  Theorem py_eq_trans n a b c :
    wf_field a -> wf_field b -> wf_field c ->
    size a + size b < n -> size b + size c < n -> size a + size c < n ->
    py_eq ct n a b = Ok true -> py_eq ct n b c = Ok true -> py_eq ct n a c = Ok true.
  Proof.
    intros Wa Wb Wc S1 S2 S3. unfold py_eq. rewrite !val_eq_spec; auto.
    intros H1 H2. inversion H1 as [E1]. inversion H2 as [E2]. f_equal.
    rewrite E1. eapply spec_trans; eauto.
  Qed.

  Theorem ne_negates_eq n a b r : py_eq ct n a b = Ok r -> py_ne ct n a b = Ok (negb r).
  Proof. unfold py_eq, py_ne, val_ne. intro H; rewrite H; reflexivity. Qed.

  Theorem eq_meets_spec n a b :
    wf_field a -> wf_field b -> size a + size b < n -> py_eq ct n a b = Ok (spec_eqb ct n a b).
  Proof. intros; apply val_eq_spec; auto. Qed.

  Lemma field_eq_iff n u v :
    wf_field u -> wf_field v -> size u + size v < n ->
    (field_eqb (spec_eqb ct n) u v = true <-> field_eq ct n u v).
  Proof.
    intros Wu Wv S.
    assert (G : spec_eqb ct n u v = true <-> py_eq ct n u v = Ok true).
    { unfold py_eq. rewrite val_eq_spec; auto. split; intro H; [rewrite H; auto | inversion H; auto]. }
    destruct u; try exact G. destruct v; try exact G.
    simpl. apply Z.eqb_eq.
  Qed.

  Theorem eq_iff_attrs n c1 d1 c2 d2 :
    wf (VInst c1 d1) -> wf (VInst c2 d2) ->
    size (VInst c1 d1) + size (VInst c2 d2) < S n ->
    (py_eq ct (S n) (VInst c1 d1) (VInst c2 d2) = Ok true <->
     same_class (VInst c1 d1) (VInst c2 d2) /\
     forall a, In a (c_attrs (ct c1)) -> a_compare a = true ->
               field_eq ct n (getattr ct c1 d1 (a_name a)) (getattr ct c2 d2 (a_name a))).
  Proof.
    intros W1 W2 S. unfold py_eq. rewrite val_eq_spec; auto; try (right; right; auto).
    assert (FE : forall a, field_eqb (spec_eqb ct n) (getattr ct c1 d1 (a_name a)) (getattr ct c2 d2 (a_name a)) = true
                           <-> field_eq ct n (getattr ct c1 d1 (a_name a)) (getattr ct c2 d2 (a_name a))).
    { intro a. apply field_eq_iff; try (apply getattr_wf; auto).
      assert (A := getattr_size ct CT c1 d1 (a_name a)).
      assert (B := getattr_size ct CT c2 d2 (a_name a)). lia. }
    simpl spec_eqb. simpl same_class. split.
    - intro H. injection H as H'. apply andb_true_iff in H' as [E F].
      apply Nat.eqb_eq in E. split; auto. intros a I C.
      rewrite forallb_forall in F. specialize (F a I). rewrite C in F. simpl in F.
      apply FE; auto.
    - intros [E F]. f_equal. apply andb_true_iff. split; [apply Nat.eqb_eq; auto|].
      apply forallb_forall. intros a I. destruct (a_compare a) eqn:C; simpl; auto.
      apply FE; auto.
  Qed.

  Theorem missing_only_missing n v :
    py_eq ct (S n) VMissing v = Ok true <-> v = VMissing.
  Proof.
    split.
    - destruct v; simpl; try discriminate; auto.
    - intro; subst; reflexivity.
  Qed.

  (* instances of different classes (also of a class and its subclass) are never equal *)
  Theorem eq_same_class n c1 d1 c2 d2 :
    py_eq ct n (VInst c1 d1) (VInst c2 d2) = Ok true -> c1 = c2.
  Proof.
    destruct n; [discriminate|]. simpl.
    destruct (Nat.eqb_spec c1 c2); auto. simpl.
    destruct (is_sub ct c2 c1) eqn:SUB; unfold inst_eq_with; simpl.
    - rewrite is_sub_antisym; auto. discriminate.
    - rewrite SUB. discriminate.
  Qed.

  (* ---------------------------------------------------------------- deepcopy *)
  Lemma dc_id k : forall v, size v < k -> deepcopy ct v = v.
  Proof.
    unfold deepcopy. induction k as [|k IH]; intros v S; [lia|].
    destruct v; simpl; auto.
    - f_equal. apply map_id_in. intros x I. apply IH. apply size_in_tuple in I. lia.
    - f_equal. apply map_id_in. intros x I. apply IH. apply size_in_list in I. lia.
    - f_equal. apply map_id_in. intros [k0 v] I. apply size_in_dict in I. simpl.
      rewrite !IH by lia. reflexivity.
    - destruct (c_dnc (ct c)); auto. f_equal.
      apply flat_map_single_in. intros [x v] I. simpl.
      destruct (is_self_meth v); auto. destruct (attr_dnc ct c x); auto.
      apply (size_in_inst c) in I. rewrite IH by lia. reflexivity.
  Qed.

  Theorem deepcopy_eq n x :
    wf_field x -> size (deepcopy ct x) + size x < n -> py_eq ct n (deepcopy ct x) x = Ok true.
  Proof.
    intros W SZ. rewrite (dc_id (S (size x))) in * by lia. apply py_eq_refl; auto.
  Qed.

  (* ---------------------------------------------------------------- re-construction *)
  Definition is_missing (v : val) : bool := match v with VMissing => true | _ => false end.

  Definition G1 c d (a : attr) : option val :=
    if a_init a then
      if is_missing (getattr ct c d (a_name a)) then None
      else Some (as_arg (getattr ct c d (a_name a)))
    else None.

  Definition G2 kw (a : attr) : option val :=
    if a_init a then
      match lookup (a_name a) kw with
      | None => a_default a
      | Some v => if is_missing v then a_default a
                  else Some (if a_dnc a then v else deepcopy ct v)
      end
    else None.

  Lemma own_kwargs_collect c d : own_kwargs ct c d = collect (G1 c d) (c_attrs (ct c)).
  Proof.
    unfold own_kwargs, collect. apply flat_map_ext. intro a. unfold G1.
    destruct (a_init a); auto. destruct (getattr ct c d (a_name a)); reflexivity.
  Qed.

  Lemma construct_collect c kw : construct ct c kw = VInst c (collect (G2 kw) (c_attrs (ct c))).
  Proof.
    unfold construct, collect. f_equal. apply flat_map_ext. intro a. unfold G2.
    destruct (a_init a); auto. destruct (lookup (a_name a) kw) as [v|]; auto.
    destruct v; simpl; reflexivity.
  Qed.

  Lemma as_arg_wf v : wf_field v -> wf_field (as_arg v).
  Proof. destruct v; simpl; auto. destruct self; auto. intros _. right; left; reflexivity. Qed.

  Lemma field_refl n u : wf_field u -> size u + size u < n -> field_eqb (spec_eqb ct n) u u = true.
  Proof.
    intros W S. rewrite field_eqb_cases. destruct (is_meth u && is_meth u).
    - apply Z.eqb_refl.
    - apply spec_refl; auto.
  Qed.

  Lemma as_arg_size v : size (as_arg v) = size v.
  Proof. destruct v; simpl; auto. destruct self; auto. Qed.

  Lemma field_as_arg n u :
    wf_field u -> size u + size u < n -> field_eqb (spec_eqb ct n) (as_arg u) u = true.
  Proof.
    intros W S. destruct u; try (apply field_refl; auto).
    destruct self; simpl; apply Z.eqb_refl.
  Qed.

  (* attributes that the constructor does not set must not have been assigned on x;
     an attribute that is missing on x must not have a default *)
  Definition rebuildable (c : cid) (d : list (aid * val)) : Prop :=
    forall a, In a (c_attrs (ct c)) -> a_compare a = true ->
      (a_init a = false -> lookup (a_name a) d = None) /\
      (a_init a = true -> getattr ct c d (a_name a) = VMissing -> a_default a = None).

  Lemma stored_not_missing c d x : wf (VInst c d) -> lookup x d <> Some VMissing.
  Proof.
    intros W L. apply lookup_in in L. inversion W as [| | | | | | | | c0 d0 F]; subst.
    rewrite Forall_forall in F. specialize (F _ L). simpl in F. destruct F as [F|F]; [discriminate|inversion F].
  Qed.

  Lemma rebuild_fields n c d :
    wf (VInst c d) -> rebuildable c d -> size (VInst c d) + size (VInst c d) < S n ->
    forall a, In a (c_attrs (ct c)) -> a_compare a = true ->
      match rebuild ct (VInst c d) with
      | VInst c' d' => c' = c /\
          field_eqb (spec_eqb ct n) (getattr ct c d' (a_name a)) (getattr ct c d (a_name a)) = true
      | _ => False
      end.
  Proof.
    intros W R SZ a I C. unfold rebuild. rewrite construct_collect. split; auto.
    destruct (CT c) as [_ [ND _]].
    destruct (R a I C) as [R1 R2].
    assert (Wu := getattr_wf ct CT c d (a_name a) W).
    assert (Su := getattr_size ct CT c d (a_name a)).
    unfold getattr at 1. rewrite lookup_collect; auto.
    unfold G2. rewrite own_kwargs_collect, lookup_collect; auto. unfold G1.
    destruct (a_init a) eqn:IN.
    - remember (getattr ct c d (a_name a)) as u.
      destruct (is_missing u) eqn:M.
      + destruct u; try discriminate. rewrite (R2 eq_refl eq_refl).
        (* both sides read the class *)
        assert (L : lookup (a_name a) d = None).
        { destruct (lookup (a_name a) d) eqn:L; auto. exfalso.
          unfold getattr in Hequ. rewrite L in Hequ. subst v.
          eapply stored_not_missing; eauto. }
        unfold getattr in Hequ. rewrite L in Hequ. rewrite <- Hequ.
        apply field_refl; [left; auto | simpl in *; lia].
      + assert (M' : is_missing (as_arg u) = false).
        { destruct u; try discriminate; auto. destruct self; auto. }
        rewrite M'.
        assert (D : (if a_dnc a then as_arg u else deepcopy ct (as_arg u)) = as_arg u).
        { destruct (a_dnc a); auto. apply (dc_id (S (size (as_arg u)))). lia. }
        rewrite D. apply field_as_arg; auto. lia.
    - unfold getattr. rewrite (R1 eq_refl).
      apply field_refl.
      + apply cls_attr_wf; auto.
      + rewrite cls_attr_size; auto. simpl in SZ. lia.
  Qed.

  Lemma collect_wf G l :
    (forall a v, In a l -> G a = Some v -> is_meth v = true \/ wf v) ->
    Forall (fun xv => is_meth (snd xv) = true \/ wf (snd xv)) (collect G l).
  Proof.
    induction l as [|b t IH]; simpl; intro H; [constructor|].
    apply Forall_app. split.
    - destruct (G b) eqn:E; constructor; [|constructor]. simpl. eapply H; eauto.
    - apply IH. intros; eapply H; eauto.
  Qed.

  Lemma rebuild_wf c d : wf (VInst c d) -> wf (rebuild ct (VInst c d)).
  Proof.
    intro W. unfold rebuild. rewrite construct_collect. constructor. apply collect_wf.
    intros a v I E. unfold G2 in E. destruct (a_init a); try discriminate.
    destruct (CT c) as [_ [ND [_ DF]]].
    rewrite own_kwargs_collect, lookup_collect in E; auto. unfold G1 in E.
    destruct (a_init a) eqn:IN.
    - assert (Wu := getattr_wf ct CT c d (a_name a) W).
      remember (getattr ct c d (a_name a)) as u.
      destruct (is_missing u) eqn:M.
      + destruct u; try discriminate. right. eapply DF; eauto.
      + assert (M' : is_missing (as_arg u) = false).
        { destruct u; try discriminate; auto. destruct self; auto. }
        rewrite M' in E.
        assert (D : (if a_dnc a then as_arg u else deepcopy ct (as_arg u)) = as_arg u).
        { destruct (a_dnc a); auto. apply (dc_id (S (size (as_arg u)))). lia. }
        rewrite D in E. inversion E; subst.
        apply as_arg_wf in Wu. destruct Wu as [X|[X|X]]; auto.
        rewrite X in M'. discriminate.
    - right. eapply DF; eauto.
  Qed.

  Theorem rebuild_eq n c d :
    wf (VInst c d) -> rebuildable c d ->
    size (rebuild ct (VInst c d)) + size (VInst c d) < S n ->
    size (VInst c d) + size (VInst c d) < S n ->
    py_eq ct (S n) (rebuild ct (VInst c d)) (VInst c d) = Ok true.
  Proof.
    intros W R S1 S2. unfold py_eq.
    assert (W' := rebuild_wf c d W).
    rewrite val_eq_spec; auto; try (right; right; auto). f_equal.
    assert (F := rebuild_fields n c d W R S2).
    destruct (rebuild ct (VInst c d)) as [| | | | | | | | | |c' d'] eqn:RB; try discriminate RB.
    assert (c' = c).
    { simpl in RB. unfold construct in RB. inversion RB; auto. }
    subst c'. simpl. rewrite Nat.eqb_refl. simpl.
    apply forallb_forall. intros a I. destruct (a_compare a) eqn:C; simpl; auto.
    destruct (F a I C) as [_ F']. exact F'.
  Qed.
End Theorems.
