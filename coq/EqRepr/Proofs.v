(* C10 — proofs about EqRepr/Model.v against EqRepr/Spec.v (equality part). *)
From Coq Require Import List ZArith Bool Arith Lia.
From SC Require Import Base.Res EqRepr.Model EqRepr.Spec.
Import ListNotations.

(* ================================================================== scalars *)
Lemma scalar_eqb_sym a b : scalar_eqb a b = scalar_eqb b a.
Proof.
  destruct a, b; simpl; try reflexivity; try apply Z.eqb_sym.
Qed.

Lemma scalar_eqb_trans a b c :
  scalar_eqb a b = true -> scalar_eqb b c = true -> scalar_eqb a c = true.
Proof.
  destruct a, b; simpl; try discriminate; destruct c; simpl; try discriminate;
    try (intros; reflexivity);
    intros H1 H2; apply Z.eqb_eq in H1; apply Z.eqb_eq in H2; apply Z.eqb_eq; congruence.
Qed.

Lemma scalar_eqb_congr k k2 k' :
  scalar_eqb k k2 = true -> scalar_eqb k k' = scalar_eqb k2 k'.
Proof.
  intro H. destruct (scalar_eqb k k') eqn:E1; destruct (scalar_eqb k2 k') eqn:E2; auto.
  - rewrite scalar_eqb_sym in H. rewrite (scalar_eqb_trans _ _ _ H E1) in E2. discriminate.
  - rewrite (scalar_eqb_trans _ _ _ H E2) in E1. discriminate.
Qed.

Definition kind (v : val) : nat :=
  match v with
  | VMeth _ _ => 1 | VTuple _ => 2 | VList _ => 3 | VDict _ => 4 | VInst _ _ => 5
  | _ => 0
  end.

Lemma scalar_eqb_kind a b : scalar_eqb a b = true -> kind a = 0 /\ kind b = 0.
Proof. destruct a, b; simpl; try discriminate; auto. Qed.

(* ================================================================== list helpers *)
Lemma forall2b_sym {A} (f : A -> A -> bool) l1 : forall l2,
  (forall x y, In x l1 -> f x y = f y x) -> forall2b f l1 l2 = forall2b f l2 l1.
Proof.
  induction l1 as [|x t IH]; intros [|y t2] H; simpl; auto.
  rewrite (H x y (or_introl eq_refl)). f_equal. apply IH. intros; apply H; right; auto.
Qed.

Lemma forall2b_trans {A} (f : A -> A -> bool) l1 : forall l2 l3,
  (forall x y z, In x l1 -> f x y = true -> f y z = true -> f x z = true) ->
  forall2b f l1 l2 = true -> forall2b f l2 l3 = true -> forall2b f l1 l3 = true.
Proof.
  induction l1 as [|x t IH]; intros [|y t2] [|z t3] H; simpl; try discriminate; auto.
  intros H1 H2. apply andb_true_iff in H1 as [A1 B1]. apply andb_true_iff in H2 as [A2 B2].
  apply andb_true_iff; split.
  - eapply H; eauto. left; auto.
  - eapply IH; eauto. intros; eapply H; eauto. right; auto.
Qed.

Lemma forall2b_refl {A} (f : A -> A -> bool) l :
  (forall x, In x l -> f x x = true) -> forall2b f l l = true.
Proof.
  induction l; simpl; auto. intro H. rewrite H by (left; auto). simpl.
  apply IHl. intros; apply H; right; auto.
Qed.

Lemma forall2b_length {A} (f : A -> A -> bool) l1 : forall l2,
  forall2b f l1 l2 = true -> length l1 = length l2.
Proof.
  induction l1; intros [|y t]; simpl; try discriminate; auto.
  intro H. apply andb_true_iff in H as [_ H]. f_equal; auto.
Qed.

(* ================================================================== dicts *)
Lemma dict_get_in k d v :
  dict_get k d = Some v -> exists k', In (k', v) d /\ scalar_eqb k k' = true.
Proof.
  induction d as [|[k' v'] t IH]; simpl; try discriminate.
  destruct (scalar_eqb k k') eqn:E.
  - intro H; inversion H; subst. exists k'; auto.
  - intro H. destruct (IH H) as [k2 [I E2]]. exists k2; auto.
Qed.

Lemma dict_get_congr k k2 d :
  scalar_eqb k k2 = true -> dict_get k d = dict_get k2 d.
Proof.
  intro H. induction d as [|[k' v'] t IH]; simpl; auto.
  rewrite (scalar_eqb_congr _ _ k' H). rewrite IH. reflexivity.
Qed.

Lemma dict_le_trans (f : val -> val -> bool) d1 d2 d3 :
  (forall k x y z, In (k, x) d1 -> f x y = true -> f y z = true -> f x z = true) ->
  dict_le f d1 d2 = true -> dict_le f d2 d3 = true -> dict_le f d1 d3 = true.
Proof.
  unfold dict_le. intros H H1 H2. rewrite forallb_forall in *.
  intros [k x] I. specialize (H1 _ I). simpl in *.
  destruct (dict_get k d2) as [y|] eqn:G; try discriminate.
  destruct (dict_get_in _ _ _ G) as [k2 [I2 E2]].
  specialize (H2 _ I2). simpl in H2.
  rewrite (dict_get_congr _ _ d3 E2).
  destruct (dict_get k2 d3) as [z|]; try discriminate.
  eapply H; eauto.
Qed.

(* is_key scalars: == is equality of normal forms *)
Lemma scalar_eqb_knorm a b :
  is_key a = true -> is_key b = true -> (scalar_eqb a b = true <-> knorm a = knorm b).
Proof.
  destruct a, b; simpl; try discriminate; intros _ _; split; intro H;
    try discriminate; try reflexivity;
    try (apply Z.eqb_eq in H; subst; reflexivity);
    try (inversion H; subst; apply Z.eqb_refl);
    try (destruct b; destruct b0; simpl in *; try discriminate; reflexivity);
    try (destruct b; simpl in *; try discriminate; reflexivity).
Qed.

Definition keys_ok (d : list (val * val)) : Prop :=
  Forall (fun kv => is_key (fst kv) = true) d /\ NoDup (map (fun kv => knorm (fst kv)) d).

Lemma keys_ok_tail kv d : keys_ok (kv :: d) -> keys_ok d.
Proof. intros [A B]. inversion A; inversion B; subst. split; auto. Qed.

(* with distinct keys, an entry of the dict is what dict_get finds under its key *)
Lemma dict_get_own d : keys_ok d -> forall k v, In (k, v) d -> dict_get k d = Some v.
Proof.
  induction d as [|[k' v'] t IH]; intros KO k v I; simpl in *; try tauto.
  destruct I as [I|I].
  - inversion I; subst. destruct KO as [A _]. inversion A; subst. simpl in *.
    assert (E : scalar_eqb k k = true) by (apply scalar_eqb_knorm; auto).
    rewrite E. reflexivity.
  - destruct (scalar_eqb k k') eqn:E.
    + exfalso. destruct KO as [A B]. inversion A; inversion B; subst. simpl in *.
      assert (Kk : is_key k = true).
      { rewrite Forall_forall in H2. apply (H2 (k, v)); auto. }
      apply scalar_eqb_knorm in E; auto.
      apply H5. rewrite <- E. apply (in_map (fun kv => knorm (fst kv)) t (k, v)); auto.
    + apply IH; auto. eapply keys_ok_tail; eauto.
Qed.

Lemma dict_le_keys_incl f d1 d2 :
  keys_ok d1 -> keys_ok d2 -> dict_le f d1 d2 = true ->
  incl (map (fun kv => knorm (fst kv)) d1) (map (fun kv => knorm (fst kv)) d2).
Proof.
  intros [K1 _] [K2 _] H x I. apply in_map_iff in I as [[k v] [E I]]. simpl in E; subst.
  unfold dict_le in H. rewrite forallb_forall in H. specialize (H _ I). simpl in H.
  destruct (dict_get k d2) as [v2|] eqn:G; try discriminate.
  destruct (dict_get_in _ _ _ G) as [k2 [I2 E2]].
  rewrite Forall_forall in K1, K2.
  apply scalar_eqb_knorm in E2; [| apply (K1 (k, v)); auto | apply (K2 (k2, v2)); auto].
  rewrite E2. apply (in_map (fun kv => knorm (fst kv)) d2 (k2, v2)); auto.
Qed.

(* CPython's dict_equal (same length + one-sided lookup) is the two-sided inclusion *)
Lemma dict_le_converse f d1 d2 :
  keys_ok d1 -> keys_ok d2 -> length d1 = length d2 ->
  (forall k x y, In (k, x) d1 -> f x y = f y x) ->
  dict_le f d1 d2 = true -> dict_le f d2 d1 = true.
Proof.
  intros K1 K2 L S H.
  assert (INC := dict_le_keys_incl f d1 d2 K1 K2 H).
  assert (INC2 : incl (map (fun kv => knorm (fst kv)) d2) (map (fun kv => knorm (fst kv)) d1)).
  { apply NoDup_length_incl; auto. apply K1. rewrite !map_length. lia. }
  unfold dict_le. rewrite forallb_forall. intros [k2 v2] I2. simpl.
  assert (IK : In (knorm k2) (map (fun kv => knorm (fst kv)) d1)).
  { apply INC2. apply (in_map (fun kv => knorm (fst kv)) d2 (k2, v2)); auto. }
  apply in_map_iff in IK as [[k1 v1] [E I1]]. simpl in E.
  destruct K1 as [K1a K1b]. destruct K2 as [K2a K2b].
  assert (Kk1 : is_key k1 = true) by (rewrite Forall_forall in K1a; apply (K1a (k1, v1)); auto).
  assert (Kk2 : is_key k2 = true) by (rewrite Forall_forall in K2a; apply (K2a (k2, v2)); auto).
  assert (E12 : scalar_eqb k1 k2 = true) by (apply scalar_eqb_knorm; auto).
  assert (G1 : dict_get k1 d1 = Some v1) by (apply dict_get_own; auto; split; auto).
  assert (G2 : dict_get k2 d2 = Some v2) by (apply dict_get_own; auto; split; auto).
  rewrite scalar_eqb_sym in E12.
  rewrite (dict_get_congr _ _ d1 E12), G1.
  unfold dict_le in H. rewrite forallb_forall in H. specialize (H _ I1). simpl in H.
  rewrite scalar_eqb_sym in E12.
  rewrite (dict_get_congr _ _ d2 E12), G2 in H.
  rewrite <- (S k1 v1 v2 I1). exact H.
Qed.

Lemma dict_le_both_length f d1 d2 :
  keys_ok d1 -> keys_ok d2 ->
  dict_le f d1 d2 = true -> dict_le f d2 d1 = true -> length d1 = length d2.
Proof.
  intros K1 K2 H1 H2.
  assert (A := dict_le_keys_incl f d1 d2 K1 K2 H1).
  assert (B := dict_le_keys_incl f d2 d1 K2 K1 H2).
  apply NoDup_incl_length in A; [| apply K1]. apply NoDup_incl_length in B; [| apply K2].
  rewrite !map_length in *. lia.
Qed.

Lemma dict_le_refl f d :
  keys_ok d -> (forall k v, In (k, v) d -> f v v = true) -> dict_le f d d = true.
Proof.
  intros K H. unfold dict_le. rewrite forallb_forall. intros [k v] I. simpl.
  rewrite (dict_get_own d K k v I). eapply H; eauto.
Qed.

(* ================================================================== laws of the specification *)
Lemma forallb_ext_in {A} (f g : A -> bool) l :
  (forall x, In x l -> f x = g x) -> forallb f l = forallb g l.
Proof.
  induction l; simpl; auto. intro H. rewrite H by (left; auto). f_equal.
  apply IHl; intros; apply H; right; auto.
Qed.

Lemma field_eqb_sym f u v : f u v = f v u -> field_eqb f u v = field_eqb f v u.
Proof. destruct u, v; simpl; auto; intros; apply Z.eqb_sym. Qed.

Lemma field_eqb_meth_l f g s v :
  field_eqb f (VMeth g s) v = match v with VMeth g' _ => Z.eqb g g' | _ => f (VMeth g s) v end.
Proof. destruct v; reflexivity. Qed.

Section Laws.
  Variable ct : ctable.

  Lemma spec_sym n : forall a b, spec_eqb ct n a b = spec_eqb ct n b a.
  Proof.
    induction n as [|n IH]; intros a b; [reflexivity|].
    destruct a, b; simpl; try reflexivity; try apply Z.eqb_sym.
    - rewrite Z.eqb_sym. destruct self, self0; reflexivity.
    - apply forall2b_sym; intros; apply IH.
    - apply forall2b_sym; intros; apply IH.
    - apply andb_comm.
    - destruct (Nat.eqb_spec c c0) as [E|E].
      + subst. rewrite Nat.eqb_refl. simpl. apply forallb_ext_in. intros a _.
        f_equal. apply field_eqb_sym. apply IH.
      + destruct (Nat.eqb_spec c0 c); [congruence | reflexivity].
  Qed.

  Lemma spec_kind n a b : spec_eqb ct n a b = true -> kind a = kind b.
  Proof.
    destruct n; [discriminate|].
    destruct a, b; simpl; try discriminate; auto.
  Qed.

  Lemma field_eqb_trans n u v w :
    (forall x y z, spec_eqb ct n x y = true -> spec_eqb ct n y z = true -> spec_eqb ct n x z = true) ->
    field_eqb (spec_eqb ct n) u v = true -> field_eqb (spec_eqb ct n) v w = true ->
    field_eqb (spec_eqb ct n) u w = true.
  Proof.
    intros T H1 H2.
    destruct (kind u =? 1) eqn:Ku.
    - (* u is a method *)
      destruct u; try discriminate.
      rewrite field_eqb_meth_l in H1.
      destruct v; try (apply spec_kind in H1; discriminate).
      rewrite field_eqb_meth_l in H2. rewrite field_eqb_meth_l.
      destruct w; try (apply spec_kind in H2; discriminate).
      apply Z.eqb_eq in H1, H2. apply Z.eqb_eq. congruence.
    - assert (Kv : kind v <> 1).
      { intro K. destruct v; try discriminate.
        destruct u; simpl in H1; try discriminate; try (apply spec_kind in H1; discriminate). }
      assert (E1 : field_eqb (spec_eqb ct n) u v = spec_eqb ct n u v).
      { destruct u; try discriminate; reflexivity. }
      assert (Kw : kind w <> 1).
      { intro K. destruct w; try discriminate.
        destruct v; simpl in H2; try discriminate; try (apply spec_kind in H2; discriminate);
          simpl in Kv; congruence. }
      assert (E2 : field_eqb (spec_eqb ct n) v w = spec_eqb ct n v w).
      { destruct v; try reflexivity. simpl in Kv; congruence. }
      assert (E3 : field_eqb (spec_eqb ct n) u w = spec_eqb ct n u w).
      { destruct u; try discriminate; reflexivity. }
      rewrite E1 in H1. rewrite E2 in H2. rewrite E3. eapply T; eauto.
  Qed.

  Lemma spec_trans n : forall a b c,
    spec_eqb ct n a b = true -> spec_eqb ct n b c = true -> spec_eqb ct n a c = true.
  Proof.
    induction n as [|n IH]; intros a b c H1 H2; [discriminate|].
    assert (K1 := spec_kind _ _ _ H1). assert (K2 := spec_kind _ _ _ H2).
    destruct a; destruct b; try discriminate; destruct c; try discriminate;
      simpl in H1, H2 |- *; try reflexivity; try discriminate;
      try (apply Z.eqb_eq in H1; apply Z.eqb_eq in H2; apply Z.eqb_eq; congruence).
    - (* methods *)
      apply andb_true_iff in H1 as [A1 B1]. apply andb_true_iff in H2 as [A2 B2].
      apply Z.eqb_eq in A1, A2. apply eqb_prop in B1, B2. subst.
      rewrite Z.eqb_refl. destruct self1; reflexivity.
    - eapply forall2b_trans; eauto.
    - eapply forall2b_trans; eauto.
    - apply andb_true_iff in H1 as [A1 B1]. apply andb_true_iff in H2 as [A2 B2].
      apply andb_true_iff; split.
      + eapply dict_le_trans; [| exact A1 | exact A2]. intros; eapply IH; eauto.
      + eapply dict_le_trans; [| exact B2 | exact B1]. intros; eapply IH; eauto.
    - apply andb_true_iff in H1 as [A1 B1]. apply andb_true_iff in H2 as [A2 B2].
      apply Nat.eqb_eq in A1, A2. subst. rewrite Nat.eqb_refl. simpl.
      rewrite forallb_forall in *. intros a I. specialize (B1 a I). specialize (B2 a I).
      destruct (a_compare a); simpl in *; auto.
      eapply field_eqb_trans; eauto.
  Qed.
End Laws.
