(* C11 — correspondence and property oracle for invalidation.

   Concrete pools for what the theorems keep abstract: values (int, str, list
   of int, the sentinel MISSING), the type check (int / List[int]), getters
   (bias + weighted sum over named entries of the instance __dict__), the
   transform functions and the element operations on a list.

   A case carries the class description, the constructor arguments, the
   properties read in __post_init__, the history, and what the IMPLEMENTATION
   did: the instance __dict__ and the getter call counters after construction
   and, after every operation, the outcome, the value read, the __dict__ of the
   receiver and of the returned copy, and the counters.

   check_case:
     0  model = implementation, and the implementation's run satisfies the Spec
     1  model <> implementation, the Spec still accepts the run
     2  the implementation's run violates the Spec (a property violation)
     3  the oracle's closure computation failed its own closedness test, or the
        description is not well formed (wf_class, third clause)
        (never observed; reported as an evaluation failure)
   The oracle (step_oracle) uses Inval/Spec.v and the pools only — never
   Inval/Model.v. *)
From Coq Require Import List ZArith Bool.
From SC Require Import Base.Res Corr.Enc Inval.Desc Inval.Model Inval.Spec.
Import ListNotations.
Open Scope Z_scope.

(* ---------------------------------------------------------------- pools *)
Inductive cval := VI (z : Z) | VS (z : Z) | VL (l : list Z) | VMiss.

Definition cval_eqb (a b : cval) : bool :=
  match a, b with
  | VI x, VI y => x =? y
  | VS x, VS y => x =? y
  | VL x, VL y => zlist_eqb x y
  | VMiss, VMiss => true
  | _, _ => false
  end.

Definition c_sentinel (v : cval) : bool := match v with VMiss => true | _ => false end.

(* annotation of a managed attribute: 0 = int, 1 = List[int] *)
Definition c_check (types : list (name * Z)) (n : name) (v : cval) : bool :=
  match assoc types n, v with
  | Some 0, VI _ => true
  | Some 1, VL _ => true
  | Some _, _ => false
  | None, _ => true
  end.

Definition zsum (l : list Z) : Z := fold_right Z.add 0 l.
Definition num (o : option cval) : Z :=
  match o with
  | None => 7
  | Some (VI z) => z
  | Some (VS z) => 1000 + z
  | Some (VL l) => zsum l + 100 * Z.of_nat (length l)
  | Some VMiss => 7
  end.
(* getter table: property -> (bias, [(entry name, coefficient)]) *)
Definition gtable := list (name * (Z * list (name * Z))).
Definition c_getter (g : gtable) (p : name) (d : dict cval) : cval :=
  match assoc g p with
  | Some (bias, terms) => VI (fold_left (fun acc t => acc + snd t * num (get d (fst t))) terms bias)
  | None => VI 0
  end.

(* transform functions: x + k on an int (k when absent), l + [k] on a list
   ([k] when absent), constant str *)
Inductive cfid := FAdd (k : Z) | FApp (k : Z) | FStr (k : Z).
Definition c_apply_f (f : cfid) (o : option cval) : cval :=
  match f, o with
  | FAdd k, Some (VI z) => VI (z + k)
  | FAdd k, _ => VI k
  | FApp k, Some (VL l) => VL (l ++ [k])
  | FApp k, _ => VL [k]
  | FStr k, _ => VS k
  end.

(* element helpers of a List[int] attribute:
   EWith k       with_<item>(k)                                   append
   EUpdate i k   update_<item>(i, k, _by_index=True)              l[i] = k
   ETransform i k transform_<item>(i, lambda v: v + k, _by_index=True)
   EWithout k    without_<item>(k)                                remove first k *)
Inductive ceop := EWith (k : Z) | EUpdate (i : nat) (k : Z) | ETransform (i : nat) (k : Z) | EWithout (k : Z).
Fixpoint set_nth (l : list Z) (i : nat) (f : Z -> Z) : option (list Z) :=
  match l, i with
  | [], _ => None
  | x :: t, O => Some (f x :: t)
  | x :: t, S j => match set_nth t j f with Some t' => Some (x :: t') | None => None end
  end.
Fixpoint remove_first (l : list Z) (k : Z) : option (list Z) :=
  match l with
  | [] => None
  | x :: t => if x =? k then Some t
              else match remove_first t k with Some t' => Some (x :: t') | None => None end
  end.
Definition c_apply_e (e : ceop) (o : option cval) : res cval :=
  let l := match o with Some (VL l) => Some l | _ => None end in
  match e with
  | EWith k => Ok (VL (match l with Some l => l ++ [k] | None => [k] end))
  | EUpdate i k =>
      match l with
      | Some l => match set_nth l i (fun _ => k) with Some l' => Ok (VL l') | None => Err IndexErr end
      | None => Err IndexErr
      end
  | ETransform i k =>
      match l with
      | Some l => match set_nth l i (fun x => x + k) with Some l' => Ok (VL l') | None => Err IndexErr end
      | None => Err IndexErr
      end
  | EWithout k =>
      match l with
      | Some l => match remove_first l k with Some l' => Ok (VL l') | None => Err ValueErr end
      | None => Err ValueErr      (* nothing there (a38b02e: reported like a missing element) *)
      end
  end.

Definition cop := op cval cfid ceop.

(* ---------------------------------------------------------------- cases *)
Record obs := mkobs {
  ob_err : Z;                         (* 0, or minus the error code *)
  ob_val : option cval;               (* value returned by a read *)
  ob_recv : dict cval;                (* receiver's __dict__ afterwards *)
  ob_res : option (dict cval);        (* __dict__ of the object returned by a copy-on-write helper *)
  ob_calls : list (name * Z) }.       (* getter call counters *)

Record ccase := mkcase {
  k_cd : cdesc cval;
  k_types : list (name * Z);
  k_getters : gtable;
  k_kwargs : list (name * cval);
  k_post : list name;
  k_hist : list (cop * bool);
  k_init_err : Z;
  k_init : dict cval;
  k_init_calls : list (name * Z);
  k_obs : list obs }.

(* every name that occurs anywhere in the case *)
Definition op_names (o : cop) : list name :=
  match o with
  | Read p => [p]
  | SetAttr a _ | DelAttr a | With a _ _ | Update a _ _ | Transform a _ _ | Reset a _ | Elem a _ _ => [a]
  | TopUpdate kws _ => map fst kws
  | TopTransform kws _ => map fst kws
  | TopReset _ => []
  end.
Definition dep_names (l : list dep) : list name :=
  flat_map (fun d => match d with DName n => [n] | DStar => [] end) l.
Definition obs_names (o : obs) : list name :=
  map fst (ob_recv o) ++ match ob_res o with Some r => map fst r | None => [] end ++ map fst (ob_calls o).
Definition case_names (k : ccase) : list name :=
  nodup Z.eq_dec
    (declared (k_cd k)
     ++ flat_map (fun na => dep_names (a_inv (snd na))) (c_attrs (k_cd k))
     ++ flat_map (fun nm => dep_names (m_inv (snd nm))) (all_members (k_cd k))
     ++ map fst (k_kwargs k) ++ k_post k
     ++ flat_map (fun t => map fst (snd (snd t))) (k_getters k)
     ++ flat_map (fun ob => op_names (fst ob)) (k_hist k)
     ++ map fst (k_init k) ++ map fst (k_init_calls k)
     ++ flat_map obs_names (k_obs k)).

Definition dict_eqb (ns : list name) (a b : dict cval) : bool :=
  forallb (fun n => opt_eqb cval_eqb (get a n) (get b n)) ns.
Definition optdict_eqb (ns : list name) (a b : option (dict cval)) : bool :=
  match a, b with
  | Some x, Some y => dict_eqb ns x y
  | None, None => true
  | _, _ => false
  end.
Definition calls_eqb (ns : list name) (a b : list (name * Z)) : bool :=
  forallb (fun n => count a n =? count b n) ns.
Definition err_z (e : option err) : Z :=
  match e with None => 0 | Some x => - Z.of_nat (err_code x) end.

(* ---------------------------------------------------------------- the tie *)
Section Tie.
  Variable k : ccase.
  Let ns := case_names k.
  Let chk := c_check (k_types k).
  Let gt := c_getter (k_getters k).

  Definition m_step := step cval c_sentinel chk gt cfid c_apply_f ceop c_apply_e (k_cd k).
  Definition m_construct := construct cval c_sentinel chk gt (k_cd k) (k_kwargs k) (k_post k).

  Definition sout_matches (r : sout cval) (o : obs) : bool :=
    (err_z (o_err r) =? ob_err o)
    && opt_eqb cval_eqb (o_val r) (ob_val o)
    && dict_eqb ns (o_recv r) (ob_recv o)
    && optdict_eqb ns (o_res r) (ob_res o)
    && calls_eqb ns (o_calls r) (ob_calls o).

  (* the model is advanced from the IMPLEMENTATION's observed state at every
     step, so one disagreement does not cascade *)
  Fixpoint tie (d : dict cval) (c : list (name * Z)) (h : list (cop * bool)) (os : list obs) : bool :=
    match h, os with
    | [], [] => true
    | (o, follow) :: t, ob :: os' =>
        sout_matches (m_step d c o) ob
        && tie (if follow then match ob_res ob with Some r => r | None => ob_recv ob end else ob_recv ob)
               (ob_calls ob) t os'
    | _, _ => false
    end.

  Definition tie_all : bool :=
    let '(e, d, c) := m_construct in
    (err_z e =? k_init_err k) && dict_eqb ns d (k_init k) && calls_eqb ns c (k_init_calls k)
    && tie (k_init k) (k_init_calls k) (k_hist k) (k_obs k).
End Tie.

(* ---------------------------------------------------------------- the oracle *)
Section Oracle.
  Variable k : ccase.
  Let cd := k_cd k.
  Let ns := case_names k.
  Let gt := c_getter (k_getters k).

  Definition cl_of (a : name) : list name := closure_b cd a.
  Definition all_closed : bool := forallb (fun a => closed_b cd (cl_of a)) ns.

  Definition held_none (d : dict cval) (y : name) : bool :=
    match held cd d y with None => true | Some _ => false end.

  (* a state t is acceptable where the canonical state M was expected: equal
     entries, or "holds nothing" where M is back at the default *)
  Definition state_ok (t M : dict cval) : bool :=
    forallb (fun y => opt_eqb cval_eqb (get t y) (get M y)
                      || (match default_of cd y with
                          | Some dv => opt_eqb cval_eqb (get M y) (Some dv)
                          | None => false end && held_none t y)) ns.

  (* one successful mutation of a: pre -> t *)
  Definition mutation_ok (a : name) (pre t : dict cval) : bool :=
    closure_cleared_b cd cval_eqb (cl_of a) a t && unrelated_kept_b cval_eqb ns (cl_of a) pre t.

  Definition target_of (o : obs) : dict cval :=
    match ob_res o with Some r => r | None => ob_recv o end.

  (* canonical runs of the multi-keyword helpers, keyword by keyword: the list
     of states after 0, 1, …, n keywords *)
  Fixpoint canon_update (d : dict cval) (kws : list (name * cval)) : list (dict cval) :=
    d :: match kws with
         | [] => []
         | (a, v) :: t => canon_update (if c_sentinel v then d else spec_assign cd (cl_of a) a v d) t
         end.
  Fixpoint canon_transform (d : dict cval) (kws : list (name * cfid)) : list (dict cval) :=
    d :: match kws with
         | [] => []
         | (a, f) :: t => canon_transform (spec_assign cd (cl_of a) a (c_apply_f f (get d a)) d) t
         end.
  Fixpoint canon_reset (d : dict cval) (atts : list name) : dict cval :=
    match atts with
    | [] => d
    | a :: t =>
        canon_reset (match default_of cd a with
                     | Some dv => spec_assign cd (cl_of a) a dv d
                     | None => if held_none d a then d else spec_delete cd (cl_of a) a d
                     end) t
    end.

  Definition last_state (l : list (dict cval)) (d : dict cval) : dict cval := last l d.

  Definition step_oracle (pre : dict cval) (pc : list (name * Z)) (o : cop) (ob : obs) : bool :=
    let ok := ob_err ob =? 0 in
    let t := target_of ob in
    let same_calls := calls_eqb ns (ob_calls ob) pc in
    match o with
    | Read p =>
        match descriptor_of cd p with
        | None => true                                   (* not a property: nothing to say *)
        | Some f =>
            ok && optdict_eqb ns (ob_res ob) None &&
            match held cd pre p with
            | Some v =>
                (* a stored value is served as it is; nothing is recomputed *)
                opt_eqb cval_eqb (ob_val ob) (Some v) && dict_eqb ns (ob_recv ob) pre && same_calls
            | None =>
                (* recomputed from the current state, exactly one getter call,
                   no other entry touched *)
                let v := gt p pre in
                opt_eqb cval_eqb (ob_val ob) (Some v)
                && forallb (fun y => (y =? p) || opt_eqb cval_eqb (get (ob_recv ob) y) (get pre y)) ns
                && (if p_cache f then opt_eqb cval_eqb (get (ob_recv ob) p) (Some v)
                    else opt_eqb cval_eqb (get (ob_recv ob) p) (get pre p))
                && forallb (fun y => count (ob_calls ob) y =? count pc y + (if y =? p then 1 else 0)) ns
            end
        end
    | SetAttr a _ | DelAttr a | With a _ _ | Update a _ _ | Transform a _ _ | Reset a _ | Elem a _ _ =>
        same_calls &&
        (if in_place cval cfid ceop o then optdict_eqb ns (ob_res ob) None else dict_eqb ns (ob_recv ob) pre) &&
        (if ok
         then if writes_value cval c_sentinel cfid c_apply_f ceop c_apply_e o pre
              then mutation_ok a pre t
              else dict_eqb ns t pre                    (* a sentinel is "no assignment" *)
         else dict_eqb ns (ob_recv ob) pre && optdict_eqb ns (ob_res ob) None)
    | TopUpdate kws ip =>
        same_calls && (if ip then optdict_eqb ns (ob_res ob) None else dict_eqb ns (ob_recv ob) pre) &&
        let states := canon_update pre kws in
        if ok then state_ok t (last_state states pre)
        else optdict_eqb ns (ob_res ob) None
             && existsb (state_ok (ob_recv ob)) (removelast states)
    | TopTransform kws ip =>
        same_calls && (if ip then optdict_eqb ns (ob_res ob) None else dict_eqb ns (ob_recv ob) pre) &&
        let states := canon_transform pre kws in
        if ok then state_ok t (last_state states pre)
        else optdict_eqb ns (ob_res ob) None
             && existsb (state_ok (ob_recv ob)) (removelast states)
    | TopReset ip =>
        same_calls && (if ip then optdict_eqb ns (ob_res ob) None else dict_eqb ns (ob_recv ob) pre) &&
        if ok then state_ok t (canon_reset pre (map fst (c_attrs cd)))
        else optdict_eqb ns (ob_res ob) None && dict_eqb ns (ob_recv ob) pre
    end.

  Fixpoint oracle (d : dict cval) (c : list (name * Z)) (h : list (cop * bool)) (os : list obs) : bool :=
    match h, os with
    | [], [] => true
    | (o, follow) :: t, ob :: os' =>
        step_oracle d c o ob
        && oracle (if follow then target_of ob else ob_recv ob) (ob_calls ob) t os'
    | _, _ => false
    end.

  (* construction: every property read in __post_init__ shows the getter on the
     constructed state (checked through the first reads of the history); here
     only: no unknown entries *)
  Definition oracle_all : bool := oracle (k_init k) (k_init_calls k) (k_hist k) (k_obs k).
End Oracle.

(* wf_class, third clause, on the description the harness derived from the
   class text: the metadata's Attr.invalidated_by agrees with the declaration in
   force wherever the map builder relies on it *)
Fixpoint deps_eqb (a b : list dep) : bool :=
  match a, b with
  | [], [] => true
  | x :: a', y :: b' => dep_eqb x y && deps_eqb a' b'
  | _, _ => false
  end.
Definition inv_consistent_b (cd : cdesc cval) : bool :=
  forallb (fun na => match decl_inv cd (fst na) with
                     | Some inv => deps_eqb (builder_inv cd (fst na) (snd na)) inv
                     | None => false
                     end) (c_attrs cd).

Definition check_case (k : ccase) : nat :=
  if negb (all_closed k && inv_consistent_b (k_cd k)) then 3%nat
  else if oracle_all k then (if tie_all k then 0%nat else 1%nat)
  else 2%nat.

(* per-step codes, for diagnostics: the index of the first step the oracle /
   the tie rejects *)
Fixpoint first_bad (f : dict cval -> list (name * Z) -> cop -> obs -> bool)
         (d : dict cval) (c : list (name * Z)) (h : list (cop * bool)) (os : list obs) (i : nat) : option nat :=
  match h, os with
  | (o, follow) :: t, ob :: os' =>
      if f d c o ob
      then first_bad f (if follow then match ob_res ob with Some r => r | None => ob_recv ob end else ob_recv ob)
                     (ob_calls ob) t os' (S i)
      else Some i
  | _, _ => None
  end.
Definition first_bad_oracle (k : ccase) : option nat :=
  first_bad (step_oracle k) (k_init k) (k_init_calls k) (k_hist k) (k_obs k) 0.
Definition first_bad_tie (k : ccase) : option nat :=
  first_bad (fun d c o ob => sout_matches k (m_step k d c o) ob) (k_init k) (k_init_calls k) (k_hist k) (k_obs k) 0.
