(* Property oracle of C05/C06: the documentation (Inst/SpecHelpers.v) applied
   to the abstraction of what the IMPLEMENTATION was observed to hold before
   a call, compared with the abstraction of what it was observed to hold
   afterwards.  Nothing here runs the executable model (Inst/Model.v is
   imported for the syntax of operations only: helper, hargs, op).

   check_spec_case sel c = 0 | 2   (2: the implementation's run contradicts the documentation)
   check_full sel c      = 0 | 1 | 2   (1: only the model differs from the implementation)
   sel = 5: scalar / top-level helpers, assignment, deletion (C05)
   sel = 6: element helpers (C06);  sel = 0: both. *)
From Coq Require Import List ZArith Bool Arith.
From SC Require Import Base.Res Base.PyList Inst.Heap Inst.ClassTable Inst.Model Inst.Canon
  Inst.Abs Inst.SpecHelpers Corr.InstCorr.
Import ListNotations.
Open Scope nat_scope.

Definition abs_g (g : graph) (v : val) : aval := absv (snd g) v.
Definition aarg (g : graph) (v : val) : aval := abs_g g (rv (fst g) v).
Definition akw (g : graph) (kw : list (aid * val)) : list (aid * aval) :=
  map (fun p => (fst p, aarg g (snd p))) kw.

Definition ahargs_of (g : graph) (h : hargs) : ahargs :=
  mkah (map (aarg g) (h_pos h)) (h_inplace h) (h_if h) (aarg g (h_index h)) (h_insert h)
       (h_by_index h) (option_map (akw g) (h_kw h)) (h_kwfn h) (h_fn h).

Definition shelper_of (hp : helper) : shelper :=
  match hp with
  | HWith a => SWith a | HUpdate a => SUpdate a | HTransform a => STransform a | HReset a => SReset a
  | HWithItem a => SWithItem a | HUpdateItem a => SUpdateItem a
  | HTransformItem a => STransformItem a | HWithoutItem a => SWithoutItem a
  | HUpdateTop => SUpdateTop | HTransformTop => STransformTop | HResetTop => SResetTop
  end.

Definition is_elem_helper (hp : shelper) : bool :=
  match hp with SWithItem _ | SUpdateItem _ | STransformItem _ | SWithoutItem _ => true | _ => false end.
Definition covered (sel : nat) (hp : shelper) : bool :=
  (sel =? 0) || (if is_elem_helper hp then sel =? 6 else sel =? 5).

(* what the specification is asked about an operation *)
Definition spec_query (o : op) (pre : graph) : option (nat * shelper * ahargs) :=
  match o with
  | OpHelper x hp h => Some (x, shelper_of hp, ahargs_of pre h)
  | OpSetAttr x a v => Some (x, SSetAttrOp a, mkah [aarg pre v] true true AMissing false None None [] None)
  | OpDelAttr x a => Some (x, SDelAttrOp a, mkah [] true true AMissing false None None [] None)
  | _ => None
  end.

Definition args_ok (h : ahargs) : bool :=
  forallb aok (ah_pos h) && aok (ah_index h) &&
  match ah_kw h with Some kw => forallb (fun p => aok (snd p)) kw | None => true end.

Definition returns_object (hp : shelper) : bool :=
  match hp with SSetAttrOp _ | SDelAttrOp _ => false | _ => true end.

(* operations whose Err outcome is also judged by "the receiver is as before": scalar helpers,
   assignment, deletion, update(..)/transform(..) with at most one attribute keyword.  Element
   helpers belong to C06/C04; multi-keyword update/transform(_inplace=True) and reset(_inplace=True)
   commit attribute by attribute -- the recorded open findings of C04 (KNOWN_FINDINGS.json). *)
Definition err_state_checked (hp : shelper) (h : ahargs) : bool :=
  match hp with
  | SResetTop => false
  | SUpdateTop => match ah_kw h with Some kw => length kw <=? 1 | None => true end
  | STransformTop => length (ah_kwfn h) <=? 1
  | _ => negb (is_elem_helper hp)
  end.

Definition judge (expected : sres aval) (hp : shelper) (h : ahargs) (pre post : graph)
           (x : nat) (out : list Z) : bool :=
  let res := root_val post (length (fst pre)) in
  let recv' := root_val post x in
  if zl_eqb out [0%Z] then
    match expected with
    | SOk e =>
        (if returns_object hp
         then aval_eqb e (abs_g post res)
              && (if returns_receiver hp h then val_syn_eqb res recv' else true)
         else true)
        && (if mutates_in_place hp h then aval_eqb e (abs_g post recv') else true)
    | SErr _ | SAnyErr => false
    | SAny => true
    end
  else
    (* a call that raises leaves the receiver as it was (C05-G1: `del obj.a` on an attribute
       without default that holds nothing raised AttributeError AFTER resetting the dependants):
       the abstract state of the receiver after the error is the state before
       (`err_state_checked`: single-attribute operations). *)
    (if err_state_checked hp h
     then aval_eqb (abs_g pre (root_val pre x)) (abs_g post (root_val post x)) else true)
    &&
    match expected with
    | SOk _ => false
    | SErr e => zl_eqb out [(- Z.of_nat (err_code e))%Z]
    | SAnyErr | SAny => true
    end.

Definition spec_step (sel : nat) (ct : ctable) (h0 : list obj) (pre post : graph)
           (xo : xop) (fa : option nat) (out : list Z) : nat :=
  match xo with
  | XSame x y a =>
      (* both roots must be instances (the result of a call that raised is None) *)
      match node_of post (root_val post x), node_of post (root_val post y) with
      | Some (OInst _ _), Some (OInst _ _) =>
          if aval_eqb (abs_g post (field_of post x a)) (abs_g post (field_of post y a)) then 0 else 2
      | _, _ => 0
      end
  | XOp o =>
      match fa, spec_query o pre with
      | None, Some (x, hp, h) =>
          if negb (covered sel hp) then 0 else
          let recv := abs_g pre (root_val pre x) in
          if negb (aok recv && args_ok h) then 0 else
          if judge (spec_helper ct h0 recv hp h) hp h pre post x out then 0 else 2
      | _, _ => 0
      end
  end.

Fixpoint spec_steps (sel : nat) (ct : ctable) (h0 : list obj) (pre : graph)
         (ops : list (xop * option nat)) (seen : list obs) : nat :=
  match ops, seen with
  | (xo, fa) :: t, (out, post) :: t' =>
      let c := spec_step sel ct h0 pre post xo fa out in
      if c =? 0 then spec_steps sel ct h0 post t t' else c
  | _, _ => 0
  end.

Definition check_spec_case (sel : nat) (c : icase) : nat :=
  spec_steps sel (ic_ct c) (ic_heap0 c) (ic_seen0 c) (ic_ops c) (ic_seen c).

Definition check_full (sel : nat) (c : icase) : nat :=
  let s := check_spec_case sel c in
  if s =? 0 then Nat.modulo (check_case c) 2 else s.
Definition check_c05 := check_full 5.
Definition check_c06 := check_full 6.

(* ---------------- developer aid: expected vs observed per operation ---------------- *)
Definition spec_view_step (ct : ctable) (h0 : list obj) (pre post : graph) (xo : xop)
  : option (sres aval * aval * aval) :=
  match xo with
  | XOp o =>
      match spec_query o pre with
      | Some (x, hp, h) =>
          Some (spec_helper ct h0 (abs_g pre (root_val pre x)) hp h,
                abs_g post (root_val post (length (fst pre))), abs_g post (root_val post x))
      | None => None end
  | _ => None
  end.
Fixpoint spec_views (ct : ctable) (h0 : list obj) (pre : graph) (ops : list (xop * option nat)) (seen : list obs) :=
  match ops, seen with
  | (xo, _) :: t, (_, post) :: t' => spec_view_step ct h0 pre post xo :: spec_views ct h0 post t t'
  | _, _ => []
  end.
Definition spec_view (c : icase) :=
  spec_views (ic_ct c) (ic_heap0 c) (ic_seen0 c) (ic_ops c) (ic_seen c).
