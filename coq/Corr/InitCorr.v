(* Correspondence and property oracle for C09.
   A case = one class hierarchy (descriptions, newest first), what the implementation's
   bootstrap produced for every spec class (cls.__spec_class__), and a list of constructor
   calls on one class with what the implementation did (attribute dict in __dict__ order,
   __post_init__ / hand-written constructor call records, or the error class).
     0: model = implementation (tables, every call) and every call satisfies Init/Spec.v
     1: model <> implementation somewhere, the specification accepts every call
     2: some call violates the specification (property violation)
   The specification side ([spec_ok]) uses Init/Spec.v only (plus the shared MRO and
   prepare_value primitives); it never runs resolve_all / construct.  Init/Proofs.v is
   imported for [in_scope] alone (counting the calls inside the theorem's hypotheses). *)
From Coq Require Import List ZArith Bool Arith.
From SC Require Import Base.Res Init.Model Init.Spec Init.Proofs Corr.Enc.
Import ListNotations.
Open Scope nat_scope.

Section AList.
  Variable f : aval -> aval -> bool.
  Fixpoint alist_eqb (a b : list aval) : bool :=
    match a, b with
    | [], [] => true
    | x :: a', y :: b' => f x y && alist_eqb a' b'
    | _, _ => false
    end.
  Fixpoint adict_eqb (a b : list (aid * aval)) : bool :=
    match a, b with
    | [], [] => true
    | (k, x) :: a', (l, y) :: b' => (k =? l) && f x y && adict_eqb a' b'
    | _, _ => false
    end.
End AList.

Fixpoint aval_eqb (a b : aval) : bool :=
  match a, b with
  | ANone, ANone => true
  | AInt x, AInt y => (x =? y)%Z
  | AStr x, AStr y => (x =? y)%Z
  | AList x, AList y => alist_eqb aval_eqb x y
  | ADict x, ADict y => adict_eqb aval_eqb x y
  | ALeaf x, ALeaf y => (x =? y)%Z
  | _, _ => false
  end.

Definition dict_eqb := adict_eqb aval_eqb.

(* equality of attribute dicts as finite maps (keys are unique on both sides) *)
Definition dict_sim (a b : list (aid * aval)) : bool :=
  (length a =? length b)
  && forallb (fun p => match assoc (fst p) b with
                       | Some v => aval_eqb (snd p) v | None => false end) a.

Definition nats_eqb (a b : list nat) : bool :=
  (length a =? length b) && forallb (fun p => fst p =? snd p) (combine a b).

Definition ty_eqb (a b : ty) : bool :=
  match a, b with
  | TAny, TAny | TInt, TInt | TStr, TStr | TOptInt, TOptInt | TListInt, TListInt
  | TLeaf, TLeaf | TDictAny, TDictAny => true
  | _, _ => false
  end.

Definition dflt_eqb (a b : dflt) : bool :=
  match a, b with
  | DNone, DNone => true
  | DVal x, DVal y => aval_eqb x y
  | DFac x, DFac y => aval_eqb x y
  | _, _ => false
  end.

Definition fn_eqb (a b : fn) : bool :=
  match a, b with
  | FId, FId | FInc, FInc | FWrap, FWrap => true
  | FConst x, FConst y => aval_eqb x y
  | _, _ => false
  end.

Definition optn_eqb (a b : option nat) : bool :=
  match a, b with
  | None, None => true
  | Some x, Some y => x =? y
  | _, _ => false
  end.

Definition rattr_eqb (a b : rattr) : bool :=
  (r_name a =? r_name b) && ty_eqb (r_ty a) (r_ty b) && dflt_eqb (r_dflt a) (r_dflt b)
  && Bool.eqb (r_init a) (r_init b) && (r_owner a =? r_owner b) && Bool.eqb (r_dnc a) (r_dnc b)
  && match r_prep a, r_prep b with
     | None, None => true
     | Some x, Some y => fn_eqb x y
     | _, _ => false
     end.

Fixpoint rattrs_eqb (a b : list rattr) : bool :=
  match a, b with
  | [], [] => true
  | x :: a', y :: b' => rattr_eqb x y && rattrs_eqb a' b'
  | _, _ => false
  end.

(* observed cls.__spec_class__ : (class, key, overflow, attrs in order) ; m_post not observed *)
Definition obs_meta := (cid * (option aid * option aid) * list rattr)%type.

(* post: for every __post_init__ body that ran, its class and the attribute names it found
   in the instance __dict__ at that moment *)
Inductive obs_result :=
| OOk (d : list (aid * aval)) (post : list (cid * list aid)) (hand : list cid)
| OErr (e : err).

Definition names_sim (a b : list aid) : bool :=
  (length a =? length b) && forallb (fun x => memb x b) a && forallb (fun x => memb x a) b.

Fixpoint posts_eqb (a b : list (cid * list aid)) : bool :=
  match a, b with
  | [], [] => true
  | (c, l) :: a', (c', l') :: b' => (c =? c') && nats_eqb l l' && posts_eqb a' b'
  | _, _ => false
  end.

Fixpoint posts_sim (a b : list (cid * list aid)) : bool :=
  match a, b with
  | [], [] => true
  | (c, l) :: a', (c', l') :: b' => (c =? c') && names_sim l l' && posts_sim a' b'
  | _, _ => false
  end.

Record call := mkcall { cl_pos : option aval; cl_kw : list (aid * aval); cl_obs : obs_result }.

Record case := mkcase {
  c_ct : list cdesc;
  c_cls : cid;
  c_table : list obs_meta;
  c_calls : list call;
}.

Definition table_ok (q : quirks) (c : case) : bool :=
  let rt := resolve_all q (c_ct c) in
  forallb (fun o =>
             match o with
             | (cls, (key, ovf), attrs) =>
                 match find_cls cls rt with
                 | Some r => match rc_meta r with
                             | Some m => optn_eqb (m_key m) key && optn_eqb (m_ovf m) ovf
                                         && rattrs_eqb (m_attrs m) attrs
                             | None => false end
                 | None => false
                 end
             end) (c_table c)
  && (length (filter (fun r => opt_is (rc_meta r)) rt) =? length (c_table c)).

Definition model_call_ok (q : quirks) (ra : list rcls) (cl : call) : bool :=
  match construct_in q ra (cl_pos cl) (cl_kw cl), cl_obs cl with
  | Ok s, OOk d post hand =>
      dict_eqb (s_dict s) d && posts_eqb (s_post s) post && nats_eqb (s_hand s) hand
  | Err e, OErr e' => err_eqb e e'
  | _, _ => false
  end.

Definition spec_call_ok (ks : list cdesc) (cl : call) : bool :=
  match expected_init ks (cl_pos cl) (cl_kw cl), cl_obs cl with
  | Ok o, OOk d post hand =>
      dict_sim (o_dict o) d && posts_sim (o_post o) post && nats_eqb (o_hand o) hand
  | Err e, OErr e' => err_eqb e e'
  | _, _ => false
  end.

Definition spec_ok (c : case) : bool :=
  let ks := anc (c_ct c) (c_cls c) in
  forallb (spec_call_ok ks) (c_calls c).

Definition model_ok (q : quirks) (c : case) : bool :=
  let ra := ranc (resolve_all q (c_ct c)) (c_cls c) in
  table_ok q c && forallb (model_call_ok q ra) (c_calls c).

Definition check_case_q (q : quirks) (c : case) : nat :=
  if spec_ok c then (if model_ok q c then 0 else 1) else 2.

Definition check_case : case -> nat := check_case_q cur.

(* diagnostics for the harness (which calls fail which side) *)
Definition diag (c : case) : list (nat * nat) :=
  let ks := anc (c_ct c) (c_cls c) in
  let ra := ranc (resolve_all cur (c_ct c)) (c_cls c) in
  map (fun cl => ((if spec_call_ok ks cl then 0 else 1), (if model_call_ok cur ra cl then 0 else 1)))
      (c_calls c).

(* how many calls of the case satisfy every hypothesis of Props/C09.v:C09_single_inheritance
   (for those, model = specification is a theorem) *)
Definition scope_calls (c : case) : nat :=
  length (filter (fun cl => in_scope (c_ct c) (c_cls c) (cl_pos cl) (cl_kw cl)) (c_calls c)).

(* check code and scope count in one number: 1000 * code + calls in scope *)
Definition check_case_sc (c : case) : nat := 1000 * check_case c + scope_calls c.
