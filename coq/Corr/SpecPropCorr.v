(* Correspondence and property oracle for spec_property / classproperty (C12).
   Concrete pools for everything the theorems keep abstract: values, the
   underlying state, getter, custom setters / deleters, preparers, the
   annotation `int`, a three-class hierarchy.  A case carries the inputs given
   to the implementation and, per operation, what the implementation did
   (outcome, the instance-__dict__ entry of the property resp. the _cache
   dict, the underlying state including the getter call count). *)
From Coq Require Import List ZArith Bool.
From SC Require Import Base.Res Corr.Enc
  Desc.SpecPropModel Desc.SpecPropSpec Desc.ClassPropModel Desc.ClassPropSpec
  Desc.SpecPropDepsModel Desc.SpecPropDepsSpec.
Import ListNotations.
Open Scope Z_scope.

(* ---------------------------------------------------------------- values *)
(* VNone = None, VEStr = '', VEList = [] : falsy values that are NOT sentinels *)
Inductive cval := VInt (z : Z) | VStr (z : Z) | VMissing | VEmpty | VUnchanged
  | VNone | VEStr | VEList.

Definition enc_val (v : cval) : Z :=
  match v with
  | VInt z => 8 * z | VStr z => 8 * z + 1
  | VMissing => 2 | VEmpty => 3 | VUnchanged => 4
  | VNone => 5 | VEStr => 6 | VEList => 7
  end.
Definition enc_opt (o : option cval) : Z :=
  match o with Some v => enc_val v | None => -1 end.

Definition sentinel (v : cval) : bool :=
  match v with VMissing | VEmpty | VUnchanged => true | _ => false end.
(* check_type(v, int) *)
Definition is_int (v : cval) : bool := match v with VInt _ => true | _ => false end.
(* isinstance(v, str) *)
Definition is_str (v : cval) : bool := match v with VStr _ | VEStr => true | _ => false end.

(* user preparer pool (_prepare_p); 0 = no preparer *)
Definition uprep (pid : Z) (v : cval) : res cval :=
  if pid =? 1 then Ok (match v with VInt z => VInt (z + 1) | _ => v end)
  else if pid =? 2 then Ok (match v with VInt z => VStr z | _ => v end)
  else if pid =? 3 then match v with VInt 11 => Err ValueErr | _ => Ok v end
  else Ok v.

(* utils/mutation.py:prepare_attr_value for `p: int` (mutate_value with
   old_value=MISSING, constructor=int): UNCHANGED -> old value = MISSING;
   MISSING / EMPTY -> preparer suppressed, int() = 0; otherwise the preparer *)
Definition pav (pid : Z) (v : cval) : res cval :=
  match v with
  | VUnchanged => Ok VMissing
  | VMissing | VEmpty => Ok (VInt 0)
  | _ => uprep pid v
  end.

(* a mode of the getter, chosen by the underlying state x: 1 raises
   AttributeError, 2 returns MISSING, 3 returns a str, 5 returns UNCHANGED,
   6 raises KeyError, 7 returns None, everything else returns the private
   field if set, else `base` (0 when x = 0: a falsy int) *)
Definition getter_mode (x : Z) (priv : option cval) (base : Z) : res cval :=
  let m := x mod 8 in
  if m =? 1 then Err AttrErr
  else if m =? 2 then Ok VMissing
  else if m =? 3 then Ok (VStr x)
  else if m =? 5 then Ok VUnchanged
  else if m =? 6 then Err KeyErr
  else if m =? 7 then Ok VNone
  else match priv with Some v => Ok v | None => Ok (VInt base) end.

(* ---------------------------------------------------------------- spec_property *)
Record ust := mku { ux : Z; upriv : option cval; ucalls : Z }.

Definition g_fget (u : ust) : res cval * ust :=
  (getter_mode (ux u) (upriv u) (ux u), mku (ux u) (upriv u) (ucalls u + 1)).
Definition g_fset (sid : Z) (u : ust) (v : cval) : res unit * ust :=
  if (sid =? 1) && is_str v then (Err ValueErr, u)
  else (Ok tt, mku (ux u) (Some v) (ucalls u)).
Definition g_fdel (did : Z) (u : ust) : res unit * ust :=
  if (did =? 1) && (match upriv u with None => true | Some _ => false end) then (Err AttrErr, u)
  else (Ok tt, mku (ux u) None (ucalls u)).
Definition g_poke (z : Z) (u : ust) : ust := mku z (upriv u) (ucalls u).

Definition enc_res (r : res (@out cval)) : list Z :=
  match r with
  | Ok ONone => [0; 0]
  | Ok (OVal v) => [1; enc_val v]
  | Err e => [- Z.of_nat (err_code e); 0]
  end.
Definition enc_ust (u : ust) : list Z := [ux u; enc_opt (upriv u); ucalls u].

Record case := mkcase {
  k_cfg : cfg; k_owner : owner; k_sid : Z; k_did : Z; k_pid : Z; k_x0 : Z;
  k_ops : list (@op cval Z); k_seen : list (list Z) }.

Section One.
  Variable k : case.
  Let fs := g_fset (k_sid k).
  Let fd := g_fdel (k_did k).
  Let pr := pav (k_pid k).

  Fixpoint m_trace (s : @mst cval ust) (xs : list (@op cval Z)) : list (list Z) :=
    match xs with
    | [] => []
    | x :: t =>
        let '(r, s1) := m_step sentinel g_fget fs fd g_poke pr is_int (k_cfg k) (k_owner k) s x in
        (enc_res r ++ enc_opt (slot s1) :: enc_ust (mu s1)) :: m_trace s1 t
    end.

  Fixpoint s_trace (s : @sst cval ust) (xs : list (@op cval Z)) : list (list Z) :=
    match xs with
    | [] => []
    | x :: t =>
        let '(r, s1) := spec_step sentinel g_fget fs fd g_poke pr is_int (k_cfg k) (k_owner k) s x in
        (enc_res r ++ enc_opt (visible s1) :: enc_ust (su s1)) :: s_trace s1 t
    end.
End One.

(* 0: model = implementation and specification = implementation
   1: model <> implementation, the specification still accepts the run
   2: the implementation's run is not a run of the two-slot specification *)
Definition check_sp (k : case) : nat :=
  let u0 := mku (k_x0 k) None 0 in
  if zlistlist_eqb (s_trace k (spec_init u0) (k_ops k)) (k_seen k)
  then if zlistlist_eqb (m_trace k (m_init u0) (k_ops k)) (k_seen k) then 0%nat else 1%nat
  else 2%nat.

(* ---------------------------------------------------------------- own-name backing field *)
(* The custom setter / deleter / getter keep their backing value in
   instance.__dict__ under the property's OWN name ("p") instead of "_p".
   Generated only for overridable = false, cache = false: such a property can
   hold neither an override nor a cached value, so that entry is nothing but
   underlying state (the `upriv` field of the pool state) and every read is
   the getter's result on current state.  The observation rows are the same
   ([outcome; value; __dict__["p"]; x; __dict__["_p"]; calls]); expected is
   the ordinary trace with the backing value shown in the __dict__["p"]
   column (the protocol's own entry must be absent) and no "_p" entry. *)
Definition own_row (r : list Z) : list Z :=
  match r with
  | [o; v; sl; x; pv; n] => [o; v; (if sl =? -1 then pv else -99); x; -1; n]
  | _ => r
  end.

(* 3: not applicable (the property could hold an override / a cached value) *)
Definition check_sp_own (k : case) : nat :=
  let u0 := mku (k_x0 k) None 0 in
  if overridable (k_cfg k) || cache (k_cfg k) then 3%nat
  else if zlistlist_eqb (map own_row (s_trace k (spec_init u0) (k_ops k))) (k_seen k)
  then if zlistlist_eqb (map own_row (m_trace k (m_init u0) (k_ops k))) (k_seen k) then 0%nat else 1%nat
  else 2%nat.

(* ---------------------------------------------------------------- trigger + dependant *)
(* two properties t, q on one spec-class instance (Desc/SpecPropDepsModel.v);
   they share x, the private field and the call counter; q's getter answers
   x + 100 where t's answers x *)
Definition g_fget_q (u : ust) : res cval * ust :=
  (getter_mode (ux u) (upriv u) (ux u + 100), mku (ux u) (upriv u) (ucalls u + 1)).

Record dcase := mkdcase {
  e_cfg : dcfg;
  e_sid_t : Z; e_did_t : Z; e_pid_t : Z;
  e_sid_q : Z; e_did_q : Z; e_pid_q : Z;
  e_x0 : Z;
  e_ops : list (@dop cval Z); e_seen : list (list Z) }.

Section OneD.
  Variable k : dcase.

  (* rows: [outcome; value; __dict__["t"]; __dict__["q"]; x; _p; calls] *)
  Fixpoint dm_trace (s : @dmst cval ust) (xs : list (@dop cval Z)) : list (list Z) :=
    match xs with
    | [] => []
    | x :: t =>
        let '(r, s1) := dm_step sentinel g_fget g_fget_q (g_fset (e_sid_t k)) (g_fset (e_sid_q k))
                          (g_fdel (e_did_t k)) (g_fdel (e_did_q k)) g_poke
                          (pav (e_pid_t k)) (pav (e_pid_q k)) is_int is_int (e_cfg k) s x in
        (enc_res r ++ enc_opt (dslot_t s1) :: enc_opt (dslot_q s1) :: enc_ust (dmu s1)) :: dm_trace s1 t
    end.

  Fixpoint ds_trace (s : @dsst cval ust) (xs : list (@dop cval Z)) : list (list Z) :=
    match xs with
    | [] => []
    | x :: t =>
        let '(r, s1) := ds_step sentinel g_fget g_fget_q (g_fset (e_sid_t k)) (g_fset (e_sid_q k))
                          (g_fdel (e_did_t k)) (g_fdel (e_did_q k)) g_poke
                          (pav (e_pid_t k)) (pav (e_pid_q k)) is_int is_int (e_cfg k) s x in
        (enc_res r ++ enc_opt (t_visible s1) :: enc_opt (q_visible s1) :: enc_ust (dsu s1)) :: ds_trace s1 t
    end.
End OneD.

Definition check_dp (k : dcase) : nat :=
  let u0 := mku (e_x0 k) None 0 in
  if zlistlist_eqb (ds_trace k (ds_init u0) (e_ops k)) (e_seen k)
  then if zlistlist_eqb (dm_trace k (dm_init u0) (e_ops k)) (e_seen k) then 0%nat else 1%nat
  else 2%nat.

(* ---------------------------------------------------------------- classproperty *)
(* classes 0 (root A), 1, 2; shape 0: A <- B <- C, shape 1: A <- B, A <- C *)
Definition mro (shape : Z) (c : Z) : list Z :=
  if c =? 0 then [0]
  else if c =? 1 then [1; 0]
  else if shape =? 0 then [2; 1; 0] else [2; 0].

(* class attributes: own `x` and own `_p` of each class; calls counted on A *)
Record cust := mkcu { cxs : list (Z * Z); cps : list (Z * cval); ccalls : Z }.

Definition own {A} (c : Z) (l : list (Z * A)) : option A :=
  option_map snd (find (fun p => fst p =? c) l).
Definition drop {A} (c : Z) (l : list (Z * A)) : list (Z * A) :=
  filter (fun p => negb (fst p =? c)) l.
Fixpoint resolve {A} (l : list (Z * A)) (cs : list Z) : option A :=
  match cs with
  | [] => None
  | c :: t => match own c l with Some a => Some a | None => resolve l t end
  end.

Definition h_fget (shape : Z) (c : Z) (u : cust) : res cval * cust :=
  let x := match resolve (cxs u) (mro shape c) with Some x => x | None => 0 end in
  (getter_mode x (resolve (cps u) (mro shape c)) (10 * x + c),
   mkcu (cxs u) (cps u) (ccalls u + 1)).
Definition h_fset (sid : Z) (c : Z) (u : cust) (v : cval) : res unit * cust :=
  if (sid =? 1) && is_str v then (Err ValueErr, u)
  else (Ok tt, mkcu (cxs u) ((c, v) :: drop c (cps u)) (ccalls u)).
Definition h_fdel (did : Z) (c : Z) (u : cust) : res unit * cust :=
  match own c (cps u) with
  | None => if did =? 1 then (Err AttrErr, u) else (Ok tt, u)
  | Some _ => (Ok tt, mkcu (cxs u) (drop c (cps u)) (ccalls u))
  end.
Definition h_poke (p : Z * Z) (u : cust) : cust :=
  mkcu ((fst p, snd p) :: drop (fst p) (cxs u)) (cps u) (ccalls u).

Definition enc_cres (r : res (@cout cval)) : list Z :=
  match r with
  | Ok CNone => [0; 0]
  | Ok (CVal v) => [1; enc_val v]
  | Err e => [- Z.of_nat (err_code e); 0]
  end.
Definition enc_cust (u : cust) : list Z :=
  map (fun c => match own c (cxs u) with Some x => x | None => -1 end) [0; 1; 2]
  ++ map (fun c => enc_opt (own c (cps u))) [0; 1; 2] ++ [ccalls u].
Definition all_keys : list (option Z) := [None; Some 0; Some 1; Some 2].

Record ccase := mkccase {
  q_cfg : ccfg; q_shape : Z; q_sid : Z; q_did : Z; q_x0 : Z;
  q_ops : list (@cop cval (Z * Z) Z); q_seen : list (list Z) }.

Section OneC.
  Variable q : ccase.
  Let fg := h_fget (q_shape q).
  Let fs := h_fset (q_sid q).
  Let fd := h_fdel (q_did q).

  Fixpoint cm_trace (s : @cst cval cust Z) (xs : list (@cop cval (Z * Z) Z)) : list (list Z) :=
    match xs with
    | [] => []
    | x :: t =>
        let '(r, s1) := cp_step Z.eqb fg fs fd h_poke (q_cfg q) s x in
        (enc_cres r ++ map (fun n => enc_opt (d_get Z.eqb n (cdict s1))) all_keys ++ enc_cust (cu s1))
          :: cm_trace s1 t
    end.

  Fixpoint cs_trace (s : @csst cval cust Z) (xs : list (@cop cval (Z * Z) Z)) : list (list Z) :=
    match xs with
    | [] => []
    | x :: t =>
        let '(r, s1) := cs_step Z.eqb fg fs fd h_poke (q_cfg q) s x in
        (enc_cres r ++ map (fun n => enc_opt (c_visible (machine s1 n))) all_keys ++ enc_cust (csu s1))
          :: cs_trace s1 t
    end.
End OneC.

Definition check_cp (q : ccase) : nat :=
  let u0 := mkcu [(0, q_x0 q)] [] 0 in
  if zlistlist_eqb (cs_trace q (cs_init u0) (q_ops q)) (q_seen q)
  then if zlistlist_eqb (cm_trace q (cp_init u0) (q_ops q)) (q_seen q) then 0%nat else 1%nat
  else 2%nat.
