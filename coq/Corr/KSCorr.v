(* Correspondence and property oracle for KeyedSet (C14).  A case carries the
   inputs given to the implementation and what the implementation did;
   check_case runs the model and the specification on the same inputs. *)
From Coq Require Import List ZArith Bool.
From SC Require Import Base.Res Base.PyList KS.Model KS.Spec Corr.Enc.
Import ListNotations.
Open Scope Z_scope.

(* items are pairs (key index, payload) of small numbers *)
Definition kitem := (Z * Z)%type.
Definition kieqb (a b : kitem) : bool := (fst a =? fst b) && (snd a =? snd b).
Definition kenc_item (x : kitem) : Z := fst x * 16 + snd x.
(* a typed container rejects payload 9 (ill-typed item) and key 9 (ill-typed key) *)
Definition kvalid_of (typed : bool) (x : kitem) : bool :=
  if typed then negb (fst x =? 9) && negb (snd x =? 9) else true.

Section U.
  Context {K : Type}.
  Variable key : kitem -> K.
  Variable keqb : K -> K -> bool.
  Variable as_key : kitem -> option K.
  Variable as_item : K -> option kitem.
  Variable kok : bool -> K -> option K.     (* key function on bare keys, by universe flag *)
  Variable enc_key : K -> Z.

  Definition enc_pairs (ps : list (K * kitem)) : list Z :=
    map (fun p => enc_key (fst p) * 1000 + kenc_item (snd p)) ps.

  Definition enc_out (r : res (@out kitem K)) : list Z :=
    match r with
    | Err e => enc_err e
    | Ok RNone => [0]
    | Ok (RItem x) => [1; kenc_item x]
    | Ok (RItems xs) => 2 :: map kenc_item xs
    | Ok (RBool b) => [3; if b then 1 else 0]
    | Ok (RInt z) => [4; z]
    | Ok (ROpt None) => [5]
    | Ok (ROpt (Some x)) => [5; kenc_item x]
    | Ok (RKeys ks) => 6 :: map enc_key ks
    | Ok (RPairs ps) => 7 :: enc_pairs ps
    | Ok (RNew d) => 8 :: enc_pairs d
    | Ok RSelf => [9]
    end.

  (* one observation of the implementation: output, _dict.items() in order *)
  Definition obs := (list Z * list Z)%type.
  Record case := mkcase { typed : bool; enf : bool; bare : bool; hash : bool;
                          init : list kitem; ops : list (@op kitem K); seen : list obs }.

  Definition obs_eqb (a b : obs) : bool :=
    zlist_eqb (fst a) (fst b) && zlist_eqb (snd a) (snd b).

  Fixpoint all_obs_eqb (a b : list obs) : bool :=
    match a, b with
    | [], [] => true
    | x :: a', y :: b' => obs_eqb x y && all_obs_eqb a' b'
    | _, _ => false
    end.

  (* model trace *)
  Fixpoint trace (valid : kitem -> bool) (kk : K -> option K) (h : kitem -> bool) (e : bool)
           (d : @dict kitem K) (os : list (@op kitem K)) : list obs :=
    match os with
    | [] => []
    | o :: t => let '(r, d') := step key keqb kieqb valid as_key as_item kk h e d o in
                (enc_out r, enc_pairs d') :: trace valid kk h e d' t
    end.

  (* specification trace *)
  Fixpoint spec_trace (valid : kitem -> bool) (kk : K -> option K) (h : kitem -> bool) (e : bool)
           (m : @dict kitem K) (os : list (@op kitem K)) : list obs :=
    match os with
    | [] => []
    | o :: t => let '(r, m') := spec_step key keqb kieqb valid kk h e m o in
                (enc_out r, enc_pairs m') :: spec_trace valid kk h e m' t
    end.

  (* 0: model = implementation and specification = implementation
     1: model <> implementation, the specification still accepts the run
     2: the implementation's run violates the specification (property)
     3: the initial container could not be built *)
  Definition check_case (c : case) : nat :=
    let valid := kvalid_of (typed c) in
    let kk := kok (bare c) in
    let h := fun _ : kitem => hash c in
    match from_iterable key keqb kieqb valid (enf c) (init c),
          fresh key keqb kieqb valid (enf c) (init c) with
    | Ok d0, Ok m0 =>
        if all_obs_eqb (spec_trace valid kk h (enf c) m0 (ops c)) (seen c)
        then if all_obs_eqb (trace valid kk h (enf c) d0 (ops c)) (seen c) then 0%nat else 1%nat
        else 2%nat
    | _, _ => 3%nat
    end.
End U.

(* universe "self": an item is its own key *)
Definition kkey_self (x : kitem) : kitem := x.
Definition check_ks_self (c : @case kitem) : nat :=
  check_case kkey_self kieqb (fun x => Some x) (fun k => Some k) (fun _ k => Some k) kenc_item c.
(* the other universes: the key is the first component; an item is never a
   key and a key never an item; `bare` says whether the key function is
   defined on bare keys (returning the key) or raises TypeError there *)
Definition kkey_fst (x : kitem) : Z := fst x.
Definition kok_fst (b : bool) (k : Z) : option Z := if b then Some k else None.
Definition check_ks_fst (c : @case Z) : nat :=
  check_case kkey_fst Z.eqb (fun _ => None) (fun _ => None) kok_fst (fun k => k) c.
