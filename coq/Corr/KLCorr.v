(* Correspondence and property oracle for KeyedList (C13).  A case carries
   the inputs given to the implementation and what the implementation did;
   check_case runs the model and the specification on the same inputs. *)
From Coq Require Import List ZArith Bool.
From SC Require Import Base.Res Base.PyList KL.Model KL.Spec Corr.Enc.
Import ListNotations.
Open Scope Z_scope.

Definition item := (Z * Z)%type.
Definition ieqb (a b : item) : bool := (fst a =? fst b) && (snd a =? snd b).
Definition enc_item (x : item) : Z := fst x * 16 + snd x.
(* a typed container rejects payload 9 (ill-typed item) and key 9 (ill-typed key) *)
Definition valid_of (typed : bool) (x : item) : bool :=
  if typed then negb (fst x =? 9) && negb (snd x =? 9) else true.

Section U.
  Context {K : Type}.
  Variable key : item -> K.
  Variable keqb : K -> K -> bool.
  Variable as_key : item -> option K.
  Variable as_item : K -> option item.
  Variable enc_key : K -> Z.

  Definition enc_pairs (ps : list (K * item)) : list Z :=
    zsort (map (fun p => enc_key (fst p) * 1000 + enc_item (snd p)) ps).

  Definition enc_state (s : @st item K) : list Z * list Z :=
    (map enc_item (lst s), enc_pairs (dct s)).

  Definition enc_out (r : res (@out item K)) : list Z :=
    match r with
    | Err e => enc_err e
    | Ok RNone => [0]
    | Ok (RItem x) => [1; enc_item x]
    | Ok (RItems xs) => 2 :: map enc_item xs
    | Ok (RBool b) => [3; if b then 1 else 0]
    | Ok (RInt z) => [4; z]
    | Ok (ROpt None) => [5]
    | Ok (ROpt (Some x)) => [5; enc_item x]
    | Ok (RKeys ks) => 6 :: zsort (map enc_key ks)
    | Ok (RPairs ps) => 7 :: enc_pairs ps
    | Ok (RNew n) => 8 :: Z.of_nat (length (lst n)) :: map enc_item (lst n) ++ enc_pairs (dct n)
    end.

  (* one observation of the implementation: output, _list, _dict *)
  Definition obs := (list Z * list Z * list Z)%type.
  Record case := mkcase { typed : bool; init : list item; ops : list (@op item K); seen : list obs }.

  Definition obs_eqb (a b : obs) : bool :=
    let '(o1, l1, d1) := a in let '(o2, l2, d2) := b in
    zlist_eqb o1 o2 && zlist_eqb l1 l2 && zlist_eqb d1 d2.

  Fixpoint all_obs_eqb (a b : list obs) : bool :=
    match a, b with
    | [], [] => true
    | x :: a', y :: b' => obs_eqb x y && all_obs_eqb a' b'
    | _, _ => false
    end.

  (* model trace *)
  Fixpoint trace (valid : item -> bool) (s : @st item K) (os : list (@op item K)) : list obs :=
    match os with
    | [] => []
    | o :: t => let '(r, s') := step key keqb ieqb valid as_key as_item s o in
                (enc_out r, fst (enc_state s'), snd (enc_state s')) :: trace valid s' t
    end.

  (* specification trace: the state is a plain list; the key index is derived *)
  Fixpoint spec_trace (valid : item -> bool) (l : list item) (os : list (@op item K)) : list obs :=
    match os with
    | [] => []
    | o :: t => let '(r, l') := spec_step key keqb ieqb valid as_key as_item l o in
                (enc_out r, map enc_item l', snd (enc_state (view key l'))) :: spec_trace valid l' t
    end.

  (* 0: model = implementation and specification = implementation
     1: model <> implementation, the specification still accepts the run
     2: the implementation's run violates the specification (property)
     3: the initial container could not be built by the model *)
  Definition check_case (c : case) : nat :=
    let valid := valid_of (typed c) in
    match construct_typed key keqb valid (init c) with
    | Err _ => 3%nat
    | Ok s0 =>
        if all_obs_eqb (spec_trace valid (lst s0) (ops c)) (seen c)
        then if all_obs_eqb (trace valid s0 (ops c)) (seen c) then 0%nat else 1%nat
        else 2%nat
    end.
End U.

(* universe 1: an item is its own key *)
Definition key_self (x : item) : item := x.
Definition check_self (c : @case item) : nat :=
  check_case key_self ieqb (fun x => Some x) (fun k => Some k) enc_item c.
(* universes 2-4: the key is the first component *)
Definition key_fst (x : item) : Z := fst x.
Definition check_fst (c : @case Z) : nat :=
  check_case key_fst Z.eqb (fun _ => None) (fun _ => None) (fun k => k) c.
