(* Correspondence and property oracles for the instance model (C01-C09, C11).
   A case carries a class table, the initial heap (class-level default
   objects), a list of operations (with the callback invocation that is made
   to raise, if any) and what the implementation did after every operation:
   outcome and canonical object graph of all roots.  check_case returns a
   bit mask:
     1   the model's trace differs from the implementation's
     2   C01: a copy-on-write call changed a pre-existing object
     4   C02: result shares a mutable object with the receiver (not exempt)
     8   C03: a managed attribute holds a value outside its annotation
     16  C04: an operation raised and a pre-existing object changed
     32  C08: an instance shares a mutable object with a class default,
              a constructor argument or a peer
     64  C07: frozen instance changed / wrong error / copy not distinct
     128 an OpSame assertion (equal field values) failed
   The oracles (bits >= 2) only look at the implementation's observations. *)
From Coq Require Import List ZArith Bool Arith.
From SC Require Import Base.Res Base.PyList Inst.Heap Inst.ClassTable Inst.Model Inst.Canon.
Import ListNotations.
Open Scope nat_scope.

Definition RB : nat := 50 * 100.   (* VRef (RB + n) in an operation denotes root n *)

Definition rv (roots : list val) (v : val) : val :=
  match v with
  | VRef l => if RB <=? l then nth (l - RB) roots VNone else v
  | _ => v
  end.
Definition rkw (roots : list val) (kw : list (aid * val)) := map (fun p => (fst p, rv roots (snd p))) kw.
Definition robj (roots : list val) (o : obj) : obj :=
  match o with
  | OList xs => OList (map (rv roots) xs)
  | ODict kvs => ODict (map (fun p => (rv roots (fst p), rv roots (snd p))) kvs)
  | OSet xs => OSet (map (rv roots) xs)
  | OInst c d => OInst c (rkw roots d)
  end.
Definition rh (roots : list val) (h : hargs) : hargs :=
  mkh (map (rv roots) (h_pos h)) (h_inplace h) (h_if h) (rv roots (h_index h)) (h_insert h)
      (h_by_index h) (option_map (rkw roots) (h_kw h)) (h_kwfn h) (h_fn h).

Inductive xop :=
| XOp (o : op)
| XSame (x y : nat) (a : aid).   (* oracle: roots[x].a and roots[y].a are equal (or both missing) *)

Definition rop (roots : list val) (o : op) : op :=
  match o with
  | OpConstruct c pos kw => OpConstruct c (option_map (rv roots) pos) (rkw roots kw)
  | OpSetAttr x a v => OpSetAttr x a (rv roots v)
  | OpDelAttr x a => OpDelAttr x a
  | OpHelper x hp h => OpHelper x hp (rh roots h)
  | OpDeepCopy x => OpDeepCopy x
  | OpAlloc ob => OpAlloc (robj roots ob)
  end.

Definition obs := (list Z * graph)%type.

Record icase := mkic {
  ic_ct : ctable;
  ic_heap0 : list obj;
  ic_ops : list (xop * option nat);
  ic_seen0 : graph;
  ic_seen : list obs }.

Definition enc_res (r : res val) : list Z :=
  match r with Ok _ => [0%Z] | Err e => [(- Z.of_nat (err_code e))%Z] end.

Fixpoint zl_eqb (a b : list Z) : bool :=
  match a, b with
  | [], [] => true
  | x :: a', y :: b' => (x =? y)%Z && zl_eqb a' b'
  | _, _ => false
  end.

Definition obs_eqb (a b : obs) : bool := zl_eqb (fst a) (fst b) && graph_eqb (snd a) (snd b).

(* model trace *)
Fixpoint trace (ct : ctable) (s : state) (roots : list val) (ops : list (xop * option nat)) : list obs :=
  match ops with
  | [] => []
  | (XSame _ _ _, _) :: t => ([0%Z], canon (heap s) roots) :: trace ct s roots t
  | (XOp o, fa) :: t =>
      let s0 := mkst (heap s) 0 fa in
      let '(r, s') := step ct roots (rop roots o) s0 in
      let roots' := roots ++ [match r with Ok v => v | Err _ => VNone end] in
      (enc_res r, canon (heap s') roots') :: trace ct s' roots' t
  end.

(* ---------------- oracles on observed graphs ---------------- *)
Definition mem (n : nat) (l : list nat) : bool := existsb (fun x => x =? n) l.
Definition subset (a b : list nat) : bool := forallb (fun x => mem x b) a.
Definition inter (a b : list nat) : list nat := filter (fun x => mem x b) a.

Definition root_val (g : graph) (x : nat) : val := nth x (fst g) VNone.
Definition node_of (g : graph) (v : val) : option obj :=
  match v with VRef n => nth_error (snd g) n | _ => None end.

Definition cls_of_root (ct : ctable) (g : graph) (x : nat) : option cls :=
  match node_of g (root_val g x) with
  | Some (OInst c _) => lookup_cls ct c
  | _ => None
  end.

(* instances that deepcopy leaves uncopied (frozen / do_not_copy classes) and what they reach *)
Definition uncopied_nodes (ct : ctable) (g : graph) : list nat :=
  flat_map (fun n => match nth_error (snd g) n with
                     | Some (OInst c _) =>
                         match lookup_cls ct c with
                         | Some k => if c_dnc k then reach g (VRef n) else []
                         | None => [] end
                     | _ => [] end)
           (seq 0 (length (snd g))).

(* values held by do_not_copy attributes anywhere in the graph, and what they reach *)
Definition dnc_nodes (ct : ctable) (g : graph) : list nat :=
  flat_map (fun o => match o with
                     | OInst c d =>
                         match lookup_cls ct c with
                         | Some k => flat_map (fun p => match lookup_attr k (fst p) with
                                                        | Some sp => if a_dnc sp then reach g (snd p) else []
                                                        | None => [] end) d
                         | None => [] end
                     | _ => [] end) (snd g).

Definition arg_roots_of_val (v : val) : list nat :=
  match v with VRef l => if RB <=? l then [l - RB] else [] | _ => [] end.
Definition arg_roots (o : op) : list nat :=
  match o with
  | OpConstruct _ pos kw => (match pos with Some v => arg_roots_of_val v | None => [] end)
                            ++ flat_map (fun p => arg_roots_of_val (snd p)) kw
  | OpSetAttr _ _ v => arg_roots_of_val v
  | OpHelper _ _ h => flat_map arg_roots_of_val (h_pos h) ++ arg_roots_of_val (h_index h)
                      ++ match h_kw h with Some kw => flat_map (fun p => arg_roots_of_val (snd p)) kw | None => [] end
  | _ => []
  end.

Definition is_cow_call (o : op) : bool :=
  match o with
  | OpHelper _ _ h => negb (h_inplace h)
  | OpDeepCopy _ => true
  | _ => false
  end.
Definition receiver (o : op) : option nat :=
  match o with
  | OpHelper x _ _ | OpDeepCopy x | OpSetAttr x _ _ | OpDelAttr x _ => Some x
  | _ => None
  end.
Definition is_inplace_mutation (o : op) : bool :=
  match o with
  | OpSetAttr _ _ _ | OpDelAttr _ _ => true
  | OpHelper _ _ h => h_inplace h && h_if h
  | _ => false
  end.

Definition frozen_root (ct : ctable) (g : graph) (x : nat) : bool :=
  match cls_of_root ct g x with Some k => c_frozen k | None => false end.
Definition dnc_class_root (ct : ctable) (g : graph) (x : nat) : bool :=
  match cls_of_root ct g x with Some k => c_dnc k | None => false end.

Definition type_inv (ct : ctable) (g : graph) : bool :=
  forallb (fun o => match o with
                    | OInst c d =>
                        match lookup_cls ct c with
                        | Some k => forallb (fun p => match lookup_attr k (fst p) with
                                                      | Some sp => check_type FUEL ct (snd g) (snd p) (a_ty sp)
                                                      | None => true end) d
                        | None => true end
                    | _ => true end) (snd g).

Definition field_of (g : graph) (x : nat) (a : aid) : val :=
  match node_of g (root_val g x) with
  | Some (OInst _ d) => match assoc a d with Some v => v | None => VMissing end
  | _ => VMissing
  end.

(* the own dictionary of an instance with references blurred (node numbers may
   shift when something else legitimately changes) *)
Definition inst_shallow (g : graph) (v : val) : option obj :=
  match node_of g v with
  | Some (OInst c d) =>
      Some (OInst c (map (fun p => (fst p, match snd p with VRef _ => VRef 0 | w => w end)) d))
  | _ => None
  end.
(* every frozen instance the program holds keeps its own dictionary, whatever
   the operation and its receiver *)
Definition frozen_roots_kept (ct : ctable) (pre post : graph) : bool :=
  forallb (fun x => if frozen_root ct pre x
                    then match inst_shallow pre (root_val pre x), inst_shallow post (root_val post x) with
                         | Some a, Some b => obj_syn_eqb a b
                         | None, None => true
                         | _, _ => false end
                    else true)
          (seq 0 (length (fst pre))).

Definition oracle_step (ct : ctable) (nd : nat) (pre post : graph) (xo : xop) (out : list Z) : nat :=
  match xo with
  | XSame x y a =>
      if val_eqb FUEL ct (snd post) (field_of post x a) (field_of post y a) then 0 else 128
  | XOp o =>
      let failed := negb (zl_eqb out [0%Z]) in
      let nroots := length (fst pre) in
      let recv := receiver o in
      let recv_frozen := match recv with Some x => frozen_root ct pre x | None => false end in
      let recv_dnc := match recv with Some x => dnc_class_root ct pre x | None => false end in
      let unchanged := graph_prefix pre post in
      (* C01 *)
      (if is_cow_call o && negb recv_frozen && negb recv_dnc && negb unchanged then 2 else 0)
      (* C04 *)
      + (if failed && negb unchanged then 16 else 0)
      (* C03 *)
      + (if type_inv ct post then 0 else 8)
      (* C02 *)
      + (if is_cow_call o && negb failed && negb recv_dnc then
           match recv with
           | Some x =>
               let res := root_val post nroots in
               if val_syn_eqb res (root_val post x) then 0 else
               let shared := inter (reach post res) (reach post (root_val post x)) in
               let allowed := flat_map (fun r => reach post (root_val post r)) (arg_roots o)
                              ++ dnc_nodes ct post ++ uncopied_nodes ct post in
               if subset shared allowed then 0 else 4
           | None => 0 end
         else 0)
      (* C08 *)
      + (match o with
         | OpConstruct _ _ _ =>
             if failed then 0 else
             let res := root_val post nroots in
             let old := flat_map (fun v => reach post v) (firstn nroots (fst post)) in
             let allowed := dnc_nodes ct post ++ uncopied_nodes ct post in
             if subset (inter (reach post res) old) allowed then 0 else 32
         | OpAlloc _ => 0
         | _ =>
             (* class defaults (the first nd roots) are never reachable from anything else *)
             let dflt := flat_map (fun v => reach post v) (firstn nd (fst post)) in
             let rest := flat_map (fun v => reach post v) (skipn nd (fst post)) in
             if subset (inter dflt rest) (uncopied_nodes ct post) then 0 else 32
         end)
      (* C07 *)
      + (if (if recv_frozen then
                if is_inplace_mutation o then negb unchanged
                else is_cow_call o && negb unchanged
              else false) || negb (frozen_roots_kept ct pre post)
         then 64 else 0)
  end.

Fixpoint oracles (ct : ctable) (nd : nat) (pre : graph) (ops : list (xop * option nat)) (seen : list obs) : nat :=
  match ops, seen with
  | (xo, _) :: t, (out, post) :: t' =>
      let c := oracle_step ct nd pre post xo out in
      if c =? 0 then oracles ct nd post t t' else c
  | _, _ => 0
  end.

Fixpoint all_obs_eqb (a b : list obs) : bool :=
  match a, b with
  | [], [] => true
  | x :: a', y :: b' => obs_eqb x y && all_obs_eqb a' b'
  | _, _ => false
  end.

Definition check_case (c : icase) : nat :=
  let nd := length (ic_heap0 c) in
  let roots0 := map VRef (seq 0 nd) in
  let s0 := mkst (ic_heap0 c) 0 None in
  let m := if graph_eqb (canon (ic_heap0 c) roots0) (ic_seen0 c)
              && all_obs_eqb (trace (ic_ct c) s0 roots0 (ic_ops c)) (ic_seen c)
           then 0 else 1 in
  m + oracles (ic_ct c) nd (ic_seen0 c) (ic_ops c) (ic_seen c).

(* debugging aid: the model's trace *)
Definition model_trace (c : icase) : list obs :=
  let nd := length (ic_heap0 c) in
  trace (ic_ct c) (mkst (ic_heap0 c) 0 None) (map VRef (seq 0 nd)) (ic_ops c).
