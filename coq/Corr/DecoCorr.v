(* Correspondence and property oracle for C16.  A case carries the class as
   written (body, annotations, decorator arguments), inflect's answers for the
   names involved, and what the IMPLEMENTATION did: outcome of decoration,
   the class __dict__ after decoration (bootstrap done) and after the first
   instantiation followed by a first use of every name, __spec_class__.attrs and __annotations__.
   check_case: 0 = model agrees and the observation satisfies DecoSpec;
   1 = model differs, observation still satisfies DecoSpec; 2 = the
   observation violates DecoSpec (property violation).  The oracle part
   (spec_ok) never calls Deco.Decorate.decorate. *)
From Coq Require Import String List Bool ZArith Ascii.
From SC Require Import Base.Res Deco.Naming Deco.Decorate Deco.DecoSpec Corr.Enc.
Import ListNotations.
Open Scope string_scope.

(* ---------- decidable equalities (transparent, so that vm_compute evaluates them) *)
Definition ckind_eq_dec (a b : ckind) : {a = b} + {a <> b}. Proof. decide equality. Defined.
Definition aty_eq_dec (a b : aty) : {a = b} + {a <> b}. Proof. decide equality; apply ckind_eq_dec. Defined.
Definition mkind_eq_dec (a b : mkind) : {a = b} + {a <> b}. Proof. decide equality. Defined.
Definition member_eq_dec (a b : member) : {a = b} + {a <> b}.
Proof. decide equality; [apply Z.eq_dec|apply mkind_eq_dec]. Defined.
Definition core_eq_dec (a b : core) : {a = b} + {a <> b}. Proof. decide equality. Defined.
Definition top_eq_dec (a b : top) : {a = b} + {a <> b}. Proof. decide equality. Defined.
Definition sprefix_eq_dec (a b : sprefix) : {a = b} + {a <> b}. Proof. decide equality. Defined.
Definition eprefix_eq_dec (a b : eprefix) : {a = b} + {a <> b}. Proof. decide equality. Defined.
Definition gen_eq_dec (a b : gen) : {a = b} + {a <> b}.
Proof.
  decide equality; try apply string_dec; try apply ckind_eq_dec; try apply core_eq_dec;
    try apply top_eq_dec; try apply sprefix_eq_dec; try apply eprefix_eq_dec.
Defined.
Definition entry_eq_dec (a b : entry) : {a = b} + {a <> b}.
Proof. decide equality; try apply member_eq_dec; try apply gen_eq_dec; try apply bool_dec. Defined.
Definition aspec_eq_dec (a b : aspec) : {a = b} + {a <> b}.
Proof. decide equality; try apply bool_dec; try apply string_dec; try apply aty_eq_dec. Defined.

Definition entry_eqb (a b : entry) : bool := if entry_eq_dec a b then true else false.
Definition gen_eqb (a b : gen) : bool := if gen_eq_dec a b then true else false.
Definition aspec_eqb (a b : aspec) : bool := if aspec_eq_dec a b then true else false.

(* an observed dictionary entry: classified, or something the harness could not classify *)
Inductive oentry := OE (e : entry) | OOther (code : Z).

Record case := mkcase {
  k_cfg : cfg;
  k_cls : cls;
  k_sing : list (name * option name);     (* inflect.singular_noun on the names involved *)
  k_inst : bool;                           (* the class was instantiated once *)
  k_uses : list name;                      (* names looked up for "first use", in order *)
  o_outcome : Z;                           (* 0 | -2 ValueError | -7 RuntimeError | other *)
  o_after : list (name * oentry);
  o_used : list (name * oentry);
  o_attrs : list (name * aspec);
  o_annots : list name
}.

Definition sing_of (tbl : list (name * option name)) (n : name) : option name :=
  match lookup n tbl with Some r => r | None => None end.

(* ---------- comparison with the model *)
Fixpoint dict_sub (obs : list (name * oentry)) (model : list (name * entry)) : bool :=
  match obs with
  | [] => true
  | (n, OE e) :: t =>
      match lookup n model with Some e' => entry_eqb e e' | None => false end && dict_sub t model
  | (_, OOther _) :: _ => false
  end.
Definition dict_same (obs : list (name * oentry)) (model : list (name * entry)) : bool :=
  Nat.eqb (length obs) (length model) && dict_sub obs model.

Fixpoint attrs_same (a b : list (name * aspec)) : bool :=
  match a, b with
  | [], [] => true
  | (n, s) :: a', (n', s') :: b' => String.eqb n n' && aspec_eqb s s' && attrs_same a' b'
  | _, _ => false
  end.
Fixpoint names_same (a b : list name) : bool :=
  match a, b with
  | [], [] => true
  | n :: a', n' :: b' => String.eqb n n' && names_same a' b'
  | _, _ => false
  end.

Definition model_agrees (c : case) : bool :=
  let sing := sing_of (k_sing c) in
  match decorate sing (k_cfg c) (k_cls c) with
  | Err e => Z.eqb (o_outcome c) (- Z.of_nat (err_code e))
  | Ok d =>
      let du := if k_inst c then instantiate (k_cfg c) (k_cls c) (d_dict d) else d_dict d in
      Z.eqb (o_outcome c) 0 &&
      dict_same (o_after c) (d_dict d) &&
      dict_same (o_used c) (use_all du (k_uses c)) &&
      attrs_same (o_attrs c) (d_attrs d) &&
      names_same (o_annots c) (d_annots d)
  end.

(* ---------- the property oracle: DecoSpec evaluated on the observation *)
Definition uses_annotations_b (c : cfg) : bool :=
  (match olist (c_attrs c), olist (c_attrs_typed c) with [], [] => true | _, _ => false end)
  || match c_attrs_skip c with Some _ => true | None => false end.

Definition requested_b (c : cfg) (k : cls) (a : name) : bool :=
  (uses_annotations_b c && memb a (map fst (annots k)) && negb (is_private a)
     && negb (memb a (olist (c_attrs_skip c))))
  || memb a (olist (c_attrs c))
  || memb a (map fst (olist (c_attrs_typed c)))
  || match c_overflow c with Some o => String.eqb o a && negb (String.eqb a "") | None => false end.

Definition candidates (c : cfg) (k : cls) : list name :=
  map fst (annots k) ++ olist (c_attrs c) ++ map fst (olist (c_attrs_typed c))
  ++ match c_overflow c with Some o => [o] | None => [] end.

Fixpoint dedup (l : list name) : list name :=
  match l with [] => [] | x :: t => if memb x t then dedup t else x :: dedup t end.

Definition requested_list (c : cfg) (k : cls) : list name :=
  dedup (filter (requested_b c k) (candidates c k)).

Definition oitem (attrs : list (name * aspec)) (a : name) : name :=
  match lookup a attrs with Some s => a_item s | None => "" end.

(* name -> the generated object DecoSpec expects there *)
Definition expected_table (c : cfg) (k : cls) (attrs : list (name * aspec)) : list (name * gen) :=
  map (fun t => (top_name t, GTop t)) tops ++
  flat_map (fun a => map (fun p => (scalar_name p a, GScalar p a)) sprefixes) (requested_list c k) ++
  flat_map (fun a => match declared c k a with
                     | TColl kd => map (fun p => (elem_name p (oitem attrs a), GElem p a kd (oitem attrs a))) eprefixes
                     | TScalar => []
                     end) (requested_list c k).

Definition oe_gen (e : oentry) : option gen :=
  match e with OE (EGen g _) => Some g | _ => None end.

Definition olookup (n : name) (d : list (name * oentry)) : option oentry := lookup n d.

(* S1: user members *)
Definition user_ok (c : case) (hook_allowed : bool) (d : list (name * oentry)) : bool :=
  forallb (fun p =>
    let '(n, m) := p in
    if reserved n then true else
    match olookup n d with
    | Some (OE (EUser m')) => if member_eq_dec m m' then true else false
    | Some (OE (ELifted m')) =>
        (if member_eq_dec m m' then true else false) && is_decl m && mem n (o_attrs c)
    | Some (OE (EUnwrapped m')) =>
        (if member_eq_dec m m' then true else false) && String.eqb n "__new__" && c_lazy (k_cfg c)
    | Some (OE (EGen GNewHook _)) =>
        String.eqb n "__new__" && c_lazy (k_cfg c) && hook_allowed
    | _ => false
    end) (body (k_cls c)).

(* an unspecified declaration must stay *)
Definition decl_ok (c : case) (d : list (name * oentry)) : bool :=
  forallb (fun p =>
    let '(n, m) := p in
    if reserved n || negb (is_decl m) || mem n (o_attrs c) then true else
    match olookup n d with
    | Some (OE (EUser m')) => if member_eq_dec m m' then true else false
    | _ => false
    end) (body (k_cls c)).

(* S2: exactly the documented helpers, each for the right attribute *)
Definition helpers_ok (c : case) (d : list (name * oentry)) : bool :=
  let tbl := expected_table (k_cfg c) (k_cls c) (o_attrs c) in
  (* every expected name not occupied by the body holds exactly the expected helper *)
  forallb (fun p =>
    let '(n, g) := p in
    if mem n (body (k_cls c)) then true else
    match olookup n d with
    | Some oe => match oe_gen oe with Some g' => gen_eqb g g' | None => false end
    | None => false
    end) tbl &&
  (* every observed helper is expected and not over a body name *)
  forallb (fun p =>
    let '(n, oe) := p in
    match oe_gen oe with
    | Some g => if helper_gen g then mem n tbl && negb (mem n (body (k_cls c))) else true
    | None => true
    end) d.

(* S3: __spec_class_* names and the dunder switches *)
Definition cores : list core := [CInit; CRepr; CEq; CGetAttr; CSetAttr; CDelAttr; CDeepCopy].
Definition spec_names_ok (c : case) (d : list (name * oentry)) : bool :=
  forallb (fun cr =>
    match olookup (core_backup_name cr) d with
    | Some oe => match oe_gen oe with Some g => gen_eqb g (GCore cr) | None => false end
    | None => false
    end) [CInit; CRepr; CEq] &&
  forallb (fun cr =>
    if mem (core_name cr) (body (k_cls c)) then true else
    match olookup (core_name cr) d with
    | Some oe => core_enabled (k_cfg c) cr &&
                 match oe_gen oe with Some g => gen_eqb g (GCore cr) | None => false end
    | None => negb (core_enabled (k_cfg c) cr)
    end) cores.

(* S4: private names never get helpers *)
Definition private_ok (c : case) (d : list (name * oentry)) : bool :=
  forallb (fun p => match oe_gen (snd p) with
                    | Some g => match gen_attr g with Some a => negb (is_private a) | None => true end
                    | None => true end) d &&
  forallb (fun p => negb (a_helpers (snd p)) || negb (is_private (fst p))) (o_attrs c).

(* S5: the item-name rule on the observed attribute table *)
Definition item_rule_ok (c : case) : bool :=
  let sing := sing_of (k_sing c) in
  let attrs := o_attrs c in
  let names := map fst attrs in
  let colls := filter (fun p => is_coll (snd p)) attrs in
  forallb (fun p =>
    let '(a, s) := p in
    let it := a_item s in
    let nat_ := get_singular_form sing a in
    (String.eqb it nat_ || String.eqb it (item_fallback a)) &&
    negb (memb it names) &&
    forallb (fun q => String.eqb (fst q) a || negb (String.eqb (a_item (snd q)) it)) colls &&
    (String.eqb it nat_ || memb nat_ names ||
     existsb (fun q => negb (String.eqb (fst q) a) && String.eqb (a_item (snd q)) nat_) colls)
  ) colls.

(* S6: raising is allowed only for private requests (ValueError) or for a
   collection attribute whose singular AND fallback are both taken *)
Definition private_requested (c : cfg) : bool :=
  existsb is_private (olist (c_attrs c) ++ map fst (olist (c_attrs_typed c))
                      ++ match c_overflow c with Some o => if String.eqb o "" then [] else [o] | None => [] end)%list.

Definition double_collision (c : case) : bool :=
  let sing := sing_of (k_sing c) in
  let cfg_ := k_cfg c in let k := k_cls c in
  let key := match c_key cfg_ with Some kx => if String.eqb kx "" then [] else [kx] | None => [] end in
  let names := dedup (requested_list cfg_ k ++ key)%list in
  let colls := filter (fun a => match declared cfg_ k a with TColl _ => true | TScalar => false end) names in
  existsb (fun a =>
    let taken := (names ++ flat_map (fun b => if String.eqb b a then [] else
                                    [get_singular_form sing b; item_fallback b]) colls)%list in
    memb (get_singular_form sing a) taken && memb (item_fallback a) taken) colls.

(* decoration raised: whatever was done before, no user code was replaced (a declaration may
   already have been lifted, the lazy __new__ hook may be in place) *)
Definition user_ok_raised (c : case) (d : list (name * oentry)) : bool :=
  forallb (fun p =>
    let '(n, m) := p in
    if reserved n then true else
    match olookup n d with
    | Some (OE (EUser m')) => if member_eq_dec m m' then true else false
    | Some (OE (ELifted m')) => (if member_eq_dec m m' then true else false) && is_decl m
    | Some (OE (EGen GNewHook _)) => String.eqb n "__new__" && c_lazy (k_cfg c)
    | _ => false
    end) (body (k_cls c)).

Definition spec_ok (c : case) : bool :=
  if Z.eqb (o_outcome c) 0 then
    user_ok c true (o_after c) && user_ok c (negb (k_inst c)) (o_used c) &&
    decl_ok c (o_after c) && decl_ok c (o_used c) &&
    helpers_ok c (o_after c) && helpers_ok c (o_used c) &&
    spec_names_ok c (o_after c) && spec_names_ok c (o_used c) &&
    private_ok c (o_after c) && private_ok c (o_used c) &&
    item_rule_ok c
  else if Z.eqb (o_outcome c) (-2) then
    (private_requested (k_cfg c) || contradictory_constructor (k_cfg c)) && user_ok_raised c (o_after c)
  else if Z.eqb (o_outcome c) (-7) then double_collision c && user_ok_raised c (o_after c)
  else false.

Definition check_case (c : case) : nat :=
  if spec_ok c then (if model_agrees c then 0%nat else 1%nat) else 2%nat.

(* which part of the oracle rejects (for reports) *)
Definition spec_parts (c : case) : list bool :=
  [user_ok c true (o_after c); user_ok c (negb (k_inst c)) (o_used c); decl_ok c (o_after c); decl_ok c (o_used c);
   helpers_ok c (o_after c); helpers_ok c (o_used c); spec_names_ok c (o_after c);
   spec_names_ok c (o_used c); private_ok c (o_after c); private_ok c (o_used c); item_rule_ok c].
Definition spec_fail_bits (c : case) : nat :=
  fold_right (fun (b : bool) (acc : nat) => (2 * acc + (if b then 0 else 1))%nat) 0%nat (spec_parts c).
