(* Canonical encodings shared by the correspondence checks. *)
From Coq Require Import List ZArith Bool.
From SC Require Import Base.Res.
Import ListNotations.
Open Scope Z_scope.

Fixpoint zinsert (x : Z) (l : list Z) : list Z :=
  match l with
  | [] => [x]
  | y :: t => if x <=? y then x :: l else y :: zinsert x t
  end.
Definition zsort (l : list Z) : list Z := fold_right zinsert [] l.

Fixpoint zlist_eqb (a b : list Z) : bool :=
  match a, b with
  | [], [] => true
  | x :: a', y :: b' => (x =? y) && zlist_eqb a' b'
  | _, _ => false
  end.

Fixpoint zlistlist_eqb (a b : list (list Z)) : bool :=
  match a, b with
  | [], [] => true
  | x :: a', y :: b' => zlist_eqb x y && zlistlist_eqb a' b'
  | _, _ => false
  end.

Definition enc_err (e : err) : list Z := [- Z.of_nat (err_code e)].

(* indices (from 0) of the cases whose check code is not 0, with the code *)
Fixpoint failing_from (n : nat) (codes : list nat) : list (nat * nat) :=
  match codes with
  | [] => []
  | O :: t => failing_from (S n) t
  | c :: t => (n, c) :: failing_from (S n) t
  end.
Definition failing (codes : list nat) : list (nat * nat) := failing_from 0 codes.
