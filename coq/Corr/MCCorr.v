(* C20 correspondence checker (under construction) *)
