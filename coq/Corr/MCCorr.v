(* C20 — correspondence and property oracle for _modules_copyable.
   A case carries what was given to the implementation (bracket structure of
   the copies, schedule) and what the implementation did (the projection of
   copyreg.dispatch_table and the singleton's counter/flag after every event or
   scheduler step, positions of the threads, outcomes).
   check_* returns 0: model = implementation and the observations satisfy the
   Spec; 1: model <> implementation, Spec still satisfied; 2: the observations
   violate the Spec.  The Spec side (seq_oracle / conc_oracle) reads only the
   implementation's observations: it never runs the model. *)
From Coq Require Import List ZArith Bool Arith.
From SC Require Import Base.Res Conc.ModulesCopyableModel Conc.ModulesCopyableSpec Corr.Enc.
Import ListNotations.
Open Scope Z_scope.

Definition enc_entry (e : entry) : Z := match e with NoEntry => 0 | Ours => 1 | Users => 2 end.
Definition dec_entry (z : Z) : entry := if z =? 1 then Ours else if z =? 2 then Users else NoEntry.
Definition b2z (b : bool) : Z := if b then 1 else 0.
Definition enc_shared (s : shared) : list Z :=
  [rc s; b2z (patched s); enc_entry (tbl s); b2z (created s)].

(* ------------------------------------------------------------ sequential histories *)
(* events: 0 operation ended (two more fields: 1 = it raised; 1 = afterwards a plain
           copy.deepcopy([module]) raises TypeError, as in a fresh interpreter)
           1 __enter__ returned
           2 __exit__ returned    3 exception out of __new__/__enter__
           4 a module was copied through the table   5 exception out of __exit__ *)
Definition in_exit (th : thread) : bool :=
  match t_ctl th with Proto p _ => Nat.leb 17 (pc_id p) && Nat.leb (pc_id p) 22 | _ => false end.

Definition outermost (s' : state) : bool :=
  match nth_error (ths s') 0 with
  | Some th' => match t_stack th' with [] => true | _ => false end
  | None => true
  end.

Definition seq_event (th : thread) (l : label) (s' : state) : list (list Z) :=
  let e := enc_shared (sh s') in
  match l with
  | LEntered => [1 :: e]
  | LExited => [2 :: e]
  | LAbort => [(if in_exit th then 5 else 3) :: e]
  | LUse => match t_code th, nth_error (ths s') 0 with
            | Use true :: _, Some th' =>
                match t_ctl th' with Run => [4 :: e] | _ => [] end
            | _, _ => []
            end
  (* only the outermost Try of a history is an operation boundary; an inner Try is a
     handler inside library or user code that caught an exception and went on *)
  | LTryEnd => if outermost s' then [0 :: e ++ [0; b2z (entry_eqb (tbl (sh s')) NoEntry)]] else []
  | LCaught => if outermost s' then [0 :: e ++ [1; b2z (entry_eqb (tbl (sh s')) NoEntry)]] else []
  | _ => []
  end.

Fixpoint run_seq (fuel : nat) (s : state) : list (list Z) :=
  match fuel with
  | O => [[-77]]
  | S f =>
      match nth_error (ths s) 0 with
      | None => []
      | Some th =>
          match step false any_abort s 0 with
          | None => []
          | Some (s', l) => seq_event th l s' ++ run_seq f s'
          end
      end
  end.

(* the property, on the implementation's events alone: nesting depth is counted
   from the events; whenever the depth is 0 the table must hold its initial
   content, whenever it is positive an entry must be present; an operation may
   raise only if the harness made it raise; when an operation has ended the
   counter is 0 again and copying a module outside the library fails exactly
   when nothing was registered initially *)
Fixpoint seq_oracle (init : entry) (planned : list bool) (depth : Z) (seen : list (list Z)) : bool :=
  match seen with
  | [] => (depth =? 0) && match planned with [] => true | _ => false end
  | (k :: rcv :: _ :: e :: _ :: rest) :: r =>
      let depth' := if k =? 1 then depth + 1
                    else if (k =? 2) || (k =? 5) then depth - 1 else depth in
      let st := if 0 <? depth' then Inside else Outside in
      snap_okb init [st] (dec_entry e) &&
      (if k =? 0
       then (depth' =? 0) && (rcv =? 0) &&
            match rest, planned with
            | [raised; plainfail], p :: _ =>
                implb (raised =? 1) p && Bool.eqb (plainfail =? 1) (entry_eqb init NoEntry)
            | _, _ => false
            end
       else true) &&
      seq_oracle init (if k =? 0 then List.tl planned else planned) depth' r
  | _ => false
  end.

Record seq_case : Set := mkseq {
  s_user : bool; s_created : bool; s_prog : list item;
  s_planned : list bool; s_seen : list (list Z) }.

Definition seq_fuel (c : seq_case) : nat := (40 * (2 + length (s_seen c)))%nat.

Definition seq_model_trace (c : seq_case) : list (list Z) :=
  run_seq (seq_fuel c) (init_state (s_user c) (s_created c) [s_prog c]).

Definition check_seq (c : seq_case) : nat :=
  if seq_oracle (init_entry (s_user c)) (s_planned c) 0 (s_seen c)
  then if zlistlist_eqb (seq_model_trace c) (s_seen c) then 0%nat else 1%nat
  else 2%nat.

(* model agreement alone (used to report whether the model predicts a known finding) *)
Definition check_seq_model (c : seq_case) : nat :=
  if zlistlist_eqb (seq_model_trace c) (s_seen c) then 0%nat else 1%nat.

(* ------------------------------------------------------------ concurrent runs *)
Definition visible (th : thread) : bool :=
  match t_ctl th with
  | Proto _ _ => true
  | Run => match t_code th with Yield :: _ => true | _ => false end
  | Unwind => false
  end.

Definition finishedb (th : thread) : bool :=
  match t_ctl th, t_code th, t_stack th with Run, [], [] => true | _, _, _ => false end.

(* the thread runs on until its next scheduling point (a protocol line or a Yield) *)
Fixpoint normalise (fuel : nat) (s : state) (t : nat) : state :=
  match fuel with
  | O => s
  | S f =>
      match nth_error (ths s) t with
      | None => s
      | Some th =>
          if visible th then s
          else match step false no_abort s t with
               | None => s
               | Some (s', _) => normalise f s' t
               end
      end
  end.

Fixpoint normalise_all (fuel : nat) (s : state) (n : nat) (t : nat) : state :=
  match n with
  | O => s
  | S m => normalise_all fuel (normalise fuel s t) m (S t)
  end.

Definition enc_status (x : status) : Z := match x with Outside => 0 | Transit => 1 | Inside => 2 end.
Definition dec_status (z : Z) : status := if z =? 2 then Inside else if z =? 1 then Transit else Outside.

Definition pos_of (th : thread) : Z :=
  match t_ctl th with
  | Proto p _ => Z.of_nat (pc_id p)
  | Run => match t_code th, t_stack th with
           | Yield :: _, _ => 30
           | [], [] => 31
           | _, _ => 32
           end
  | Unwind => 33
  end.

Definition enc_thread (th : thread) : Z := pos_of th * 4 + enc_status (status_of th).
Definition snapshot (s : state) : list Z := enc_shared (sh s) ++ map enc_thread (ths s).

Fixpoint run_conc (fuel : nat) (s : state) (sched : list (nat * bool)) : state * list (list Z) :=
  match sched with
  | [] => (s, [])
  | (t, blk) :: r =>
      match step false no_abort s t with
      | None =>
          let '(s', tr) := run_conc fuel s r in
          let fin := match nth_error (ths s) t with Some th => finishedb th | None => true end in
          (s', (if blk && negb fin then snapshot s else [-1]) :: tr)
      | Some (s1, _) =>
          if blk then let '(s', tr) := run_conc fuel s r in (s', [-2] :: tr)
          else let s2 := normalise fuel s1 t in
               let '(s', tr) := run_conc fuel s2 r in (s', snapshot s2 :: tr)
      end
  end.

Record conc_case : Set := mkconc {
  c_user : bool; c_created : bool; c_progs : list (list item);
  c_planned : list bool;          (* per thread: the harness makes it raise *)
  c_sched : list (nat * bool);    (* (thread, observed blocked) per scheduler step *)
  c_completed : bool;             (* every thread ran to completion *)
  c_plainfail : bool;             (* afterwards copy.deepcopy([module]) raises TypeError *)
  c_seen : list (list Z);         (* after every step: shared projection, threads *)
  c_out : list (list Z) }.        (* per thread: [raised; result has the modules by identity] *)

Definition conc_fuel (c : conc_case) : nat :=
  (20 + 4 * fold_right (fun p n => (length p + n)%nat) 0%nat (c_progs c) + length (c_sched c))%nat.

Definition conc_model (c : conc_case) : list (list Z) * list (list Z) :=
  let f := (10 * conc_fuel c)%nat in
  let s0 := normalise_all f (init_state (c_user c) (c_created c) (c_progs c)) (length (c_progs c)) 0 in
  let '(s, tr) := run_conc f s0 (c_sched c) in
  (tr, map (fun th => [b2z (t_crashed th)]) (ths s)).

(* the property, on the observations alone *)
Definition snap_of (init : entry) (v : list Z) : bool :=
  match v with
  | _ :: _ :: e :: _ :: cs => snap_okb init (map (fun c => dec_status (c mod 4)) cs) (dec_entry e)
  | _ => false
  end.

Fixpoint outs_ok (planned : list bool) (outs : list (list Z)) : bool :=
  match planned, outs with
  | [], [] => true
  | p :: pr, [raised; okres] :: r =>
      (if raised =? 1 then p else (okres =? 1)) && outs_ok pr r
  | _, _ => false
  end.

(* at the end: every thread finished and outside, the counter back at 0 *)
Definition all_finished (v : list Z) : bool :=
  match v with
  | rcv :: _ :: _ :: _ :: cs => (rcv =? 0) && forallb (fun c => c =? 31 * 4) cs
  | _ => false
  end.

Definition conc_oracle (c : conc_case) : bool :=
  c_completed c &&
  forallb (snap_of (init_entry (c_user c))) (c_seen c) &&
  all_finished (last (c_seen c) []) &&
  Bool.eqb (c_plainfail c) (entry_eqb (init_entry (c_user c)) NoEntry) &&
  outs_ok (c_planned c) (c_out c).

Definition check_conc (c : conc_case) : nat :=
  if conc_oracle c
  then let '(tr, outs) := conc_model c in
       if zlistlist_eqb tr (c_seen c) &&
          zlistlist_eqb outs (map (fun o => firstn 1 o) (c_out c))
       then 0%nat else 1%nat
  else 2%nat.
