(* Correspondence and property oracle for Alias / DeprecatedAlias (C18).
   A case carries the configuration, the initial instance, the operations and
   what the IMPLEMENTATION did after each of them (outcome, number of
   warnings, every live instance as a tree).
     oracle : Spec only (AliasSpec.step_okb on the implementation's own
              before/after trees) — never consults the model;
     tie    : the model (AliasModel.xrun) against the implementation. *)
From Coq Require Import List ZArith Bool.
From SC Require Import Base.Res Desc.AliasBase Desc.AliasModel Desc.AliasSpec Corr.Enc.
Import ListNotations.
Open Scope Z_scope.

(* the transform pool used by the harness *)
Inductive tfn := FInc | FNeg | FSeven.
Definition apply_tfn (f : tfn) (v : val) : res val :=
  match f, v with
  | FInc, VInt z => Ok (VInt (z + 1))       (* lambda v: v + 1 *)
  | FNeg, VInt z => Ok (VInt (- z))         (* lambda v: -v *)
  | FSeven, _ => Ok (VInt 7)                (* lambda v: 7 *)
  | _, _ => Err TypeErr
  end.

Definition obs := (res out * Z * list val)%type.
Record case := mkcase {
  k_host : host; k_cfg : cfg tfn; k_init : val; k_ops : list xop; k_seen : list obs }.

Fixpoint vals_eqb (a b : list val) : bool :=
  match a, b with
  | [], [] => true
  | x :: a', y :: b' => val_eqb x y && vals_eqb a' b'
  | _, _ => false
  end.


(* executable twin of AliasSpec.wf *)
Definition wfb (h : host) (c : cfg tfn) : bool :=
  c_bound c && negb (typed h (ovr (c_name c))) &&
  match c_path c with
  | [] => false
  | s :: _ => negb (hop_eqb s (SAttr (c_name c))) && negb (hop_eqb s (SAttr (ovr (c_name c))))
  end.

Section Oracle.
  Variable h : host.
  Variable c : cfg tfn.
  Notation okb := (step_okb apply_tfn h c).

  (* every instance except number i is what it was *)
  Fixpoint others_same (i : nat) (pre post : list val) : bool :=
    match pre, post with
    | [], [] => true
    | x :: pre', y :: post' =>
        match i with
        | O => vals_eqb pre' post'
        | S i' => val_eqb x y && others_same i' pre' post'
        end
    | _, _ => false
    end.

  Definition split_last (l : list val) : option (list val * val) :=
    match rev l with [] => None | x :: t => Some (rev t, x) end.

  (* a copy-on-write helper that amounts to "copy, then [o'] on the copy":
     the original untouched, the copy appended; on an error no copy and nothing
     changed.  [wn] = the warning count to judge the step with. *)
  Definition cow_okb (pre : list val) (a : val) (o' : op) (r : res out) (wn : Z) (post : list val) : bool :=
    match r with
    | Ok _ =>
        match split_last post with
        | Some (old, b) => vals_eqb old pre && okb a o' r wn b
        | None => false
        end
    | Err _ => vals_eqb post pre && okb a o' r wn a
    end.
  (* transform_<n>(g) is with_<n>(g(v)) where v is what the reference machine
     reads for <n> on the original ([rd] = RdAlias / RdTarget), turned into the
     value a scalar helper starts from (AliasModel.start_value: the definition
     of the helper, not of the alias).  Whatever g does to its argument, the
     original stays what it was.  The read reaches the alias, so a
     DeprecatedAlias warns at least once whatever comes after. *)
  Definition transform_okb (pre : list val) (a : val) (n : name) (rd : op) (wr : val -> op)
             (g : hfn) (r : res out) (nw : Z) (post : list val) : bool :=
    (if c_dep c && is_alias_op rd then 1 <=? nw else nw =? 0) &&
    match start_value (typed h n) (fst (machine apply_tfn h c (abs c a) rd)) with
    | Err e => res_out_eqb r (Err e) && vals_eqb post pre
    | Ok v0 =>
        match apply_hfn g v0 with
        | Err e => res_out_eqb r (Err e) && vals_eqb post pre
        | Ok v1 =>
            cow_okb pre a (wr v1) r (if c_dep c && reaches_alias h c (wr v1) then 1 else 0) post
        end
    end.

  Definition xstep_okb (pre : list val) (o : xop) (ob : obs) : bool :=
    let '(r, n, post) := ob in
    match o with
    | XOn i o' =>
        match nth_error pre i, nth_error post i with
        | Some a, Some b => okb a o' r n b && others_same i pre post
        | _, _ => false
        end
    | XDeepCopy i =>
        match nth_error pre i with
        | Some a => res_out_eqb r (Ok ONone) && (n =? 0) && vals_eqb post (pre ++ [a])
        | None => false
        end
    | XWithAlias i x =>
        (* a copy with the alias assigned; the original untouched; on an
           error no copy and nothing changed *)
        match nth_error pre i, r with
        | Some a, Ok _ =>
            match split_last post with
            | Some (old, b) => vals_eqb old pre && okb a (WrAlias x) r n b
            | None => false
            end
        | Some a, Err _ => vals_eqb post pre && okb a (WrAlias x) r n a
        | None, _ => false
        end
    | XWithTarget i x =>
        match nth_error pre i, r with
        | Some a, Ok _ =>
            match split_last post with
            | Some (old, b) => vals_eqb old pre && okb a (WrTarget x) r n b
            | None => false
            end
        | Some a, Err _ => vals_eqb post pre && okb a (WrTarget x) r n a
        | None, _ => false
        end
    | XTransformAlias i g =>
        match nth_error pre i with
        | Some a => transform_okb pre a (c_name c) RdAlias WrAlias g r n post
        | None => false
        end
    | XUpdateAlias i (Some x) =>
        match nth_error pre i with Some a => cow_okb pre a (WrAlias x) r n post | None => false end
    | XUpdateAlias i None =>
        match nth_error pre i with
        | Some a => transform_okb pre a (c_name c) RdAlias WrAlias HId r n post
        | None => false
        end
    | XResetAlias i =>
        match nth_error pre i with Some a => cow_okb pre a DelAlias r n post | None => false end
    | XTransformTarget i g =>
        match nth_error pre i, c_path c with
        | Some a, [SAttr t] => transform_okb pre a t RdTarget WrTarget g r n post
        | _, _ => false
        end
    | XUpdateTarget i (Some x) =>
        match nth_error pre i with Some a => cow_okb pre a (WrTarget x) r n post | None => false end
    | XUpdateTarget i None =>
        match nth_error pre i, c_path c with
        | Some a, [SAttr t] => transform_okb pre a t RdTarget WrTarget HId r n post
        | _, _ => false
        end
    | XResetTarget i =>
        match nth_error pre i with Some a => cow_okb pre a DelTarget r n post | None => false end
    end.

  Fixpoint oracle (pre : list val) (os : list xop) (seen : list obs) : bool :=
    match os, seen with
    | [], [] => true
    | o :: os', ob :: seen' => xstep_okb pre o ob && oracle (snd ob) os' seen'
    | _, _ => false
    end.

  (* the tie: model trace = implementation trace *)
  Fixpoint tie (w : Z) (tr : list (res out * xst)) (seen : list obs) : bool :=
    match tr, seen with
    | [], [] => true
    | (r, (roots, w')) :: tr', (r2, n, post) :: seen' =>
        res_out_eqb r r2 && (w' - w =? n) && vals_eqb roots post && tie w' tr' seen'
    | _, _ => false
    end.
End Oracle.

(* 0: model = implementation and the implementation's run satisfies the Spec
   1: model <> implementation, the Spec still accepts the run
   2: the implementation's run violates the Spec (the property)
   configurations outside AliasSpec.wf (unbound descriptor, empty path) are
   only tied to the model *)
Definition check_case (k : case) : nat :=
  let h := k_host k in
  let c := k_cfg k in
  if (if wfb h c then oracle h c [k_init k] (k_ops k) (k_seen k) else true)
  then if tie 0 (xrun apply_tfn h c ([k_init k], 0) (k_ops k)) (k_seen k) then 0%nat else 1%nat
  else 2%nat.
