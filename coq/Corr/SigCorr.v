(* Correspondence and property oracle for C17.  One case = one generated
   method: its kind and the nested spec class (inputs, from the class
   description), the signatures observed on the implementation
   (__signature__, the compiled function's own parameters, the
   implementation's parameters) and a list of calls with what happened
   (accepted + the keyword arguments a spying implementation received, or the
   error class + whether the receiver's state was unchanged when the same call
   was made on the real method).
   check_case: 0 = model agrees and the observation satisfies SigSpec;
   1 = model differs but the observation satisfies SigSpec; 2 = the observation
   violates SigSpec.  spec_ok never calls Signature.build_method / wrapper. *)
From Coq Require Import String List Bool ZArith.
From SC Require Import Base.Res Deco.Naming Deco.Bind Deco.Signature Deco.SigSpec Corr.Enc.
Import ListNotations.
Open Scope string_scope.
Open Scope list_scope.

Inductive outcome :=
| OAccept (recv : list (name * Z)) (impl_ok : bool)   (* impl_ok: the real implementation took the same call (with _if=False) *)
| OReject (code : Z) (state_same : bool).

Record mcase := mkmcase {
  k_kind : mkind;
  k_nested : option ncls;
  o_adv : sig;                 (* inspect.signature(method) *)
  o_real : sig;                (* parameters of the compiled function *)
  o_impl : sig;                (* parameters of the implementation (after partial) *)
  o_calls : list (call * outcome);
  (* effects of accepted calls on the REAL method: per call, the class of the object the
     keywords are for, and per supplied keyword: value given, what the object's __dict__
     holds under that name afterwards, what its overflow dictionary holds under that name *)
  o_effects : list (ncls * list (name * Z * option Z * option Z))
}.

Definition pkind_eqb (a b : pkind) : bool :=
  match a, b with PosOrKw, PosOrKw | KwOnly, KwOnly | VarKw, VarKw => true | _, _ => false end.
Definition optz_eqb (a b : option Z) : bool :=
  match a, b with Some x, Some y => Z.eqb x y | None, None => true | _, _ => false end.
Definition param_eqb (a b : param) : bool :=
  String.eqb (p_name a) (p_name b) && pkind_eqb (p_kind a) (p_kind b) && optz_eqb (p_default a) (p_default b).
Fixpoint sig_eqb (a b : sig) : bool :=
  match a, b with
  | [], [] => true
  | x :: a', y :: b' => param_eqb x y && sig_eqb a' b'
  | _, _ => false
  end.
Fixpoint kv_eqb (a b : list (name * Z)) : bool :=
  match a, b with
  | [], [] => true
  | (k, v) :: a', (k', v') :: b' => String.eqb k k' && Z.eqb v v' && kv_eqb a' b'
  | _, _ => false
  end.

(* ---------- comparison with the model *)
Definition call_agrees (b : mb) (p : call * outcome) : bool :=
  let '(c, o) := p in
  match wrapper b c, o with
  | Ok recv, OAccept recv' _ => kv_eqb recv recv'
  | Err e, OReject code _ => Z.eqb code (- Z.of_nat (err_code e))
  | _, _ => false
  end.

Definition model_agrees (c : mcase) : bool :=
  match build_method (k_kind c) (k_nested c) with
  | Err _ => false
  | Ok b =>
      sig_eqb (sig_advertised b) (o_adv c) && sig_eqb (sig_real b) (o_real c) &&
      check_compatible (sig_real b) (o_impl c) &&
      forallb (call_agrees b) (o_calls c)
  end.

(* ---------- the property oracle, on the observed signatures only *)
Definition explicit_obs (c : mcase) : sig := filter (fun p => negb (is_varkw p)) (o_real c).

Definition keys_of (c : mcase) (cl : call) (recv : list (name * Z)) : list name :=
  map p_name (o_adv c) ++ map p_name (o_real c) ++ map fst (c_kw cl) ++ map fst recv.

Definition receives_ok (c : mcase) (cl : call) (recv : list (name * Z)) : bool :=
  forallb (fun k =>
    optz_eqb (lookup k recv)
      (if named (explicit_obs c) k then
         match supplied (o_adv c) cl k with Some v => Some v | None => default_of (o_adv c) k end
       else lookup k (c_kw cl))) (keys_of c cl recv)
  && nodup_names (map fst recv).

Definition call_ok_b (cl : call) : bool := nodup_names (map fst (c_kw cl)).

Definition call_spec_ok (c : mcase) (p : call * outcome) : bool :=
  let '(cl, o) := p in
  call_ok_b cl &&
  match bind (o_adv c) cl, o with
  | Ok _, OAccept recv impl_ok => receives_ok c cl recv && impl_ok
  | Err _, OReject code same => Z.eqb code (-1) && same
  | _, _ => false
  end.

(* nested-attribute keywords <-> init-enabled attributes of the nested class *)
Definition virtual_obs (c : mcase) : sig :=
  filter (fun p => negb (named (explicit_obs c) (p_name p)) || is_varkw p) (o_adv c).

Fixpoint names_eqb (a b : list name) : bool :=
  match a, b with
  | [], [] => true
  | x :: a', y :: b' => String.eqb x y && names_eqb a' b'
  | _, _ => false
  end.

Definition nested_ok (c : mcase) : bool :=
  let vk := map p_name (filter (fun p => negb (is_varkw p)) (virtual_obs c)) in
  let vc := match filter is_varkw (virtual_obs c) with p :: _ => Some (p_name p) | [] => None end in
  match k_nested c with
  | Some n =>
      if takes_nested (k_kind c) then
        names_eqb vk (init_enabled (map p_name (explicit_obs c)) n) &&
        match vc, active_overflow n with
        | Some a, Some o => String.eqb a o
        | None, None => true
        | _, _ => false
        end &&
        forallb (fun p => match p_kind p with KwOnly => true | VarKw => true | PosOrKw => false end) (virtual_obs c)
      else match virtual_obs c with [] => true | _ => false end
  | None => match virtual_obs c with [] => true | _ => false end
  end.

(* the advertised signature shows the compiled parameters unchanged *)
Fixpoint prefix_sig (a b : sig) : bool :=
  match a with
  | [] => true
  | x :: a' => match b with y :: b' => param_eqb x y && prefix_sig a' b' | [] => false end
  end.

Definition shape_ok (c : mcase) : bool := prefix_sig (explicit_obs c) (o_adv c).

(* every supplied keyword reached the place SigSpec.lands names, with the value given
   (whether an overflow keyword is ALSO left as a plain attribute is observed, not judged) *)
Definition effect_ok (e : ncls * list (name * Z * option Z * option Z)) : bool :=
  let '(n, l) := e in
  forallb (fun q =>
    let '(k, v, oa, oo) := q in
    match lands n k with
    | Some PAttr => optz_eqb oa (Some v)
    | Some POverflow => optz_eqb oo (Some v)
    | None => false
    end) l.

Definition spec_ok (c : mcase) : bool :=
  shape_ok c && nested_ok c && forallb (call_spec_ok c) (o_calls c) && forallb effect_ok (o_effects c).

Definition check_case (c : mcase) : nat :=
  if spec_ok c then (if model_agrees c then 0%nat else 1%nat) else 2%nat.

(* index (from 0) of the first call the oracle rejects; length = none (then shape/nested) *)
Fixpoint first_bad (c : mcase) (l : list (call * outcome)) (i : nat) : nat :=
  match l with
  | [] => i
  | p :: t => if call_spec_ok c p then first_bad c t (S i) else i
  end.
(* 1: shape, 2: nested keywords, 3 + i: the i-th call, 3 + #calls + j: the j-th effect *)
Definition spec_fail_where (c : mcase) : nat :=
  if negb (shape_ok c) then 1%nat else if negb (nested_ok c) then 2%nat
  else if negb (forallb (call_spec_ok c) (o_calls c)) then (3 + first_bad c (o_calls c) 0)%nat
  else (3 + length (o_calls c) +
        (fix go (l : list (ncls * list (name * Z * option Z * option Z))) (j : nat) :=
           match l with [] => j | e :: t => if effect_ok e then go t (S j) else j end) (o_effects c) 0%nat)%nat.
(* 1: build, 2: advertised, 3: compiled, 4: compatibility, 5 + i: the i-th call *)
Definition model_fail_where (c : mcase) : nat :=
  match build_method (k_kind c) (k_nested c) with
  | Err _ => 1%nat
  | Ok b =>
      if negb (sig_eqb (sig_advertised b) (o_adv c)) then 2%nat
      else if negb (sig_eqb (sig_real b) (o_real c)) then 3%nat
      else if negb (check_compatible (sig_real b) (o_impl c)) then 4%nat
      else (5 + (fix go (l : list (call * outcome)) (i : nat) :=
                 match l with [] => i | p :: t => if call_agrees b p then go t (S i) else i end) (o_calls c) 0%nat)%nat
  end.

(* ---------- control parameters of the sequence element helpers: observed outcome of the REAL
   method against Deco/SeqCtl.v (oracle only).  0 = as specified, 2 = not. *)
From SC Require Import Deco.SeqCtl.

Record ccase := mkccase {
  c_helper : chelper;
  c_args : cargs;
  oc_outcome : Z;              (* 0 | -1 TypeError | -2 ValueError | -3 IndexError | other *)
  oc_result : list cval;       (* the collection of the returned object *)
  oc_recv : list cval;         (* the receiver's collection afterwards *)
  oc_same : bool               (* returned object is the receiver *)
}.

Fixpoint cvals_eqb (a b : list cval) : bool :=
  match a, b with
  | [], [] => true
  | x :: a', y :: b' => cval_eqb x y && cvals_eqb a' b'
  | _, _ => false
  end.

Definition check_ctl (c : ccase) : nat :=
  let '(r, recv, same) := expected (c_helper c) (c_args c) in
  if match r with
     | Ok l => Z.eqb (oc_outcome c) 0 && cvals_eqb l (oc_result c) && Bool.eqb same (oc_same c)
     | Err e => Z.eqb (oc_outcome c) (- Z.of_nat (err_code e))
     end && cvals_eqb recv (oc_recv c)
  then 0%nat else 2%nat.
