(* Correspondence and property oracle for C10 (==, !=, deepcopy, re-construction, repr).
   A case carries the inputs given to the implementation and what the implementation
   answered; the check functions run the model (EqRepr/Model.v) and the specification
   (EqRepr/Spec.v) on the same inputs.
     0: model = implementation and the implementation's answers satisfy the specification
     1: model <> implementation, the specification still accepts the answers
     2: the implementation's answers violate the specification (property violation)
   The specification side never consults the model functions py_eq / deepcopy / repr. *)
From Coq Require Import List ZArith Bool Arith.
From SC Require Import Base.Res EqRepr.Model EqRepr.Spec Corr.Enc.
Import ListNotations.
Open Scope Z_scope.

Definition empty_cls : cls := mkcls [] [] false false None.
Definition mk_ct (l : list cls) : ctable := fun c => nth c l empty_cls.

Definition b2z (b : bool) : Z := if b then 1 else 0.
Definition enc_rb (r : res bool) : Z :=
  match r with Ok b => b2z b | Err e => - Z.of_nat (err_code e) end.

(* ------------------------------------------------------------------ pairs *)
(* obs = [a == b; b == a; a != b; b != a; a.__eq__(b); b.__eq__(a)]  (1/0, negative = raised) *)
Record eq_case := mk_eq { e_cls : list cls; e_a : val; e_b : val; e_obs : list Z }.

Definition check_eq (c : eq_case) : nat :=
  let ct := mk_ct (e_cls c) in
  let a := e_a c in let b := e_b c in
  let n := fuel_for a b in
  let s := spec_eq ct a b in
  let want := [b2z s; b2z s; b2z (negb s); b2z (negb s)] in
  if zlist_eqb (firstn 4 (e_obs c)) want then
    let model := [enc_rb (py_eq ct n a b); enc_rb (py_eq ct n b a);
                  enc_rb (py_ne ct n a b); enc_rb (py_ne ct n b a);
                  enc_rb (inst_eq ct true n a b); enc_rb (inst_eq ct true n b a)] in
    if zlist_eqb (e_obs c) model then 0%nat else 1%nat
  else 2%nat.

(* ------------------------------------------------------------------ triples *)
(* obs = [a == b; b == c; a == c] *)
Record tri_case := mk_tri { t_cls : list cls; t_a : val; t_b : val; t_c : val; t_obs : list Z }.

Definition check_tri (c : tri_case) : nat :=
  let ct := mk_ct (t_cls c) in
  let a := t_a c in let b := t_b c in let d := t_c c in
  let want := [b2z (spec_eq ct a b); b2z (spec_eq ct b d); b2z (spec_eq ct a d)] in
  let trans_ok := match t_obs c with
                  | [ab; bc; ac] => negb ((ab =? 1) && (bc =? 1)) || (ac =? 1)
                  | _ => false
                  end in
  if zlist_eqb (t_obs c) want && trans_ok then
    let n := S (size a + size b + size d) in
    let model := [enc_rb (py_eq ct n a b); enc_rb (py_eq ct n b d); enc_rb (py_eq ct n a d)] in
    if zlist_eqb (t_obs c) model then 0%nat else 1%nat
  else 2%nat.

(* ------------------------------------------------------------------ deepcopy / re-construction *)
(* an instance __dict__ sorted by attribute name: the order in which a hierarchy of
   constructors assigns the attributes is C09's subject, not C10's *)
Fixpoint ins_field (x : aid * val) (l : list (aid * val)) : list (aid * val) :=
  match l with
  | [] => [x]
  | y :: t => if Nat.leb (fst x) (fst y) then x :: l else y :: ins_field x t
  end.
Definition sort_fields (l : list (aid * val)) : list (aid * val) := fold_right ins_field [] l.

(* syntactic equality of value trees (instance dicts up to order) *)
Fixpoint syn_eqb (n : nat) (a b : val) {struct n} : bool :=
  match n with
  | O => false
  | S n' =>
      match a, b with
      | VMissing, VMissing | VNone, VNone => true
      | VBool x, VBool y => Bool.eqb x y
      | VInt x, VInt y | VStr x, VStr y | VAtom x, VAtom y => x =? y
      | VMeth f s, VMeth g t => (f =? g) && Bool.eqb s t
      | VTuple l1, VTuple l2 | VList l1, VList l2 => forall2b (syn_eqb n') l1 l2
      | VDict d1, VDict d2 =>
          forall2b (fun p q => syn_eqb n' (fst p) (fst q) && syn_eqb n' (snd p) (snd q)) d1 d2
      | VInst c1 d1, VInst c2 d2 =>
          Nat.eqb c1 c2 &&
          forall2b (fun p q => Nat.eqb (fst p) (fst q) && syn_eqb n' (snd p) (snd q))
                   (sort_fields d1) (sort_fields d2)
      | _, _ => false
      end
  end.

(* kind 0: y = copy.deepcopy(x); kind 1: y = type(x)(own attribute values).
   obs_eq: the implementation's y == x (1/0, negative = raised) *)
Record dc_case := mk_dc { d_cls : list cls; d_kind : nat; d_x : val; d_y : val; d_obs : Z }.

Definition check_dc (c : dc_case) : nat :=
  let ct := mk_ct (d_cls c) in
  let x := d_x c in let y := d_y c in
  if spec_eq ct y x && (d_obs c =? 1) then
    let m := match d_kind c with O => deepcopy ct x | _ => rebuild ct x end in
    if syn_eqb (fuel_for m y) m y then 0%nat else 1%nat
  else 2%nat.

(* ------------------------------------------------------------------ repr *)
Definition kind_of (r : rep) : Z :=
  match r with
  | RLeaf | ROpaque => 0
  | RSelf => 1
  | RMissing => 2
  | RMethSelf => 3
  | RMeth _ => 4
  | RCompact _ _ => 5
  | RSeq _ => 6
  | RMap _ => 7
  | RCycle => 8
  | RFull _ _ _ => 9
  end.

Definition item_kinds (r : rep) : list Z :=
  match r with
  | RSeq items => map kind_of items
  | RMap items => map (fun kv => kind_of (snd kv)) items
  | _ => []
  end.

(* what the harness saw for one `indent` mode: status 1 = returned a string, negative =
   raised; whether the string is the indented form; the attribute names in the order
   shown; per attribute the kind of its value followed by the kinds of its items *)
Record robs := mk_robs { r_status : Z; r_ind : bool; r_names : list nat; r_kinds : list (list Z);
                         r_tree : list Z }.

(* the whole rendering, flattened (dict keys omitted); the harness sends it when no
   nested instance was rendered in its indented form, i.e. when the model's length
   oracle for nested instances is known to be `false`; [] = not sent *)
Fixpoint enc_tree (r : rep) : list Z :=
  match r with
  | RMeth x => 4 :: enc_tree x
  | RCompact _ None => [5; 0]
  | RCompact _ (Some k) => 5 :: 1 :: enc_tree k
  | RSeq items => 6 :: Z.of_nat (length items) :: flat_map enc_tree items
  | RMap items => 7 :: Z.of_nat (length items) :: flat_map (fun kv => enc_tree (snd kv)) items
  | RFull c ind fs =>
      9 :: Z.of_nat c :: b2z ind :: Z.of_nat (length fs)
        :: flat_map (fun f => Z.of_nat (fst f) :: enc_tree (snd f)) fs
  | _ => [kind_of r]
  end.

Definition enc_rep (r : res rep) : robs :=
  match r with
  | Ok (RFull c ind fs) =>
      mk_robs 1 ind (map fst fs) (map (fun f => kind_of (snd f) :: item_kinds (snd f)) fs)
              (enc_tree (RFull c ind fs))
  | Ok _ => mk_robs 0 false [] [] []
  | Err e => mk_robs (- Z.of_nat (err_code e)) false [] [] []
  end.

Fixpoint natlist_eqb (a b : list nat) : bool :=
  match a, b with
  | [], [] => true
  | x :: a', y :: b' => Nat.eqb x y && natlist_eqb a' b'
  | _, _ => false
  end.

(* a = model, b = observed *)
Definition robs_eqb (a b : robs) : bool :=
  (r_status a =? r_status b) && Bool.eqb (r_ind a) (r_ind b) &&
  natlist_eqb (r_names a) (r_names b) && zlistlist_eqb (r_kinds a) (r_kinds b) &&
  match r_tree b with [] => true | t => zlist_eqb (r_tree a) t end.

Record repr_case := mk_repr { p_cls : list cls; p_heap : heap; p_root : nat;
                              p_false : robs; p_true : robs; p_none : robs }.

Definition check_repr (c : repr_case) : nat :=
  let ct := mk_ct (p_cls c) in
  let h := p_heap c in
  let want := match nth_error h (p_root c) with
              | Some (OInst k _) => spec_repr_names ct k
              | _ => []
              end in
  let ok := fun (o : robs) => (r_status o =? 1) && natlist_eqb (r_names o) want in
  if ok (p_false c) && ok (p_true c) && ok (p_none c) then
    let n := repr_fuel h in
    (* the top-level call (nothing active) is long iff the harness saw the indented
       form; nested instances are taken as not long (the full tree is only compared
       when that is what the implementation did) *)
    let long := fun (act : list nat) (l : nat) =>
                  match act with [] => r_ind (p_none c) | _ => false end in
    let run := fun md => enc_rep (repr ct h long n (p_root c) md) in
    if robs_eqb (run MFalse) (p_false c) && robs_eqb (run MTrue) (p_true c)
       && robs_eqb (run MNone) (p_none c)
    then 0%nat else 1%nat
  else 2%nat.
