(* Correspondence and property oracle for check_type (C15).  A case is an
   annotation, a value and what the IMPLEMENTATION answered.  check_case
   compares the answer with the specification's executable twin
   (Ty/Oracle.v, proved equivalent to Ty/Conforms.v) and, separately, with
   the model Ty/CheckType.v. *)
From Coq Require Import List ZArith Bool.
From SC Require Import Base.Res Ty.Ty Ty.Conforms Ty.Oracle Ty.CheckType Corr.Enc.
Import ListNotations.
Open Scope Z_scope.

(* the predicates the harness passes to validated(); harness/c15.py PREDICATES
   lists the same functions in Python *)
Definition truthy (v : val) : bool :=
  match v with
  | VNone => false
  | VBool b => b
  | VInt z | VFloat z | VStr z | VBytes z => negb (z =? 0)
  | VTuple l | VList l | VSet l | VFrozenSet l => negb (Nat.eqb (length l) 0)
  | VDict kvs => negb (Nat.eqb (length kvs) 0)
  | VClass _ | VInst _ => true
  end.

Definition psem_pool (p : Z) (v : val) : res bool :=
  match p with
  | 0 => (* lambda x: isinstance(x, int) and x % 2 == 0 *)
      match v with VBool b => Ok (negb b) | VInt z => Ok (Z.even z) | _ => Ok false end
  | 1 => (* lambda x: isinstance(x, str) and len(x) > 0 *)
      match v with VStr s => Ok (negb (s =? 0)) | _ => Ok false end
  | 2 => (* lambda x: x > 0        -- TypeError on non-numbers: a partial predicate *)
      match num2 v with Some x => Ok (0 <? x) | None => Err TypeErr end
  | 3 => (* lambda x: x            -- isinstance() takes the truth value *)
      Ok (truthy v)
  | 4 => (* raises ValueError *)
      Err ValueErr
  | _ => Ok false
  end.
Definition ptotal_pool (p : Z) : bool := (p =? 0) || (p =? 1) || (p =? 3).

(* what the implementation did: 1 = True, 0 = False, -(err_code e) = raised *)
Record case := mkcase { c_ty : ty; c_val : val; c_out : Z }.

Definition out_of_res (r : res bool) : Z :=
  match r with Ok true => 1 | Ok false => 0 | Err e => - Z.of_nat (err_code e) end.

(* The property, on the implementation's answer: inside the annotation
   language the check must not raise and must answer `conforms`. *)
Definition spec_accepts (c : case) : bool :=
  if in_languageb ptotal_pool (c_ty c)
  then (0 <=? c_out c) && Bool.eqb (conformsb psem_pool (c_ty c) (c_val c)) (c_out c =? 1)
  else true.

(* 0: model = implementation and the property holds of the answer
   1: model <> implementation, the property still holds of the answer
   2: the implementation's answer violates the property *)
Definition check_case (c : case) : nat :=
  if spec_accepts c
  then if out_of_res (check_type psem_pool false (c_ty c) (c_val c)) =? c_out c then 0%nat else 1%nat
  else 2%nat.

(* same, against the code before the fix commits (self-test of the harness) *)
Definition check_case_legacy (c : case) : nat :=
  if spec_accepts c
  then if out_of_res (check_type psem_pool true (c_ty c) (c_val c)) =? c_out c then 0%nat else 1%nat
  else 2%nat.

(* ---------------------------------------------------------------- lattice *)
(* row i of the interpreter's table: the indices j (ascending) with
   issubclass(class i, class j), classes in the order of all_cls *)
Definition row_of (rel : cls -> cls -> bool) (a : cls) : list Z :=
  map cls_idx (filter (rel a) all_cls).
Definition table_of (rel : cls -> cls -> bool) : list (list Z) := map (row_of rel) all_cls.

(* 0: interpreter = model table = specification lattice; 1: model table
   differs; 2: the specification's lattice differs from the interpreter *)
Definition lattice_check (tbl : list (list Z)) : nat :=
  if zlistlist_eqb (table_of subclassb) tbl
  then if zlistlist_eqb (table_of issub) tbl then 0%nat else 1%nat
  else 2%nat.
