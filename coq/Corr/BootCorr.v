(* Correspondence and property oracle for lazy bootstrapping (C19).
   A case carries the class table, the threads' first uses, the protocol events
   the IMPLEMENTATION produced under a given schedule (in execution order) and
   canonical encodings of what the implementation showed: per class the final
   description of the lazily bootstrapped class and of the eagerly bootstrapped
   reference, per thread the outcome and the reference outcome.

   check_case:
     2 = property oracle: the lazy run is distinguishable from the eager
         reference (a description or a thread outcome differs, or a thread saw
         an exception).  Pure comparison of implementation observations; the
         model is not consulted.
     1 = the implementation's run is fine but the model disagrees: its trace
         for the same schedule differs from the observed protocol events, or
         its sequential metadata differs from the eager reference, or it does
         not finish with good observations.
     0 = agreement. *)
From Coq Require Import List ZArith Bool Arith.
From SC Require Import Base.Res Corr.Enc Conc.BootstrapModel Conc.BootstrapSpec.
Import ListNotations.

Definition obool (a b : bool) : bool := Bool.eqb a b.
Definition oopt_nat (a b : option nat) : bool :=
  match a, b with Some x, Some y => Nat.eqb x y | None, None => true | _, _ => false end.

Definition ev_eqb (a b : ev) : bool :=
  match a, b with
  | ETest c f h, ETest c' f' h' => Nat.eqb c c' && obool f f' && obool h h'
  | EAcq d, EAcq d' => Nat.eqb d d'
  | ERecheck c h, ERecheck c' h' => Nat.eqb c c' && obool h h'
  | EEnter c, EEnter c' => Nat.eqb c c'
  | EInherit c, EInherit c' => Nat.eqb c c'
  | ERead c n d, ERead c' n' d' => Nat.eqb c c' && Nat.eqb n n' && obool d d'
  | EConsume c n, EConsume c' n' => Nat.eqb c c' && Nat.eqb n n'
  | EPublish c, EPublish c' => Nat.eqb c c'
  | EPublishF c, EPublishF c' => Nat.eqb c c'
  | ERegister c, ERegister c' => Nat.eqb c c'
  | ERel d, ERel d' => Nat.eqb d d'
  | EReread c, EReread c' => Nat.eqb c c'
  | EBodyEnd c, EBodyEnd c' => Nat.eqb c c'
  | EWCheck o, EWCheck o' => obool o o'
  | EWRemove w d, EWRemove w' d' => Nat.eqb w w' && obool d d'
  | EWNext w f, EWNext w' f' => Nat.eqb w w' && oopt_nat f f'
  | EObs, EObs => true
  | _, _ => false
  end.

Fixpoint trace_eqb (a b : list (nat * ev)) : bool :=
  match a, b with
  | [], [] => true
  | (i, e) :: a', (j, f) :: b' => Nat.eqb i j && ev_eqb e f && trace_eqb a' b'
  | _, _ => false
  end.

Definition zb (b : bool) : Z := if b then 1%Z else 0%Z.
Definition enc_dk (d : dkind) : Z := match d with DNone => 0 | DValue => 1 | DFactory => 2 end%Z.

(* metadata in the vocabulary shared with the harness *)
Definition enc_meta (m : meta) : list Z :=
  flat_map (fun p => [Z.of_nat (fst p); Z.of_nat (a_owner (snd p)); enc_dk (a_dk (snd p));
                      zb (a_init (snd p)); zb (a_repr (snd p)); zb (a_cmp (snd p))]) (m_attrs m)
  ++ [match m_key m with Some k => Z.of_nat k | None => (-1)%Z end; zb (m_frozen m)].

Record case := mkcase {
  k_ct : table;
  k_threads : list (bool * bool * nat);      (* instantiate?, via __dataclass_fields__?, class used *)
  k_events : list (nat * ev);                (* implementation: protocol events in execution order *)
  k_eager : list (list Z);                   (* implementation: eager reference, one description per class *)
  k_lazy : list (list Z);                    (* implementation: after the lazy concurrent run *)
  k_out_eager : list (list Z);               (* implementation: reference outcome of each thread's use *)
  k_out_lazy : list (list Z);                (* implementation: outcome each thread observed *)
  k_meta : list (list Z) }.                  (* implementation: eager metadata per class (model vocabulary) *)

(* an outcome encoding starts with 1 (a value); 0 = an exception was observed *)
Definition ok_outcome (o : list Z) : bool := match o with (1 :: _)%Z => true | _ => false end.

(* the property, on implementation observations only *)
Definition oracle (c : case) : bool :=
  zlistlist_eqb (k_eager c) (k_lazy c) &&
  zlistlist_eqb (k_out_eager c) (k_out_lazy c) &&
  forallb ok_outcome (k_out_lazy c).

Definition obs_good (ct : table) (t : thread) : bool :=
  match t_ph t, t_obs t with
  | Done, Some o =>
    negb (o_exc o) && (o_reg o || negb (t_inst t)) &&
    match o_meta o with
    | Some m => zlist_eqb (enc_meta m) (enc_meta (seq_meta ct (t_tgt t)))
    | None => false
    end
  | _, _ => false
  end.

Definition model_agrees (c : case) : bool :=
  let ct := k_ct c in
  let ts := map (fun u => start (fst (fst u)) (snd (fst u)) (snd u)) (k_threads c) in
  let r := run true ct (map fst (k_events c)) (init_state ct ts) in
  trace_eqb (snd r) (k_events c) &&
  forallb (obs_good ct) (threads (fst r)) &&
  zlistlist_eqb (map (fun i => enc_meta (seq_meta ct i)) (seq 0 (length ct))) (k_meta c).

Definition check_case (c : case) : nat :=
  if negb (oracle c) then 2 else if model_agrees c then 0 else 1.

(* Twin probe (hierarchies with several bases, sequential triggers): the observations of
   the lazily decorated classes and of their eagerly decorated twins after the same
   sequence of uses.  Implementation observations only; the chain model does not cover
   multiple bases.  2 = distinguishable (or an exception only... any difference), 0 = equal. *)
Definition check_twin (p : list (list Z) * list (list Z)) : nat :=
  if zlistlist_eqb (fst p) (snd p) then 0 else 2.
