(* C11 — model of invalidation, following the anchored Python branch by branch:

     spec_classes/spec_class.py    SpecClassMetadata.invalidation_map_for
     spec_classes/utils/mutation.py mutate_attr, invalidate_attrs, _thawed
     spec_classes/methods/core.py   SetAttrMethod, DelAttrMethod, InitMethod
     spec_classes/types/spec_property.py  __get__, __set__, __delete__
     spec_classes/methods/scalar.py with_/update_/transform_/reset_<attr>
     spec_classes/methods/collections/*.py  element helpers
     spec_classes/methods/toplevel.py       update / transform / reset

   as the code is AFTER the commits
     eda062f  fix: invalidation follows chains through attributes that hold no
              value and resets each dependant once
     4d8435f  fix: dependants declared in a plain subclass of a spec-class are
              invalidated
   and, at the end of the file (Section Old), as it was before them (used only
   for the `_refuted` examples).

   An instance is its __dict__ (Desc.dict); a deep copy is the same map under a
   fresh identity, so a copy-on-write operation returns the pair
   (receiver's map, result's map).  User-supplied code is a parameter: the
   getters (functions of the current map), the transform functions, the element
   operations on a collection value, the type check, the sentinel test.
   No proofs in this file. *)
From Coq Require Import List ZArith Bool.
From SC Require Import Base.Res Inval.Desc.
Import ListNotations.
Open Scope Z_scope.

(* ------------------------------------------------------------------ the map *)
(* invalidation_map: a multimap  invalidator -> invalidated names, kept as the
   list of its (key, value) pairs; `map.get(k, set())` = lookup *)
Definition imap := list (dep * name).
Definition lookup (m : imap) (k : dep) : list name :=
  map snd (filter (fun e => dep_eqb (fst e) k) m).
(* invalidation_map.get(x, set()) | invalidation_map.get("*", set()) *)
Definition targets (m : imap) (x : name) : list name :=
  lookup m (DName x) ++ lookup m DStar.

Definition edges_of (n : name) (inv : list dep) : imap := map (fun d => (d, n)) inv.

(*  for name, member in klass.__dict__.items():
        if name in seen_attributes (or dunder): continue
        seen_attributes.add(name)
        for invalidator in getattr(member, "__spec_class_invalidated_by__", ()):
            invalidation_map[invalidator].add(name)                           *)
Fixpoint member_edges (seen : list name) (ms : list (name * member)) : list name * imap :=
  match ms with
  | [] => (seen, [])
  | (n, m) :: t =>
      if mem n seen then member_edges seen t
      else let '(s', e) := member_edges (n :: seen) t in (s', edges_of n (m_inv m) ++ e)
  end.
Fixpoint levels_edges (seen : list name) (ls : list level) : imap :=
  match ls with
  | [] => []
  | l :: t => let '(s', e) := member_edges seen (l_members l) in e ++ levels_edges s' t
  end.

Section Model.
  Variable V : Type.
  Variable sentinel : V -> bool.            (* MISSING / EMPTY / UNCHANGED *)
  Variable check : name -> V -> bool.       (* check_type(value, attrs[n].type) *)
  Variable getter : name -> dict V -> V.    (* fget of the spec_property n *)
  Variable fid : Type.                      (* transform functions … *)
  Variable apply_f : fid -> option V -> V.  (* … applied to the old value (None = absent) *)
  Variable eop : Type.                      (* element operations on a collection … *)
  Variable apply_e : eop -> option V -> res V.  (* … value (None = absent), may raise *)
  Variable cd : cdesc V.

  Notation dict := (dict V).
  (* what an operation leaves behind: the exception if any, and the map of the
     object it worked on *)
  Definition outcome := (option err * dict)%type.

  (* SpecClassMetadata._build_invalidation_map(klass); `plain` = the MRO walked
     includes the classes that are not spec classes (klass = type(obj), since
     4d8435f); `mask` = a managed attribute masked by a member of such a class
     takes that member's dependencies (Desc.builder_inv, since bc35211) *)
  Definition build_map (plain mask : bool) : imap :=
    flat_map (fun na => edges_of (fst na)
                          (if mask then builder_inv cd (fst na) (snd na) else a_inv (snd na)))
             (c_attrs cd)
    ++ levels_edges (map fst (c_attrs cd))
         (filter (fun l => plain || negb (l_plain l)) (c_levels cd)).
  (* metadata.invalidation_map_for(type(obj)) *)
  Definition inv_map : imap := build_map true true.

  Definition is_attr (n : name) : bool :=
    match attr_of cd n with Some _ => true | None => false end.

  (* object.__setattr__ : a spec_property in the class is a data descriptor
     (spec_property.__set__ without a custom setter) *)
  Definition raw_set (d : dict) (a : name) (v : V) : outcome :=
    match descriptor_of cd a with
    | Some f => if p_over f then (None, set d a v) else (Some AttrErr, d)
    | None => (None, set d a v)
    end.
  (* object.__delattr__ / spec_property.__delete__ without a custom deleter *)
  Definition raw_del (d : dict) (a : name) : outcome :=
    match descriptor_of cd a with
    | Some f => if (p_over f || p_cache f) && has d a then (None, remove d a) else (Some AttrErr, d)
    | None => if has d a then (None, remove d a) else (Some AttrErr, d)
    end.

  (* utils/mutation.py:mutate_attr.  `window` = __spec_class_initializing__ is
     set on obj; the result map is that of the object written to (obj itself
     when inplace, its deep copy otherwise).  `inval` = invalidate_attrs (a
     parameter only because Gallina wants the call graph layered, see below) *)
  Definition mutate_attr_gen (inval : dict -> name -> bool -> outcome)
             (d : dict) (a : name) (v : V)
             (inplace type_check force skip window : bool) : outcome :=
    if sentinel v then (None, d)
    else if negb (force || window) && inplace && c_frozen cd then (Some FrozenErr, d)
    else if is_attr a && type_check && negb (check a v) then (Some TypeErr, d)
    else
      (* copied = not inplace; _thawed(obj, thaw=copied) *)
      let window' := window || (negb inplace && c_frozen cd) in
      match raw_set d a v with
      | (Some e, d') => (Some e, d')
      | (None, d') => if skip then (None, d') else inval d' a window'
      end.

  (* DelAttrMethod (as of 8d388fa): `default = attr_spec.lookup_default_value(
     type(self))` for a managed attribute that is not masked, MISSING otherwise;
     the (mutate-safe copy of the) default is what a deletion re-installs *)
  Definition resettable (a : name) : option V := default_of cd a.

  (* methods/core.py:DelAttrMethod.__delattr__: frozen guard; default looked up
     unless force; `if default is MISSING:` raw delete (+ invalidate_attrs), else
     mutate_attr(value=default, inplace=True, force=True, skip_invalidation=…) *)
  Definition delattr_gen (mut : dict -> name -> V -> bool -> bool -> bool -> bool -> bool -> outcome)
             (inval : dict -> name -> bool -> outcome)
             (d : dict) (a : name) (force skip window : bool) : outcome :=
    if negb (force || window) && c_frozen cd then (Some FrozenErr, d)
    else match (if force then None else resettable a) with
         | Some dv => mut d a dv true true true skip window
         | None =>
             match raw_del d a with
             | (Some e, d') => (Some e, d')
             | (None, d') => if skip then (None, d') else inval d' a window
             end
         end.

  (* obj.__delattr__(y, skip_invalidation=True): with skip_invalidation neither
     __delattr__ nor the mutate_attr it may call reaches invalidate_attrs, so
     this layer is closed *)
  Definition no_inval (d : dict) (_ : name) (_ : bool) : outcome := (None, d).
  Definition delattr_skip (d : dict) (y : name) (window : bool) : outcome :=
    delattr_gen (mutate_attr_gen no_inval) no_inval d y false true window.

  (*  for invalidatee in invalidation_map.get(x, set()) | wildcard:
          if invalidatee not in seen:
              seen.add(invalidatee); invalidatees.append(invalidatee); pending.append(invalidatee) *)
  Fixpoint scan (ys seen new : list name) : list name * list name :=
    match ys with
    | [] => (seen, new)
    | y :: t => if mem y seen then scan t seen new else scan t (y :: seen) (new ++ [y])
    end.
  (*  while pending: <scan the dependants of pending.pop()>
      (the iteration order of a Python set is unspecified; every order gives
      the same set of invalidatees) *)
  Fixpoint collect (fuel : nat) (m : imap) (pending seen acc : list name) : option (list name) :=
    match fuel with
    | O => None
    | S f =>
        match pending with
        | [] => Some acc
        | x :: rest =>
            let '(seen', new) := scan (targets m x) seen [] in
            collect f m (new ++ rest) seen' (acc ++ new)
        end
    end.

  (*  for invalidatee in invalidatees:
          try: obj.__delattr__(invalidatee, skip_invalidation=True)
          except AttributeError: pass                                        *)
  Fixpoint reset_all (ys : list name) (d : dict) (window : bool) : outcome :=
    match ys with
    | [] => (None, d)
    | y :: t =>
        match delattr_skip d y window with
        | (None, d') => reset_all t d' window
        | (Some AttrErr, d') => reset_all t d' window
        | (Some e, d') => (Some e, d')
        end
    end.

  (* utils/mutation.py:invalidate_attrs *)
  Definition invalidate_attrs (d : dict) (a : name) (window : bool) : outcome :=
    let m := inv_map in
    match m with
    | [] => (None, d)                                   (* if not invalidation_map: return *)
    | _ => match collect (S (S (length m))) m [a] [a] [] with
           | None => (Some Fuel, d)                     (* never: Proofs.collect_fuel_enough *)
           | Some ys => reset_all ys d window
           end
    end.

  Definition mutate_attr := mutate_attr_gen invalidate_attrs.
  Definition delattr_ := delattr_gen mutate_attr invalidate_attrs.

  (* ---------------------------------------------------------------- reads *)
  Definition calls := list (name * Z).
  Definition count (c : calls) (n : name) : Z := match assoc c n with Some z => z | None => 0 end.
  Definition bump (c : calls) (n : name) : calls :=
    (n, count c n + 1) :: filter (fun e => negb (fst e =? n)) c.

  Record rout := mkr { r_res : res V; r_dict : dict; r_calls : calls }.

  (* getattr(obj, p): spec_property.__get__ for a property, the instance
     __dict__ otherwise (GetAttrMethod raises AttributeError for the rest) *)
  Definition read (d : dict) (c : calls) (p : name) : rout :=
    match descriptor_of cd p with
    | Some f =>
        match (if p_over f || p_cache f then get d p else None) with
        | Some v => mkr (Ok v) d c
        | None =>
            let v := getter p d in
            let c' := bump c p in
            if is_attr p && negb (check p v) then mkr (Err ValueErr) d c'
            else mkr (Ok v) (if p_cache f && negb (sentinel v) then set d p v else d) c'
        end
    | None => match get d p with Some v => mkr (Ok v) d c | None => mkr (Err AttrErr) d c end
    end.

  (* ---------------------------------------------------------------- entry points *)
  Inductive op :=
  | Read (p : name)                                   (* obj.p *)
  | SetAttr (a : name) (v : V)                        (* obj.a = v  (also: override of a property) *)
  | DelAttr (a : name)                                (* del obj.a *)
  | With (a : name) (v : V) (ip : bool)               (* obj.with_a(v, _inplace=ip) *)
  | Update (a : name) (v : V) (ip : bool)             (* obj.update_a(v, _inplace=ip) *)
  | Transform (a : name) (f : fid) (ip : bool)        (* obj.transform_a(f, _inplace=ip) *)
  | Reset (a : name) (ip : bool)                      (* obj.reset_a(_inplace=ip) *)
  | Elem (a : name) (e : eop) (ip : bool)             (* with_/update_/transform_/without_<item> *)
  | TopUpdate (kws : list (name * V)) (ip : bool)     (* obj.update(kw=v..., _inplace=ip) *)
  | TopTransform (kws : list (name * fid)) (ip : bool)(* obj.transform(kw=f..., _inplace=ip) *)
  | TopReset (ip : bool).                             (* obj.reset(_inplace=ip) *)

  (* o_recv: the receiver's map afterwards; o_res: the map of the returned
     instance when that is another object (a copy) *)
  Record sout := mks { o_err : option err; o_val : option V; o_recv : dict;
                       o_res : option dict; o_calls : calls }.

  (* package the outcome of something that worked on the receiver (ip) or on a
     deep copy of it; a copy that fails is dropped *)
  Definition pack (ip : bool) (d : dict) (c : calls) (r : outcome) : sout :=
    match r with
    | (None, d') => if ip then mks None None d' None c else mks None None d (Some d') c
    | (Some e, d') => if ip then mks (Some e) None d' None c else mks (Some e) None d None c
    end.

  (* SetAttrMethod: prepare_attr_value (the identity on the plain values used
     here), mutate_attr(inplace=True) *)
  Definition setattr_ (d : dict) (a : name) (v : V) (window : bool) : outcome :=
    mutate_attr d a v true true false false window.

  (* WithAttrMethod.with_attr (only managed attributes have helpers) *)
  Definition with_attr (d : dict) (a : name) (v : V) (ip : bool) : outcome :=
    if is_attr a then mutate_attr d a v ip true false false false else (Some AttrErr, d).

  (* mutate_value(old_value=self, attrs=kws, inplace): one setattr per keyword
     on the (copied) instance, inside _thawed(value, thaw=not inplace) *)
  Fixpoint set_each (d : dict) (kws : list (name * V)) (window : bool) : outcome :=
    match kws with
    | [] => (None, d)
    | (a, v) :: t =>
        match setattr_ d a v window with
        | (None, d') => set_each d' t window
        | (Some e, d') => (Some e, d')
        end
    end.
  (* mutate_value(old_value=self, attr_transforms=kws, inplace):
     setattr(value, attr, f(getattr(value, attr, MISSING))) per keyword *)
  Fixpoint transform_each (d : dict) (kws : list (name * fid)) (window : bool) : outcome :=
    match kws with
    | [] => (None, d)
    | (a, f) :: t =>
        match setattr_ d a (apply_f f (get d a)) window with
        | (None, d') => transform_each d' t window
        | (Some e, d') => (Some e, d')
        end
    end.
  (* ResetMethod.reset: delattr per managed attribute, AttributeError swallowed *)
  Fixpoint reset_each (d : dict) (ns : list name) (window : bool) : outcome :=
    match ns with
    | [] => (None, d)
    | a :: t =>
        match delattr_ d a false false window with
        | (None, d') => reset_each d' t window
        | (Some AttrErr, d') => reset_each d' t window
        | (Some e, d') => (Some e, d')
        end
    end.

  (* with_/update_/transform_/without_<item>: the new collection is computed by
     the CollectionAttrMutator (whose __init__ refuses a frozen receiver up
     front when in place), then mutate_attr(..., type_check=False) *)
  Definition elem_attr (d : dict) (a : name) (e : eop) (ip : bool) : outcome :=
    if negb (is_attr a) then (Some AttrErr, d)
    else if ip && c_frozen cd then (Some FrozenErr, d)
    else match apply_e e (get d a) with
         | Err x => (Some x, d)
         | Ok v => mutate_attr d a v ip false false false false
         end.

  Definition step (d : dict) (c : calls) (o : op) : sout :=
    match o with
    | Read p =>
        let r := read d c p in
        match r_res r with
        | Ok v => mks None (Some v) (r_dict r) None (r_calls r)
        | Err e => mks (Some e) None (r_dict r) None (r_calls r)
        end
    | SetAttr a v => pack true d c (setattr_ d a v false)
    | DelAttr a => pack true d c (delattr_ d a false false false)
    | With a v ip => pack ip d c (with_attr d a v ip)
    | Update a v ip => pack ip d c (with_attr d a v ip)
    | Transform a f ip => pack ip d c (with_attr d a (apply_f f (get d a)) ip)
    | Reset a ip =>
        (* deepcopy unless inplace; _thawed(self, thaw=not inplace); delattr *)
        pack ip d c (if is_attr a then delattr_ d a false false (negb ip) else (Some AttrErr, d))
    | Elem a e ip => pack ip d c (elem_attr d a e ip)
    | TopUpdate kws ip =>
        match kws with
        | [] => mks None None d None c                (* returns self, no copy *)
        | _ => pack ip d c (set_each d kws (negb ip))
        end
    | TopTransform kws ip =>
        match kws with
        | [] => mks None None d None c
        | _ => pack ip d c (transform_each d kws (negb ip))
        end
    | TopReset ip => pack ip d c (reset_each d (map fst (c_attrs cd)) (negb ip))
    end.

  (* the attribute a single-attribute entry point mutates *)
  Definition single_attr (o : op) : option name :=
    match o with
    | SetAttr a _ | DelAttr a | With a _ _ | Update a _ _ | Transform a _ _
    | Reset a _ | Elem a _ _ => Some a
    | Read _ | TopUpdate _ _ | TopTransform _ _ | TopReset _ => None
    end.
  (* the value it hands to mutate_attr (None: deletion / reset to the default,
     or the element operation itself raises) *)
  Definition written (o : op) (d : dict) : option V :=
    match o with
    | SetAttr _ v | With _ v _ | Update _ v _ => Some v
    | Transform a f _ => Some (apply_f f (get d a))
    | Elem a e _ => match apply_e e (get d a) with Ok v => Some v | Err _ => None end
    | _ => None
    end.
  (* mutate_attr treats MISSING / EMPTY / UNCHANGED as "no assignment" *)
  Definition writes_value (o : op) (d : dict) : bool :=
    match written o d with Some v => negb (sentinel v) | None => true end.
  Definition in_place (o : op) : bool :=
    match o with
    | Read _ | SetAttr _ _ | DelAttr _ => true
    | With _ _ ip | Update _ _ ip | Transform _ _ ip | Reset _ ip | Elem _ _ ip
    | TopUpdate _ ip | TopTransform _ ip | TopReset ip => ip
    end.

  (* the object the operation worked on *)
  Definition target (o : sout) : dict :=
    match o_res o with Some t => t | None => o_recv o end.

  (* a multi-keyword helper got through n of its `total` keywords and left the
     state t: all of them when it succeeds (t = the object worked on), fewer
     when a keyword fails (t = the receiver, if the call was in place) *)
  Definition stops_at (out : sout) (ip : bool) (n total : nat) (t : dict) : Prop :=
    (o_err out = None -> n = total /\ target out = t) /\
    (o_err out <> None -> (n < total)%nat /\ (ip = true -> o_recv out = t)).

  (* a history: after a copy-on-write operation the run goes on with the copy
     (follow) or with the original *)
  Definition next_recv (follow : bool) (o : sout) : dict :=
    if follow then target o else o_recv o.
  Fixpoint run (d : dict) (c : calls) (h : list (op * bool)) : list sout :=
    match h with
    | [] => []
    | (o, follow) :: t =>
        let r := step d c o in r :: run (next_recv follow r) (o_calls r) t
    end.

  (* the n-th step of a history: the receiver's map before it, the operation,
     what it produced *)
  Fixpoint nth_step (d : dict) (c : calls) (h : list (op * bool)) (n : nat)
    : option (dict * op * sout) :=
    match h with
    | [] => None
    | (o, follow) :: t =>
        let r := step d c o in
        match n with
        | O => Some (d, o, r)
        | S k => nth_step (next_recv follow r) (o_calls r) t k
        end
    end.

  (* InitMethod.init: every managed attribute gets its keyword or its default
     (skip_invalidation=True, inside the initializing window), then
     __post_init__ (here: reads of the listed properties) *)
  Fixpoint init_attrs (d : dict) (kw : list (name * V)) (ats : list (name * aspec V)) : outcome :=
    match ats with
    | [] => (None, d)
    | (n, a) :: t =>
        match (match assoc kw n with
               | Some v => Some v
               | None => match a_masked a with None => a_default a | Some _ => None end
               end) with
        | None => init_attrs d kw t
        | Some v =>
            match mutate_attr d n v true true true true true with
            | (None, d') => init_attrs d' kw t
            | (Some e, d') => (Some e, d')
            end
        end
    end.
  Fixpoint read_each (d : dict) (c : calls) (ps : list name) : dict * calls :=
    match ps with
    | [] => (d, c)
    | p :: t => let r := read d c p in read_each (r_dict r) (r_calls r) t
    end.
  Definition construct (kw : list (name * V)) (post_reads : list name) : option err * dict * calls :=
    match init_attrs [] kw (c_attrs cd) with
    | (Some e, d) => (Some e, d, [])
    | (None, d) => let '(d', c) := read_each d [] post_reads in (None, d', c)
    end.

  (* ================================================================== *)
  (* The code BEFORE eda062f / 4d8435f (for the refutation examples only):
       for invalidatee in map.get(attr, set()) | map.get("*", set()):
           if invalidatee == attr: continue
           try: delattr(obj, invalidatee)        # cascades through __delattr__
           except AttributeError: pass
     with the map of the metadata's owner (no plain-subclass members).
     Python's recursion limit is the fuel. *)
  Section Old.
    Definition old_map : imap := build_map false false.

    Fixpoint old_each (del : dict -> name -> outcome) (a : name) (ys : list name) (d : dict) : outcome :=
      match ys with
      | [] => (None, d)
      | y :: t =>
          if y =? a then old_each del a t d
          else match del d y with
               | (None, d') => old_each del a t d'
               | (Some AttrErr, d') => old_each del a t d'
               | (Some e, d') => (Some e, d')
               end
      end.
    Fixpoint old_invalidate (fuel : nat) (d : dict) (a : name) (window : bool) : outcome :=
      match fuel with
      | O => (Some Fuel, d)                      (* RecursionError *)
      | S f =>
          match old_map with
          | [] => (None, d)
          | m => old_each (fun d' y =>
                             delattr_gen (mutate_attr_gen (old_invalidate f)) (old_invalidate f)
                                         d' y false false window)
                          a (nodup Z.eq_dec (targets m a)) d
          end
      end.
    Definition old_mutate_attr (fuel : nat) := mutate_attr_gen (old_invalidate fuel).
    Definition old_delattr (fuel : nat) :=
      delattr_gen (old_mutate_attr fuel) (old_invalidate fuel).
  End Old.
End Model.

Arguments Read {V fid eop} p.
Arguments SetAttr {V fid eop} a v.
Arguments DelAttr {V fid eop} a.
Arguments With {V fid eop} a v ip.
Arguments Update {V fid eop} a v ip.
Arguments Transform {V fid eop} a f ip.
Arguments Reset {V fid eop} a ip.
Arguments Elem {V fid eop} a e ip.
Arguments TopUpdate {V fid eop} kws ip.
Arguments TopTransform {V fid eop} kws ip.
Arguments TopReset {V fid eop} ip.
Arguments o_err {V} s.
Arguments o_val {V} s.
Arguments o_recv {V} s.
Arguments o_res {V} s.
Arguments o_calls {V} s.
Arguments target {V} o.
Arguments r_res {V} r.
Arguments r_dict {V} r.
Arguments r_calls {V} r.
