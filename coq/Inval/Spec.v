(* C11 — what "derived values are never stale" means.  Independent of the
   model: only the class description (Desc) is consulted, never the functions
   of Model.v.

   Reading of the property text:
   * y DEPENDS on x when the declaration in force for y (Attr(invalidated_by=…)
     of a managed attribute, else the first class member of that name along the
     MRO of the instance's class — spec class, spec subclass or plain subclass)
     lists x or '*'.
   * dep_closure a = everything reachable from a along "depends on" edges
     (reflexive, transitive): the chains of the text.
   * after a SUCCESSFUL mutation of a on the object t that was written
     (receiver if in place, the returned copy otherwise), every y in the closure
     other than a "holds nothing" (no cache / override / value visible to a
     read) "or is back at its default"; everything outside the closure has the
     stored entry it had before; a FAILED mutation leaves every entry as it was.
   * the next read of a cached property of the closure therefore runs the
     getter on the current state. *)
From Coq Require Import List ZArith Bool.
From SC Require Import Base.Res Inval.Desc.
Import ListNotations.
Open Scope Z_scope.

Section Spec.
  Variable V : Type.
  Variable cd : cdesc V.
  Notation dict := (dict V).

  (* y is declared invalidated_by x, or by '*' (= by every attribute) *)
  Definition edge (x y : name) : Prop :=
    exists inv, decl_inv cd y = Some inv /\ (In (DName x) inv \/ In DStar inv).

  Inductive reach (a : name) : name -> Prop :=
  | reach_refl : reach a a
  | reach_step : forall y z, reach a y -> edge y z -> reach a z.
  Definition dep_closure (a y : name) : Prop := reach a y.

  (* the stored value a read of y would return without computing anything: a
     spec_property looks at its __dict__ entry only when overridable or cache *)
  Definition held (d : dict) (y : name) : option V :=
    match descriptor_of cd y with
    | Some f => if p_over f || p_cache f then get d y else None
    | None => get d y
    end.

  (* "holds nothing or is back at its default" *)
  Definition clean (d : dict) (y : name) : Prop :=
    held d y = None \/ exists dv, default_of cd y = Some dv /\ get d y = Some dv.

  Definition closure_cleared (a : name) (d' : dict) : Prop :=
    forall y, reach a y -> y <> a -> clean d' y.
  Definition unrelated_kept (a : name) (d d' : dict) : Prop :=
    forall y, ~ reach a y -> get d' y = get d y.
  Definition same_entries (d d' : dict) : Prop := forall y, get d' y = get d y.

  (* one successful mutation of a, from d to d' *)
  Definition mutation_spec (a : name) (d d' : dict) : Prop :=
    closure_cleared a d' /\ unrelated_kept a d d'.

  (* several in a row (one per keyword of a top-level update/transform/reset) *)
  Inductive chain : dict -> list name -> dict -> Prop :=
  | chain_nil : forall d, chain d [] d
  | chain_cons : forall d a d1 l d2,
      mutation_spec a d d1 -> chain d1 l d2 -> chain d (a :: l) d2.

  (* well-formed class: attrs is a Python dict (one entry per name); a default
     is a value of the attribute's type and not one of the sentinels MISSING /
     EMPTY / UNCHANGED (Attr(default=MISSING) means "no default") *)
  Definition wf_class (sentinel : V -> bool) (check : name -> V -> bool) : Prop :=
    NoDup (map fst (c_attrs cd)) /\
    (forall n dv, default_of cd n = Some dv -> sentinel dv = false /\ check n dv = true) /\
    (* metadata.attrs is what build_attr_spec makes of the class text: where a
       SPEC class (re)defines a managed name as a spec_property, Attr.invalidated_by
       is the property's own; a plain subclass leaves the metadata alone and is
       consulted when the map is built (Desc.builder_inv) *)
    (forall n a, attr_of cd n = Some a -> Some (builder_inv cd n a) = decl_inv cd n).

  (* ---------------------------------------------------------------- decidable
     versions, used by the correspondence oracle on the implementation's
     observations (Proofs.v: they imply the propositions above) *)
  Variable veqb : V -> V -> bool.

  Definition declared : list name := map fst (c_attrs cd) ++ map fst (all_members cd).

  Definition lists (x : name) (inv : list dep) : bool :=
    existsb (fun d => dep_eqb d (DName x) || dep_eqb d DStar) inv.
  Definition edge_b (x y : name) : bool :=
    match decl_inv cd y with Some inv => lists x inv | None => false end.

  Definition expand (S : list name) : list name :=
    S ++ filter (fun y => negb (mem y S) && existsb (fun x => edge_b x y) S) (nodup Z.eq_dec declared).
  Fixpoint iter (n : nat) (S : list name) : list name :=
    match n with O => S | Datatypes.S k => iter k (expand S) end.
  Definition closure_b (a : name) : list name := iter (length declared) [a].
  (* S is closed under "depends on" *)
  Definition closed_b (S : list name) : bool :=
    forallb (fun y => mem y S || negb (existsb (fun x => edge_b x y) S)) declared.

  (* the canonical outcome of one successful mutation (used by the oracle to
     follow the keywords of a top-level update / transform / reset one by one):
     a holds v, every other member of the closure cl is back at its default or
     gone *)
  Definition clear_one (d : dict) (y : name) : dict :=
    match default_of cd y with Some dv => set d y dv | None => remove d y end.
  Definition clear_rest (cl : list name) (a : name) (d : dict) : dict :=
    fold_left (fun acc y => if y =? a then acc else clear_one acc y) cl d.
  Definition spec_assign (cl : list name) (a : name) (v : V) (d : dict) : dict :=
    clear_rest cl a (set d a v).
  Definition spec_delete (cl : list name) (a : name) (d : dict) : dict :=
    clear_rest cl a (clear_one d a).

  Definition opt_eqb (a b : option V) : bool :=
    match a, b with
    | Some x, Some y => veqb x y
    | None, None => true
    | _, _ => false
    end.
  Definition clean_b (d : dict) (y : name) : bool :=
    match held d y with
    | None => true
    | Some _ => match default_of cd y with
                | Some dv => opt_eqb (get d y) (Some dv)
                | None => false
                end
    end.
  (* over a finite set of names ns (every name that occurs anywhere) *)
  Definition closure_cleared_b (cl : list name) (a : name) (d' : dict) : bool :=
    forallb (fun y => (y =? a) || clean_b d' y) cl.
  Definition unrelated_kept_b (ns cl : list name) (d d' : dict) : bool :=
    forallb (fun y => mem y cl || opt_eqb (get d' y) (get d y)) ns.
  Definition same_entries_b (ns : list name) (d d' : dict) : bool :=
    forallb (fun y => opt_eqb (get d' y) (get d y)) ns.
End Spec.

Arguments edge {V} cd x y.
Arguments reach {V} cd a _.
Arguments dep_closure {V} cd a y.
Arguments held {V} cd d y.
Arguments clean {V} cd d y.
Arguments closure_cleared {V} cd a d'.
Arguments unrelated_kept {V} cd a d d'.
Arguments same_entries {V} d d'.
Arguments mutation_spec {V} cd a d d'.
Arguments chain {V} cd _ _ _.
Arguments wf_class {V} cd sentinel check.
Arguments declared {V} cd.
Arguments edge_b {V} cd x y.
Arguments closure_b {V} cd a.
Arguments closed_b {V} cd S.
Arguments clean_b {V} cd veqb d y.
Arguments closure_cleared_b {V} cd veqb cl a d'.
Arguments unrelated_kept_b {V} veqb ns cl d d'.
Arguments same_entries_b {V} veqb ns d d'.
Arguments opt_eqb {V} veqb a b.
Arguments clear_one {V} cd d y.
Arguments spec_assign {V} cd cl a v d.
Arguments spec_delete {V} cd cl a d.
