(* C11 — proofs: the model (Inval/Model.v, code after eda062f / 4d8435f)
   satisfies the specification (Inval/Spec.v) for every class description,
   every state, every entry point and every history. *)
From Coq Require Import List ZArith Bool Lia.
From SC Require Import Base.Res Inval.Desc Inval.Model Inval.Spec.
Import ListNotations.
Open Scope Z_scope.

(* ------------------------------------------------------------------ basics *)
Lemma mem_In x l : mem x l = true <-> In x l.
Proof.
  induction l as [|y t IH]; simpl; [split; [discriminate | tauto]|].
  rewrite orb_true_iff, IH, Z.eqb_eq. tauto.
Qed.
Lemma mem_false x l : mem x l = false <-> ~ In x l.
Proof. rewrite <- mem_In. destruct (mem x l); split; congruence. Qed.

Lemma dep_eqb_eq a b : dep_eqb a b = true <-> a = b.
Proof.
  destruct a, b; simpl; try rewrite Z.eqb_eq; split; intro H;
    try congruence; try discriminate; try reflexivity.
Qed.

Lemma assoc_In {A} (l : list (name * A)) n v : assoc l n = Some v -> In (n, v) l.
Proof.
  induction l as [|[k w] t IH]; simpl; [discriminate|].
  destruct (k =? n) eqn:E; intro H.
  - apply Z.eqb_eq in E. inversion H; subst. now left.
  - right. now apply IH.
Qed.
Lemma assoc_None {A} (l : list (name * A)) n : assoc l n = None <-> ~ In n (map fst l).
Proof.
  induction l as [|[k w] t IH]; simpl; [tauto|].
  destruct (k =? n) eqn:E.
  - apply Z.eqb_eq in E. split; [discriminate | intro H; exfalso; apply H; now left].
  - apply Z.eqb_neq in E. rewrite IH. tauto.
Qed.
Lemma assoc_Some_In {A} (l : list (name * A)) n v : assoc l n = Some v -> In n (map fst l).
Proof. intro H. apply assoc_In in H. apply (in_map fst) in H. exact H. Qed.
Lemma assoc_app {A} (l l' : list (name * A)) n :
  assoc (l ++ l') n = match assoc l n with Some v => Some v | None => assoc l' n end.
Proof.
  induction l as [|[k w] t IH]; simpl; [reflexivity|]. destruct (k =? n); auto.
Qed.
Lemma assoc_NoDup {A} (l : list (name * A)) n v :
  NoDup (map fst l) -> In (n, v) l -> assoc l n = Some v.
Proof.
  induction l as [|[k w] t IH]; simpl; [tauto|]. intros ND [H|H].
  - inversion H; subst. now rewrite Z.eqb_refl.
  - inversion ND; subst. destruct (k =? n) eqn:E.
    + apply Z.eqb_eq in E. subst. exfalso. apply H2. apply (in_map fst) in H. exact H.
    + now apply IH.
Qed.

Section Dict.
  Context {V : Type}.
  Implicit Types d : dict V.

  Lemma get_remove_same d n : get (remove d n) n = None.
  Proof.
    unfold get. induction d as [|[k v] t IH]; simpl; [reflexivity|].
    destruct (k =? n) eqn:E; [exact IH|]. simpl. now rewrite E.
  Qed.
  Lemma get_remove_other d n m : m <> n -> get (remove d n) m = get d m.
  Proof.
    unfold get. intro Hne. induction d as [|[k v] t IH]; simpl; [reflexivity|].
    destruct (k =? n) eqn:E.
    - apply Z.eqb_eq in E. subst. destruct (n =? m) eqn:E2; [apply Z.eqb_eq in E2; congruence | exact IH].
    - simpl. destruct (k =? m); [reflexivity | exact IH].
  Qed.
  Lemma get_set_same d n v : get (set d n v) n = Some v.
  Proof. unfold get, set. simpl. now rewrite Z.eqb_refl. Qed.
  Lemma get_set_other d n m v : m <> n -> get (set d n v) m = get d m.
  Proof.
    intro H. unfold set. change (get ((n, v) :: remove d n) m) with
      (if n =? m then Some v else get (remove d n) m).
    destruct (n =? m) eqn:E; [apply Z.eqb_eq in E; congruence|]. now apply get_remove_other.
  Qed.
  Lemma has_true d n : has d n = true <-> get d n <> None.
  Proof. unfold has. destruct (get d n); split; congruence. Qed.
  Lemma has_false d n : has d n = false <-> get d n = None.
  Proof. unfold has. destruct (get d n); split; congruence. Qed.
End Dict.

(* ------------------------------------------------------------------ the map *)
Lemma In_lookup m k y : In y (lookup m k) <-> In (k, y) m.
Proof.
  unfold lookup. rewrite in_map_iff. split.
  - intros [[k' y'] [E H]]. simpl in E. subst. apply filter_In in H. destruct H as [H1 H2].
    simpl in H2. apply dep_eqb_eq in H2. now subst.
  - intro H. exists (k, y). split; [reflexivity|]. apply filter_In. split; [exact H|].
    simpl. now apply dep_eqb_eq.
Qed.
Lemma In_targets m x y : In y (targets m x) <-> In (DName x, y) m \/ In (DStar, y) m.
Proof. unfold targets. now rewrite in_app_iff, !In_lookup. Qed.

Lemma In_edges_of n inv k y : In (k, y) (edges_of n inv) <-> y = n /\ In k inv.
Proof.
  unfold edges_of. rewrite in_map_iff. split.
  - intros [d [E H]]. inversion E; subst. tauto.
  - intros [-> H]. now exists k.
Qed.

Lemma member_edges_spec ms : forall seen s' e,
  member_edges seen ms = (s', e) ->
  (forall z, In z s' <-> In z seen \/ In z (map fst ms)) /\
  (forall k y, In (k, y) e <->
               ~ In y seen /\ exists m, assoc ms y = Some m /\ In k (m_inv m)).
Proof.
  induction ms as [|[n m] t IH]; simpl; intros seen s' e H.
  - inversion H; subst. split; [intro; tauto|]. intros k y. simpl. split; [tauto|].
    intros [_ [m' [A _]]]. discriminate.
  - destruct (mem n seen) eqn:Em.
    + apply mem_In in Em. destruct (IH _ _ _ H) as [I1 I2]. split.
      * intro z. rewrite I1. split; [tauto|]. intros [?|[?|?]]; subst; tauto.
      * intros k y. rewrite I2. split.
        -- intros [Hn [m' [A B]]]. split; [exact Hn|]. exists m'. split; [|exact B].
           destruct (n =? y) eqn:E; [apply Z.eqb_eq in E; subst; tauto | exact A].
        -- intros [Hn [m' [A B]]]. split; [exact Hn|]. exists m'. split; [|exact B].
           destruct (n =? y) eqn:E; [apply Z.eqb_eq in E; subst; tauto | exact A].
    + apply mem_false in Em.
      destruct (member_edges (n :: seen) t) as [s1 e1] eqn:R. inversion H; subst. clear H.
      destruct (IH _ _ _ R) as [I1 I2]. split.
      * intro z. rewrite I1. simpl. tauto.
      * intros k y. rewrite in_app_iff, In_edges_of, I2. simpl. split.
        -- intros [[-> Hk]|[Hn [m' [A B]]]].
           ++ split; [exact Em|]. exists m. now rewrite Z.eqb_refl.
           ++ split; [tauto|]. exists m'. split; [|exact B].
              destruct (n =? y) eqn:E; [apply Z.eqb_eq in E; subst; tauto | exact A].
        -- intros [Hn [m' [A B]]]. destruct (n =? y) eqn:E.
           ++ apply Z.eqb_eq in E. subst. inversion A; subst. now left.
           ++ apply Z.eqb_neq in E. right. split; [tauto|]. now exists m'.
Qed.

Lemma levels_edges_spec ls : forall seen k y,
  In (k, y) (levels_edges seen ls) <->
  ~ In y seen /\ exists m, assoc (flat_map l_members ls) y = Some m /\ In k (m_inv m).
Proof.
  induction ls as [|l t IH]; simpl; intros seen k y.
  - split; [tauto|]. intros [_ [m [A _]]]. discriminate.
  - destruct (member_edges seen (l_members l)) as [s' e] eqn:R.
    destruct (member_edges_spec _ _ _ _ R) as [I1 I2].
    rewrite in_app_iff, I2, IH, assoc_app. split.
    + intros [[Hn [m [A B]]]|[Hn [m [A B]]]].
      * split; [exact Hn|]. exists m. now rewrite A.
      * rewrite I1 in Hn. split; [tauto|]. exists m. split; [|exact B].
        destruct (assoc (l_members l) y) eqn:E; [|exact A].
        exfalso. apply Hn. right. eapply assoc_Some_In; eauto.
    + intros [Hn [m [A B]]]. destruct (assoc (l_members l) y) eqn:E.
      * inversion A; subst. left. split; [exact Hn|]. now exists m.
      * right. split; [|now exists m]. rewrite I1. intros [?|H]; [tauto|].
        apply assoc_None in E. tauto.
Qed.

Lemma filter_all {A} (f : A -> bool) l : (forall x, f x = true) -> filter f l = l.
Proof. intro H. induction l; simpl; [reflexivity|]. now rewrite H, IHl. Qed.

Section MapSpec.
  Context {V : Type}.
  Variable cd : cdesc V.
  Hypothesis attrs_nodup : NoDup (map fst (c_attrs cd)).
  Hypothesis inv_consistent :
    forall n a, attr_of cd n = Some a -> Some (builder_inv cd n a) = decl_inv cd n.

  (* the map the code builds contains exactly the declarations in force *)
  Lemma inv_map_spec k y :
    In (k, y) (inv_map V cd) <-> exists inv, decl_inv cd y = Some inv /\ In k inv.
  Proof.
    unfold inv_map, build_map. rewrite filter_all by reflexivity.
    rewrite in_app_iff, levels_edges_spec. split.
    - intros [H|[Hn [m [A B]]]].
      + apply in_flat_map in H. destruct H as [[n a] [H1 H2]]. simpl in H2.
        apply In_edges_of in H2. destruct H2 as [-> H2].
        exists (builder_inv cd n a). split; [|exact H2].
        symmetry. apply inv_consistent. unfold attr_of. now apply assoc_NoDup.
      + apply assoc_None in Hn. unfold decl_inv, attr_of, member_of, all_members.
        rewrite Hn, A. simpl. now exists (m_inv m).
    - intros [inv [A B]]. destruct (attr_of cd y) as [a|] eqn:E.
      + left. rewrite <- (inv_consistent _ _ E) in A. inversion A; subst.
        apply in_flat_map. exists (y, a). split; [now apply assoc_In|].
        simpl. now apply In_edges_of.
      + right. unfold decl_inv in A. rewrite E in A. unfold attr_of in E.
        split; [now apply assoc_None|]. unfold member_of, all_members in A.
        destruct (assoc (flat_map l_members (c_levels cd)) y) as [m|]; simpl in A; [|discriminate].
        inversion A; subst. now exists m.
  Qed.

  Lemma targets_edge x y : In y (targets (inv_map V cd) x) <-> edge cd x y.
  Proof.
    rewrite In_targets, !inv_map_spec. unfold edge. split.
    - intros [[inv [A B]]|[inv [A B]]]; exists inv; tauto.
    - intros [inv [A [B|B]]]; [left | right]; now exists inv.
  Qed.

  Lemma inv_map_nil_no_edge : inv_map V cd = [] -> forall x y, ~ edge cd x y.
  Proof. intros E x y H. apply targets_edge in H. rewrite E in H. exact H. Qed.
End MapSpec.

(* ------------------------------------------------------------------ the worklist *)
Section Collect.
  Variable m : imap.
  Notation succ := (targets m).

  Inductive mreach (a : name) : name -> Prop :=
  | mreach_refl : mreach a a
  | mreach_step : forall y z, mreach a y -> In z (succ y) -> mreach a z.

  Lemma scan_spec ys : forall seen new seen' new',
    scan ys seen new = (seen', new') ->
    (forall z, In z seen' <-> In z seen \/ In z ys) /\
    (forall z, In z new' <-> In z new \/ (In z ys /\ ~ In z seen)).
  Proof.
    induction ys as [|y t IH]; simpl; intros seen new seen' new' H.
    - inversion H; subst. split; intro z; tauto.
    - destruct (mem y seen) eqn:E.
      + apply mem_In in E. destruct (IH _ _ _ _ H) as [I1 I2]. split; intro z.
        * rewrite I1. split; [tauto|]. intros [?|[?|?]]; subst; tauto.
        * rewrite I2. split; [tauto|]. intros [?|[[?|?] ?]]; subst; tauto.
      + apply mem_false in E. destruct (IH _ _ _ _ H) as [I1 I2]. split; intro z.
        * rewrite I1. simpl. tauto.
        * rewrite I2, in_app_iff. simpl.
          destruct (Z.eq_dec y z) as [->|Hne]; intuition congruence.
  Qed.

  (* the set of invalidatees is exactly the set of names reachable from a,
     a itself excluded *)
  Lemma collect_spec a fuel : forall pending seen acc ys,
    collect fuel m pending seen acc = Some ys ->
    (forall z, In z seen <-> z = a \/ In z acc) ->
    ~ In a acc ->
    (forall z, In z pending -> In z seen) ->
    (forall x, In x seen -> ~ In x pending -> forall y, In y (succ x) -> In y seen) ->
    (forall z, In z seen -> mreach a z) ->
    forall z, In z ys <-> (mreach a z /\ z <> a).
  Proof.
    induction fuel as [|f IH]; simpl; intros pending seen acc ys H I1 I5 I2 I3 I4; [discriminate|].
    destruct pending as [|x rest].
    - inversion H; subst. intro z. split.
      + intro Hz. split; [apply I4, I1; now right | intro; subst; tauto].
      + intros [R Hne].
        assert (Hs : In z seen).
        { clear Hne. induction R as [|y z R IHR E]; [apply I1; now left|].
          apply (I3 y IHR); [intros [] | exact E]. }
        apply I1 in Hs. tauto.
    - destruct (scan (succ x) seen []) as [seen' new] eqn:R.
      destruct (scan_spec _ _ _ _ _ R) as [S1 S2].
      apply (IH _ _ _ _ H).
      + intro z. rewrite S1, in_app_iff, S2, I1. simpl. split; [|tauto].
        intros [[?|?]|Hz]; try tauto. destruct (Z.eq_dec z a) as [->|Hne]; [tauto|].
        assert (Hd : {In z seen} + {~ In z seen}).
        { destruct (mem z seen) eqn:E; [left; now apply mem_In | right; now apply mem_false]. }
        destruct Hd as [Hd|Hd]; rewrite I1 in Hd; tauto.
      + rewrite in_app_iff, S2. simpl. intros [?|[[]|[_ Hn]]]; [tauto|].
        apply Hn, I1. now left.
      + intros z Hz. apply S1. apply in_app_iff in Hz. destruct Hz as [Hz|Hz].
        * apply S2 in Hz. simpl in Hz. tauto.
        * left. apply I2. now right.
      + intros u Hu Hnp y Hy. apply S1. rewrite in_app_iff in Hnp.
        destruct (Z.eq_dec u x) as [->|Hne]; [tauto|].
        assert (Hd : In u seen \/ ~ In u seen).
        { destruct (mem u seen) eqn:E; [left; now apply mem_In | right; now apply mem_false]. }
        destruct Hd as [Hd|Hd].
        * left. apply (I3 u Hd); [|exact Hy]. intros [?|?]; [congruence | tauto].
        * exfalso. apply Hnp. left. apply S2. right. apply S1 in Hu. tauto.
      + intros z Hz. apply S1 in Hz. destruct Hz as [Hz|Hz]; [now apply I4|].
        eapply mreach_step; [apply I4, I2; now left | exact Hz].
  Qed.
End Collect.

(* ------------------------------------------------------------------ the fuel is enough *)
Lemma filter_length_le {A} (p q : A -> bool) l :
  (forall x, q x = true -> p x = true) -> (length (filter q l) <= length (filter p l))%nat.
Proof.
  intro H. induction l as [|x t IH]; simpl; [lia|].
  destruct (q x) eqn:Q; [rewrite (H _ Q); simpl; lia|]. destruct (p x); simpl; lia.
Qed.
Lemma filter_length_lt {A} (p q : A -> bool) l y :
  (forall x, q x = true -> p x = true) -> In y l -> p y = true -> q y = false ->
  (length (filter q l) < length (filter p l))%nat.
Proof.
  intros H. induction l as [|x t IH]; simpl; [tauto|]. intros [->|Hy] P Q.
  - rewrite P, Q. simpl. pose proof (filter_length_le p q t H). lia.
  - specialize (IH Hy P Q). destruct (q x) eqn:Qx; [rewrite (H _ Qx); simpl; lia|].
    destruct (p x); simpl; lia.
Qed.

Section Fuel.
  Variable m : imap.
  Definition unseen (seen : list name) : list name :=
    filter (fun y => negb (mem y seen)) (map snd m).

  Lemma succ_in_univ x y : In y (targets m x) -> In y (map snd m).
  Proof.
    rewrite In_targets. intros [H|H]; apply (in_map snd) in H; exact H.
  Qed.

  Lemma unseen_cons y seen :
    In y (map snd m) -> ~ In y seen -> (length (unseen (y :: seen)) < length (unseen seen))%nat.
  Proof.
    intros Hy Hn. unfold unseen. apply filter_length_lt with (y := y).
    - intros x. simpl. rewrite !negb_true_iff, orb_false_iff. tauto.
    - exact Hy.
    - apply negb_true_iff. now apply mem_false.
    - simpl. now rewrite Z.eqb_refl.
  Qed.

  Lemma scan_measure ys : forall seen new seen' new',
    (forall y, In y ys -> In y (map snd m)) ->
    scan ys seen new = (seen', new') ->
    (length new' + length (unseen seen') <= length new + length (unseen seen))%nat.
  Proof.
    induction ys as [|y t IH]; simpl; intros seen new seen' new' Hu H.
    - inversion H; subst. lia.
    - destruct (mem y seen) eqn:E.
      + apply (IH _ _ _ _ (fun z Hz => Hu z (or_intror Hz)) H).
      + apply mem_false in E.
        pose proof (IH _ _ _ _ (fun z Hz => Hu z (or_intror Hz)) H) as I.
        pose proof (unseen_cons y seen (Hu y (or_introl eq_refl)) E) as L.
        rewrite app_length in I. simpl in I. lia.
  Qed.

  Lemma collect_fuel_enough fuel : forall pending seen acc,
    (length pending + length (unseen seen) < fuel)%nat ->
    collect fuel m pending seen acc <> None.
  Proof.
    induction fuel as [|f IH]; intros pending seen acc H; [lia|]. simpl.
    destruct pending as [|x rest]; [discriminate|].
    destruct (scan (targets m x) seen []) as [seen' new] eqn:R.
    apply IH. pose proof (scan_measure _ _ _ _ _ (succ_in_univ x) R) as M.
    rewrite app_length. simpl in *. lia.
  Qed.

  Lemma unseen_le seen : (length (unseen seen) <= length m)%nat.
  Proof.
    unfold unseen. etransitivity; [apply filter_length_le with (p := fun _ => true); auto|].
    rewrite filter_all by reflexivity. now rewrite map_length.
  Qed.
End Fuel.

(* ------------------------------------------------------------------ resets *)
Section Core.
  Context {V : Type}.
  Variable sentinel : V -> bool.
  Variable check : name -> V -> bool.
  Variable cd : cdesc V.
  Hypothesis wf : wf_class cd sentinel check.

  Notation dict := (dict V).
  Notation raw_set := (raw_set V cd).
  Notation raw_del := (raw_del V cd).
  Notation delattr_skip := (delattr_skip V sentinel check cd).
  Notation reset_all := (reset_all V sentinel check cd).
  Notation invalidate_attrs := (invalidate_attrs V sentinel check cd).
  Notation mutate_attr := (mutate_attr V sentinel check cd).
  Notation delattr_ := (delattr_ V sentinel check cd).

  Lemma clean_ext (d1 d2 : dict) y : get d2 y = get d1 y -> clean cd d1 y -> clean cd d2 y.
  Proof. unfold clean, held. intros E. rewrite E. tauto. Qed.

  Lemma raw_set_spec (d : dict) a v e d' :
    raw_set d a v = (e, d') ->
    (forall z, z <> a -> get d' z = get d z) /\
    (e = None -> get d' a = Some v) /\
    (e <> None -> d' = d).
  Proof.
    unfold Model.raw_set. intro H.
    destruct (descriptor_of cd a) as [f|]; [destruct (p_over f)|]; inversion H; subst;
      (split; [intros z Hz; try reflexivity; now apply get_set_other|]);
      (split; [intro; try discriminate; apply get_set_same | intro N; try reflexivity; now elim N]).
  Qed.

  Lemma raw_del_spec (d : dict) a e d' :
    raw_del d a = (e, d') ->
    (forall z, z <> a -> get d' z = get d z) /\
    (e = None -> get d' a = None) /\
    (e <> None -> d' = d /\ e = Some AttrErr /\ held cd d a = None).
  Proof.
    unfold Model.raw_del, held. intro H.
    destruct (descriptor_of cd a) as [f|].
    - destruct (p_over f || p_cache f) eqn:F; simpl in H.
      + destruct (has d a) eqn:E; inversion H; subst.
        * split; [intros; now apply get_remove_other|]. split; [intro; apply get_remove_same|].
          intro N. now elim N.
        * split; [reflexivity|]. split; [discriminate|]. intros _. apply has_false in E. auto.
      + inversion H; subst. split; [reflexivity|]. split; [discriminate|]. auto.
    - destruct (has d a) eqn:E; inversion H; subst.
      + split; [intros; now apply get_remove_other|]. split; [intro; apply get_remove_same|].
        intro N. now elim N.
      + split; [reflexivity|]. split; [discriminate|]. intros _. apply has_false in E. auto.
  Qed.

  Lemma default_not_descriptor a dv : default_of cd a = Some dv -> descriptor_of cd a = None /\ is_attr V cd a = true.
  Proof.
    unfold default_of, descriptor_of, is_attr. destruct (attr_of cd a) as [sp|]; [|discriminate].
    destruct (a_masked sp); [discriminate|]. auto.
  Qed.

  (* obj.__delattr__(y, skip_invalidation=True) *)
  Lemma delattr_skip_spec (d : dict) y w e d' :
    delattr_skip d y w = (e, d') ->
    (forall z, z <> y -> get d' z = get d z) /\
    (e = None -> clean cd d' y) /\
    (e = Some AttrErr -> clean cd d y) /\
    (e <> None -> d' = d) /\
    (w = true \/ c_frozen cd = false -> e = None \/ e = Some AttrErr).
  Proof.
    unfold Model.delattr_skip, delattr_gen, resettable. simpl. intro H.
    destruct (negb w && c_frozen cd) eqn:Fz.
    - inversion H; subst. split; [reflexivity|]. split; [discriminate|]. split; [discriminate|].
      split; [reflexivity|]. apply andb_true_iff in Fz. destruct Fz as [F1 F2].
      apply negb_true_iff in F1. intros [?|?]; congruence.
    - destruct (default_of cd y) as [dv|] eqn:Df.
      + destruct wf as [_ [W _]]. destruct (W _ _ Df) as [W1 W2].
        destruct (default_not_descriptor _ _ Df) as [D1 D2].
        unfold mutate_attr_gen in H. rewrite W1 in H. simpl in H. rewrite D2, W2 in H. simpl in H.
        unfold Model.raw_set in H. rewrite D1 in H. inversion H; subst.
        split; [intros; now apply get_set_other|].
        split; [intros _; right; exists dv; split; [exact Df | apply get_set_same]|].
        split; [discriminate|]. split; [intro N; now elim N | auto].
      + destruct (raw_del d y) as [e1 d1] eqn:R. destruct (raw_del_spec _ _ _ _ R) as [R1 [R2 R3]].
        destruct e1 as [x|]; inversion H; subst.
        * destruct R3 as [-> [Ex Hh]]; [discriminate|]. inversion Ex; subst.
          split; [reflexivity|]. split; [discriminate|]. split; [intros _; now left|].
          split; [reflexivity | auto].
        * split; [exact R1|]. split; [intros _; left; unfold held; rewrite (R2 eq_refl);
            destruct (descriptor_of cd y) as [f|]; [destruct (p_over f || p_cache f)|]; reflexivity|].
          split; [discriminate|]. split; [intro N; now elim N | auto].
  Qed.

  Lemma reset_all_spec ys : forall (d : dict) w e d',
    reset_all ys d w = (e, d') ->
    (forall z, ~ In z ys -> get d' z = get d z) /\
    (w = true \/ c_frozen cd = false ->
       e = None /\ forall y, In y ys -> clean cd d' y).
  Proof.
    induction ys as [|y t IH]; simpl; intros d w e d' H.
    - inversion H; subst. split; [reflexivity|]. intros _. split; [reflexivity | tauto].
    - destruct (delattr_skip d y w) as [e1 d1] eqn:R.
      destruct (delattr_skip_spec _ _ _ _ _ R) as [S1 [S2 [S3 [S4 S5]]]].
      assert (Hcont : (e1 = None \/ e1 = Some AttrErr) ->
                      reset_all t d1 w = (e, d') ->
                      (forall z, ~ (y = z \/ In z t) -> get d' z = get d z) /\
                      (w = true \/ c_frozen cd = false ->
                         e = None /\ forall y0, y = y0 \/ In y0 t -> clean cd d' y0)).
      { intros He Ht. destruct (IH _ _ _ _ Ht) as [I1 I2]. split.
        - intros z Hz. rewrite I1 by tauto. apply S1. intro; subst; tauto.
        - intro Hw. destruct (I2 Hw) as [-> I3]. split; [reflexivity|].
          intros y0 [<-|Hy0]; [|now apply I3].
          destruct (in_dec Z.eq_dec y t) as [Hi|Hi]; [now apply I3|].
          apply clean_ext with (d1 := d1); [now apply I1|].
          destruct He as [->| ->]; [now apply S2|].
          rewrite (S4 ltac:(discriminate)). now apply S3. }
      destruct e1 as [x|]; [|apply Hcont; auto].
      destruct x; try (inversion H; subst; split;
        [intros z Hz; rewrite (S4 ltac:(discriminate)); reflexivity
        | intro Hw; destruct (S5 Hw) as [?|?]; discriminate]).
      apply Hcont; auto.
  Qed.

  Lemma reach_mreach a y : reach cd a y <-> mreach (inv_map V cd) a y.
  Proof.
    destruct wf as [ND [_ IC]]. split; intro H; induction H; try constructor.
    - eapply mreach_step; [eassumption|]. now apply (targets_edge cd ND IC).
    - eapply reach_step; [eassumption|]. now apply (targets_edge cd ND IC).
  Qed.

  (* utils/mutation.py:invalidate_attrs, inside the initializing window or on
     a class that is not frozen: it cannot fail, it resets exactly the
     dependency closure of a (a excepted) and touches nothing else *)
  Lemma invalidate_spec (d : dict) a w :
    w = true \/ c_frozen cd = false ->
    exists d', invalidate_attrs d a w = (None, d') /\
               (forall y, reach cd a y -> y <> a -> clean cd d' y) /\
               (forall z, ~ reach cd a z -> get d' z = get d z) /\
               get d' a = get d a.
  Proof.
    intro Hw. unfold Model.invalidate_attrs. destruct (inv_map V cd) as [|e0 m0] eqn:Em.
    - exists d. split; [reflexivity|]. split; [|auto].
      intros y R Hne. exfalso. apply Hne. induction R; [reflexivity|].
      destruct wf as [ND [_ IC]]. exfalso. eapply (inv_map_nil_no_edge cd ND IC Em); eauto.
    - rewrite <- Em.
      destruct (collect (S (S (length (inv_map V cd)))) (inv_map V cd) [a] [a] []) as [ys|] eqn:C.
      + assert (Hys : forall z, In z ys <-> mreach (inv_map V cd) a z /\ z <> a).
        { apply (collect_spec _ a _ _ _ _ _ C).
          - intro z. simpl. intuition congruence.
          - simpl. tauto.
          - auto.
          - intros x Hx Hn. simpl in *. tauto.
          - intros z [<-|[]]. constructor. }
        destruct (reset_all ys d w) as [e d'] eqn:R.
        destruct (reset_all_spec _ _ _ _ _ R) as [R1 R2]. destruct (R2 Hw) as [-> R3].
        exists d'. split; [reflexivity|]. split; [|split].
        * intros y Hr Hne. apply R3, Hys. split; [now apply reach_mreach | exact Hne].
        * intros z Hn. apply R1. intro Hi. apply Hys in Hi. apply Hn. now apply reach_mreach.
        * apply R1. intro Hi. apply Hys in Hi. tauto.
      + exfalso. revert C. apply collect_fuel_enough. simpl.
        pose proof (unseen_le (inv_map V cd) [a]). lia.
  Qed.
End Core.

(* ------------------------------------------------------------------ mutate_attr / __delattr__ *)
Section Entry.
  Context {V : Type}.
  Variable sentinel : V -> bool.
  Variable check : name -> V -> bool.
  Variable getter : name -> dict V -> V.
  Variable fid : Type.
  Variable apply_f : fid -> option V -> V.
  Variable eop : Type.
  Variable apply_e : eop -> option V -> res V.
  Variable cd : cdesc V.
  Hypothesis wf : wf_class cd sentinel check.

  Notation dict := (dict V).
  Notation mutate_attr := (mutate_attr V sentinel check cd).
  Notation delattr_ := (delattr_ V sentinel check cd).
  Notation step := (step V sentinel check getter fid apply_f eop apply_e cd).
  Notation read := (read V sentinel check getter cd).
  Notation op := (op V fid eop).

  Lemma mutate_attr_spec (d : dict) a v inplace tc force w e d' :
    mutate_attr d a v inplace tc force false w = (e, d') ->
    force = false \/ w = true \/ c_frozen cd = false ->
    (e <> None -> d' = d) /\
    (e = None -> sentinel v = false ->
       get d' a = Some v /\ closure_cleared cd a d' /\ unrelated_kept cd a d d').
  Proof.
    unfold Model.mutate_attr, mutate_attr_gen. intros H Hf.
    destruct (sentinel v) eqn:Sv.
    { inversion H; subst. split; [reflexivity | discriminate]. }
    destruct (negb (force || w) && inplace && c_frozen cd) eqn:Fz.
    { inversion H; subst. split; [reflexivity | discriminate]. }
    destruct (is_attr V cd a && tc && negb (check a v)).
    { inversion H; subst. split; [reflexivity | discriminate]. }
    destruct (raw_set V cd d a v) as [e1 d1] eqn:R.
    destruct (raw_set_spec cd _ _ _ _ _ R) as [R1 [R2 R3]].
    destruct e1 as [x|].
    { inversion H; subst. split; [intros _; apply R3; discriminate | discriminate]. }
    assert (Hw : w || (negb inplace && c_frozen cd) = true \/ c_frozen cd = false).
    { destruct (c_frozen cd); [|now right]. left.
      destruct w; [reflexivity|]. destruct force; [destruct Hf as [?|[?|?]]; discriminate|].
      simpl in Fz. destruct inplace; simpl in *; [discriminate | reflexivity]. }
    destruct (invalidate_spec sentinel check cd wf d1 a _ Hw) as [d2 [I0 [I1 [I2 I3]]]].
    rewrite I0 in H. inversion H; subst. split; [intro N; now elim N|]. intros _ _.
    split; [rewrite I3; now apply R2|]. split; [exact I1|].
    intros z Hz. rewrite (I2 z Hz). apply R1. intro; subst. apply Hz. constructor.
  Qed.

  Lemma delattr_spec (d : dict) a w e d' :
    delattr_ d a false false w = (e, d') ->
    (e <> None -> d' = d) /\
    (e = None -> clean cd d' a /\ closure_cleared cd a d' /\ unrelated_kept cd a d d').
  Proof.
    unfold Model.delattr_, delattr_gen, resettable. simpl. intro H.
    destruct (negb w && c_frozen cd) eqn:Fz.
    { inversion H; subst. split; [reflexivity | discriminate]. }
    assert (Hw : w = true \/ c_frozen cd = false).
    { destruct w; [now left|]. destruct (c_frozen cd); [discriminate | now right]. }
    destruct (default_of cd a) as [dv|] eqn:Df.
    - destruct (mutate_attr_spec _ _ _ _ _ _ _ _ _ H (or_intror Hw)) as [M1 M2].
      split; [exact M1|]. intro He. destruct wf as [_ [W _]]. destruct (W _ _ Df) as [W1 _].
      destruct (M2 He W1) as [G [C U]]. split; [|tauto]. right. now exists dv.
    - destruct (raw_del V cd d a) as [e1 d1] eqn:R.
      destruct (raw_del_spec cd _ _ _ _ R) as [R1 [R2 R3]].
      destruct e1 as [x|].
      { inversion H; subst. split; [intros _; apply R3; discriminate | discriminate]. }
      destruct (invalidate_spec sentinel check cd wf d1 a _ Hw) as [d2 [I0 [I1 [I2 I3]]]].
      rewrite I0 in H. inversion H; subst. split; [intro N; now elim N|]. intros _.
      split; [|split; [exact I1|]].
      + left. unfold held. rewrite I3, (R2 eq_refl).
        destruct (descriptor_of cd a) as [f|]; [destruct (p_over f || p_cache f)|]; reflexivity.
      + intros z Hz. rewrite (I2 z Hz). apply R1. intro; subst. apply Hz. constructor.
  Qed.

  (* what every single-attribute entry point guarantees, on the map it worked on *)
  Definition outcome_ok (a : name) (d : dict) (wv : bool) (r : outcome V) : Prop :=
    (fst r <> None -> snd r = d) /\
    (fst r = None -> wv = true -> mutation_spec cd a d (snd r)).

  Lemma pack_ok ip (d : dict) c a wv r :
    outcome_ok a d wv r ->
    let out := pack V ip d c r in
    (o_err out <> None -> o_recv out = d /\ o_res out = None) /\
    (ip = false -> o_recv out = d) /\
    (o_err out = None -> wv = true -> mutation_spec cd a d (target out)) /\
    o_calls out = c.
  Proof.
    destruct r as [[x|] d']; unfold outcome_ok, pack, target; simpl; intros [H1 H2]; destruct ip; simpl.
    - rewrite H1 by discriminate. split; [auto|]. split; [auto|]. split; [discriminate | reflexivity].
    - split; [auto|]. split; [auto|]. split; [discriminate | reflexivity].
    - split; [intro N; now elim N|]. split; [discriminate|]. split; [exact H2 | reflexivity].
    - split; [intro N; now elim N|]. split; [reflexivity|]. split; [exact H2 | reflexivity].
  Qed.

  Lemma outcome_fail a (d : dict) wv e : outcome_ok a d wv (Some e, d).
  Proof. split; simpl; [reflexivity | discriminate]. Qed.

  Lemma outcome_mutate a (d : dict) v ip tc :
    outcome_ok a d (negb (sentinel v)) (mutate_attr d a v ip tc false false false).
  Proof.
    destruct (mutate_attr d a v ip tc false false false) as [e d'] eqn:M.
    destruct (mutate_attr_spec _ _ _ _ _ _ _ _ _ M (or_introl eq_refl)) as [M1 M2].
    split; simpl; [exact M1|]. intros He Hs. apply negb_true_iff in Hs.
    destruct (M2 He Hs) as [_ [? ?]]. now split.
  Qed.

  Lemma outcome_delattr a (d : dict) w wv : outcome_ok a d wv (delattr_ d a false false w).
  Proof.
    destruct (delattr_ d a false false w) as [e d'] eqn:M.
    destruct (delattr_spec _ _ _ _ _ M) as [M1 M2].
    split; simpl; [exact M1|]. intros He _. destruct (M2 He) as [_ [? ?]]. now split.
  Qed.

  Local Arguments pack : simpl never.

  (* every single-attribute entry point: assignment, deletion, with_, update_,
     transform_, reset_<attr>, element helpers; in place and on a copy *)
  Lemma step_single (d : dict) c (o : op) a :
    single_attr V fid eop o = Some a ->
    let out := step d c o in
    (o_err out <> None -> o_recv out = d /\ o_res out = None) /\
    (in_place V fid eop o = false -> o_recv out = d) /\
    (o_err out = None -> writes_value V sentinel fid apply_f eop apply_e o d = true ->
       mutation_spec cd a d (target out)) /\
    o_calls out = c.
  Proof.
    destruct o; simpl; intro E; inversion E; subst; clear E; unfold writes_value; simpl.
    - apply pack_ok. apply outcome_mutate.
    - apply pack_ok with (wv := true). apply outcome_delattr.
    - apply pack_ok. unfold with_attr. destruct (is_attr V cd a); [apply outcome_mutate | apply outcome_fail].
    - apply pack_ok. unfold with_attr. destruct (is_attr V cd a); [apply outcome_mutate | apply outcome_fail].
    - apply pack_ok. unfold with_attr. destruct (is_attr V cd a); [apply outcome_mutate | apply outcome_fail].
    - apply pack_ok with (wv := true).
      destruct (is_attr V cd a); [apply outcome_delattr | apply outcome_fail].
    - apply pack_ok. unfold elem_attr.
      destruct (is_attr V cd a); simpl; [|apply outcome_fail].
      destruct (ip && c_frozen cd); [apply outcome_fail|].
      destruct (apply_e e (get d a)) as [v|x]; [apply outcome_mutate | apply outcome_fail].
  Qed.

  (* ---------------------------------------------------------------- reads *)
  Lemma descriptor_no_default p f : descriptor_of cd p = Some f -> default_of cd p = None.
  Proof.
    unfold descriptor_of, default_of. destruct (attr_of cd p) as [sp|]; [|reflexivity].
    intro H. now rewrite H.
  Qed.

  Lemma read_clean (t : dict) c p f :
    descriptor_of cd p = Some f -> clean cd t p ->
    r_res (read t c p) =
      (if is_attr V cd p && negb (check p (getter p t)) then Err ValueErr else Ok (getter p t)) /\
    r_calls (read t c p) = bump c p.
  Proof.
    intros D [H|[dv [Df _]]]; [|rewrite (descriptor_no_default _ _ D) in Df; discriminate].
    unfold Model.read. unfold held in H. rewrite D in *. rewrite H.
    destruct (is_attr V cd p && negb (check p (getter p t))); simpl; auto.
  Qed.

  Lemma read_frame (d : dict) c p :
    (forall z, z <> p -> get (r_dict (read d c p)) z = get d z) /\
    (forall v, held cd d p = Some v ->
       r_res (read d c p) = Ok v /\ r_dict (read d c p) = d /\ r_calls (read d c p) = c).
  Proof.
    unfold Model.read, held. destruct (descriptor_of cd p) as [f|].
    - destruct (if p_over f || p_cache f then get d p else None) as [v|] eqn:E.
      + simpl. split; [reflexivity|]. intros v0 Hv. inversion Hv; subst. auto.
      + split; [|discriminate]. intros z Hz.
        destruct (is_attr V cd p && negb (check p (getter p d))); simpl; [reflexivity|].
        destruct (p_cache f && negb (sentinel (getter p d))); [now apply get_set_other | reflexivity].
    - destruct (get d p) as [v|]; simpl; split; try reflexivity; try discriminate.
      intros v0 Hv. inversion Hv; subst. auto.
  Qed.

  (* ---------------------------------------------------------------- top-level helpers *)
  Lemma chain_snoc (d : dict) l d1 a d2 :
    chain cd d l d1 -> mutation_spec cd a d1 d2 -> chain cd d (l ++ [a]) d2.
  Proof.
    induction 1; intro M; simpl.
    - econstructor; [exact M | constructor].
    - econstructor; [eassumption | auto].
  Qed.

  Lemma set_each_chain kws : forall (d : dict) w e d',
    set_each V sentinel check cd d kws w = (e, d') ->
    Forall (fun kv => sentinel (snd kv) = false) kws ->
    exists n, chain cd d (firstn n (map fst kws)) d' /\
              (e = None -> n = length kws) /\ (e <> None -> (n < length kws)%nat).
  Proof.
    induction kws as [|[a v] t IH]; simpl; intros d w e d' H Hs.
    - inversion H; subst. exists O. split; [constructor|]. split; [reflexivity | intro N; now elim N].
    - inversion Hs; subst. simpl in *. unfold setattr_ in H.
      destruct (mutate_attr d a v true true false false w) as [e1 d1] eqn:M.
      destruct (mutate_attr_spec _ _ _ _ _ _ _ _ _ M (or_introl eq_refl)) as [M1 M2].
      destruct e1 as [x|].
      + inversion H; subst. rewrite M1 by discriminate. exists O. split; [constructor|].
        split; [discriminate | intros _; lia].
      + destruct (IH _ _ _ _ H H3) as [n [C [N1 N2]]]. exists (S n). simpl. split.
        * destruct (M2 eq_refl H2) as [_ [? ?]]. econstructor; [split; eassumption | exact C].
        * split; [intro He; now rewrite N1 | intro He; specialize (N2 He); lia].
  Qed.

  Lemma transform_each_chain kws : forall (d : dict) w e d',
    transform_each V sentinel check fid apply_f cd d kws w = (e, d') ->
    (forall f x, sentinel (apply_f f x) = false) ->
    exists n, chain cd d (firstn n (map fst kws)) d' /\
              (e = None -> n = length kws) /\ (e <> None -> (n < length kws)%nat).
  Proof.
    induction kws as [|[a f] t IH]; simpl; intros d w e d' H Hs.
    - inversion H; subst. exists O. split; [constructor|]. split; [reflexivity | intro N; now elim N].
    - unfold setattr_ in H.
      destruct (mutate_attr d a (apply_f f (get d a)) true true false false w) as [e1 d1] eqn:M.
      destruct (mutate_attr_spec _ _ _ _ _ _ _ _ _ M (or_introl eq_refl)) as [M1 M2].
      destruct e1 as [x|].
      + inversion H; subst. rewrite M1 by discriminate. exists O. split; [constructor|].
        split; [discriminate | intros _; lia].
      + destruct (IH _ _ _ _ H Hs) as [n [C [N1 N2]]]. exists (S n). simpl. split.
        * destruct (M2 eq_refl (Hs _ _)) as [_ [? ?]]. econstructor; [split; eassumption | exact C].
        * split; [intro He; now rewrite N1 | intro He; specialize (N2 He); lia].
  Qed.

  Lemma reset_each_chain ns : forall (d : dict) w e d',
    reset_each V sentinel check cd d ns w = (e, d') ->
    exists l, chain cd d l d' /\ incl l ns.
  Proof.
    induction ns as [|a t IH]; simpl; intros d w e d' H.
    - inversion H; subst. exists []. split; [constructor | apply incl_refl].
    - destruct (delattr_ d a false false w) as [e1 d1] eqn:M.
      destruct (delattr_spec _ _ _ _ _ M) as [M1 M2].
      assert (Hskip : d1 = d -> reset_each V sentinel check cd d1 t w = (e, d') ->
                      exists l, chain cd d l d' /\ incl l (a :: t)).
      { intros -> Ht. destruct (IH _ _ _ _ Ht) as [l [C I]]. exists l. split; [exact C|].
        now apply incl_tl. }
      destruct e1 as [x|].
      + specialize (M1 ltac:(discriminate)).
        destruct x; try (inversion H; subst; exists []; split; [constructor | intros ? []]).
        now apply Hskip.
      + destruct (IH _ _ _ _ H) as [l [C I]]. exists (a :: l). split.
        * destruct (M2 eq_refl) as [_ [? ?]]. econstructor; [split; eassumption | exact C].
        * intros z [<-|Hz]; [now left | right; now apply I].
  Qed.

  Lemma pack_fields ip (d : dict) c e d' :
    let out := pack V ip d c (e, d') in
    o_err out = e /\ (ip = false -> o_recv out = d) /\ (e = None -> target out = d') /\
    (ip = true -> o_recv out = d') /\ o_calls out = c.
  Proof.
    unfold pack, target. destruct e as [x|], ip; simpl; repeat split; auto; discriminate.
  Qed.

  (* update(kw=v, …) / transform(kw=f, …) / reset(): one mutation per keyword,
     in order; what is left is the state after the first n of them — all n when
     the call succeeds, the keywords before the failing one otherwise *)
  Lemma stops_at_pack ip (d : dict) c e d' n total :
    (e = None -> n = total) -> (e <> None -> (n < total)%nat) ->
    stops_at V (pack V ip d c (e, d')) ip n total d'.
  Proof.
    intros H1 H2. destruct (pack_fields ip d c e d') as [E [_ [T [R _]]]].
    unfold stops_at. rewrite E. split; intro He; [split; auto | split; auto].
  Qed.

  Lemma step_top_update (d : dict) c kws ip :
    Forall (fun kv => sentinel (snd kv) = false) kws ->
    let out := step d c (TopUpdate kws ip) in
    (ip = false -> o_recv out = d) /\ o_calls out = c /\
    exists n t, chain cd d (firstn n (map fst kws)) t /\ stops_at V out ip n (length kws) t.
  Proof.
    intro Hs. simpl. destruct kws as [|kv kws'] eqn:K.
    - simpl. split; [reflexivity|]. split; [reflexivity|]. exists O, d. split; [constructor|].
      split; [auto | intro N; now elim N].
    - rewrite <- K in *. destruct (set_each V sentinel check cd d kws (negb ip)) as [e d'] eqn:S.
      destruct (set_each_chain _ _ _ _ _ S Hs) as [n [C [N1 N2]]].
      destruct (pack_fields ip d c e d') as [_ [R [_ [_ Cc]]]].
      split; [exact R|]. split; [exact Cc|]. exists n, d'. split; [exact C|]. now apply stops_at_pack.
  Qed.

  Lemma step_top_transform (d : dict) c kws ip :
    (forall f x, sentinel (apply_f f x) = false) ->
    let out := step d c (TopTransform kws ip) in
    (ip = false -> o_recv out = d) /\ o_calls out = c /\
    exists n t, chain cd d (firstn n (map fst kws)) t /\ stops_at V out ip n (length kws) t.
  Proof.
    intro Hs. simpl. destruct kws as [|kv kws'] eqn:K.
    - simpl. split; [reflexivity|]. split; [reflexivity|]. exists O, d. split; [constructor|].
      split; [auto | intro N; now elim N].
    - rewrite <- K in *.
      destruct (transform_each V sentinel check fid apply_f cd d kws (negb ip)) as [e d'] eqn:S.
      destruct (transform_each_chain _ _ _ _ _ S Hs) as [n [C [N1 N2]]].
      destruct (pack_fields ip d c e d') as [_ [R [_ [_ Cc]]]].
      split; [exact R|]. split; [exact Cc|]. exists n, d'. split; [exact C|]. now apply stops_at_pack.
  Qed.

  Lemma step_top_reset (d : dict) c ip :
    let out := step d c (TopReset ip) in
    (ip = false -> o_recv out = d) /\ o_calls out = c /\
    exists l t, chain cd d l t /\ incl l (map fst (c_attrs cd)) /\
                (o_err out = None -> target out = t) /\ (ip = true -> o_recv out = t).
  Proof.
    simpl. destruct (reset_each V sentinel check cd d (map fst (c_attrs cd)) (negb ip)) as [e d'] eqn:S.
    destruct (reset_each_chain _ _ _ _ _ S) as [l [C I]].
    destruct (pack_fields ip d c e d') as [E [R [T [R2 Cc]]]].
    split; [exact R|]. split; [exact Cc|]. exists l, d'. rewrite E. auto.
  Qed.

  (* ---------------------------------------------------------------- histories *)
  Lemma nth_step_single h : forall (d : dict) c n pre (o : op) out a,
    nth_step V sentinel check getter fid apply_f eop apply_e cd d c h n = Some (pre, o, out) ->
    single_attr V fid eop o = Some a ->
    (o_err out <> None -> o_recv out = pre /\ o_res out = None) /\
    (in_place V fid eop o = false -> o_recv out = pre) /\
    (o_err out = None -> writes_value V sentinel fid apply_f eop apply_e o pre = true ->
       mutation_spec cd a pre (target out)).
  Proof.
    induction h as [|[o0 fl] t IH]; simpl; intros d c n pre o out a H Ha; [discriminate|].
    destruct n as [|k].
    - inversion H; subst. destruct (step_single pre c o a Ha) as [? [? [? _]]]. auto.
    - eapply IH; eauto.
  Qed.
End Entry.

(* ------------------------------------------------------------------ the decidable oracle *)
Section Oracle.
  Context {V : Type}.
  Variable cd : cdesc V.
  Variable veqb : V -> V -> bool.
  Hypothesis veqb_eq : forall x y, veqb x y = true -> x = y.

  Lemma edge_b_spec x y : edge_b cd x y = true <-> edge cd x y.
  Proof.
    unfold edge_b, edge, Spec.lists. destruct (decl_inv cd y) as [inv|].
    - rewrite existsb_exists. split.
      + intros [k [Hk E]]. exists inv. split; [reflexivity|].
        apply orb_true_iff in E. destruct E as [E|E]; apply dep_eqb_eq in E; subst; tauto.
      + intros [inv' [E [H|H]]]; inversion E; subst.
        * exists (DName x). split; [exact H|]. apply orb_true_iff. left. now apply dep_eqb_eq.
        * exists DStar. split; [exact H|]. apply orb_true_iff. right. reflexivity.
    - split; [discriminate|]. intros [inv [E _]]. discriminate.
  Qed.

  Lemma edge_declared x y : edge cd x y -> In y (declared cd).
  Proof.
    intros [inv [E _]]. unfold decl_inv, declared, attr_of, member_of in *. apply in_app_iff.
    destruct (assoc (c_attrs cd) y) eqn:A; [left; eapply assoc_Some_In; eauto|].
    destruct (assoc (all_members cd) y) eqn:B; [right; eapply assoc_Some_In; eauto | discriminate].
  Qed.

  Lemma expand_sound a S : (forall y, In y S -> reach cd a y) -> forall y, In y (Spec.expand V cd S) -> reach cd a y.
  Proof.
    intros H y Hy. unfold Spec.expand in Hy. apply in_app_iff in Hy. destruct Hy as [Hy|Hy]; [auto|].
    apply filter_In in Hy. destruct Hy as [_ Hy]. apply andb_true_iff in Hy. destruct Hy as [_ Hy].
    apply existsb_exists in Hy. destruct Hy as [x [Hx E]]. apply edge_b_spec in E.
    eapply reach_step; eauto.
  Qed.

  Lemma closure_b_sound a y : In y (closure_b cd a) -> reach cd a y.
  Proof.
    unfold closure_b. generalize (length (declared cd)) as n.
    assert (G : forall n S, (forall z, In z S -> reach cd a z) -> forall z, In z (Spec.iter V cd n S) -> reach cd a z).
    { induction n as [|k IH]; simpl; intros S HS z Hz; [auto|].
      apply (IH (Spec.expand V cd S)); [now apply expand_sound | exact Hz]. }
    intros n. apply G. intros z [<-|[]]. constructor.
  Qed.

  Lemma closed_complete a S :
    closed_b cd S = true -> In a S -> forall y, reach cd a y -> In y S.
  Proof.
    intros C Ha y R. induction R as [|y z R IH E]; [exact Ha|].
    unfold closed_b in C. rewrite forallb_forall in C.
    specialize (C z (edge_declared _ _ E)). apply orb_true_iff in C. destruct C as [C|C].
    - now apply mem_In.
    - apply negb_true_iff in C. exfalso.
      assert (X : existsb (fun x => edge_b cd x z) S = true).
      { apply existsb_exists. exists y. split; [exact IH | now apply edge_b_spec]. }
      congruence.
  Qed.

  Lemma iter_keeps n : forall S a, In a S -> In a (Spec.iter V cd n S).
  Proof.
    induction n as [|k IH]; simpl; intros S a H; [exact H|].
    apply IH. unfold Spec.expand. apply in_app_iff. now left.
  Qed.

  (* the oracle's closure is the dependency closure whenever its run-time
     closedness test succeeds *)
  Lemma closure_b_exact a :
    closed_b cd (closure_b cd a) = true -> forall y, In y (closure_b cd a) <-> reach cd a y.
  Proof.
    intros C y. split; [apply closure_b_sound|].
    apply closed_complete; [exact C|]. unfold closure_b. apply iter_keeps. now left.
  Qed.

  Lemma opt_eqb_eq (x y : option V) : opt_eqb veqb x y = true -> x = y.
  Proof.
    destruct x, y; simpl; try discriminate; try reflexivity. intro H. f_equal. now apply veqb_eq.
  Qed.

  Lemma clean_b_sound (d : dict V) y : clean_b cd veqb d y = true -> clean cd d y.
  Proof.
    unfold clean_b, clean. destruct (held cd d y) as [v|]; [|now left].
    destruct (default_of cd y) as [dv|]; [|discriminate]. intro H. apply opt_eqb_eq in H.
    right. now exists dv.
  Qed.

  Lemma closure_cleared_b_sound a (d' : dict V) :
    closed_b cd (closure_b cd a) = true ->
    closure_cleared_b cd veqb (closure_b cd a) a d' = true -> closure_cleared cd a d'.
  Proof.
    intros C H y R Hne. unfold closure_cleared_b in H. rewrite forallb_forall in H.
    apply (closure_b_exact a C) in R. specialize (H y R). apply orb_true_iff in H.
    destruct H as [H|H]; [apply Z.eqb_eq in H; congruence | now apply clean_b_sound].
  Qed.

  Lemma unrelated_kept_b_sound a ns (d d' : dict V) :
    unrelated_kept_b veqb ns (closure_b cd a) d d' = true ->
    forall y, In y ns -> ~ reach cd a y -> get d' y = get d y.
  Proof.
    intros H y Hy Hn. unfold unrelated_kept_b in H. rewrite forallb_forall in H.
    specialize (H y Hy). apply orb_true_iff in H. destruct H as [H|H].
    - apply mem_In in H. exfalso. apply Hn. now apply closure_b_sound.
    - now apply opt_eqb_eq.
  Qed.

  Lemma same_entries_b_sound ns (d d' : dict V) :
    same_entries_b veqb ns d d' = true -> forall y, In y ns -> get d' y = get d y.
  Proof.
    intros H y Hy. unfold same_entries_b in H. rewrite forallb_forall in H.
    now apply opt_eqb_eq, H.
  Qed.
End Oracle.
