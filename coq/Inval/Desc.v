(* C11 — data shared by the model and the specification of invalidation:
   names, the instance __dict__ as a finite map, and the description of a
   class as the harness / a reader of the class text sees it.  No behaviour of
   the library is defined here (only look-ups in the description). *)
From Coq Require Import List ZArith Bool.
Import ListNotations.
Open Scope Z_scope.

Definition name := Z.

(* an entry of `invalidated_by`: an attribute name or the wildcard '*' *)
Inductive dep := DName (n : name) | DStar.
Definition dep_eqb (a b : dep) : bool :=
  match a, b with
  | DName x, DName y => x =? y
  | DStar, DStar => true
  | _, _ => false
  end.

Fixpoint mem (x : name) (l : list name) : bool :=
  match l with [] => false | y :: t => (y =? x) || mem x t end.

Fixpoint assoc {A} (l : list (name * A)) (n : name) : option A :=
  match l with
  | [] => None
  | (k, v) :: t => if k =? n then Some v else assoc t n
  end.

Section Desc.
  Variable V : Type.

  (* instance.__dict__ *)
  Definition dict := list (name * V).
  Definition get (d : dict) (n : name) : option V := assoc d n.
  Fixpoint remove (d : dict) (n : name) : dict :=
    match d with
    | [] => []
    | (k, v) :: t => if k =? n then remove t n else (k, v) :: remove t n
    end.
  Definition set (d : dict) (n : name) (v : V) : dict := (n, v) :: remove d n.
  Definition has (d : dict) (n : name) : bool :=
    match get d n with Some _ => true | None => false end.

  (* spec_property(overridable=…, cache=…) *)
  Record pflags := mkpf { p_over : bool; p_cache : bool }.

  (* an entry of SpecClassMetadata.attrs (a managed attribute):
     a_default  the value a newly constructed instance of type(obj) holds for
                it: Attr.lookup_default_value(type(obj)) — the default, the
                result of the default factory, or the overriding class
                attribute of a (spec or plain) subclass; None = MISSING
     a_masked   Some flags when type(obj).<name> is a spec_property: the
                annotation (here or in a parent spec class) makes it a managed
                attribute, the descriptor stays in the class (Attr.is_masked;
                also: a plain subclass masking the inherited attribute)
     a_inv      Attr.invalidated_by as build_attr_spec leaves it in
                metadata.attrs: the Attr's own, or the property's when a spec
                class assigns a spec_property to the (possibly inherited) name *)
  Record aspec := mka { a_default : option V; a_masked : option pflags; a_inv : list dep }.

  (* a member of a class __dict__ that is not a managed attribute:
     m_prop Some flags = a spec_property; None = anything else
     m_inv  its __spec_class_invalidated_by__ ([] when it has none) *)
  Record member := mkm { m_prop : option pflags; m_inv : list dep }.

  (* one class of type(instance).mro(), most derived first; l_plain = the
     class is a subclass of the spec class that is not itself a spec class
     (it shares the metadata of its parent) *)
  Record level := mkl { l_plain : bool; l_members : list (name * member) }.

  Record cdesc := mkc { c_attrs : list (name * aspec); c_levels : list level; c_frozen : bool }.

  Definition attr_of (cd : cdesc) (n : name) : option aspec := assoc (c_attrs cd) n.
  Definition all_members (cd : cdesc) : list (name * member) :=
    flat_map l_members (c_levels cd).
  (* attribute look-up on the class follows the MRO: first definition wins *)
  Definition member_of (cd : cdesc) (n : name) : option member := assoc (all_members cd) n.

  (* the spec_property found by `type(obj).<n>`, if any *)
  Definition descriptor_of (cd : cdesc) (n : name) : option pflags :=
    match attr_of cd n with
    | Some a => a_masked a
    | None => match member_of cd n with Some m => m_prop m | None => None end
    end.

  (* the default a deleted attribute is reset to (DelAttrMethod: managed, not
     masked, lookup_default_value(type(self)) is not MISSING) *)
  Definition default_of (cd : cdesc) (n : name) : option V :=
    match attr_of cd n with
    | Some a => match a_masked a with None => a_default a | Some _ => None end
    | None => None
    end.

  (* members of the classes that precede the metadata's owner in the MRO (plain
     subclasses) *)
  Definition plain_members (cd : cdesc) : list (name * member) :=
    flat_map l_members (filter l_plain (c_levels cd)).
  (* _build_invalidation_map: the dependencies used for a managed attribute —
     those of the first plain-subclass member of that name if it declares any
     (`__spec_class_invalidated_by__`, i.e. a spec_property), else Attr.invalidated_by *)
  Definition builder_inv (cd : cdesc) (n : name) (a : aspec) : list dep :=
    match assoc (plain_members cd) n with
    | Some m => match m_prop m with Some _ => m_inv m | None => a_inv a end
    | None => a_inv a
    end.

  (* the declaration `invalidated_by=[…]` that is in force for n: when the
     definition of n in force for type(obj) (first along the MRO) is a
     spec_property, the property's own; else the Attr's (managed attribute) *)
  Definition decl_inv (cd : cdesc) (n : name) : option (list dep) :=
    match attr_of cd n with
    | Some a => Some (match member_of cd n with
                      | Some m => match m_prop m with Some _ => m_inv m | None => a_inv a end
                      | None => a_inv a
                      end)
    | None => option_map m_inv (member_of cd n)
    end.
End Desc.

Arguments get {V} d n.
Arguments remove {V} d n.
Arguments set {V} d n v.
Arguments has {V} d n.
Arguments mka {V} a_default a_masked a_inv.
Arguments mkc {V} c_attrs c_levels c_frozen.
Arguments a_default {V} a.
Arguments a_masked {V} a.
Arguments a_inv {V} a.
Arguments c_attrs {V} c.
Arguments c_levels {V} c.
Arguments c_frozen {V} c.
Arguments attr_of {V} cd n.
Arguments all_members {V} cd.
Arguments member_of {V} cd n.
Arguments descriptor_of {V} cd n.
Arguments default_of {V} cd n.
Arguments decl_inv {V} cd n.
Arguments plain_members {V} cd.
Arguments builder_inv {V} cd n a.
