From Coq Require Import List ZArith Bool Lia Permutation ZifyBool.
From SC Require Import Base.PyList.
Import ListNotations.
Open Scope Z_scope.

Section L.
  Context {A : Type}.

  Lemma nth_error_split (l : list A) n x :
    nth_error l n = Some x -> l = firstn n l ++ x :: skipn (S n) l.
  Proof.
    revert n; induction l as [|a l IH]; intros [|n] H; simpl in *; try discriminate.
    - now inversion H.
    - f_equal; now apply IH.
  Qed.

  Lemma insert_at_perm n (x : A) l : Permutation (insert_at n x l) (x :: l).
  Proof.
    unfold insert_at. rewrite <- (firstn_skipn n l) at 3.
    symmetry. apply Permutation_middle.
  Qed.

  Lemma remove_at_perm n (x : A) l :
    nth_error l n = Some x -> Permutation l (x :: remove_at n l).
  Proof.
    intro H. unfold remove_at. rewrite (nth_error_split l n x H) at 1.
    symmetry. apply Permutation_middle.
  Qed.

  Lemma set_at_perm n (x : A) l :
    Permutation (set_at n x l) (x :: remove_at n l).
  Proof. unfold set_at, remove_at. symmetry. apply Permutation_middle. Qed.

  Lemma find_index_some f (l : list A) n :
    find_index f l = Some n ->
    exists x, nth_error l n = Some x /\ f x = true.
  Proof.
    revert n; induction l as [|a l IH]; intros n H; simpl in *; try discriminate.
    destruct (f a) eqn:E.
    - inversion H; subst. exists a; auto.
    - destruct (find_index f l) as [m|]; simpl in H; try discriminate.
      inversion H; subst. destruct (IH m eq_refl) as [x [H1 H2]]. exists x; auto.
  Qed.

  Lemma find_index_none f (l : list A) :
    find_index f l = None -> forall x, In x l -> f x = false.
  Proof.
    induction l as [|a l IH]; intros H x Hx; simpl in *; [contradiction|].
    destruct (f a) eqn:E; [discriminate|].
    destruct (find_index f l); simpl in H; [discriminate|].
    destruct Hx as [->|Hx]; auto.
  Qed.

  Lemma nth_error_lt (l : list A) n x : nth_error l n = Some x -> (n < length l)%nat.
  Proof. intro H. apply nth_error_Some. congruence. Qed.

  Lemma norm_index_of_nat (l : list A) n :
    (n < length l)%nat -> norm_index (zlen l) (Z.of_nat n) = Some n.
  Proof.
    intro H. unfold norm_index, zlen.
    destruct (Z.of_nat n <? 0) eqn:E; [lia|].
    destruct (0 <=? Z.of_nat n) eqn:E1; [|lia].
    destruct (Z.of_nat n <? Z.of_nat (length l)) eqn:E2; [|lia].
    simpl. now rewrite Nat2Z.id.
  Qed.

  Lemma norm_index_last (l : list A) :
    l <> [] -> norm_index (zlen l) (-1) = Some (length l - 1)%nat.
  Proof.
    intro H. unfold norm_index, zlen. destruct l; [congruence|].
    simpl length. cbn [Z.ltb Z.compare].
    replace (-1 + Z.of_nat (S (length l))) with (Z.of_nat (length l)) by lia.
    destruct (0 <=? Z.of_nat (length l)) eqn:E1; [|lia].
    destruct (Z.of_nat (length l) <? Z.of_nat (S (length l))) eqn:E2; [|lia].
    simpl. f_equal. lia.
  Qed.

  Lemma norm_index_nil i : norm_index (zlen (@nil A)) i = None.
  Proof.
    unfold norm_index, zlen. simpl.
    destruct (i <? 0) eqn:E.
    - replace (i + 0) with i by lia. destruct (0 <=? i) eqn:E1; [lia|reflexivity].
    - destruct (0 <=? i) eqn:E1; destruct (i <? 0) eqn:E2; simpl; auto; lia.
  Qed.

  Lemma remove_at_length (l : list A) n x :
    nth_error l n = Some x -> length l = S (length (remove_at n l)).
  Proof.
    intro H. exact (Permutation_length (remove_at_perm n x l H)).
  Qed.

  (* slices pick pairwise distinct positions *)
  Lemma zrange_up f cur stop step :
    step > 0 -> NoDup (zrange f cur stop step) /\
                forall z, In z (zrange f cur stop step) -> cur <= z.
  Proof.
    intro Hs. revert cur; induction f as [|f IH]; intro cur; simpl.
    - split; [constructor|contradiction].
    - destruct (step >? 0) eqn:E; [|lia].
      destruct (cur <? stop); [|split; [constructor|contradiction]].
      destruct (IH (cur + step)) as [N B]. split.
      + constructor; auto. intro H. apply B in H. lia.
      + intros z [<-|H]; [lia|]. apply B in H. lia.
  Qed.

  Lemma zrange_down f cur stop step :
    step < 0 -> NoDup (zrange f cur stop step) /\
                forall z, In z (zrange f cur stop step) -> z <= cur.
  Proof.
    intro Hs. revert cur; induction f as [|f IH]; intro cur; simpl.
    - split; [constructor|contradiction].
    - destruct (step >? 0) eqn:E; [lia|].
      destruct (cur >? stop); [|split; [constructor|contradiction]].
      destruct (IH (cur + step)) as [N B]. split.
      + constructor; auto. intro H. apply B in H. lia.
      + intros z [<-|H]; [lia|]. apply B in H. lia.
  Qed.

  Lemma zrange_nodup f cur stop step : step <> 0 -> NoDup (zrange f cur stop step).
  Proof.
    intro H. destruct (Z_lt_ge_dec step 0).
    - now apply zrange_down.
    - apply zrange_up. lia.
  Qed.
End L.

Lemma NoDup_filter {A} (f : A -> bool) l : NoDup l -> NoDup (filter f l).
Proof.
  induction 1 as [|x l Hx N IH]; simpl; [constructor|].
  destruct (f x); auto. constructor; auto. intro H. apply filter_In in H. tauto.
Qed.

Lemma NoDup_map_inj_on {A B} (g : A -> B) l :
  (forall x y, In x l -> In y l -> g x = g y -> x = y) -> NoDup l -> NoDup (map g l).
Proof.
  intros Hinj N. induction N as [|x l Hx N IH]; simpl; [constructor|].
  constructor.
  - intro H. apply in_map_iff in H. destruct H as [y [E Hy]].
    assert (y = x) by (apply Hinj; simpl; auto). subst. contradiction.
  - apply IH. intros a b Ha Hb. apply Hinj; simpl; auto.
Qed.

Lemma NoDup_app_l {A} (l l' : list A) : NoDup (l ++ l') -> NoDup l.
Proof.
  induction l as [|a l IH]; simpl; intro N; [constructor|].
  inversion N; subst. constructor; auto. intro H. apply H1. apply in_app_iff; auto.
Qed.

Lemma NoDup_app_r {A} (l l' : list A) : NoDup (l ++ l') -> NoDup l'.
Proof.
  induction l as [|a l IH]; simpl; intro N; auto. inversion N; auto.
Qed.

Lemma NoDup_app_iff {A} (l l' : list A) :
  NoDup (l ++ l') <-> NoDup l /\ NoDup l' /\ (forall x, In x l -> ~ In x l').
Proof.
  induction l as [|a l IH]; simpl.
  - split; [intro N; repeat split; auto; constructor | tauto].
  - split.
    + intro N. inversion N; subst. apply IH in H2. destruct H2 as (N1 & N2 & D).
      repeat split; auto.
      * constructor; auto. intro H. apply H1. apply in_app_iff; auto.
      * intros x [<-|Hx]; auto. intro H. apply H1. apply in_app_iff; auto.
    + intros (N1 & N2 & D). inversion N1; subst. constructor.
      * rewrite in_app_iff. intros [H|H]; auto. eapply D; eauto.
      * apply IH. repeat split; auto.
Qed.
