(* Python list primitives, modelled by hand (validated by the correspondence
   checks, not verified against CPython). *)
From Coq Require Import List ZArith Bool Lia.
Import ListNotations.
Open Scope Z_scope.

(* index normalisation of list.__getitem__/__setitem__/__delitem__/pop:
   None = IndexError *)
Definition norm_index (len i : Z) : option nat :=
  let j := if i <? 0 then i + len else i in
  if (0 <=? j) && (j <? len) then Some (Z.to_nat j) else None.

(* list.insert clamps *)
Definition clamp_index (len i : Z) : nat :=
  Z.to_nat (if i <? 0 then Z.max (i + len) 0 else Z.min i len).

Definition insert_at {A} (n : nat) (x : A) (l : list A) : list A :=
  firstn n l ++ x :: skipn n l.
Definition remove_at {A} (n : nat) (l : list A) : list A :=
  firstn n l ++ skipn (S n) l.
Definition set_at {A} (n : nat) (x : A) (l : list A) : list A :=
  firstn n l ++ x :: skipn (S n) l.

Definition zlen {A} (l : list A) : Z := Z.of_nat (length l).

(* slice.indices(len) followed by range(start, stop, step); step <> 0 *)
Definition slice_bound (len step : Z) (o : option Z) (dflt_pos dflt_neg : Z) : Z :=
  match o with
  | None => if step <? 0 then dflt_neg else dflt_pos
  | Some v =>
      let lower := if step <? 0 then -1 else 0 in
      let upper := if step <? 0 then len - 1 else len in
      let v' := if v <? 0 then v + len else v in
      if v <? 0 then (if v' <? lower then lower else v')
      else (if v' >? upper then upper else v')
  end.

Fixpoint zrange (fuel : nat) (cur stop step : Z) : list Z :=
  match fuel with
  | O => []
  | S f =>
      if (if step >? 0 then cur <? stop else cur >? stop)
      then cur :: zrange f (cur + step) stop step
      else []
  end.

Definition slice_indices (len : Z) (a b : option Z) (step : Z) : list nat :=
  let start := slice_bound len step a 0 (len - 1) in
  let stop := slice_bound len step b len (-1) in
  map Z.to_nat (filter (fun z => 0 <=? z) (zrange (S (Z.to_nat len)) start stop step)).

Fixpoint pick {A} (l : list A) (ns : list nat) : list A :=
  match ns with
  | [] => []
  | n :: ns' => match nth_error l n with
                | Some x => x :: pick l ns'
                | None => pick l ns'
                end
  end.

Definition py_slice {A} (l : list A) (a b : option Z) (step : Z) : list A :=
  pick l (slice_indices (zlen l) a b step).

Fixpoint find_index {A} (f : A -> bool) (l : list A) : option nat :=
  match l with
  | [] => None
  | x :: t => if f x then Some O else option_map S (find_index f t)
  end.

Fixpoint list_eqb {A} (eqb : A -> A -> bool) (l1 l2 : list A) : bool :=
  match l1, l2 with
  | [], [] => true
  | x :: t1, y :: t2 => eqb x y && list_eqb eqb t1 t2
  | _, _ => false
  end.

Fixpoint count_if {A} (f : A -> bool) (l : list A) : nat :=
  match l with [] => O | x :: t => (if f x then 1 else 0)%nat + count_if f t end.
