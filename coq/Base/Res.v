(* Outcomes: Python exceptions are values. *)
Inductive err : Set :=
| TypeErr | ValueErr | IndexErr | KeyErr | AttrErr | FrozenErr | RuntimeErr
| UserErr | Injected | Fuel.

Inductive res (A : Type) : Type :=
| Ok (a : A)
| Err (e : err).
Arguments Ok {A} a.
Arguments Err {A} e.

Definition err_eqb (a b : err) : bool :=
  match a, b with
  | TypeErr, TypeErr | ValueErr, ValueErr | IndexErr, IndexErr
  | KeyErr, KeyErr | AttrErr, AttrErr | FrozenErr, FrozenErr
  | RuntimeErr, RuntimeErr | UserErr, UserErr | Injected, Injected
  | Fuel, Fuel => true
  | _, _ => false
  end.

Lemma err_eqb_eq a b : err_eqb a b = true <-> a = b.
Proof. destruct a, b; simpl; split; intro H; try reflexivity; discriminate. Qed.

Definition err_code (e : err) : nat :=
  match e with
  | TypeErr => 1 | ValueErr => 2 | IndexErr => 3 | KeyErr => 4 | AttrErr => 5
  | FrozenErr => 6 | RuntimeErr => 7 | UserErr => 8 | Injected => 9 | Fuel => 10
  end.

Definition is_ok {A} (r : res A) : bool := match r with Ok _ => true | Err _ => false end.
