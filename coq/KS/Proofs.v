(* Proofs about the KeyedSet model: map laws of the dict primitives,
   representation invariant, refinement of every operation to the map
   specification, atomicity, typed invariant, set algebra on keys. *)
From Coq Require Import List ZArith Bool Lia Permutation ZifyBool.
From SC Require Import Base.Res Base.PyList Base.ListLemmas KS.Model KS.Spec.
Import ListNotations.
Open Scope Z_scope.

Section Proofs.
  Context {item K : Type}.
  Variable key : item -> K.
  Variable keqb : K -> K -> bool.
  Variable ieqb : item -> item -> bool.
  Variable valid : item -> bool.
  Variable as_key : item -> option K.
  Variable as_item : K -> option item.
  Variable key_of_key : K -> option K.
  Variable hashable : item -> bool.
  (* keys and items are values: == decides equality *)
  Hypothesis keqb_eq : forall a b, keqb a b = true <-> a = b.
  Hypothesis ieqb_eq : forall a b, ieqb a b = true <-> a = b.
  (* an item that can itself be used as a dictionary key is its own key, and
     the only item with that key (self-keyed items) *)
  Hypothesis as_key_self : forall x k, as_key x = Some k ->
    k = key x /\ forall y, key y = k -> y = x.
  (* the key function, where it is defined on a bare key, returns that key *)
  Hypothesis key_of_key_id : forall k k', key_of_key k = Some k' -> k' = k.

  Notation dict := (@dict item K).
  Notation arg := (@arg item K).
  Notation op := (@op item K).
  Notation out := (@out item K).
  Notation lookup := (@dict_get item K keqb).
  Notation has := (@dict_mem item K keqb).
  Notation put := (@dict_set item K keqb).
  Notation drop := (@dict_del item K keqb).
  Notation update := (@dict_update item K keqb).
  Notation the_map := (@build item K key keqb).
  Notation keys := (map (@fst K item)).
  Notation contains := (contains key keqb ieqb as_key as_item key_of_key).
  Notation discard := (discard key keqb ieqb as_key as_item key_of_key).
  Notation member := (member key keqb ieqb).
  Notation denote := (denote key).

  Definition pairs (xs : list item) : dict := map (fun x => (key x, x)) xs.

  (* ---------------- booleans ---------------- *)
  Lemma keqb_refl k : keqb k k = true.
  Proof. now apply keqb_eq. Qed.
  Lemma keqb_neq a b : keqb a b = false <-> a <> b.
  Proof.
    split; intro H.
    - intro E. apply keqb_eq in E. congruence.
    - destruct (keqb a b) eqn:E; auto. apply keqb_eq in E. contradiction.
  Qed.
  Lemma keqb_sym a b : keqb a b = keqb b a.
  Proof.
    destruct (keqb a b) eqn:E, (keqb b a) eqn:E'; auto.
    - apply keqb_eq in E. subst. rewrite keqb_refl in E'. discriminate.
    - apply keqb_eq in E'. subst. rewrite keqb_refl in E. discriminate.
  Qed.
  Lemma ieqb_refl x : ieqb x x = true.
  Proof. now apply ieqb_eq. Qed.
  Lemma ieqb_neq a b : ieqb a b = false <-> a <> b.
  Proof.
    split; intro H.
    - intro E. apply ieqb_eq in E. congruence.
    - destruct (ieqb a b) eqn:E; auto. apply ieqb_eq in E. contradiction.
  Qed.
  Lemma ieqb_sym a b : ieqb a b = ieqb b a.
  Proof.
    destruct (ieqb a b) eqn:E, (ieqb b a) eqn:E'; auto.
    - apply ieqb_eq in E. subst. rewrite ieqb_refl in E'. discriminate.
    - apply ieqb_eq in E'. subst. rewrite ieqb_refl in E. discriminate.
  Qed.
  Lemma bool_iff (a b : bool) : (a = true <-> b = true) -> a = b.
  Proof. destruct a, b; intuition congruence. Qed.

  (* ================= map laws of the dict primitives ================= *)
  Lemma has_lookup k d : has k d = match lookup k d with Some _ => true | None => false end.
  Proof.
    unfold dict_mem, dict_get. induction d as [|[k' y] d IH]; simpl; auto.
    destruct (keqb k k'); simpl; auto.
  Qed.

  Lemma has_In k d : has k d = true <-> In k (keys d).
  Proof.
    unfold dict_mem. rewrite existsb_exists, in_map_iff. split.
    - intros [p [Hp E]]. apply keqb_eq in E. exists p; auto.
    - intros [p [E Hp]]. exists p; split; auto. apply keqb_eq; auto.
  Qed.

  Lemma lookup_In k y d : lookup k d = Some y -> In (k, y) d.
  Proof.
    unfold dict_get. destruct (find _ d) as [[k' z]|] eqn:F; simpl; [|discriminate].
    intro E; inversion E; subst. apply find_some in F. destruct F as [F E'].
    simpl in E'. apply keqb_eq in E'. now subst.
  Qed.

  Lemma lookup_None k d : lookup k d = None <-> ~ In k (keys d).
  Proof.
    pose proof (has_In k d) as H. rewrite has_lookup in H.
    destruct (lookup k d); split; intro H1; try congruence.
    - exfalso. apply H1. apply H. reflexivity.
    - intro H2. apply H in H2. discriminate.
  Qed.

  Lemma In_lookup k y d : NoDup (keys d) -> In (k, y) d -> lookup k d = Some y.
  Proof.
    unfold dict_get. induction d as [|[k' z] d IH]; simpl; intros N H; [contradiction|].
    inversion N as [|? ? Hk N']; subst.
    destruct (keqb k k') eqn:E.
    - apply keqb_eq in E. subst. destruct H as [H|H]; [now inversion H|].
      exfalso. apply Hk. apply in_map_iff. exists (k', y); auto.
    - destruct H as [H|H]; [inversion H; subst; rewrite keqb_refl in E; discriminate|]. auto.
  Qed.

  (* lookup after put / drop *)
  Lemma lookup_put_same k x d : lookup k (put k x d) = Some x.
  Proof.
    unfold dict_set. destruct (has k d) eqn:M.
    - unfold dict_mem, dict_get in *. induction d as [|[k' z] d IH]; simpl in *; [discriminate|].
      destruct (keqb k k') eqn:E; simpl; rewrite E; simpl; auto.
    - unfold dict_mem, dict_get in *. induction d as [|[k' z] d IH]; simpl in *.
      + now rewrite keqb_refl.
      + destruct (keqb k k') eqn:E; simpl in *; [discriminate|auto].
  Qed.

  Lemma lookup_put_other k k' x d : k <> k' -> lookup k' (put k x d) = lookup k' d.
  Proof.
    intro N. unfold dict_set. destruct (has k d).
    - unfold dict_get. induction d as [|[j z] d IH]; simpl; auto.
      destruct (keqb k j) eqn:E; simpl.
      + apply keqb_eq in E. subst j. assert (keqb k' k = false) as -> by (apply keqb_neq; auto).
        exact IH.
      + destruct (keqb k' j); simpl; auto.
    - unfold dict_get. induction d as [|[j z] d IH]; simpl.
      + assert (keqb k' k = false) as -> by (apply keqb_neq; auto). reflexivity.
      + destruct (keqb k' j); simpl; auto.
  Qed.

  Lemma lookup_put k k' x d :
    lookup k' (put k x d) = if keqb k' k then Some x else lookup k' d.
  Proof.
    destruct (keqb k' k) eqn:E.
    - apply keqb_eq in E. subst. apply lookup_put_same.
    - apply lookup_put_other. apply keqb_neq in E. auto.
  Qed.

  Lemma lookup_drop k k' d :
    lookup k' (drop k d) = if keqb k' k then None else lookup k' d.
  Proof.
    unfold dict_del, dict_get. induction d as [|[j z] d IH]; simpl.
    - destruct (keqb k' k); reflexivity.
    - destruct (keqb k j) eqn:E; simpl.
      + apply keqb_eq in E. subst j. rewrite IH. destruct (keqb k' k); reflexivity.
      + destruct (keqb k' j) eqn:E2; simpl; auto.
        apply keqb_eq in E2. subst j. rewrite keqb_sym, E. reflexivity.
  Qed.

  (* the order of keys: put on an existing key keeps every position, a new
     key goes last; drop removes one position *)
  Lemma keys_put k x d :
    keys (put k x d) = if has k d then keys d else keys d ++ [k].
  Proof.
    unfold dict_set. destruct (has k d).
    - rewrite map_map. apply map_ext. intros [j z]. simpl. destruct (keqb k j); reflexivity.
    - now rewrite map_app.
  Qed.

  Lemma keys_drop k d : keys (drop k d) = filter (fun j => negb (keqb k j)) (keys d).
  Proof.
    unfold dict_del. induction d as [|[j z] d IH]; simpl; auto.
    destruct (keqb k j); simpl; congruence.
  Qed.

  Lemma NoDup_keys_put k x d : NoDup (keys d) -> NoDup (keys (put k x d)).
  Proof.
    intro N. rewrite keys_put. destruct (has k d) eqn:M; auto.
    eapply Permutation_NoDup; [apply Permutation_cons_append|]. constructor; auto.
    intro H. apply has_In in H. congruence.
  Qed.

  Lemma NoDup_keys_drop k d : NoDup (keys d) -> NoDup (keys (drop k d)).
  Proof. intro N. rewrite keys_drop. now apply NoDup_filter. Qed.

  (* two maps with the same key order and the same lookups are the same map *)
  Lemma dict_ext (a : dict) : forall b : dict,
    keys a = keys b -> (forall k, lookup k a = lookup k b) -> NoDup (keys a) -> a = b.
  Proof.
    induction a as [|[k x] a IH]; intros [|[k' x'] b] Hk Hl N; simpl in *; try discriminate; auto.
    inversion Hk; subst k'. inversion N as [|? ? Hn N']; subst.
    assert (x = x').
    { specialize (Hl k). unfold dict_get in Hl. simpl in Hl. rewrite keqb_refl in Hl.
      simpl in Hl. congruence. }
    subst x'. f_equal. apply IH; auto.
    intro j. specialize (Hl j). unfold dict_get in *. simpl in Hl.
    destruct (keqb j k) eqn:E; auto.
    apply keqb_eq in E. subst j.
    assert (A : lookup k a = None) by (now apply lookup_None).
    assert (B : lookup k b = None) by (apply lookup_None; congruence).
    unfold dict_get in A, B. congruence.
  Qed.

  Lemma filter_all {A} (f : A -> bool) l : (forall x, In x l -> f x = true) -> filter f l = l.
  Proof.
    induction l as [|a l IH]; simpl; intro H; auto.
    rewrite H by auto. f_equal. apply IH. auto.
  Qed.

  Lemma drop_absent k d : has k d = false -> drop k d = d.
  Proof.
    intro M. unfold dict_del. apply filter_all. intros [j z] Hj. simpl.
    destruct (keqb k j) eqn:E; auto. apply keqb_eq in E. subst j.
    assert (has k d = true); [|congruence]. apply has_In. apply in_map_iff. exists (k, z); auto.
  Qed.

  (* ================= the representation invariant ================= *)
  (* keys are unique and every stored item sits under its own key *)
  Definition Inv (d : dict) : Prop :=
    NoDup (keys d) /\ Forall (fun p => fst p = key (snd p)) d.
  (* typed containers: every stored item passes the type check *)
  Definition TInv (d : dict) : Prop := forallb valid (vals d) = true.

  Lemma inv_nil : Inv [].
  Proof. split; constructor. Qed.

  Lemma inv_tail p d : Inv (p :: d) -> Inv d.
  Proof. intros [N F]. inversion N; inversion F; subst. split; auto. Qed.

  Lemma inv_key d k y : Inv d -> In (k, y) d -> k = key y.
  Proof. intros [_ F] H. rewrite Forall_forall in F. apply (F _ H). Qed.

  Lemma inv_lookup_key d k y : Inv d -> lookup k d = Some y -> k = key y.
  Proof. intros I H. apply lookup_In in H. eapply inv_key; eauto. Qed.

  Lemma inv_pairs d : Inv d -> d = pairs (vals d).
  Proof.
    intros [_ F]. unfold pairs, vals. rewrite map_map. induction F as [|[k y] d H F IH]; simpl; auto.
    simpl in H. subst. f_equal. exact IH.
  Qed.

  Lemma inv_put d x : Inv d -> Inv (put (key x) x d).
  Proof.
    intros [N F]. split; [now apply NoDup_keys_put|].
    unfold dict_set. destruct (has (key x) d).
    - rewrite Forall_forall in *. intros p Hp. apply in_map_iff in Hp.
      destruct Hp as [[j z] [E Hq]]. simpl in E. destruct (keqb (key x) j) eqn:Ek; subst p; simpl.
      + apply keqb_eq in Ek. auto.
      + apply (F _ Hq).
    - apply Forall_app. split; auto.
  Qed.

  Lemma inv_filter f d : Inv d -> Inv (filter f d).
  Proof.
    intros [N F]. split.
    - clear F. induction d as [|[k y] d IH]; simpl in *; [constructor|].
      inversion N; subst. destruct (f (k, y)); simpl; auto. constructor; auto.
      intro H. apply H1. apply in_map_iff in H. destruct H as [p [E Hp]].
      apply filter_In in Hp. apply in_map_iff. exists p; tauto.
    - rewrite Forall_forall in *. intros p Hp. apply filter_In in Hp. apply F. tauto.
  Qed.

  Lemma inv_drop d k : Inv d -> Inv (drop k d).
  Proof. apply inv_filter. Qed.

  Lemma inv_pairs_nodup xs : NoDup (map key xs) -> Inv (pairs xs).
  Proof.
    intro N. split.
    - unfold pairs. rewrite map_map. exact N.
    - unfold pairs. apply Forall_forall. intros p Hp. apply in_map_iff in Hp.
      destruct Hp as [x [E _]]. now subst.
  Qed.

  Lemma inv_vals_nodup d : Inv d -> NoDup (map key (vals d)).
  Proof.
    intro I. pose proof I as [N _]. rewrite (inv_pairs d I) in N.
    unfold pairs in N. rewrite map_map in N. exact N.
  Qed.

  Lemma tinv_filter f d : TInv d -> TInv (filter f d).
  Proof.
    unfold TInv, vals. rewrite !forallb_forall. intros H x Hx.
    apply in_map_iff in Hx. destruct Hx as [p [E Hp]]. apply filter_In in Hp.
    apply H. apply in_map_iff. exists p; tauto.
  Qed.

  Lemma tinv_put d k x : valid x = true -> TInv d -> TInv (put k x d).
  Proof.
    unfold TInv, vals. rewrite !forallb_forall. intros V H y Hy.
    apply in_map_iff in Hy. destruct Hy as [[j z] [E Hp]]. simpl in E. subst z.
    unfold dict_set in Hp. destruct (has k d).
    - apply in_map_iff in Hp. destruct Hp as [[j' z'] [E Hq]].
      destruct (keqb k (fst (j', z'))); inversion E; subst; auto.
      apply H. apply in_map_iff. exists (j, y); auto.
    - apply in_app_iff in Hp. destruct Hp as [Hp|[Hp|[]]].
      + apply H. apply in_map_iff. exists (j, y); auto.
      + inversion Hp; subst; auto.
  Qed.

  Lemma lookup_first k y d : lookup k ((k, y) :: d) = Some y.
  Proof. unfold dict_get. simpl. now rewrite keqb_refl. Qed.

  Lemma inv_lookup_own d y : Inv d -> In y (vals d) -> lookup (key y) d = Some y.
  Proof.
    intros I H. apply in_map_iff in H. destruct H as [[k z] [E Hp]]. simpl in E. subst z.
    pose proof (inv_key d k y I Hp). subst k. apply In_lookup; auto. apply I.
  Qed.
  (* ================= item-or-key resolution ================= *)
  (* __contains__ (try as key, then as item) is membership of the map *)
  Lemma contains_member enf d a : Inv d -> contains enf d a = member enf d a.
  Proof.
    intro I. unfold Model.contains, Spec.member. destruct a as [x|k]; simpl.
    - destruct (as_key x) as [k|] eqn:A.
      + destruct (as_key_self x k A) as [-> U]. rewrite has_lookup.
        destruct (lookup (key x) d) as [y|] eqn:L; simpl; auto.
        assert (y = x).
        { apply U. symmetry. eapply inv_lookup_key; eauto. }
        subst. now rewrite ieqb_refl, orb_true_r.
      + reflexivity.
    - rewrite has_lookup. destruct (lookup k d) as [y|] eqn:L; simpl; auto.
      destruct (key_of_key k) as [k'|] eqn:Kk; auto.
      apply key_of_key_id in Kk. subst k'. now rewrite L.
  Qed.

  (* discard removes the denoted key when the argument is a member *)
  Lemma discard_spec enf d a : Inv d ->
    discard enf d a = if member enf d a then drop (denote a) d else d.
  Proof.
    intro I. unfold Model.discard, Model.discard_as_item, Spec.member. destruct a as [x|k]; simpl.
    - destruct (as_key x) as [k|] eqn:A.
      + destruct (as_key_self x k A) as [-> U]. rewrite has_lookup.
        destruct (lookup (key x) d) as [y|] eqn:L; simpl; auto.
        assert (y = x).
        { apply U. symmetry. eapply inv_lookup_key; eauto. }
        subst. now rewrite ieqb_refl, orb_true_r.
      + destruct (lookup (key x) d); auto.
    - rewrite has_lookup. destruct (lookup k d) as [y|] eqn:L; simpl; auto.
      destruct (key_of_key k) as [k'|] eqn:Kk; auto.
      apply key_of_key_id in Kk. subst k'. now rewrite L.
  Qed.

  Lemma getitem_spec d a : Inv d ->
    getitem key keqb as_key key_of_key d a =
      match lookup (denote a) d with Some y => Ok y | None => Err (miss key_of_key a) end.
  Proof.
    intro I. unfold getitem, miss. destruct a as [x|k]; simpl.
    - destruct (as_key x) as [k|] eqn:A.
      + destruct (as_key_self x k A) as [-> _]. destruct (lookup (key x) d); reflexivity.
      + destruct (lookup (key x) d); reflexivity.
    - destruct (lookup k d) as [y|] eqn:L; auto.
      destruct (key_of_key k) as [k'|] eqn:Kk; auto.
      apply key_of_key_id in Kk. subst k'. now rewrite L.
  Qed.

  Lemma member_own enf d y : Inv d -> In y (vals d) -> member enf d (AItem y) = true.
  Proof.
    intros I H. unfold Spec.member. rewrite (inv_lookup_own d y I H).
    now rewrite ieqb_refl, orb_true_r.
  Qed.

  Lemma drop_head k y d : NoDup (keys ((k, y) :: d)) -> drop k ((k, y) :: d) = d.
  Proof.
    intro N. inversion N; subst. unfold dict_del. simpl. rewrite keqb_refl. simpl.
    apply filter_all. intros [j z] Hj. simpl. destruct (keqb k j) eqn:E; auto.
    apply keqb_eq in E. subst j. exfalso. apply H1. apply in_map_iff. exists (k, z); auto.
  Qed.

  (* pop removes the oldest entry *)
  Lemma pop_spec enf k y d : Inv ((k, y) :: d) ->
    pop key keqb ieqb as_key as_item key_of_key enf ((k, y) :: d) = (Ok (RItem y), d).
  Proof.
    intro I. unfold pop. f_equal. rewrite discard_spec by auto.
    rewrite member_own by (auto; simpl; auto). simpl.
    pose proof (inv_key _ k y I (or_introl eq_refl)). subst k.
    apply drop_head. apply I.
  Qed.

  Lemma clear_loop_spec enf fuel : forall d, Inv d -> (length d < fuel)%nat ->
    clear_loop key keqb ieqb as_key as_item key_of_key fuel enf d = (Ok RNone, []).
  Proof.
    induction fuel as [|f IH]; intros d I L; [lia|].
    destruct d as [|[k y] d].
    - reflexivity.
    - cbn [clear_loop]. rewrite pop_spec by auto. apply IH.
      + eapply inv_tail; eauto.
      + simpl in L. lia.
  Qed.

  Lemma clear_spec enf d : Inv d ->
    clear key keqb ieqb as_key as_item key_of_key enf d = (Ok RNone, []).
  Proof. intro I. unfold clear. apply clear_loop_spec; auto. Qed.

  (* ================= construction of new containers ================= *)
  Definition put_all (xs : list item) (d : dict) : dict :=
    fold_left (fun d x => put (key x) x d) xs d.
  Definition agrees (d : dict) (x : item) : bool :=
    match lookup (key x) d with Some y => ieqb y x | None => true end.
  Notation consistent := (consistent key keqb ieqb).
  Notation fresh := (fresh key keqb ieqb valid).
  Notation from_iterable := (from_iterable key keqb ieqb valid).
  Notation construct_loop := (construct_loop key keqb ieqb).
  Notation construct_plain := (construct_plain key keqb ieqb).

  Lemma the_map_put_all xs : the_map xs = put_all xs [].
  Proof. reflexivity. Qed.

  Lemma inv_put_all xs : forall d, Inv d -> Inv (put_all xs d).
  Proof.
    induction xs as [|x xs IH]; intros d I; simpl; auto. apply IH. now apply inv_put.
  Qed.

  Lemma inv_the_map xs : Inv (the_map xs).
  Proof. apply inv_put_all. apply inv_nil. Qed.

  Lemma keys_put_all_In xs : forall d k,
    In k (keys (put_all xs d)) <-> In k (keys d) \/ In k (map key xs).
  Proof.
    induction xs as [|x xs IH]; intros d k; simpl; [tauto|].
    rewrite IH, keys_put. destruct (has (key x) d) eqn:M.
    - apply has_In in M. split; [tauto|]. intros [H|[<-|H]]; auto.
    - rewrite in_app_iff. simpl. tauto.
  Qed.

  Lemma consistent_iff l :
    consistent l = true <-> forall a b, In a l -> In b l -> key a = key b -> a = b.
  Proof.
    unfold Spec.consistent. rewrite forallb_forall. split.
    - intros H a b Ha Hb E. specialize (H a Ha). rewrite forallb_forall in H.
      specialize (H b Hb). apply orb_true_iff in H. destruct H as [H|H].
      + apply negb_true_iff, keqb_neq in H. contradiction.
      + now apply ieqb_eq.
    - intros H a Ha. apply forallb_forall. intros b Hb.
      destruct (keqb (key a) (key b)) eqn:E; simpl; auto.
      apply keqb_eq in E. apply ieqb_eq. auto.
  Qed.

  Lemma agrees_iff d l :
    forallb (agrees d) l = true <->
    forall z, In z l -> forall y, lookup (key z) d = Some y -> y = z.
  Proof.
    rewrite forallb_forall. unfold agrees. split.
    - intros H z Hz y L. specialize (H z Hz). rewrite L in H. now apply ieqb_eq.
    - intros H z Hz. destruct (lookup (key z) d) as [y|] eqn:L; auto.
      apply ieqb_eq. eapply H; eauto.
  Qed.

  Lemma construct_loop_false xs : forall d, construct_loop false xs d = Ok (put_all xs d).
  Proof. induction xs as [|x xs IH]; intro d; simpl; auto. Qed.

  Lemma construct_loop_true xs : forall d,
    construct_loop true xs d =
      if forallb (agrees d) xs && consistent xs then Ok (put_all xs d) else Err ValueErr.
  Proof.
    induction xs as [|x xs IH]; intro d; [reflexivity|].
    cbn [Model.construct_loop]. unfold add_untyped, clashes. cbn [andb].
    change (forallb (agrees d) (x :: xs)) with (agrees d x && forallb (agrees d) xs).
    unfold agrees at 1.
    destruct (lookup (key x) d) as [y|] eqn:L.
    - destruct (ieqb y x) eqn:E; simpl; auto.
      apply ieqb_eq in E. subst y. rewrite IH. simpl.
      replace (forallb (agrees (put (key x) x d)) xs && consistent xs)
        with (forallb (agrees d) xs && consistent (x :: xs)); auto.
      apply bool_iff. rewrite !andb_true_iff, !agrees_iff, !consistent_iff. split.
      + intros [A C]. split.
        * intros z Hz w. rewrite lookup_put. destruct (keqb (key z) (key x)) eqn:Ek.
          -- intro Hw. inversion Hw; subst. apply keqb_eq in Ek. apply C; simpl; auto.
          -- apply A; auto.
        * intros a b Ha Hb. apply C; simpl; auto.
      + intros [A C]. split.
        * intros z Hz w Lw. destruct (keqb (key z) (key x)) eqn:Ek.
          -- apply keqb_eq in Ek. assert (x = z).
             { apply (A z Hz). rewrite lookup_put, Ek, keqb_refl. reflexivity. }
             subst z. congruence.
          -- apply (A z Hz). now rewrite lookup_put, Ek.
        * assert (X : forall z, In z xs -> key x = key z -> x = z).
          { intros z Hz Ek. apply (A z Hz). rewrite lookup_put.
            rewrite <- Ek. now rewrite keqb_refl. }
          intros a b [<-|Ha] [<-|Hb] Ek; auto. symmetry. apply X; auto.
    - simpl. rewrite IH.
      replace (forallb (agrees (put (key x) x d)) xs && consistent xs)
        with (forallb (agrees d) xs && consistent (x :: xs)); auto.
      apply bool_iff. rewrite !andb_true_iff, !agrees_iff, !consistent_iff. split.
      + intros [A C]. split.
        * intros z Hz w. rewrite lookup_put. destruct (keqb (key z) (key x)) eqn:Ek.
          -- intro Hw. inversion Hw; subst. apply keqb_eq in Ek. apply C; simpl; auto.
          -- apply A; auto.
        * intros a b Ha Hb. apply C; simpl; auto.
      + intros [A C]. split.
        * intros z Hz w Lw. destruct (keqb (key z) (key x)) eqn:Ek.
          -- apply keqb_eq in Ek. rewrite Ek in Lw. congruence.
          -- apply (A z Hz). now rewrite lookup_put, Ek.
        * assert (X : forall z, In z xs -> key x = key z -> x = z).
          { intros z Hz Ek. apply (A z Hz). rewrite lookup_put.
            rewrite <- Ek. now rewrite keqb_refl. }
          intros a b [<-|Ha] [<-|Hb] Ek; auto. symmetry. apply X; auto.
  Qed.

  Lemma construct_plain_spec enf xs :
    construct_plain enf xs =
      if enf && negb (consistent xs) then Err ValueErr else Ok (the_map xs).
  Proof.
    unfold Model.construct_plain. destruct enf; simpl.
    - rewrite construct_loop_true.
      assert (forallb (agrees []) xs = true) as ->.
      { apply forallb_forall. intros z _. reflexivity. }
      simpl. destruct (consistent xs); reflexivity.
    - apply construct_loop_false.
  Qed.

  (* _from_iterable builds exactly the specified new container *)
  Lemma from_iterable_fresh enf xs : from_iterable enf xs = fresh enf xs.
  Proof.
    unfold Model.from_iterable, Spec.fresh. rewrite construct_plain_spec.
    destruct (enf && negb (consistent xs)); reflexivity.
  Qed.

  Lemma fresh_ok enf xs m : fresh enf xs = Ok m -> m = the_map xs /\ Inv m /\ TInv m.
  Proof.
    unfold Spec.fresh. destruct (enf && negb (consistent xs)); [discriminate|].
    destruct (forallb valid (vals (the_map xs))) eqn:V; [|discriminate].
    intro H. inversion H; subst. split; [reflexivity|]. split; [apply inv_the_map|exact V].
  Qed.

  (* items with pairwise different keys are stored as they come *)
  Lemma NoDup_map_inj {A B} (f : A -> B) l a b :
    NoDup (map f l) -> In a l -> In b l -> f a = f b -> a = b.
  Proof.
    induction l as [|x l IH]; simpl; intros N Ha Hb E; [contradiction|].
    inversion N; subst. destruct Ha as [<-|Ha], Hb as [<-|Hb]; auto.
    - exfalso. apply H1. rewrite E. now apply in_map.
    - exfalso. apply H1. rewrite <- E. now apply in_map.
  Qed.

  Lemma put_all_fresh xs : forall d,
    (forall x, In x xs -> has (key x) d = false) -> NoDup (map key xs) ->
    put_all xs d = d ++ pairs xs.
  Proof.
    induction xs as [|x xs IH]; intros d Hd N; simpl.
    - now rewrite app_nil_r.
    - inversion N; subst.
      assert (Pf : put (key x) x d = d ++ [(key x, x)])
        by (unfold dict_set; rewrite Hd by (simpl; auto); reflexivity).
      rewrite Pf.
      rewrite IH; auto.
      + now rewrite <- app_assoc.
      + intros y Hy. destruct (has (key y) (d ++ [(key x, x)])) eqn:E; auto.
        apply has_In in E. rewrite map_app, in_app_iff in E. simpl in E.
        destruct E as [E|[E|[]]].
        * apply has_In in E. rewrite Hd in E; [discriminate|simpl; auto].
        * exfalso. apply H1. rewrite E. now apply in_map.
  Qed.

  Lemma the_map_nodup xs : NoDup (map key xs) -> the_map xs = pairs xs.
  Proof. intro N. rewrite the_map_put_all, put_all_fresh; auto. Qed.

  Lemma consistent_nodup xs : NoDup (map key xs) -> consistent xs = true.
  Proof. intro N. apply consistent_iff. intros a b. now apply NoDup_map_inj. Qed.

  Lemma vals_pairs xs : vals (pairs xs) = xs.
  Proof. unfold vals, pairs. rewrite map_map. simpl. apply map_id. Qed.

  Lemma fresh_nodup enf xs : NoDup (map key xs) ->
    fresh enf xs = if forallb valid xs then Ok (pairs xs) else Err TypeErr.
  Proof.
    intro N. unfold Spec.fresh. rewrite consistent_nodup, the_map_nodup, vals_pairs by auto.
    now rewrite andb_false_r.
  Qed.

  (* a sub-map of a well-typed map, rebuilt through _from_iterable, is that sub-map *)
  Lemma vals_filter f (d : dict) :
    Inv d -> pairs (filter f (vals d)) = filter (fun e => f (snd e)) d.
  Proof.
    intro I. rewrite (inv_pairs d I) at 2. unfold pairs, vals.
    induction d as [|[k y] d IH]; simpl; auto.
    assert (Inv d) by (eapply inv_tail; eauto).
    destruct (f y); simpl; rewrite IH; auto.
  Qed.

  Lemma nodup_filter_keys f (l : list item) :
    NoDup (map key l) -> NoDup (map key (filter f l)).
  Proof.
    induction l as [|x l IH]; simpl; intro N; [constructor|].
    inversion N; subst. destruct (f x); simpl; auto. constructor; auto.
    intro H. apply H1. apply in_map_iff in H. destruct H as [y [E Hy]].
    apply filter_In in Hy. rewrite <- E. apply in_map. tauto.
  Qed.

  Lemma fresh_submap enf f d : Inv d -> TInv d ->
    fresh enf (filter f (vals d)) = Ok (filter (fun e => f (snd e)) d).
  Proof.
    intros I T. rewrite fresh_nodup by (apply nodup_filter_keys, inv_vals_nodup; auto).
    rewrite vals_filter by auto.
    assert (forallb valid (filter f (vals d)) = true) as ->; auto.
    apply forallb_forall. intros x Hx. apply filter_In in Hx.
    unfold TInv in T. rewrite forallb_forall in T. apply T. tauto.
  Qed.

  Lemma construct_plain_submap eb f d : Inv d ->
    construct_plain eb (filter f (vals d)) = Ok (filter (fun e => f (snd e)) d).
  Proof.
    intro I. rewrite construct_plain_spec.
    rewrite consistent_nodup, the_map_nodup by (apply nodup_filter_keys, inv_vals_nodup; auto).
    rewrite andb_false_r. now rewrite vals_filter.
  Qed.

  (* ================= operands ================= *)
  Notation omap := (omap key keqb ieqb valid).
  Notation coerce := (coerce key keqb ieqb valid).
  Notation oitems := (@op_items item K key keqb).
  Notation kv_contains := (kv_contains key keqb ieqb as_key as_item key_of_key).
  Notation subset := (subset key keqb ieqb).

  Definition like (p : @operand item) : bool :=
    match p with PKS _ _ => false | _ => true end.

  Lemma coerce_omap enf d p :
    coerce enf d p = match omap enf d p with
                     | Err e => Err e
                     | Ok (eb, b) => Ok (KV eb b (like p))
                     end.
  Proof.
    destruct p; simpl; auto; rewrite from_iterable_fresh; destruct (fresh enf xs); auto.
  Qed.

  Lemma omap_inv enf d p eb b : Inv d -> TInv d -> omap enf d p = Ok (eb, b) -> Inv b.
  Proof.
    intros I T. destruct p; simpl.
    - intro H. inversion H. apply inv_the_map.
    - destruct (fresh enf xs) eqn:F; [|discriminate]. intro H. inversion H; subst.
      apply fresh_ok in F. tauto.
    - destruct (fresh enf xs) eqn:F; [|discriminate]. intro H. inversion H; subst.
      apply fresh_ok in F. tauto.
    - intro H. inversion H; subst. exact I.
  Qed.

  Lemma filter_ext_in' {A} (f g : A -> bool) l :
    (forall x, In x l -> f x = g x) -> filter f l = filter g l.
  Proof.
    induction l as [|a l IH]; simpl; intro H; auto.
    rewrite (H a) by auto. rewrite IH by auto. reflexivity.
  Qed.

  Lemma forallb_ext' {A} (f g : A -> bool) l :
    (forall x, In x l -> f x = g x) -> forallb f l = forallb g l.
  Proof.
    induction l as [|a l IH]; simpl; intro H; auto.
    rewrite (H a) by auto. rewrite IH by auto. reflexivity.
  Qed.

  Lemma member_has e b x : member e b (AItem x) = true -> In (key x) (keys b).
  Proof.
    unfold Spec.member. destruct (lookup (key x) b) eqn:L; [|discriminate].
    intros _. apply lookup_In in L. apply in_map_iff. exists (key x, i); auto.
  Qed.

  Lemma subset_length e a b : Inv a -> subset e a b = true -> (length a <= length b)%nat.
  Proof.
    intros I S. unfold Spec.subset in S. rewrite forallb_forall in S.
    pose proof (inv_vals_nodup a I) as N.
    assert (L : incl (map key (vals a)) (keys b)).
    { intros k Hk. apply in_map_iff in Hk. destruct Hk as [x [<- Hx]].
      eapply member_has. apply S. exact Hx. }
    pose proof (NoDup_incl_length N L) as Le.
    unfold vals in Le. rewrite !map_length in Le. exact Le.
  Qed.

  Lemma le_body_spec d eb b t : Inv d -> Inv b ->
    le_body key keqb ieqb as_key as_item key_of_key d (KV eb b t) = subset eb d b.
  Proof.
    intros I Ib. unfold le_body. simpl.
    assert (E : forallb (kv_contains (KV eb b t)) (vals d) = subset eb d b).
    { unfold Spec.subset. apply forallb_ext'. intros x _. simpl. now apply contains_member. }
    rewrite E. destruct (zlen d >? zlen b) eqn:Z; auto.
    destruct (subset eb d b) eqn:S; auto.
    apply subset_length in S; auto. unfold zlen in Z. lia.
  Qed.

  Lemma ge_body_spec enf d eb b t : Inv d -> Inv b ->
    ge_body key keqb ieqb as_key as_item key_of_key enf d (KV eb b t) = subset enf b d.
  Proof.
    intros I Ib. unfold ge_body. simpl.
    assert (E : forallb (fun x => contains enf d (AItem x)) (vals b) = subset enf b d).
    { unfold Spec.subset. apply forallb_ext'. intros x _. now apply contains_member. }
    rewrite E. destruct (zlen d <? zlen b) eqn:Z; auto.
    destruct (subset enf b d) eqn:S; auto.
    apply subset_length in S; auto. unfold zlen in Z. lia.
  Qed.

  Lemma compare_spec enf d p f g : Inv d -> TInv d ->
    (forall eb b t, Inv b -> f (KV eb b t) = g eb b) ->
    compare key keqb ieqb valid enf d p f = spec_cmp key keqb ieqb valid enf d p g.
  Proof.
    intros I T H. unfold compare, spec_cmp. rewrite coerce_omap.
    destruct p; auto; destruct (omap enf d _) as [[eb' b']|e'] eqn:O; auto;
      rewrite (H eb' b' _ (omap_inv _ _ _ _ _ I T O)); reflexivity.
  Qed.

  (* ================= binary operators ================= *)
  Notation spec_sub := (spec_sub key keqb ieqb valid).
  Notation spec_rsub := (spec_rsub key keqb ieqb valid).
  Notation spec_xor := (spec_xor key keqb ieqb valid).
  Notation set_sub := (set_sub key keqb ieqb valid as_key as_item key_of_key).
  Notation set_rsub := (set_rsub key keqb ieqb valid as_key as_item key_of_key).
  Notation set_xor := (set_xor key keqb ieqb valid as_key as_item key_of_key).
  Notation set_and := (set_and key keqb ieqb valid as_key as_item key_of_key).

  Lemma set_and_spec enf d p : Inv d ->
    set_and enf d p = fresh enf (filter (fun x => member enf d (AItem x)) (oitems d p)).
  Proof.
    intro I. unfold Model.set_and. rewrite from_iterable_fresh. f_equal.
    apply filter_ext_in'. intros x _. now apply contains_member.
  Qed.

  Lemma set_or_spec enf d p :
    set_or key keqb ieqb valid enf d p = fresh enf (vals d ++ oitems d p).
  Proof. unfold set_or. apply from_iterable_fresh. Qed.

  Lemma set_sub_spec enf d p : Inv d -> TInv d -> set_sub enf d p = spec_sub enf d p.
  Proof.
    intros I T. unfold Model.set_sub, Spec.spec_sub. rewrite coerce_omap.
    destruct (omap enf d p) as [[eb b]|e] eqn:O; auto.
    pose proof (omap_inv _ _ _ _ _ I T O) as Ib.
    rewrite from_iterable_fresh.
    rewrite (filter_ext_in' _ (fun x => negb (member eb b (AItem x)))).
    - now apply fresh_submap.
    - intros x _. simpl. f_equal. now apply contains_member.
  Qed.

  Lemma set_rsub_spec enf d p : Inv d -> set_rsub enf d p = spec_rsub enf d p.
  Proof.
    intro I. unfold Model.set_rsub, Spec.spec_rsub.
    assert (E : forall its,
      from_iterable enf (filter (fun x => negb (contains enf d (AItem x))) its) =
      fresh enf (filter (fun x => negb (member enf d (AItem x))) its)).
    { intro its. rewrite from_iterable_fresh. f_equal. apply filter_ext_in'.
      intros x _. f_equal. now apply contains_member. }
    destruct p; auto. rewrite from_iterable_fresh. destruct (fresh enf xs); auto.
  Qed.

  Lemma set_xor_spec enf d p : Inv d -> TInv d -> set_xor enf d p = spec_xor enf d p.
  Proof.
    intros I T. unfold Model.set_xor, Spec.spec_xor. rewrite set_sub_spec by auto.
    destruct (spec_sub enf d p) as [a|e]; auto.
    assert (E : other_minus_self key keqb ieqb valid as_key as_item key_of_key enf d p =
                match p with
                | PKS _ xs => Ok (filter (fun e => negb (member enf d (AItem (snd e)))) (the_map xs))
                | _ => spec_rsub enf d p
                end).
    { unfold other_minus_self. destruct p; try (now apply set_rsub_spec).
      rewrite (filter_ext_in' _ (fun x => negb (member enf d (AItem x)))).
      - apply construct_plain_submap. apply inv_the_map.
      - intros x _. f_equal. now apply contains_member. }
    rewrite E. destruct (match p with PKS _ xs => _ | _ => _ end); auto.
    apply from_iterable_fresh.
  Qed.

  (* what the operators return is again a coherent, well-typed container *)
  Lemma spec_sub_ok enf d p r : Inv d -> TInv d -> spec_sub enf d p = Ok r -> Inv r /\ TInv r.
  Proof.
    intros I T. unfold Spec.spec_sub. destruct (omap enf d p) as [[eb b]|]; [|discriminate].
    intro H. inversion H; subst. split; [now apply inv_filter|now apply tinv_filter].
  Qed.

  Lemma spec_rsub_ok enf d p r : spec_rsub enf d p = Ok r -> Inv r /\ TInv r.
  Proof.
    unfold Spec.spec_rsub. destruct (match p with PList xs => _ | _ => _ end); [|discriminate].
    intro H. apply fresh_ok in H. tauto.
  Qed.

  Lemma spec_xor_ok enf d p r : spec_xor enf d p = Ok r -> Inv r /\ TInv r.
  Proof.
    unfold Spec.spec_xor. destruct (spec_sub enf d p); [|discriminate].
    destruct (match p with PKS _ xs => _ | _ => _ end); [|discriminate].
    intro H. apply fresh_ok in H. tauto.
  Qed.

  (* ================= in-place operators ================= *)
  Notation matches := (matches key keqb ieqb).
  Notation discard_all := (discard_all key keqb ieqb as_key as_item key_of_key).

  Lemma filter_filter {A} (f g : A -> bool) l :
    filter g (filter f l) = filter (fun x => f x && g x) l.
  Proof.
    induction l as [|a l IH]; simpl; auto.
    destruct (f a); simpl; [destruct (g a)|]; simpl; congruence.
  Qed.

  Lemma filter_none {A} (f : A -> bool) l : (forall x, In x l -> f x = false) -> filter f l = [].
  Proof.
    induction l as [|a l IH]; simpl; intro H; auto. rewrite H by auto. apply IH. auto.
  Qed.

  (* discarding one item removes the entries it matches *)
  Lemma discard_item_filter enf d x : Inv d ->
    discard enf d (AItem x) = filter (fun e => negb (matches enf x e)) d.
  Proof.
    intro I. rewrite discard_spec by auto. simpl.
    assert (U : forall e, In e d -> keqb (key x) (fst e) = true ->
                lookup (key x) d = Some (snd e)).
    { intros [j z] He E. simpl in *. apply keqb_eq in E. subst j. apply In_lookup; auto. apply I. }
    destruct (lookup (key x) d) as [y|] eqn:L.
    - destruct (negb enf || ieqb x y) eqn:C.
      + unfold dict_del. apply filter_ext_in'. intros e He. unfold Spec.matches.
        destruct (keqb (key x) (fst e)) eqn:E; auto.
        specialize (U e He E). inversion U; subst. now rewrite C.
      + symmetry. apply filter_all. intros e He. unfold Spec.matches.
        destruct (keqb (key x) (fst e)) eqn:E; auto.
        specialize (U e He E). inversion U; subst. now rewrite C.
    - symmetry. apply filter_all. intros e He. unfold Spec.matches.
      destruct (keqb (key x) (fst e)) eqn:E; auto.
      specialize (U e He E). discriminate.
  Qed.

  Lemma discard_all_filter enf xs : forall d, Inv d ->
    discard_all enf d xs = filter (fun e => negb (existsb (fun x => matches enf x e) xs)) d.
  Proof.
    induction xs as [|x xs IH]; intros d I.
    - simpl. symmetry. now apply filter_all.
    - unfold Model.discard_all in *. simpl. rewrite discard_item_filter by auto.
      rewrite IH by (now apply inv_filter). rewrite filter_filter.
      apply filter_ext_in'. intros e _. now rewrite negb_orb.
  Qed.

  Lemma matches_own enf d e : Inv d -> In e d -> matches enf (snd e) e = true.
  Proof.
    intros I He. destruct e as [k y]. unfold Spec.matches. simpl.
    rewrite <- (inv_key d k y I He), keqb_refl, ieqb_refl. now rewrite orb_true_r.
  Qed.

  (* an own item matches no other entry *)
  Lemma matches_unique enf d x e : Inv d -> In x (vals d) -> In e d ->
    matches enf x e = true -> x = snd e.
  Proof.
    intros I Hx He M. unfold Spec.matches in M. apply andb_true_iff in M. destruct M as [M _].
    apply keqb_eq in M. destruct e as [k y]. simpl in *. subst k.
    pose proof (inv_lookup_own d x I Hx) as L.
    rewrite (In_lookup _ _ _ (proj1 I) He) in L. congruence.
  Qed.

  (* discarding the values of a sub-map leaves the complementary sub-map *)
  Lemma discard_all_submap enf f d : Inv d ->
    discard_all enf d (vals (filter f d)) = filter (fun e => negb (f e)) d.
  Proof.
    intro I. rewrite discard_all_filter by auto. apply filter_ext_in'. intros e He. f_equal.
    apply bool_iff. rewrite existsb_exists. split.
    - intros [x [Hx M]]. apply in_map_iff in Hx. destruct Hx as [e' [<- He']].
      apply filter_In in He'. destruct He' as [He' Fe'].
      assert (snd e' = snd e).
      { eapply matches_unique; eauto. apply in_map_iff. exists e'; auto. }
      assert (e' = e); [|now subst].
      destruct e as [k y], e' as [k' y']. simpl in *. subst y'.
      rewrite (inv_key d k y I He), (inv_key d k' y I He'). reflexivity.
    - intro Fe. exists (snd e). split.
      + apply in_map_iff. exists e. split; auto. apply filter_In. auto.
      + eapply matches_own; eauto.
  Qed.

  (* ---- |= : staging, then one update, is adding one by one, all or nothing ---- *)
  Lemma has_put i j z d : has i (put j z d) = has i d || keqb i j.
  Proof.
    rewrite !has_lookup, lookup_put. destruct (keqb i j); [now rewrite orb_true_r|].
    now rewrite orb_false_r.
  Qed.

  Lemma lookup_update st : forall d k, NoDup (keys st) ->
    lookup k (update d st) = match lookup k st with Some y => Some y | None => lookup k d end.
  Proof.
    unfold dict_update. induction st as [|[j z] st IH]; intros d k N; simpl; auto.
    inversion N; subst. rewrite IH by auto. unfold dict_get at 3. simpl.
    destruct (keqb k j) eqn:E.
    - apply keqb_eq in E. subst j. simpl.
      assert (lookup k st = None) as -> by (now apply lookup_None).
      apply lookup_put_same.
    - fold (lookup k st). destruct (lookup k st); auto.
      apply lookup_put_other. apply keqb_neq in E. auto.
  Qed.

  Lemma keys_update st : forall d, NoDup (keys st) ->
    keys (update d st) = keys d ++ filter (fun j => negb (has j d)) (keys st).
  Proof.
    unfold dict_update. induction st as [|[j z] st IH]; intros d N; simpl.
    - now rewrite app_nil_r.
    - inversion N; subst. rewrite IH by auto. rewrite keys_put.
      assert (E : filter (fun i => negb (has i (put j z d))) (keys st) =
                  filter (fun i => negb (has i d)) (keys st)).
      { apply filter_ext_in'. intros i Hi. rewrite has_put.
        assert (keqb i j = false) as ->; [|now rewrite orb_false_r].
        apply keqb_neq. intro; subst; contradiction. }
      rewrite E. destruct (has j d); simpl; auto. now rewrite <- app_assoc.
  Qed.

  Lemma NoDup_keys_update st : forall d, NoDup (keys d) -> NoDup (keys (update d st)).
  Proof.
    unfold dict_update. induction st as [|[j z] st IH]; intros d N; simpl; auto.
    apply IH. now apply NoDup_keys_put.
  Qed.

  Lemma inv_update st : forall d, Inv d -> Inv st -> Inv (update d st).
  Proof.
    unfold dict_update. induction st as [|[j z] st IH]; intros d I Is; simpl; auto.
    apply IH; [|eapply inv_tail; eauto].
    rewrite (inv_key _ j z Is (or_introl eq_refl)). now apply inv_put.
  Qed.

  Lemma tinv_update st : forall d, TInv d -> TInv st -> TInv (update d st).
  Proof.
    unfold dict_update. induction st as [|[j z] st IH]; intros d T Ts; simpl; auto.
    unfold TInv in Ts. simpl in Ts. apply andb_true_iff in Ts. destruct Ts as [V Ts].
    apply IH; auto. now apply tinv_put.
  Qed.

  Lemma update_put d st k x : NoDup (keys d) -> NoDup (keys st) ->
    update d (put k x st) = put k x (update d st).
  Proof.
    intros Nd Ns. apply dict_ext.
    - rewrite keys_update by (now apply NoDup_keys_put). rewrite !keys_put.
      rewrite (has_lookup k (update d st)), lookup_update by auto.
      rewrite (has_lookup k st). destruct (lookup k st) eqn:L.
      + now rewrite keys_update.
      + rewrite filter_app, keys_update by auto. simpl. rewrite (has_lookup k d).
        destruct (lookup k d); simpl; [now rewrite app_nil_r|now rewrite app_assoc].
    - intro j. rewrite lookup_update by (now apply NoDup_keys_put).
      rewrite !lookup_put, lookup_update by auto. destruct (keqb j k); reflexivity.
    - apply NoDup_keys_update; auto.
  Qed.

  Notation ior_stage := (ior_stage key keqb ieqb valid).
  Notation add_all := (add_all key keqb ieqb valid).
  Notation spec_add := (spec_add key keqb ieqb valid).

  Lemma ior_stage_spec enf d xs : Inv d -> forall st, Inv st ->
    (enf = true -> forall j ys yd, lookup j st = Some ys -> lookup j d = Some yd -> yd = ys) ->
    match ior_stage enf d xs st with
    | Err e => add_all enf (update d st) xs = Err e
    | Ok st' => add_all enf (update d st) xs = Ok (update d st')
    end.
  Proof.
    intro I. induction xs as [|x xs IH]; intros st Is Ag; simpl; auto.
    unfold Spec.spec_add. destruct (valid x); auto.
    rewrite lookup_update by apply Is. unfold clashes.
    assert (Step : forall (Hok : enf = true ->
                      (forall yd, lookup (key x) d = Some yd -> yd = x) /\
                      (forall ys, lookup (key x) st = Some ys -> ys = x)),
              match ior_stage enf d xs (put (key x) x st) with
              | Err e => add_all enf (put (key x) x (update d st)) xs = Err e
              | Ok st' => add_all enf (put (key x) x (update d st)) xs = Ok (update d st')
              end).
    { intro Hok. rewrite <- update_put by (apply I || apply Is). apply IH.
      - now apply inv_put.
      - intros En j ys yd. rewrite lookup_put. destruct (keqb j (key x)) eqn:E.
        + apply keqb_eq in E. subst j. intros H1 H2. assert (Ey : ys = x) by congruence.
          rewrite Ey. now apply (proj1 (Hok En)).
        + now apply Ag. }
    destruct enf; simpl.
    - destruct (lookup (key x) st) as [ys|] eqn:Ls.
      + destruct (lookup (key x) d) as [yd|] eqn:Ld.
        * rewrite <- (Ag eq_refl _ _ _ Ls Ld).
          destruct (ieqb yd x) eqn:E; simpl; auto.
          apply ieqb_eq in E. subst yd. apply Step. intros _. split.
          -- intros y H. congruence.
          -- intros y H. pose proof (Ag eq_refl _ _ _ Ls Ld). congruence.
        * simpl. destruct (ieqb ys x) eqn:E; simpl; auto.
          apply ieqb_eq in E. subst ys. apply Step. intros _. split; intros y H; congruence.
      + destruct (lookup (key x) d) as [yd|] eqn:Ld.
        * rewrite orb_false_r. destruct (ieqb yd x) eqn:E; simpl; auto.
          apply ieqb_eq in E. subst yd. apply Step. intros _. split; intros y H; congruence.
        * simpl. apply Step. intros _. split; intros y H; congruence.
    - assert (S := Step (fun H => False_ind _ (Bool.diff_false_true H))).
      destruct (lookup (key x) st); [|destruct (lookup (key x) d)]; exact S.
  Qed.

  Lemma add_all_ok enf xs : forall m m', Inv m -> TInv m ->
    add_all enf m xs = Ok m' -> Inv m' /\ TInv m'.
  Proof.
    induction xs as [|x xs IH]; intros m m' I T; simpl.
    - intro H. inversion H; subst. auto.
    - unfold Spec.spec_add. destruct (valid x) eqn:V; [|discriminate].
      assert (I' : Inv (put (key x) x m)) by (now apply inv_put).
      assert (T' : TInv (put (key x) x m)) by (now apply tinv_put).
      destruct (lookup (key x) m); [destruct (enf && negb (ieqb i x)); [discriminate|]|];
        now apply IH.
  Qed.

  Lemma update_nil r : NoDup (keys r) -> update [] r = r.
  Proof.
    intro N. apply dict_ext.
    - rewrite keys_update by auto. simpl. apply filter_all. reflexivity.
    - intro k. rewrite lookup_update by auto. destruct (lookup k r); reflexivity.
    - apply NoDup_keys_update. constructor.
  Qed.

  (* ================= == against a built-in set ================= *)
  Lemma existsb_ieqb_l v xs : existsb (fun y => ieqb v y) xs = true <-> In v xs.
  Proof.
    rewrite existsb_exists. split.
    - intros [y [Hy E]]. apply ieqb_eq in E. now subst.
    - intro H. exists v. split; auto. apply ieqb_refl.
  Qed.
  Lemma existsb_ieqb_r y vs : existsb (fun v => ieqb v y) vs = true <-> In y vs.
  Proof.
    rewrite existsb_exists. split.
    - intros [v [Hv E]]. apply ieqb_eq in E. now subst.
    - intro H. exists y. split; auto. apply ieqb_refl.
  Qed.

  Lemma dedup_nodup vs : NoDup vs -> dedup ieqb vs = vs.
  Proof.
    induction 1 as [|x l Hx N IH]; simpl; auto.
    destruct (existsb (fun y => ieqb x y) l) eqn:E.
    - apply existsb_ieqb_l in E. contradiction.
    - now rewrite IH.
  Qed.

  Lemma set_eq_spec vs xs : NoDup vs -> NoDup xs ->
    set_eq ieqb vs xs =
      forallb (fun v => existsb (fun y => ieqb v y) xs) vs
      && forallb (fun y => existsb (fun v => ieqb v y) vs) xs.
  Proof.
    intros Nv Nx. unfold set_eq. rewrite dedup_nodup by auto. apply bool_iff.
    rewrite !andb_true_iff, !forallb_forall, Nat.eqb_eq. split.
    - intros [L Hi]. split; auto. intros y Hy. apply existsb_ieqb_r.
      assert (Iv : incl vs xs) by (intros v Hv; apply existsb_ieqb_l; auto).
      assert (Ix : incl xs vs) by (apply (NoDup_length_incl Nv); [lia|exact Iv]).
      now apply Ix.
    - intros [H1 H2]. split; auto.
      assert (Iv : incl vs xs) by (intros v Hv; apply existsb_ieqb_l; auto).
      assert (Ix : incl xs vs) by (intros y Hy; apply existsb_ieqb_r; auto).
      pose proof (NoDup_incl_length Nv Iv). pose proof (NoDup_incl_length Nx Ix). lia.
  Qed.

  Lemma inv_vals_nodup' d : Inv d -> NoDup (vals d).
  Proof. intro I. eapply NoDup_map_inv. apply inv_vals_nodup. exact I. Qed.

  (* ================= every operation ================= *)
  Notation step := (step key keqb ieqb valid as_key as_item key_of_key hashable).
  Notation spec_step := (spec_step key keqb ieqb valid key_of_key hashable).

  (* a built-in set operand is given by its iteration order: no item twice *)
  Definition wf_operand (p : @operand item) : Prop :=
    match p with PSet xs => NoDup xs | _ => True end.
  Definition wf_op (o : op) : Prop :=
    match o with OEq p | ONe p => wf_operand p | _ => True end.

  Lemma eq_body_spec d p : Inv d -> wf_operand p ->
    eq_body key keqb ieqb hashable d p =
      match p with
      | PKS _ xs => dict_eq keqb ieqb d (the_map xs)
      | PSelf => dict_eq keqb ieqb d d
      | PSet xs => forallb hashable (vals d)
                   && (forallb (fun v => existsb (fun y => ieqb v y) xs) (vals d)
                       && forallb (fun y => existsb (fun v => ieqb v y) (vals d)) xs)
      | PList _ => false
      end.
  Proof.
    intros I W. destruct p; simpl; auto. f_equal. apply set_eq_spec; auto. now apply inv_vals_nodup'.
  Qed.

  Theorem step_refines enf d o : Inv d -> TInv d -> wf_op o ->
    step enf d o = spec_step enf d o.
  Proof.
    intros I T W. destruct o; simpl.
    - (* OAdd *) unfold add, add_untyped, Spec.spec_add, clashes.
      destruct (valid x); auto.
      destruct (lookup (key x) d) as [y|];
        [destruct (enf && negb (ieqb y x)); reflexivity|rewrite andb_false_r; reflexivity].
    - (* ODiscard *) now rewrite discard_spec.
    - (* ORemove *) rewrite contains_member, discard_spec by auto.
      destruct (member enf d a); reflexivity.
    - (* OPop *) destruct d as [|[k y] d]; [reflexivity|now apply pop_spec].
    - (* OClear *) now apply clear_spec.
    - (* OContains *) now rewrite contains_member.
    - (* OGetItem *) rewrite getitem_spec by auto. destruct (lookup (denote a) d); reflexivity.
    - reflexivity.
    - reflexivity.
    - reflexivity.
    - reflexivity.
    - reflexivity.
    - (* OEq *) now rewrite eq_body_spec.
    - (* ONe *) now rewrite eq_body_spec.
    - (* OLe *) f_equal. apply compare_spec; auto. intros. now apply le_body_spec.
    - (* OLt *) f_equal. apply compare_spec; auto. intros. simpl. now rewrite le_body_spec.
    - (* OGe *) f_equal. apply compare_spec; auto. intros. now apply ge_body_spec.
    - (* OGt *) f_equal. apply compare_spec; auto. intros. simpl. now rewrite ge_body_spec.
    - (* OIsDisjoint *) unfold isdisjoint. do 3 f_equal. apply forallb_ext'.
      intros x _. f_equal. now apply contains_member.
    - (* OAnd *) now rewrite set_and_spec.
    - (* OOr *) now rewrite set_or_spec.
    - (* OSub *) now rewrite set_sub_spec.
    - (* OXor *) now rewrite set_xor_spec.
    - (* ORAnd *) now rewrite set_and_spec.
    - (* OROr *) now rewrite set_or_spec.
    - (* ORSub *) now rewrite set_rsub_spec.
    - (* ORXor *) now rewrite set_xor_spec.
    - (* OIOr *) unfold ior, inplace.
      pose proof (ior_stage_spec enf d (oitems d p) I [] inv_nil) as S. simpl in S.
      specialize (S (fun _ j ys yd H => False_ind _ (eq_ind None (fun o => match o with None => True | Some _ => False end) Logic.I _ H))).
      destruct (ior_stage enf d (oitems d p) []) as [st'|e]; rewrite S; reflexivity.
    - (* OIAnd *) unfold iand, inplace. rewrite set_sub_spec by auto. unfold Spec.spec_sub.
      destruct (omap enf d p) as [[eb b]|e]; auto.
      rewrite discard_all_submap by auto. f_equal. apply filter_ext_in'.
      intros e _. apply negb_involutive.
    - (* OISub *) unfold isub. destruct p; try (now rewrite discard_all_filter).
      rewrite clear_spec by auto. f_equal. symmetry. apply filter_none.
      intros e He. apply negb_false_iff. apply existsb_exists. exists (snd e). split.
      + apply in_map_iff. exists e; auto.
      + eapply matches_own; eauto.
    - (* OIXor *) unfold ixor, inplace. destruct p; try (now rewrite clear_spec);
        rewrite set_xor_spec by auto;
        match goal with |- context[spec_xor enf d ?q] => destruct (spec_xor enf d q) as [r|e] eqn:X end;
        auto; apply spec_xor_ok in X; rewrite update_nil by apply X; reflexivity.
  Qed.

  (* ================= invariants, atomicity ================= *)
  (* a returned container is coherent and well typed *)
  Definition out_ok (r : res out) : Prop :=
    match r with Ok (RNew n) => Inv n /\ TInv n | _ => True end.

  Definition step_ok (d : dict) (rd : res out * dict) : Prop :=
    Inv (snd rd) /\ TInv (snd rd) /\ out_ok (fst rd) /\
    (forall e, fst rd = Err e -> snd rd = d).

  Lemma ro_ok d r : Inv d -> TInv d -> out_ok r -> step_ok d (r, d).
  Proof.
    intros I T O. unfold step_ok. simpl.
    split; [exact I|split; [exact T|split; [exact O|intros; reflexivity]]].
  Qed.

  Lemma new_ok (r : res dict) :
    (forall n, r = Ok n -> Inv n /\ TInv n) -> out_ok (Spec.new r).
  Proof. destruct r; simpl; auto. Qed.

  Lemma mk_ok d r d' : Inv d' -> TInv d' -> out_ok r ->
    (forall e, r = Err e -> d' = d) -> step_ok d (r, d').
  Proof. intros. unfold step_ok. simpl. auto. Qed.

  Lemma inplace_ok d (r : res dict) : Inv d -> TInv d ->
    (forall n, r = Ok n -> Inv n /\ TInv n) -> step_ok d (inplace d r).
  Proof.
    intros I T H. destruct r as [n|e]; simpl.
    - destruct (H n eq_refl). apply mk_ok; auto. exact Logic.I. intros; discriminate.
    - now apply ro_ok.
  Qed.

  Lemma spec_cmp_ok enf d p f : out_ok (spec_cmp key keqb ieqb valid enf d p f).
  Proof.
    unfold spec_cmp. destruct p; simpl; try exact Logic.I;
      destruct (fresh enf xs); simpl; exact Logic.I.
  Qed.

  Lemma spec_add_ok enf d x m : Inv d -> TInv d -> spec_add enf d x = Ok m -> Inv m /\ TInv m.
  Proof.
    intros I T H. apply (add_all_ok enf [x] d m I T). simpl. now rewrite H.
  Qed.

  Theorem spec_step_ok enf d o : Inv d -> TInv d -> step_ok d (spec_step enf d o).
  Proof.
    intros I T. destruct o; simpl.
    - (* OAdd *) destruct (spec_add enf d x) as [m|e] eqn:A.
      + destruct (spec_add_ok _ _ _ _ I T A). apply mk_ok; auto. exact Logic.I. intros; discriminate.
      + now apply ro_ok.
    - (* ODiscard *) destruct (member enf d a); [|now apply ro_ok].
      apply mk_ok; [now apply inv_drop|now apply tinv_filter|exact Logic.I|intros; discriminate].
    - (* ORemove *) destruct (member enf d a); [|now apply ro_ok].
      apply mk_ok; [now apply inv_drop|now apply tinv_filter|exact Logic.I|intros; discriminate].
    - (* OPop *) destruct d as [|[k y] d]; [now apply ro_ok|].
      apply mk_ok; [eapply inv_tail; eauto| |exact Logic.I|intros; discriminate].
      unfold TInv in *. simpl in T. apply andb_true_iff in T. tauto.
    - (* OClear *) apply mk_ok; [apply inv_nil|reflexivity|exact Logic.I|intros; discriminate].
    - now apply ro_ok.
    - apply ro_ok; auto. destruct (lookup (denote a) d); exact Logic.I.
    - now apply ro_ok.
    - now apply ro_ok.
    - now apply ro_ok.
    - now apply ro_ok.
    - now apply ro_ok.
    - now apply ro_ok.
    - now apply ro_ok.
    - apply ro_ok; auto. apply spec_cmp_ok.
    - apply ro_ok; auto. apply spec_cmp_ok.
    - apply ro_ok; auto. apply spec_cmp_ok.
    - apply ro_ok; auto. apply spec_cmp_ok.
    - now apply ro_ok.
    - apply ro_ok; auto. apply new_ok. intros n H. apply fresh_ok in H. tauto.
    - apply ro_ok; auto. apply new_ok. intros n H. apply fresh_ok in H. tauto.
    - apply ro_ok; auto. apply new_ok. intros n H. eapply spec_sub_ok; eauto.
    - apply ro_ok; auto. apply new_ok. intros n H. eapply spec_xor_ok; eauto.
    - apply ro_ok; auto. apply new_ok. intros n H. apply fresh_ok in H. tauto.
    - apply ro_ok; auto. apply new_ok. intros n H. apply fresh_ok in H. tauto.
    - apply ro_ok; auto. apply new_ok. intros n H. eapply spec_rsub_ok; eauto.
    - apply ro_ok; auto. apply new_ok. intros n H. eapply spec_xor_ok; eauto.
    - (* OIOr *) apply inplace_ok; auto. intros n H. eapply add_all_ok; eauto.
    - (* OIAnd *) apply inplace_ok; auto. intros n H.
      destruct (omap enf d p) as [[eb b]|]; [|discriminate]. inversion H; subst.
      split; [now apply inv_filter|now apply tinv_filter].
    - (* OISub *)
      apply mk_ok; [now apply inv_filter|now apply tinv_filter|exact Logic.I|intros; discriminate].
    - (* OIXor *) destruct p;
        try (apply inplace_ok; auto; intros n H; eapply spec_xor_ok; eauto).
      apply mk_ok; [apply inv_nil|reflexivity|exact Logic.I|intros; discriminate].
  Qed.

  (* ================= sequences of operations ================= *)
  Notation run := (run key keqb ieqb valid as_key as_item key_of_key hashable).
  Notation spec_run := (spec_run key keqb ieqb valid key_of_key hashable).

  Theorem run_refines enf ops : forall d,
    Inv d -> TInv d -> Forall wf_op ops ->
    run enf d ops = spec_run enf d ops /\
    Inv (snd (run enf d ops)) /\ TInv (snd (run enf d ops)) /\
    Forall out_ok (fst (run enf d ops)).
  Proof.
    induction ops as [|o ops IH]; intros d I T W; simpl.
    - split; [reflexivity|split; [exact I|split; [exact T|constructor]]].
    - inversion W; subst. rewrite (step_refines enf d o I T H1).
      pose proof (spec_step_ok enf d o I T) as G. unfold step_ok in G.
      destruct (spec_step enf d o) as [r d1]. simpl in G. destruct G as (I1 & T1 & O1 & _).
      destruct (IH d1 I1 T1 H2) as (E & I2 & T2 & O2). rewrite E.
      destruct (spec_run enf d1 ops) as [rs d2]. simpl in *. rewrite E in I2, T2, O2.
      split; [reflexivity|split; [exact I2|split; [exact T2|constructor; auto]]].
  Qed.

  Theorem step_atomic enf d o e : Inv d -> TInv d -> wf_op o ->
    fst (step enf d o) = Err e -> snd (step enf d o) = d.
  Proof.
    intros I T W. rewrite (step_refines enf d o I T W).
    pose proof (spec_step_ok enf d o I T) as G. apply G.
  Qed.

  Theorem step_preserves enf d o : Inv d -> TInv d -> wf_op o ->
    Inv (snd (step enf d o)) /\ TInv (snd (step enf d o)) /\ out_ok (fst (step enf d o)).
  Proof.
    intros I T W. rewrite (step_refines enf d o I T W).
    pose proof (spec_step_ok enf d o I T) as G. unfold step_ok in G. tauto.
  Qed.

  (* the constructor establishes the invariants *)
  Theorem constructed_ok enf xs d : from_iterable enf xs = Ok d -> Inv d /\ TInv d.
  Proof. rewrite from_iterable_fresh. intro H. apply fresh_ok in H. tauto. Qed.

  (* enforce_item_equivalence=True: adding an unequal item under an existing
     key raises ValueError (TypeError if it is ill typed) and changes nothing *)
  Theorem enforce_add_unequal d x y : Inv d ->
    lookup (key x) d = Some y -> y <> x ->
    step true d (OAdd x) = (Err (if valid x then ValueErr else TypeErr), d).
  Proof.
    intros I L N. simpl. unfold add, add_untyped, clashes. rewrite L.
    destruct (valid x); auto. simpl.
    assert (ieqb y x = false) as -> by (now apply ieqb_neq). reflexivity.
  Qed.

  (* and in every other case a well-typed item is stored under its key *)
  Theorem add_succeeds enf d x : valid x = true ->
    (enf = false \/ forall y, lookup (key x) d = Some y -> y = x) ->
    step enf d (OAdd x) = (Ok RNone, put (key x) x d).
  Proof.
    intros V H. simpl. unfold add, add_untyped, clashes. rewrite V.
    destruct H as [->|H]; auto. destruct (lookup (key x) d) as [y|] eqn:L.
    - rewrite (H y eq_refl), ieqb_refl. now rewrite andb_false_r.
    - now rewrite andb_false_r.
  Qed.

  (* typed containers: an ill-typed item (or an item with an ill-typed key) is rejected *)
  Theorem typed_add_rejects enf d x : valid x = false ->
    step enf d (OAdd x) = (Err TypeErr, d).
  Proof. intro V. simpl. unfold add. now rewrite V. Qed.

  (* ================= set algebra on keys ================= *)
  (* Membership of an item is membership of its key when the flag is off, or
     when the items in question agree with the map on shared keys. *)
  Definition loose (e : bool) (m : dict) (xs : list item) : Prop :=
    e = false \/ forall x y, In x xs -> lookup (key x) m = Some y -> x = y.

  Lemma member_loose e m xs x : loose e m xs -> In x xs ->
    member e m (AItem x) = has (key x) m.
  Proof.
    intros L Hx. unfold Spec.member. rewrite has_lookup.
    destruct (lookup (key x) m) as [y|] eqn:E; auto. destruct L as [->|L]; auto.
    rewrite (L x y Hx E), ieqb_refl. apply orb_true_r.
  Qed.

  Lemma loose_incl e m xs ys : incl ys xs -> loose e m xs -> loose e m ys.
  Proof. intros H [L|L]; [now left|right]. intros x y Hx. apply L. now apply H. Qed.

  Lemma keys_vals d : Inv d -> keys d = map key (vals d).
  Proof. intro I. rewrite (inv_pairs d I) at 1. unfold pairs. now rewrite map_map. Qed.

  Lemma keys_filter (f : K * item -> bool) (g : K -> bool) (d : dict) :
    (forall e, In e d -> f e = g (fst e)) -> keys (filter f d) = filter g (keys d).
  Proof.
    induction d as [|e d IH]; simpl; intro H; auto.
    rewrite (H e) by auto. destruct (g (fst e)); simpl; rewrite IH; auto.
  Qed.

  Lemma keys_the_map_In xs k : In k (keys (the_map xs)) <-> In k (map key xs).
  Proof. rewrite the_map_put_all, keys_put_all_In. simpl. tauto. Qed.

  Lemma omap_keys enf d p eb b : Inv d -> omap enf d p = Ok (eb, b) ->
    forall k, In k (keys b) <-> In k (map key (oitems d p)).
  Proof.
    intros I. destruct p; simpl.
    - intro H. inversion H; subst. intro k. rewrite (keys_vals _ (inv_the_map xs)). tauto.
    - destruct (fresh enf xs) eqn:F; [|discriminate]. intro H. inversion H; subst.
      apply fresh_ok in F. destruct F as [-> _]. intro k. apply keys_the_map_In.
    - destruct (fresh enf xs) eqn:F; [|discriminate]. intro H. inversion H; subst.
      apply fresh_ok in F. destruct F as [-> _]. intro k. apply keys_the_map_In.
    - intro H. inversion H; subst. intro k. rewrite (keys_vals _ I). tauto.
  Qed.

  (* difference *)
  Lemma alg_sub eb d b : Inv d -> loose eb b (vals d) ->
    keys (filter (fun e => negb (member eb b (AItem (snd e)))) d)
    = filter (fun k => negb (has k b)) (keys d).
  Proof.
    intros I L. apply keys_filter. intros [k y] He. cbn [fst snd]. f_equal.
    rewrite (member_loose eb b (vals d)); auto.
    - now rewrite <- (inv_key d k y I He).
    - apply in_map_iff. exists (k, y); auto.
  Qed.

  (* intersection, in place *)
  Lemma alg_iand eb d b : Inv d -> loose eb b (vals d) ->
    keys (filter (fun e => member eb b (AItem (snd e))) d)
    = filter (fun k => has k b) (keys d).
  Proof.
    intros I L. apply keys_filter. intros [k y] He. cbn [fst snd].
    rewrite (member_loose eb b (vals d)); auto.
    - now rewrite <- (inv_key d k y I He).
    - apply in_map_iff. exists (k, y); auto.
  Qed.

  Lemma keys_fresh_filter enf (f : item -> bool) its r : fresh enf (filter f its) = Ok r ->
    forall k, In k (keys r) <-> exists x, In x its /\ key x = k /\ f x = true.
  Proof.
    intros F k. apply fresh_ok in F. destruct F as [-> _]. rewrite keys_the_map_In, in_map_iff.
    split; intros [x H]; exists x; rewrite filter_In in *; tauto.
  Qed.

  (* intersection *)
  Lemma alg_and enf d its r : loose enf d its ->
    fresh enf (filter (fun x => member enf d (AItem x)) its) = Ok r ->
    forall k, In k (keys r) <-> In k (keys d) /\ In k (map key its).
  Proof.
    intros L F k. rewrite (keys_fresh_filter _ _ _ _ F). split.
    - intros [x (Hx & <- & M)]. rewrite (member_loose _ _ _ _ L Hx) in M.
      split; [now apply has_In|now apply in_map].
    - intros [Hk Hi]. apply in_map_iff in Hi. destruct Hi as [x [<- Hx]].
      exists x. split; auto. split; auto.
      rewrite (member_loose _ _ _ _ L Hx). now apply has_In.
  Qed.

  Lemma alg_not_in enf d its r : loose enf d its ->
    fresh enf (filter (fun x => negb (member enf d (AItem x))) its) = Ok r ->
    forall k, In k (keys r) <-> In k (map key its) /\ ~ In k (keys d).
  Proof.
    intros L F k. rewrite (keys_fresh_filter _ _ _ _ F). split.
    - intros [x (Hx & <- & M)]. rewrite (member_loose _ _ _ _ L Hx) in M.
      apply negb_true_iff in M. split; [now apply in_map|]. intro H. apply has_In in H. congruence.
    - intros [Hi Hk]. apply in_map_iff in Hi. destruct Hi as [x [<- Hx]].
      exists x. split; auto. split; auto.
      rewrite (member_loose _ _ _ _ L Hx). apply negb_true_iff.
      destruct (has (key x) d) eqn:M; auto. apply has_In in M. contradiction.
  Qed.

  (* union *)
  Lemma alg_or enf d its r : Inv d -> fresh enf (vals d ++ its) = Ok r ->
    forall k, In k (keys r) <-> In k (keys d) \/ In k (map key its).
  Proof.
    intros I F k. apply fresh_ok in F. destruct F as [-> _].
    now rewrite keys_the_map_In, map_app, in_app_iff, <- keys_vals.
  Qed.

  (* reflected difference *)
  Lemma alg_rsub enf d p eb b r : Inv d -> omap enf d p = Ok (eb, b) ->
    loose enf d (oitems d p) -> spec_rsub enf d p = Ok r ->
    forall k, In k (keys r) <-> In k (keys b) /\ ~ In k (keys d).
  Proof.
    intros I O L. unfold Spec.spec_rsub. intros F k.
    pose proof (omap_keys _ _ _ _ _ I O k) as Kb.
    destruct p; simpl in *; try (rewrite (alg_not_in _ _ _ _ L F); tauto).
    destruct (fresh enf xs) as [b0|] eqn:Fx; [|discriminate]. inversion O; subst b0 eb.
    assert (Lb : loose enf d (vals b)).
    { eapply loose_incl; [|exact L]. intros x Hx. apply fresh_ok in Fx. destruct Fx as (-> & Ib & _).
      assert (Hk : In (key x) (keys (the_map xs))).
      { rewrite (keys_vals _ Ib). now apply in_map. }
      pose proof (inv_lookup_own _ x Ib Hx) as Lx.
      clear - Lx keqb_eq. revert Lx. rewrite the_map_put_all.
      assert (G : forall d0, (forall y, lookup (key x) d0 = Some y -> y = x -> In x xs \/ In x (vals d0)) ->
                  lookup (key x) (put_all xs d0) = Some x -> In x xs \/ In x (vals d0)).
      { induction xs as [|z xs IH]; simpl; intros d0 H0 Hl.
        - right. apply lookup_In in Hl. apply in_map_iff. exists (key x, x); auto.
        - destruct (IH (put (key z) z d0)) as [H|H]; auto.
          + intros y Hy Ey. subst y. right. apply lookup_In in Hy.
            apply in_map_iff. exists (key x, x); auto.
          + apply in_map_iff in H. destruct H as [[j w] [E Hw]]. simpl in E. subst w.
            unfold dict_set in Hw. destruct (has (key z) d0).
            * apply in_map_iff in Hw. destruct Hw as [[j' w'] [E Hq]]. simpl in E.
              destruct (keqb (key z) j'); inversion E; subst; auto.
              right. apply in_map_iff. exists (j, x); auto.
            * apply in_app_iff in Hw. destruct Hw as [Hw|[Hw|[]]].
              -- right. apply in_map_iff. exists (j, x); auto.
              -- inversion Hw; subst. auto. }
      intro Lx. destruct (G [] (fun y Hy _ => match lookup_In _ _ _ Hy with end) Lx) as [H|[]]. exact H. }
    rewrite (alg_not_in _ _ _ _ Lb F). rewrite <- (keys_vals b); [tauto|].
    apply fresh_ok in Fx. tauto.
  Qed.

  (* symmetric difference *)
  Lemma alg_xor enf d p eb b r : Inv d -> TInv d -> omap enf d p = Ok (eb, b) ->
    loose eb b (vals d) -> loose enf d (oitems d p) -> spec_xor enf d p = Ok r ->
    forall k, In k (keys r) <->
              (In k (keys d) /\ ~ In k (keys b)) \/ (In k (keys b) /\ ~ In k (keys d)).
  Proof.
    intros I T O Lb Ld. unfold Spec.spec_xor, Spec.spec_sub. rewrite O.
    set (A := filter (fun e => negb (member eb b (AItem (snd e)))) d).
    assert (IA : Inv A) by (now apply inv_filter).
    assert (KA : forall k, In k (keys A) <-> In k (keys d) /\ ~ In k (keys b)).
    { intro k. unfold A. rewrite alg_sub, filter_In by auto. rewrite negb_true_iff.
      split; intros [H1 H2]; split; auto.
      - intro H. apply has_In in H. congruence.
      - destruct (has k b) eqn:M; auto. apply has_In in M. contradiction. }
    destruct (match p with PKS _ xs => _ | _ => _ end) as [B|] eqn:EB; [|discriminate].
    assert (IB : Inv B /\ forall k, In k (keys B) <-> In k (keys b) /\ ~ In k (keys d)).
    { pose proof (omap_inv _ _ _ _ _ I T O) as Ib.
      destruct p; try (split; [apply (spec_rsub_ok _ _ _ _ EB)|eapply alg_rsub; eauto]).
      assert (EB' : B = filter (fun e => negb (member enf d (AItem (snd e)))) (the_map xs))
        by congruence.
      assert (Eb : b = the_map xs) by (simpl in O; congruence).
      clear EB. subst B. rewrite <- Eb in *. split; [now apply inv_filter|].
      assert (Ld' : loose enf d (vals b)) by (rewrite Eb; exact Ld).
      intro k. rewrite alg_sub, filter_In by auto. rewrite negb_true_iff.
      split; intros [H1 H2]; split; auto.
      - intro H. apply has_In in H. congruence.
      - destruct (has k d) eqn:M; auto. apply has_In in M. contradiction. }
    destruct IB as [IB KB]. intros F k. apply fresh_ok in F. destruct F as [-> _].
    rewrite keys_the_map_In, map_app, in_app_iff, <- !keys_vals by auto.
    now rewrite KA, KB.
  Qed.

  (* inclusion *)
  Lemma alg_subset e a b : Inv a -> loose e b (vals a) ->
    (subset e a b = true <-> incl (keys a) (keys b)).
  Proof.
    intros I L. unfold Spec.subset. rewrite forallb_forall, (keys_vals a I). split.
    - intros H k Hk. apply in_map_iff in Hk. destruct Hk as [x [<- Hx]].
      apply has_In. rewrite <- (member_loose _ _ _ _ L Hx). auto.
    - intros H x Hx. rewrite (member_loose _ _ _ _ L Hx). apply has_In. apply H. now apply in_map.
  Qed.

  Lemma alg_disjoint enf d its : loose enf d its ->
    (forallb (fun x => negb (member enf d (AItem x))) its = true <->
     forall k, In k (map key its) -> ~ In k (keys d)).
  Proof.
    intro L. rewrite forallb_forall. split.
    - intros H k Hk Hd. apply in_map_iff in Hk. destruct Hk as [x [<- Hx]].
      specialize (H x Hx). rewrite (member_loose _ _ _ _ L Hx) in H.
      apply has_In in Hd. rewrite Hd in H. discriminate.
    - intros H x Hx. rewrite (member_loose _ _ _ _ L Hx). apply negb_true_iff.
      destruct (has (key x) d) eqn:M; auto. apply has_In in M.
      exfalso. apply (H (key x)); auto. now apply in_map.
  Qed.

  (* == is equality of mappings *)
  Lemma alg_eq a b : Inv a -> Inv b ->
    (dict_eq keqb ieqb a b = true <-> forall k, lookup k a = lookup k b).
  Proof.
    intros [Na _] [Nb _]. unfold dict_eq. rewrite andb_true_iff, Nat.eqb_eq, forallb_forall. split.
    - intros [Len H] k.
      assert (Sub : forall j y, In (j, y) a -> lookup j b = Some y).
      { intros j y Hj. specialize (H _ Hj). simpl in H.
        destruct (lookup j b) as [z|]; [|discriminate]. apply ieqb_eq in H. congruence. }
      assert (Iab : incl (keys a) (keys b)).
      { intros j Hj. apply in_map_iff in Hj. destruct Hj as [[j' y] [<- Hy]].
        apply Sub in Hy. apply lookup_In in Hy. apply in_map_iff. exists (j', y); auto. }
      assert (Iba : incl (keys b) (keys a)).
      { apply (NoDup_length_incl Na); auto. rewrite !map_length. lia. }
      destruct (lookup k a) as [y|] eqn:La.
      + symmetry. apply Sub. now apply lookup_In.
      + symmetry. apply lookup_None. intro Hk. apply Iba in Hk. apply lookup_None in La. contradiction.
    - intro H. split.
      + assert (Iab : incl (keys a) (keys b)).
        { intros j Hj. apply has_In in Hj. apply has_In. rewrite has_lookup in *. now rewrite <- H. }
        assert (Iba : incl (keys b) (keys a)).
        { intros j Hj. apply has_In in Hj. apply has_In. rewrite has_lookup in *. now rewrite H. }
        pose proof (NoDup_incl_length Na Iab). pose proof (NoDup_incl_length Nb Iba).
        rewrite !map_length in *. lia.
      + intros [j y] Hj. simpl. rewrite <- H, (In_lookup _ _ _ Na Hj). apply ieqb_refl.
  Qed.

  (* |= *)
  Lemma spec_add_put enf d x m : spec_add enf d x = Ok m -> m = put (key x) x d.
  Proof.
    unfold Spec.spec_add. destruct (valid x); [|discriminate].
    destruct (lookup (key x) d) as [y|]; [destruct (enf && negb (ieqb y x)); [discriminate|]|];
      intro H; now inversion H.
  Qed.

  Lemma alg_ior enf xs : forall d r, add_all enf d xs = Ok r ->
    forall k, In k (keys r) <-> In k (keys d) \/ In k (map key xs).
  Proof.
    induction xs as [|x xs IH]; intros d r; simpl.
    - intro H. inversion H; subst. tauto.
    - destruct (spec_add enf d x) as [m|] eqn:A; [|discriminate].
      apply spec_add_put in A. subst m. intros H k. rewrite (IH _ _ H), keys_put.
      destruct (has (key x) d) eqn:M.
      + apply has_In in M. split; [tauto|]. intros [H1|[<-|H1]]; auto.
      + rewrite in_app_iff. simpl. tauto.
  Qed.

  (* -= *)
  Lemma alg_isub enf d its : Inv d -> loose enf d its ->
    keys (filter (fun e => negb (existsb (fun x => matches enf x e) its)) d)
    = filter (fun k => negb (existsb (fun x => keqb (key x) k) its)) (keys d).
  Proof.
    intros I L. apply keys_filter. intros [k y] He. cbn [fst]. f_equal.
    induction its as [|x its IH]; simpl; auto.
    rewrite IH by (eapply loose_incl; [|exact L]; intros z Hz; simpl; auto). f_equal.
    unfold Spec.matches. cbn [fst snd]. destruct (keqb (key x) k) eqn:E; auto. simpl.
    destruct L as [->|L]; auto. apply keqb_eq in E. subst k.
    rewrite (L x y); [now rewrite ieqb_refl, orb_true_r|simpl; auto|].
    apply In_lookup; auto. apply I.
  Qed.

  (* ================= the same laws, stated on the model's operations ================= *)
  Definition comparable (p : @operand item) : Prop :=
    match p with PList _ => False | _ => True end.

  Theorem reachable_inv enf xs d ops :
    from_iterable enf xs = Ok d -> Forall wf_op ops ->
    let d' := snd (run enf d ops) in
    NoDup (keys d') /\ Forall (fun p => fst p = key (snd p)) d' /\
    forallb valid (vals d') = true.
  Proof.
    intros C W. destruct (constructed_ok _ _ _ C) as [I T].
    destruct (run_refines enf ops d I T W) as (_ & [N F] & T' & _). auto.
  Qed.

  Theorem T_sub enf d p eb b : Inv d -> TInv d -> omap enf d p = Ok (eb, b) ->
    loose eb b (vals d) ->
    exists r, step enf d (OSub p) = (Ok (RNew r), d) /\
              keys r = filter (fun k => negb (has k b)) (keys d).
  Proof.
    intros I T O L. rewrite step_refines by (auto; exact Logic.I). simpl.
    unfold Spec.spec_sub. rewrite O. eexists. split; [reflexivity|]. now apply alg_sub.
  Qed.

  Theorem T_and enf d p r d' : Inv d -> TInv d -> loose enf d (oitems d p) ->
    (step enf d (OAnd p) = (Ok (RNew r), d') \/ step enf d (ORAnd p) = (Ok (RNew r), d')) ->
    forall k, In k (keys r) <-> In k (keys d) /\ In k (map key (oitems d p)).
  Proof.
    intros I T L H.
    assert (F : fresh enf (filter (fun x => member enf d (AItem x)) (oitems d p)) = Ok r).
    { destruct H as [H|H]; rewrite step_refines in H by (auto; exact Logic.I); simpl in H;
        destruct (fresh enf _); simpl in H; congruence. }
    eapply alg_and; eauto.
  Qed.

  Theorem T_or enf d p r d' : Inv d -> TInv d ->
    (step enf d (OOr p) = (Ok (RNew r), d') \/ step enf d (OROr p) = (Ok (RNew r), d')) ->
    forall k, In k (keys r) <-> In k (keys d) \/ In k (map key (oitems d p)).
  Proof.
    intros I T H.
    assert (F : fresh enf (vals d ++ oitems d p) = Ok r).
    { destruct H as [H|H]; rewrite step_refines in H by (auto; exact Logic.I); simpl in H;
        destruct (fresh enf _); simpl in H; congruence. }
    eapply alg_or; eauto.
  Qed.

  Theorem T_rsub enf d p eb b r d' : Inv d -> TInv d -> omap enf d p = Ok (eb, b) ->
    loose enf d (oitems d p) -> step enf d (ORSub p) = (Ok (RNew r), d') ->
    forall k, In k (keys r) <-> In k (keys b) /\ ~ In k (keys d).
  Proof.
    intros I T O L H. rewrite step_refines in H by (auto; exact Logic.I). simpl in H.
    destruct (spec_rsub enf d p) as [m|] eqn:F; simpl in H; [|discriminate].
    assert (m = r) by congruence. subst. eapply alg_rsub; eauto.
  Qed.

  Theorem T_xor enf d p eb b r d' : Inv d -> TInv d -> omap enf d p = Ok (eb, b) ->
    loose eb b (vals d) -> loose enf d (oitems d p) ->
    (step enf d (OXor p) = (Ok (RNew r), d') \/ step enf d (ORXor p) = (Ok (RNew r), d')) ->
    forall k, In k (keys r) <->
              (In k (keys d) /\ ~ In k (keys b)) \/ (In k (keys b) /\ ~ In k (keys d)).
  Proof.
    intros I T O Lb Ld H.
    assert (F : spec_xor enf d p = Ok r).
    { destruct H as [H|H]; rewrite step_refines in H by (auto; exact Logic.I); simpl in H;
        destruct (spec_xor enf d p); simpl in H; congruence. }
    eapply alg_xor; eauto.
  Qed.

  Lemma spec_cmp_value enf d p eb b f : comparable p -> omap enf d p = Ok (eb, b) ->
    spec_cmp key keqb ieqb valid enf d p f = Ok (RBool (f eb b)).
  Proof. intros C O. unfold spec_cmp. destruct p; try contradiction; now rewrite O. Qed.

  Theorem T_le enf d p eb b : Inv d -> TInv d -> comparable p -> omap enf d p = Ok (eb, b) ->
    loose eb b (vals d) ->
    exists t, step enf d (OLe p) = (Ok (RBool t), d) /\ (t = true <-> incl (keys d) (keys b)).
  Proof.
    intros I T C O L. rewrite step_refines by (auto; exact Logic.I). simpl.
    rewrite (spec_cmp_value _ _ _ _ _ _ C O). eexists. split; [reflexivity|]. now apply alg_subset.
  Qed.

  Theorem T_lt enf d p eb b : Inv d -> TInv d -> comparable p -> omap enf d p = Ok (eb, b) ->
    loose eb b (vals d) ->
    exists t, step enf d (OLt p) = (Ok (RBool t), d) /\
              (t = true <-> incl (keys d) (keys b) /\ (length d < length b)%nat).
  Proof.
    intros I T C O L. rewrite step_refines by (auto; exact Logic.I). simpl.
    rewrite (spec_cmp_value _ _ _ _ _ _ C O). eexists. split; [reflexivity|].
    rewrite andb_true_iff, (alg_subset _ _ _ I L). unfold zlen. split; intros [H1 H2]; split; auto; lia.
  Qed.

  Theorem T_ge enf d p eb b : Inv d -> TInv d -> comparable p -> omap enf d p = Ok (eb, b) ->
    loose enf d (vals b) ->
    exists t, step enf d (OGe p) = (Ok (RBool t), d) /\ (t = true <-> incl (keys b) (keys d)).
  Proof.
    intros I T C O L. rewrite step_refines by (auto; exact Logic.I). simpl.
    rewrite (spec_cmp_value _ _ _ _ _ _ C O). eexists. split; [reflexivity|].
    apply alg_subset; auto. eapply omap_inv; eauto.
  Qed.

  Theorem T_gt enf d p eb b : Inv d -> TInv d -> comparable p -> omap enf d p = Ok (eb, b) ->
    loose enf d (vals b) ->
    exists t, step enf d (OGt p) = (Ok (RBool t), d) /\
              (t = true <-> incl (keys b) (keys d) /\ (length b < length d)%nat).
  Proof.
    intros I T C O L. rewrite step_refines by (auto; exact Logic.I). simpl.
    rewrite (spec_cmp_value _ _ _ _ _ _ C O). eexists. split; [reflexivity|].
    rewrite andb_true_iff, (alg_subset enf b d (omap_inv _ _ _ _ _ I T O) L). unfold zlen.
    split; intros [H1 H2]; split; auto; lia.
  Qed.

  Theorem T_isdisjoint enf d p : Inv d -> TInv d -> loose enf d (oitems d p) ->
    exists t, step enf d (OIsDisjoint p) = (Ok (RBool t), d) /\
              (t = true <-> forall k, In k (map key (oitems d p)) -> ~ In k (keys d)).
  Proof.
    intros I T L. rewrite step_refines by (auto; exact Logic.I). simpl.
    eexists. split; [reflexivity|]. now apply alg_disjoint.
  Qed.

  Theorem T_eq enf d eb xs : Inv d -> TInv d ->
    exists t, step enf d (OEq (PKS eb xs)) = (Ok (RBool t), d) /\
              step enf d (ONe (PKS eb xs)) = (Ok (RBool (negb t)), d) /\
              (t = true <-> forall k, lookup k d = lookup k (the_map xs)).
  Proof.
    intros I T. eexists. split; [reflexivity|]. split; [reflexivity|].
    simpl. apply alg_eq; auto. apply inv_the_map.
  Qed.

  Theorem T_ior enf d p r o : Inv d -> TInv d -> step enf d (OIOr p) = (Ok o, r) ->
    o = RSelf /\ forall k, In k (keys r) <-> In k (keys d) \/ In k (map key (oitems d p)).
  Proof.
    intros I T H. rewrite step_refines in H by (auto; exact Logic.I). simpl in H.
    destruct (add_all enf d (oitems d p)) as [m|] eqn:A; simpl in H; [|discriminate].
    inversion H; subst. split; auto. eapply alg_ior; eauto.
  Qed.

  Theorem T_iand enf d p eb b : Inv d -> TInv d -> omap enf d p = Ok (eb, b) ->
    loose eb b (vals d) ->
    exists r, step enf d (OIAnd p) = (Ok RSelf, r) /\
              keys r = filter (fun k => has k b) (keys d).
  Proof.
    intros I T O L. rewrite step_refines by (auto; exact Logic.I). simpl. rewrite O. simpl.
    eexists. split; [reflexivity|]. now apply alg_iand.
  Qed.

  Theorem T_isub enf d p : Inv d -> TInv d -> loose enf d (oitems d p) ->
    exists r, step enf d (OISub p) = (Ok RSelf, r) /\
              keys r = filter (fun k => negb (existsb (fun x => keqb (key x) k) (oitems d p))) (keys d).
  Proof.
    intros I T L. rewrite step_refines by (auto; exact Logic.I). simpl.
    eexists. split; [reflexivity|]. now apply alg_isub.
  Qed.

  Theorem T_ixor enf d p eb b r o : Inv d -> TInv d -> omap enf d p = Ok (eb, b) ->
    loose eb b (vals d) -> loose enf d (oitems d p) -> p <> PSelf ->
    step enf d (OIXor p) = (Ok o, r) ->
    o = RSelf /\
    forall k, In k (keys r) <->
              (In k (keys d) /\ ~ In k (keys b)) \/ (In k (keys b) /\ ~ In k (keys d)).
  Proof.
    intros I T O Lb Ld Np H. rewrite step_refines in H by (auto; exact Logic.I). simpl in H.
    destruct p; try congruence;
      match type of H with context[spec_xor enf d ?q] => destruct (spec_xor enf d q) as [m|] eqn:X end;
      simpl in H; try discriminate; inversion H; subst; (split; [reflexivity|]);
      eapply alg_xor; eauto.
  Qed.

  Theorem T_ixor_self enf d : Inv d -> TInv d ->
    step enf d (OIXor PSelf) = (Ok RSelf, []) /\ step enf d (OISub PSelf) = (Ok RSelf, []).
  Proof.
    intros I T. split; simpl; unfold ixor, isub; now rewrite clear_spec.
  Qed.

  Theorem map_laws k k' x (d : dict) :
    lookup k' (put k x d) = (if keqb k' k then Some x else lookup k' d) /\
    lookup k' (drop k d) = (if keqb k' k then None else lookup k' d) /\
    keys (put k x d) = (if has k d then keys d else keys d ++ [k]) /\
    keys (drop k d) = filter (fun j => negb (keqb k j)) (keys d) /\
    has k d = (match lookup k d with Some _ => true | None => false end).
  Proof.
    split; [apply lookup_put|]. split; [apply lookup_drop|]. split; [apply keys_put|].
    split; [apply keys_drop|apply has_lookup].
  Qed.

End Proofs.
