(* proofs about the KeyedSet model: under construction *)
From SC Require Import KS.Model KS.Spec.
