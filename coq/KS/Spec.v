(* Specification of KeyedSet (property C14): an insertion-ordered finite map
   key -> most recently added item.  The state is an association list with
   the four map primitives lookup / has / put / drop (Model.dict_get,
   dict_mem, dict_set, dict_del; their map laws are proved in Proofs.v,
   section "map laws").  Everything below is stated directly on that map:
   no item-or-key probing, no loops of add/discard/pop, no construction of
   results through _from_iterable. *)
From Coq Require Import List ZArith Bool.
From SC Require Import Base.Res Base.PyList KS.Model.
Import ListNotations.
Open Scope Z_scope.

Section Spec.
  Context {item K : Type}.
  Variable key : item -> K.
  Variable keqb : K -> K -> bool.
  Variable ieqb : item -> item -> bool.
  Variable valid : item -> bool.
  Variable key_of_key : K -> option K.
  Variable hashable : item -> bool.

  Notation dict := (@dict item K).
  Notation arg := (@arg item K).
  Notation op := (@op item K).
  Notation out := (@out item K).
  Notation lookup := (@dict_get item K keqb).
  Notation has := (@dict_mem item K keqb).
  Notation put := (@dict_set item K keqb).
  Notation drop := (@dict_del item K keqb).
  Notation the_map := (@build item K key keqb).     (* items -> map: last item per key, first position *)

  (* an argument denotes a key: an item denotes its key, a key itself *)
  Definition denote (a : arg) : K :=
    match a with AItem x => key x | AKey k => k end.

  (* membership.  A key is a member when it is mapped.  An item is a member
     when its key is mapped and, with enforce_item_equivalence, the item
     stored there equals it. *)
  Definition member (enf : bool) (m : dict) (a : arg) : bool :=
    match a with
    | AKey k => has k m
    | AItem x => match lookup (key x) m with
                 | Some y => negb enf || ieqb x y
                 | None => false
                 end
    end.

  (* a failed lookup raises KeyError - or the key function's own TypeError
     when that function is not defined on bare keys (DESIGN section 7) *)
  Definition miss (a : arg) : err :=
    match a with
    | AItem _ => KeyErr
    | AKey k => match key_of_key k with Some _ => KeyErr | None => TypeErr end
    end.

  Definition spec_add (enf : bool) (m : dict) (x : item) : res dict :=
    if valid x then
      match lookup (key x) m with
      | Some y => if enf && negb (ieqb y x) then Err ValueErr else Ok (put (key x) x m)
      | None => Ok (put (key x) x m)
      end
    else Err TypeErr.

  (* m |= xs: add one by one; all or nothing *)
  Fixpoint add_all (enf : bool) (m : dict) (xs : list item) : res dict :=
    match xs with
    | [] => Ok m
    | x :: t => match spec_add enf m x with
                | Err e => Err e
                | Ok m' => add_all enf m' t
                end
    end.

  (* a new KeyedSet configured like the receiver and holding xs:
     with enforce_item_equivalence two items under one key must be equal
     (ValueError); every item that ends up stored must be well typed
     (TypeError) *)
  Definition consistent (xs : list item) : bool :=
    forallb (fun x => forallb (fun y => negb (keqb (key x) (key y)) || ieqb x y) xs) xs.
  Definition fresh (enf : bool) (xs : list item) : res dict :=
    if enf && negb (consistent xs) then Err ValueErr
    else if forallb valid (vals (the_map xs)) then Ok (the_map xs) else Err TypeErr.

  (* the other operand read as a map (flag, content) *)
  Definition omap (enf : bool) (m : dict) (p : operand) : res (bool * dict) :=
    match p with
    | PKS eb xs => Ok (eb, the_map xs)
    | PSelf => Ok (enf, m)
    | PSet xs | PList xs => match fresh enf xs with
                            | Err e => Err e
                            | Ok b => Ok (enf, b)
                            end
    end.
  Notation oitems := (@op_items item K key keqb).

  Definition subset (eb : bool) (m b : dict) : bool :=
    forallb (fun x => member eb b (AItem x)) (vals m).

  (* item x of an operand matches entry (k, y) *)
  Definition matches (enf : bool) (x : item) (e : K * item) : bool :=
    keqb (key x) (fst e) && (negb enf || ieqb x (snd e)).

  Definition spec_cmp (enf : bool) (m : dict) (p : operand)
             (f : bool -> dict -> bool) : res out :=
    match p with
    | PList _ => Err TypeErr                  (* an arbitrary iterable is not comparable *)
    | _ => match omap enf m p with
           | Err e => Err e
           | Ok (eb, b) => Ok (RBool (f eb b))
           end
    end.

  Definition spec_sub (enf : bool) (m : dict) (p : operand) : res dict :=
    match omap enf m p with
    | Err e => Err e
    | Ok (eb, b) => Ok (filter (fun e => negb (member eb b (AItem (snd e)))) m)
    end.

  Definition spec_rsub (enf : bool) (m : dict) (p : operand) : res dict :=
    match (match p with
           | PList xs => match fresh enf xs with Err e => Err e | Ok b => Ok (vals b) end
           | _ => Ok (oitems m p)
           end) with
    | Err e => Err e
    | Ok its => fresh enf (filter (fun x => negb (member enf m (AItem x))) its)
    end.

  Definition spec_xor (enf : bool) (m : dict) (p : operand) : res dict :=
    match spec_sub enf m p with
    | Err e => Err e
    | Ok a =>
        match (match p with
               | PKS _ xs => Ok (filter (fun e => negb (member enf m (AItem (snd e)))) (the_map xs))
               | _ => spec_rsub enf m p
               end) with
        | Err e => Err e
        | Ok b => fresh enf (vals a ++ vals b)
        end
    end.

  Definition new (r : res dict) : res out :=
    match r with Ok d => Ok (RNew d) | Err e => Err e end.
  Definition inplace (m : dict) (r : res dict) : res out * dict :=
    match r with Ok d => (Ok RSelf, d) | Err e => (Err e, m) end.

  Definition spec_step (enf : bool) (m : dict) (o : op) : res out * dict :=
    match o with
    | OAdd x => match spec_add enf m x with
                | Ok m' => (Ok RNone, m')
                | Err e => (Err e, m)
                end
    | ODiscard a => (Ok RNone, if member enf m a then drop (denote a) m else m)
    | ORemove a => if member enf m a then (Ok RNone, drop (denote a) m) else (Err KeyErr, m)
    | OPop => match m with
              | [] => (Err KeyErr, m)
              | (_, v) :: t => (Ok (RItem v), t)        (* the oldest entry *)
              end
    | OClear => (Ok RNone, [])
    | OContains a => (Ok (RBool (member enf m a)), m)
    | OGetItem a => (match lookup (denote a) m with
                     | Some y => Ok (RItem y)
                     | None => Err (miss a) end, m)
    | OGet k => (Ok (ROpt (lookup k m)), m)
    | OLen => (Ok (RInt (zlen m)), m)
    | OIter => (Ok (RItems (vals m)), m)
    | OKeys => (Ok (RKeys (map fst m)), m)
    | OItems => (Ok (RPairs m), m)
    (* == is mapping equality: same keys, equal items; against a built-in
       set: the same items (and False when a stored item is unhashable, as
       the code documents) *)
    | OEq p | ONe p =>
        let e := match p with
                 | PKS _ xs => dict_eq keqb ieqb m (the_map xs)
                 | PSelf => dict_eq keqb ieqb m m
                 | PSet xs => forallb hashable (vals m)     (* an unhashable item: never equal *)
                              && (forallb (fun v => existsb (fun y => ieqb v y) xs) (vals m)
                                  && forallb (fun y => existsb (fun v => ieqb v y) (vals m)) xs)
                 | PList _ => false
                 end in
        (Ok (RBool (match o with ONe _ => negb e | _ => e end)), m)
    | OLe p => (spec_cmp enf m p (fun eb b => subset eb m b), m)
    | OLt p => (spec_cmp enf m p (fun eb b => (zlen m <? zlen b) && subset eb m b), m)
    | OGe p => (spec_cmp enf m p (fun _ b => subset enf b m), m)
    | OGt p => (spec_cmp enf m p (fun _ b => (zlen m >? zlen b) && subset enf b m), m)
    | OIsDisjoint p =>
        (Ok (RBool (forallb (fun x => negb (member enf m (AItem x))) (oitems m p))), m)
    | OAnd p | ORAnd p =>
        (new (fresh enf (filter (fun x => member enf m (AItem x)) (oitems m p))), m)
    | OOr p | OROr p => (new (fresh enf (vals m ++ oitems m p)), m)
    | OSub p => (new (spec_sub enf m p), m)
    | ORSub p => (new (spec_rsub enf m p), m)
    | OXor p | ORXor p => (new (spec_xor enf m p), m)
    | OIOr p => inplace m (add_all enf m (oitems m p))
    | OIAnd p => inplace m (match omap enf m p with
                            | Err e => Err e
                            | Ok (eb, b) => Ok (filter (fun e => member eb b (AItem (snd e))) m)
                            end)
    | OISub p =>
        (Ok RSelf, filter (fun e => negb (existsb (fun x => matches enf x e) (oitems m p))) m)
    | OIXor p => match p with
                 | PSelf => (Ok RSelf, [])
                 | _ => inplace m (spec_xor enf m p)
                 end
    end.

  Fixpoint spec_run (enf : bool) (m : dict) (ops : list op) : list (res out) * dict :=
    match ops with
    | [] => ([], m)
    | o :: t => let '(r, m') := spec_step enf m o in
                let '(rs, m'') := spec_run enf m' t in (r :: rs, m'')
    end.
End Spec.
