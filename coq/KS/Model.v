(* Executable model of spec_classes/types/keyed.py:KeyedSet (one dict `_dict`,
   key -> item) and of the collections.abc Set / MutableSet mixins it inherits
   (CPython 3.12 _collections_abc.py), following the code branch by branch.
   Results of binary operators are built through KeyedSet._from_iterable
   (self._type(it, key=..., enforce_item_equivalence=...)).
   No proofs in this file. *)
From Coq Require Import List ZArith Bool.
From SC Require Import Base.Res Base.PyList.
Import ListNotations.
Open Scope Z_scope.

Section KS.
  Context {item K : Type}.
  Variable key : item -> K.                  (* KeyedBase.key on an item *)
  Variable keqb : K -> K -> bool.            (* == / hash on keys *)
  Variable ieqb : item -> item -> bool.      (* == on items *)
  Variable valid : item -> bool.             (* check_type(item) && check_type(key); true when untyped *)
  Variable as_key : item -> option K.        (* an item probed in the key dict: which key it is, if any
                                                (None: unhashable -> TypeError swallowed, or equal to no key) *)
  Variable as_item : K -> option item.       (* a bare key compared with items by ==: which item it is, if any *)
  Variable key_of_key : K -> option K.       (* KeyedBase.key applied to a bare key; None = TypeError *)
  Variable hashable : item -> bool.          (* hash(item) does not raise *)

  Definition dict := list (K * item).

  (* dict primitives: insertion ordered association list; d[k] = v on an
     existing key keeps the position (and the key object) *)
  Definition dict_mem (k : K) (d : dict) : bool :=
    existsb (fun p => keqb k (fst p)) d.
  Definition dict_get (k : K) (d : dict) : option item :=
    option_map snd (find (fun p => keqb k (fst p)) d).
  Definition dict_del (k : K) (d : dict) : dict :=
    filter (fun p => negb (keqb k (fst p))) d.
  Definition dict_set (k : K) (x : item) (d : dict) : dict :=
    if dict_mem k d
    then map (fun p => if keqb k (fst p) then (fst p, x) else p) d
    else d ++ [(k, x)].
  Definition dict_update (d staged : dict) : dict :=
    fold_left (fun acc p => dict_set (fst p) (snd p) acc) staged d.
  Definition vals (d : dict) : list item := map snd d.

  (* the argument of in / discard / remove / []: an item or a bare key *)
  Inductive arg := AItem (x : item) | AKey (k : K).
  (* `arg in self._dict` *)
  Definition probe (a : arg) : option K :=
    match a with AKey k => Some k | AItem x => as_key x end.
  (* `self.key(arg)` *)
  Definition keyf (a : arg) : option K :=
    match a with AItem x => Some (key x) | AKey k => key_of_key k end.
  (* `arg == stored` *)
  Definition aeq (a : arg) (y : item) : bool :=
    match a with
    | AItem x => ieqb x y
    | AKey k => match as_item k with Some x => ieqb x y | None => false end
    end.

  (* the other operand of a binary operator *)
  Inductive operand :=
  | PKS (eb : bool) (xs : list item)   (* an unparameterised KeyedSet(xs, key=same key, enforce_item_equivalence=eb) *)
  | PSet (xs : list item)              (* a built-in set; xs = its iteration order *)
  | PList (xs : list item)             (* any other iterable (a list) *)
  | PSelf.                             (* the receiver itself *)

  Inductive op :=
  | OAdd (x : item) | ODiscard (a : arg) | ORemove (a : arg) | OPop | OClear
  | OContains (a : arg) | OGetItem (a : arg) | OGet (k : K)
  | OLen | OIter | OKeys | OItems
  | OEq (p : operand) | ONe (p : operand)
  | OLe (p : operand) | OLt (p : operand) | OGe (p : operand) | OGt (p : operand)
  | OIsDisjoint (p : operand)
  | OAnd (p : operand) | OOr (p : operand) | OSub (p : operand) | OXor (p : operand)
  | ORAnd (p : operand) | OROr (p : operand) | ORSub (p : operand) | ORXor (p : operand)
  | OIOr (p : operand) | OIAnd (p : operand) | OISub (p : operand) | OIXor (p : operand).

  Inductive out :=
  | RNone | RItem (x : item) | RItems (xs : list item) | RBool (b : bool)
  | RInt (z : Z) | ROpt (o : option item) | RKeys (ks : list K)
  | RPairs (ps : dict) | RNew (d : dict) | RSelf.

  (* ---------------- KeyedSet's own methods ---------------- *)
  (* KeyedSet.__contains__ *)
  Definition contains (enf : bool) (d : dict) (a : arg) : bool :=
    (match probe a with Some k => dict_mem k d | None => false end)
    || match keyf a with
       | Some k => match dict_get k d with
                   | Some y => negb enf || aeq a y
                   | None => false
                   end
       | None => false
       end.

  (* KeyedSet.discard *)
  Definition discard_as_item (enf : bool) (d : dict) (a : arg) : dict :=
    match keyf a with
    | Some k => match dict_get k d with
                | Some y => if negb enf || aeq a y then dict_del k d else d
                | None => d
                end
    | None => d
    end.
  Definition discard (enf : bool) (d : dict) (a : arg) : dict :=
    match probe a with
    | Some k => if dict_mem k d then dict_del k d else discard_as_item enf d a
    | None => discard_as_item enf d a
    end.

  (* the equivalence test of KeyedSet.add / __ior__: `key in d and d[key] != value` *)
  Definition clashes (d : dict) (k : K) (x : item) : bool :=
    match dict_get k d with Some y => negb (ieqb y x) | None => false end.

  (* KeyedSet.add; add_untyped is add as executed inside __init__, where
     _type is still the bare class and nothing is type checked *)
  Definition add_untyped (enf : bool) (d : dict) (x : item) : res dict :=
    let k := key x in
    if enf && clashes d k x then Err ValueErr else Ok (dict_set k x d).
  Definition add (enf : bool) (d : dict) (x : item) : res dict :=
    if valid x then add_untyped enf d x else Err TypeErr.

  (* KeyedSet.__init__ loop *)
  Fixpoint construct_loop (enf : bool) (xs : list item) (d : dict) : res dict :=
    match xs with
    | [] => Ok d
    | x :: t => match add_untyped enf d x with
                | Err e => Err e
                | Ok d' => construct_loop enf t d'
                end
    end.
  (* an unparameterised KeyedSet(xs, key, enf) *)
  Definition construct_plain (enf : bool) (xs : list item) : res dict :=
    construct_loop enf xs [].
  (* self._from_iterable(xs) = self._type(xs, key=.., enforce..=enf): construction,
     then the __orig_class__ setter validates every stored item (BaseTypeError) *)
  Definition from_iterable (enf : bool) (xs : list item) : res dict :=
    match construct_plain enf xs with
    | Err e => Err e
    | Ok d => if forallb valid (vals d) then Ok d else Err TypeErr
    end.

  (* KeyedSet.__getitem__ *)
  Definition getitem (d : dict) (a : arg) : res item :=
    match (match probe a with Some k => dict_get k d | None => None end) with
    | Some y => Ok y
    | None => match keyf a with
              | None => Err TypeErr
              | Some k => match dict_get k d with
                          | Some y => Ok y
                          | None => Err KeyErr
                          end
              end
    end.

  (* dict == dict *)
  Definition dict_eq (a b : dict) : bool :=
    (length a =? length b)%nat
    && forallb (fun p => match dict_get (fst p) b with
                         | Some y => ieqb (snd p) y
                         | None => false end) a.
  (* set(values) == other (items hashable) *)
  Fixpoint dedup (l : list item) : list item :=
    match l with
    | [] => []
    | x :: t => if existsb (fun y => ieqb x y) t then dedup t else x :: dedup t
    end.
  Definition set_eq (vs xs : list item) : bool :=
    let s := dedup vs in
    (length s =? length xs)%nat && forallb (fun v => existsb (fun y => ieqb v y) xs) s.

  (* ---------------- operands ---------------- *)
  (* the content of a PKS operand (the harness builds it from items with
     pairwise different keys) *)
  Definition build (xs : list item) : dict :=
    fold_left (fun d x => dict_set (key x) x d) xs [].

  (* `for v in other` *)
  Definition op_items (d : dict) (p : operand) : list item :=
    match p with
    | PKS _ xs => vals (build xs)
    | PSet xs | PList xs => xs
    | PSelf => vals d
    end.

  (* an operand that is (or has been converted to) a KeyedSet: flag, content,
     and whether it carries the receiver's type parameters *)
  Inductive kview := KV (eb : bool) (o : dict) (like_self : bool).
  Definition kv_dict (v : kview) : dict := let 'KV _ o _ := v in o.
  Definition kv_contains (v : kview) (x : item) : bool :=
    let 'KV eb o _ := v in contains eb o (AItem x).
  Definition kv_from_iterable (v : kview) (xs : list item) : res dict :=
    let 'KV eb _ t := v in if t then from_iterable eb xs else construct_plain eb xs.

  (* KeyedSet._as_keyed followed by the mixins' own conversion of non-Set
     iterables: anything that is not a KeyedSet goes through _from_iterable *)
  Definition coerce (enf : bool) (d : dict) (p : operand) : res kview :=
    match p with
    | PKS eb xs => Ok (KV eb (build xs) false)
    | PSelf => Ok (KV enf d true)
    | PSet xs | PList xs =>
        match from_iterable enf xs with
        | Err e => Err e
        | Ok o => Ok (KV enf o true)
        end
    end.

  (* ---------------- Set mixins ---------------- *)
  Definition le_body (d : dict) (v : kview) : bool :=
    if zlen d >? zlen (kv_dict v) then false else forallb (kv_contains v) (vals d).
  Definition ge_body (enf : bool) (d : dict) (v : kview) : bool :=
    if zlen d <? zlen (kv_dict v) then false
    else forallb (fun x => contains enf d (AItem x)) (vals (kv_dict v)).

  (* comparisons: a list operand is not a Set: NotImplemented both ways -> TypeError *)
  Definition compare (enf : bool) (d : dict) (p : operand) (f : kview -> bool) : res out :=
    match p with
    | PList _ => Err TypeErr
    | _ => match coerce enf d p with
           | Err e => Err e
           | Ok v => Ok (RBool (f v))
           end
    end.

  Definition eq_body (d : dict) (p : operand) : bool :=
    match p with
    | PKS _ xs => dict_eq d (build xs)
    | PSelf => dict_eq d d
    | PSet xs => forallb hashable (vals d) && set_eq (vals d) xs   (* TypeError -> False *)
    | PList _ => false
    end.

  Definition isdisjoint (enf : bool) (d : dict) (p : operand) : bool :=
    forallb (fun x => negb (contains enf d (AItem x))) (op_items d p).

  Definition set_and (enf : bool) (d : dict) (p : operand) : res dict :=
    from_iterable enf (filter (fun x => contains enf d (AItem x)) (op_items d p)).

  Definition set_or (enf : bool) (d : dict) (p : operand) : res dict :=
    from_iterable enf (vals d ++ op_items d p).

  Definition set_sub (enf : bool) (d : dict) (p : operand) : res dict :=
    match coerce enf d p with
    | Err e => Err e
    | Ok v => from_iterable enf (filter (fun x => negb (kv_contains v x)) (vals d))
    end.

  (* Set.__rsub__: a non-Set operand is converted first *)
  Definition set_rsub (enf : bool) (d : dict) (p : operand) : res dict :=
    match (match p with
           | PList xs => match from_iterable enf xs with
                         | Err e => Err e | Ok o => Ok (vals o) end
           | _ => Ok (op_items d p)
           end) with
    | Err e => Err e
    | Ok its => from_iterable enf (filter (fun x => negb (contains enf d (AItem x))) its)
    end.

  (* `other - self` inside Set.__xor__: other's own __sub__ when it is a
     KeyedSet, the receiver's __rsub__ when it is a built-in set *)
  Definition other_minus_self (enf : bool) (d : dict) (p : operand) : res dict :=
    match p with
    | PKS eb xs =>
        construct_plain eb (filter (fun x => negb (contains enf d (AItem x))) (vals (build xs)))
    | _ => set_rsub enf d p
    end.

  (* Set.__xor__: (self - other) | (other - self) *)
  Definition set_xor (enf : bool) (d : dict) (p : operand) : res dict :=
    match set_sub enf d p with
    | Err e => Err e
    | Ok a => match other_minus_self enf d p with
              | Err e => Err e
              | Ok b => from_iterable enf (vals a ++ vals b)
              end
    end.

  (* ---------------- MutableSet mixins ---------------- *)
  Definition pop (enf : bool) (d : dict) : res out * dict :=
    match d with
    | [] => (Err KeyErr, d)
    | (_, v) :: _ => (Ok (RItem v), discard enf d (AItem v))
    end.

  (* MutableSet.clear: pop() until KeyError *)
  Fixpoint clear_loop (fuel : nat) (enf : bool) (d : dict) : res out * dict :=
    match fuel with
    | O => (Err Fuel, d)
    | S f => match pop enf d with
             | (Ok _, d') => clear_loop f enf d'
             | (Err KeyErr, d') => (Ok RNone, d')
             | (Err e, d') => (Err e, d')
             end
    end.
  Definition clear (enf : bool) (d : dict) : res out * dict :=
    clear_loop (S (length d)) enf d.

  (* KeyedSet.__ior__: stage, then commit *)
  Fixpoint ior_stage (enf : bool) (d : dict) (xs : list item) (staged : dict) : res dict :=
    match xs with
    | [] => Ok staged
    | x :: t =>
        if valid x then
          let k := key x in
          if enf && (clashes d k x || clashes staged k x) then Err ValueErr
          else ior_stage enf d t (dict_set k x staged)
        else Err TypeErr
    end.
  Definition ior (enf : bool) (d : dict) (p : operand) : res out * dict :=
    match ior_stage enf d (op_items d p) [] with
    | Err e => (Err e, d)
    | Ok staged => (Ok RSelf, dict_update d staged)
    end.

  Definition discard_all (enf : bool) (d : dict) (xs : list item) : dict :=
    fold_left (fun acc x => discard enf acc (AItem x)) xs d.

  (* MutableSet.__iand__: for value in (self - it): self.discard(value) *)
  Definition iand (enf : bool) (d : dict) (p : operand) : res out * dict :=
    match set_sub enf d p with
    | Err e => (Err e, d)
    | Ok a => (Ok RSelf, discard_all enf d (vals a))
    end.

  (* MutableSet.__isub__ *)
  Definition isub (enf : bool) (d : dict) (p : operand) : res out * dict :=
    match p with
    | PSelf => match clear enf d with
               | (Ok _, d') => (Ok RSelf, d')
               | (Err e, d') => (Err e, d')
               end
    | _ => (Ok RSelf, discard_all enf d (op_items d p))
    end.

  (* KeyedSet.__ixor__: result = self ^ it; then replace the content *)
  Definition ixor (enf : bool) (d : dict) (p : operand) : res out * dict :=
    match p with
    | PSelf => match clear enf d with
               | (Ok _, d') => (Ok RSelf, d')
               | (Err e, d') => (Err e, d')
               end
    | _ => match set_xor enf d p with
           | Err e => (Err e, d)
           | Ok r => (Ok RSelf, dict_update [] r)
           end
    end.

  Definition new (r : res dict) : res out :=
    match r with Ok d => Ok (RNew d) | Err e => Err e end.

  Definition step (enf : bool) (d : dict) (o : op) : res out * dict :=
    match o with
    | OAdd x => match add enf d x with
                | Ok d' => (Ok RNone, d')
                | Err e => (Err e, d)
                end
    | ODiscard a => (Ok RNone, discard enf d a)
    | ORemove a => if contains enf d a then (Ok RNone, discard enf d a) else (Err KeyErr, d)
    | OPop => pop enf d
    | OClear => clear enf d
    | OContains a => (Ok (RBool (contains enf d a)), d)
    | OGetItem a => (match getitem d a with Ok y => Ok (RItem y) | Err e => Err e end, d)
    | OGet k => (Ok (ROpt (dict_get k d)), d)
    | OLen => (Ok (RInt (zlen d)), d)
    | OIter => (Ok (RItems (vals d)), d)
    | OKeys => (Ok (RKeys (map fst d)), d)
    | OItems => (Ok (RPairs d), d)
    | OEq p => (Ok (RBool (eq_body d p)), d)
    | ONe p => (Ok (RBool (negb (eq_body d p))), d)
    | OLe p => (compare enf d p (le_body d), d)
    | OLt p => (compare enf d p (fun v => (zlen d <? zlen (kv_dict v)) && le_body d v), d)
    | OGe p => (compare enf d p (ge_body enf d), d)
    | OGt p => (compare enf d p (fun v => (zlen d >? zlen (kv_dict v)) && ge_body enf d v), d)
    | OIsDisjoint p => (Ok (RBool (isdisjoint enf d p)), d)
    | OAnd p | ORAnd p => (new (set_and enf d p), d)
    | OOr p | OROr p => (new (set_or enf d p), d)
    | OSub p => (new (set_sub enf d p), d)
    | ORSub p => (new (set_rsub enf d p), d)
    | OXor p | ORXor p => (new (set_xor enf d p), d)
    | OIOr p => ior enf d p
    | OIAnd p => iand enf d p
    | OISub p => isub enf d p
    | OIXor p => ixor enf d p
    end.

  Fixpoint run (enf : bool) (d : dict) (ops : list op) : list (res out) * dict :=
    match ops with
    | [] => ([], d)
    | o :: t => let '(r, d') := step enf d o in
                let '(rs, d'') := run enf d' t in (r :: rs, d'')
    end.

  (* ------------------------------------------------------------------ *)
  (* The code as it was before the fix: commits (regression evidence; see
     Props/C14.v *_refuted).  They suppress nothing. *)

  (* _from_iterable = cls(it): no key function, so every item is its own key;
     abstractly: the result is keyed by `key0` instead of `key` *)
  Definition old_from_iterable (key0 : item -> K) (xs : list item) : dict :=
    fold_left (fun d x => dict_set (key0 x) x d) xs [].

  (* MutableSet.__ior__: add one at a time *)
  Fixpoint old_ior (enf : bool) (d : dict) (xs : list item) : res out * dict :=
    match xs with
    | [] => (Ok RSelf, d)
    | x :: t => match add enf d x with
                | Err e => (Err e, d)
                | Ok d' => old_ior enf d' t
                end
    end.

  (* Set.__sub__ against a built-in set: `value not in other` is item equality *)
  Definition old_sub_pyset (enf : bool) (d : dict) (xs : list item) : res dict :=
    from_iterable enf (filter (fun x => negb (existsb (fun y => ieqb x y) xs)) (vals d)).

  (* KeyedSet.__getitem__ before the fix: an unhashable argument raised in the
     first probe *)
  Definition old_getitem (hashable : arg -> bool) (d : dict) (a : arg) : res item :=
    if hashable a then getitem d a else Err TypeErr.
End KS.

Arguments AItem {item K} x.
Arguments AKey {item K} k.
Arguments PKS {item} eb xs.
Arguments PSet {item} xs.
Arguments PList {item} xs.
Arguments PSelf {item}.
