(* Reachability in the object heap, and what a frame guarantees about the
   object graph hanging off pre-existing roots. *)
From Coq Require Import List ZArith Bool Arith Lia.
From SC Require Import Base.Res Inst.Heap Inst.Framed.
Import ListNotations.
Open Scope nat_scope.

Definition vrefs (vs : list val) : list loc :=
  flat_map (fun v => match v with VRef l => [l] | _ => [] end) vs.

Definition refs_of (o : obj) : list loc :=
  match o with
  | OList xs | OSet xs => vrefs xs
  | ODict kvs => vrefs (map fst kvs) ++ vrefs (map snd kvs)
  | OInst _ d => vrefs (map snd d)
  end.

Inductive reach (h : list obj) (l0 : loc) : loc -> Prop :=
| reach_root : reach h l0 l0
| reach_step l o l' : reach h l0 l -> nth_error h l = Some o -> In l' (refs_of o) -> reach h l0 l'.

(* no dangling references *)
Definition wf_heap (h : list obj) : Prop :=
  forall l o l', nth_error h l = Some o -> In l' (refs_of o) -> l' < length h.

Lemma reach_in_bounds h l0 l : wf_heap h -> l0 < length h -> reach h l0 l -> l < length h.
Proof. intros W H0 R. induction R; eauto. Qed.

(* every object reachable from a pre-existing root is itself pre-existing,
   is unchanged by a framed computation, and the reachable set is the same *)
Theorem frame_preserves_reachable_graph s s' l0 :
  wf_heap (heap s) -> l0 < length (heap s) ->
  frame (length (heap s)) s s' ->
  (forall l, reach (heap s) l0 l -> reach (heap s') l0 l /\ nth_error (heap s') l = nth_error (heap s) l) /\
  (forall l, reach (heap s') l0 l -> reach (heap s) l0 l).
Proof.
  intros W H0 [_ F]. split.
  - intros l R. induction R as [|l o l' R [IH1 IH2] Hn Hin].
    + split; [constructor|]. apply F. exact H0.
    + assert (Hl' : l' < length (heap s)) by (eapply W; eauto).
      split; [|apply F; exact Hl'].
      eapply reach_step; [exact IH1| |exact Hin]. rewrite IH2. exact Hn.
  - intros l R. induction R as [|l o l' R IH Hn Hin]; [constructor|].
    assert (Hl : l < length (heap s)) by (eapply reach_in_bounds; eauto).
    rewrite (F l Hl) in Hn. eapply reach_step; eauto.
Qed.
