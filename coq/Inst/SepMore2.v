(* C08 (extension): the final-heap form of "del / reset_<a>(_inplace=True) install a fresh
   default".  After `del obj.a` (and `obj.reset_a(_inplace=True)`) on an attribute WITH a
   default (mutable literal, factory, override) that nothing is invalidated by, the receiver's
   cell holds `a := v` where v is not a sentinel, v is a scalar or a reference to a cell
   allocated by the call, everything reachable from v IN THE FINAL HEAP was allocated by the
   call (so it is neither the class-level default object nor shares a cell with it or with
   anything else that existed before), every other attribute of the receiver is as before and no
   other pre-existing cell was written.

   Shape of the proof: __delattr__ = lookup_default_value ; prepare_attr_value (both only
   allocate: the separation judgement of SepProofs.v with no writable old cell) ; mutate_attr
   in place, which with nothing to invalidate is the single write raw_setattr (computed
   exactly). *)
From Coq Require Import List ZArith Bool Arith Lia.
From SC Require Import Base.Res Base.PyList Inst.Heap Inst.ClassTable Inst.Model Inst.Framed
  Inst.FrameProofs Inst.Reach Inst.FrozenProofs Inst.AtomicProofs Inst.SepProofs Inst.SepMore.
Import ListNotations.
Open Scope nat_scope.

#[local] Opaque FUEL.

Lemma exec_del_unfold ct l a force skip :
  exec ct XFUEL (KDelAttr l a force skip) = delattr_ ct (exec ct 39) l a force skip.
Proof. reflexivity. Qed.
Lemma exec_set_unfold ct l a v force skip :
  exec ct XFUEL (KSetAttr l a v force skip) = setattr_ ct (exec ct 39) l a v force skip.
Proof. reflexivity. Qed.

Lemma assoc_set_get {A} a (v : A) d : assoc a (assoc_set a v d) = Some v.
Proof.
  unfold assoc, assoc_set. destruct (existsb (fun p : nat * A => fst p =? a) d) eqn:E.
  - induction d as [|[x y] d IH]; simpl in *; [discriminate|].
    destruct (x =? a) eqn:E2; simpl.
    + rewrite Nat.eqb_refl. reflexivity.
    + rewrite E2. apply IH. exact E.
  - induction d as [|[x y] d IH]; simpl in *.
    + rewrite Nat.eqb_refl. reflexivity.
    + apply orb_false_iff in E. destruct E as [E1 E2]. rewrite E1. apply IH. exact E2.
Qed.

Definition upd (s : state) (l : loc) (o : obj) : state :=
  mkst (set_nth l o (heap s)) (ncalls s) (fail_at s).

Section InplaceRun.
  Variable ct : ctable.
  Variable rec : call -> M val.
  Local Opaque check_type.

  Lemma raw_setattr_run l a v s c d :
    nth_error (heap s) l = Some (OInst c d) ->
    raw_setattr l a v s = (Ok tt, upd s l (OInst c (assoc_set a v d))).
  Proof.
    intro H. unfold raw_setattr. rewrite (bind_ok _ _ _ _ _ (read_inst_at l s c d H)). cbn [fst snd].
    unfold write. assert (l <? length (heap s) = true) as ->; [|reflexivity].
    apply Nat.ltb_lt. apply nth_error_Some. congruence.
  Qed.

  (* mutate_attr(obj, a, v, inplace=True) when the frozen guard lets the write through and nothing
     is invalidated by a: a single write *)
  Lemma mutate_attr_inplace_exact l a v tc force skip s c d k r s' :
    nth_error (heap s) l = Some (OInst c d) -> lookup_cls ct c = Some k -> c_dnc k = false ->
    is_sentinel v = false -> no_dependants k a ->
    mutate_attr ct rec l a v true tc force skip s = (Ok r, s') ->
    r = VRef l /\ s' = upd s l (OInst c (assoc_set a v d)).
  Proof.
    intros Hl Hc Hdnc Hv Hnd. unfold mutate_attr. rewrite Hv.
    rewrite (bind_ok _ _ _ _ _ (read_inst_at l s c d Hl)). cbn [fst snd].
    rewrite (bind_ok _ _ _ _ _ (cls_of_at ct s c k Hc)).
    destruct (negb (force || initializing d) && true && c_frozen k).
    { rewrite bind_err with (e := FrozenErr) (s1 := s) by reflexivity. discriminate. }
    rewrite bind_ret_l'.
    destruct (type_check_cases ct k a v tc s) as [E|E]; cbv zeta in E.
    2:{ rewrite (bind_err _ _ _ _ _ E). discriminate. }
    rewrite (bind_ok _ _ _ _ _ E). cbv zeta. rewrite Hdnc. cbn [orb negb andb]. rewrite !bind_ret_l'.
    intro H. apply bind_inv in H. destruct H as (u & s1 & H1 & H2). inversion H2; subst r s'. clear H2.
    split; [reflexivity|].
    rewrite (thawed_nothaw_eq ct l _ s c d k Hl Hc) in H1.
    rewrite (bind_ok _ _ _ _ _ (raw_setattr_run l a v s c d Hl)) in H1.
    assert (Hl' : nth_error (heap (upd s l (OInst c (assoc_set a v d)))) l = Some (OInst c (assoc_set a v d))).
    { unfold upd. simpl. apply nth_error_set_nth_same. apply nth_error_Some. congruence. }
    destruct skip.
    - inversion H1; reflexivity.
    - rewrite (invalidate_noop ct rec l a _ c _ k Hl' Hc Hnd) in H1. inversion H1; reflexivity.
  Qed.
End InplaceRun.

(* in the final heap: everything reachable from a cell allocated by the call was allocated by the call *)
Lemma reach_above b A h0 s1 (s' : state) l lv :
  sinv b A NoW h0 s1 -> (forall x, ~ A x) -> l < b ->
  (forall l', l' <> l -> nth_error (heap s') l' = nth_error (heap s1) l') ->
  b <= lv -> forall l', reach (heap s') lv l' -> b <= l'.
Proof.
  intros (L & Old & Cl) HA Hl Hsame Hlv l' R. induction R as [|x o y R IH Hn Hin]; auto.
  assert (Hx : x <> l) by lia. rewrite (Hsame x Hx) in Hn.
  destruct (obj_ok_refs b A o y (Cl x o IH Hn) Hin) as [H|H]; [exact H|]. exfalso. eapply HA; eauto.
Qed.

Section ResetFresh.
  Variable ct : ctable.
  Hypothesis no_dnc : forall c k, lookup_cls ct c = Some k -> c_dnc k = false.
  Hypothesis Hscalar : scalar_table ct.
  Hypothesis Hg : tgb ct = true.
  (* no do_not_copy attribute in the table *)
  Hypothesis no_dnc_attr : forall k sp, In k ct -> In sp (c_attrs k) -> a_dnc sp = false.

  Lemma no_dnc_value h x : ~ dnc_value ct h x.
  Proof.
    intros (li & c & d & k & a & sp & H1 & H2 & H3 & H4 & H5).
    destruct (lookup_cls_In _ _ _ H2) as [Hk _]. destruct (lookup_attr_In _ _ _ H4) as [Hsp _].
    rewrite (no_dnc_attr k sp Hk Hsp) in H5. discriminate.
  Qed.

  Local Opaque exec.

  Theorem del_final_heap s l a c d k sp r s' :
    nth_error (heap s) l = Some (OInst c d) -> lookup_cls ct c = Some k -> lookup_attr k a = Some sp ->
    (c_frozen k = false \/ initializing d = true) ->
    has_default k sp = true -> no_dependants k a ->
    exec ct XFUEL (KDelAttr l a false false) s = (Ok r, s') ->
    exists v,
      nth_error (heap s') l = Some (OInst c (assoc_set a v d)) /\
      is_sentinel v = false /\ freshv (length (heap s)) v /\
      (forall lv l', v = VRef lv -> reach (heap s') lv l' -> length (heap s) <= l') /\
      (forall l', l' < length (heap s) -> l' <> l -> nth_error (heap s') l' = nth_error (heap s) l').
  Proof.
    intros Hl Hc Ha Hfz Hdef Hnd Hrun. rewrite exec_del_unfold in Hrun.
    set (rec := exec ct 39) in *.
    assert (Hkj := exec_kj ct 39). fold rec in Hkj.
    unfold delattr_ in Hrun.
    rewrite (bind_ok _ _ _ _ _ (read_inst_at l s c d Hl)) in Hrun. cbn [fst snd] in Hrun.
    rewrite (bind_ok _ _ _ _ _ (cls_of_at ct s c k Hc)) in Hrun.
    rewrite bind_ok with (a := tt) (s1 := s) in Hrun.
    2:{ destruct Hfz as [H|H]; rewrite H; cbn [orb negb andb]; [destruct (initializing d)|]; reflexivity. }
    change (if false then None else lookup_attr k a) with (lookup_attr k a) in Hrun. rewrite Ha in Hrun.
    apply bind_inv in Hrun. destruct Hrun as (dv & s0 & H1 & H2).
    (* the default: not MISSING, not UNCHANGED *)
    destruct (lookup_cls_In _ _ _ Hc) as [Hkin _]. destruct (lookup_attr_In _ _ _ Ha) as [Hspin _].
    destruct (lookup_default_value_kv ct rec Hkj sp k s) as [_ Q]. rewrite H1 in Q. simpl in Q.
    destruct Q as [Qm Qn]. specialize (Qm Hdef). specialize (Qn Hg (ex_intro _ c Hc) Hspin).
    rewrite Qm in H2. apply bind_inv in H2. destruct H2 as (v & s1 & H3 & H4).
    (* the prepared value is not a sentinel *)
    destruct (prepare_attr_value_kv ct rec Hkj sp l dv None s0) as [_ Q2]. rewrite H3 in Q2. simpl in Q2.
    assert (Hns : ns v) by (apply Q2; [exact Qn|eapply tgb_spec; eauto]).
    (* separation: both steps only allocate *)
    set (h0 := heap s). set (b := length h0). set (A := reach_from h0 (dnc_value ct h0)).
    assert (AC : A_closed b A NoW h0) by apply reach_from_closed.
    assert (Tok : table_ok ct b A) by (apply scalar_table_ok; exact Hscalar).
    assert (Adnc : dnc_allowed ct b A h0) by (apply reach_from_dnc; auto).
    assert (HA : forall x, ~ A x) by (intros x [l0 [H0 _]]; exact (no_dnc_value _ _ H0)).
    destruct (exec_sep ct no_dnc (fun c0 k0 => tgb_owner ct c0 k0 Hg) b A NoW h0 AC Tok Adnc 39) as [E1 _].
    fold rec in E1.
    assert (Hspok : spec_ok b A sp) by (eapply lookup_attr_ok; eauto).
    destruct (lookup_default_value_sep ct no_dnc b A NoW h0 AC Tok Adnc rec E1 sp k Hspok s
                (sinv_start h0 A NoW s eq_refl)) as [I0 F0].
    rewrite H1 in I0, F0. simpl in I0, F0.
    destruct (prepare_attr_value_sep ct b A NoW h0 AC rec E1 sp l dv None Hspok (freshv_okv b A dv F0) I s0 I0)
      as [I1 F1].
    rewrite H3 in I1, F1. simpl in I1, F1.
    assert (Hlb : l < b) by (apply nth_error_Some; unfold h0; congruence).
    assert (Hl1 : nth_error (heap s1) l = Some (OInst c d)).
    { destruct I1 as (_ & Old & _). destruct (Old l Hlb) as [[]|E]. rewrite E. exact Hl. }
    destruct (mutate_attr_inplace_exact ct rec l a v true true false s1 c d k r s' Hl1 Hc (no_dnc c k Hc)
                Hns Hnd H4) as [-> ->].
    assert (Hlen1 : l < length (heap s1)) by (apply nth_error_Some; congruence).
    exists v. split; [unfold upd; simpl; now apply nth_error_set_nth_same|]. split; [exact Hns|].
    assert (Hfresh : freshv b v).
    { destruct v; simpl; auto. destruct F1 as [F1|F1]; [exact F1|]. exfalso. eapply HA; eauto. }
    split; [exact Hfresh|]. split.
    - intros lv l' -> R. eapply (reach_above b A h0 s1 (upd s1 l (OInst c (assoc_set a (VRef lv) d))) l lv); eauto.
      intros x Hx. unfold upd. simpl. apply set_nth_other. auto.
    - intros l' Hl' Hne. unfold upd. simpl. rewrite set_nth_other by auto.
      destruct I1 as (_ & Old & _). destruct (Old l' Hl') as [[]|E]. exact E.
  Qed.

  (* reset_<a>(_inplace=True) is that deletion *)
  Lemma reset_inplace_is_del l a h s r s' :
    h_inplace h = true -> h_if h = true ->
    run_helper ct l (HReset a) h s = (Ok r, s') ->
    r = VRef l /\ exists r0, exec ct XFUEL (KDelAttr l a false false) s = (Ok r0, s').
  Proof.
    intros Hi Hif. unfold run_helper. rewrite Hif, Hi. cbn [negb]. rewrite bind_ret_l'. cbn [negb].
    intro H. apply bind_inv in H. destruct H as (u & s1 & H1 & H2). inversion H2; subst r s1. clear H2.
    split; [reflexivity|]. unfold thawed in H1.
    apply bind_inv in H1. destruct H1 as (o & s2 & Hr & H1).
    unfold read in Hr. destruct (nth_error (heap s) l) as [o'|]; [|discriminate]. inversion Hr; subst o' s2. clear Hr.
    destruct o as [| | |c0 d0]; eauto.
    apply bind_inv in H1. destruct H1 as (k0 & s3 & Hk & H1).
    unfold cls_of in Hk. destruct (lookup_cls ct c0); [|discriminate]. inversion Hk; subst. eauto.
  Qed.

  Theorem reset_inplace_final_heap s l a c d k sp h r s' :
    nth_error (heap s) l = Some (OInst c d) -> lookup_cls ct c = Some k -> lookup_attr k a = Some sp ->
    (c_frozen k = false \/ initializing d = true) ->
    has_default k sp = true -> no_dependants k a ->
    h_inplace h = true -> h_if h = true ->
    run_helper ct l (HReset a) h s = (Ok r, s') ->
    r = VRef l /\
    exists v,
      nth_error (heap s') l = Some (OInst c (assoc_set a v d)) /\
      is_sentinel v = false /\ freshv (length (heap s)) v /\
      (forall lv l', v = VRef lv -> reach (heap s') lv l' -> length (heap s) <= l') /\
      (forall l', l' < length (heap s) -> l' <> l -> nth_error (heap s') l' = nth_error (heap s) l').
  Proof.
    intros Hl Hc Ha Hfz Hdef Hnd Hi Hif Hrun.
    destruct (reset_inplace_is_del l a h s r s' Hi Hif Hrun) as [-> [r0 Hdel]].
    split; [reflexivity|]. eapply del_final_heap; eauto.
  Qed.
End ResetFresh.
