(* Executable model of the instance-level machinery of spec-classes:
   utils/mutation.py (protect_via_deepcopy, mutate_attr, invalidate_attrs,
   mutate_value, prepare_attr_value), methods/core.py (__init__, __setattr__,
   __delattr__, __deepcopy__), methods/scalar.py, methods/toplevel.py,
   collections/{base,sequences,mappings,sets}.py and
   methods/collections/*.py.  Each Gallina function keeps the name of the
   Python function it transliterates.  No proofs in this file. *)
From Coq Require Import List ZArith Bool Arith.
From SC Require Import Base.Res Base.PyList Inst.Heap Inst.ClassTable.
Import ListNotations.
Open Scope nat_scope.

(* ------------------------------------------------------------------ *)
(** * Pure observations of the heap *)

Definition heap_t := list obj.

Definition val_is_scalar (v : val) : bool :=   (* bool,int,float,str,bytes,type,module *)
  match v with
  | VBool _ | VInt _ | VStr _ | VAtom _ | VMissing | VEmpty | VUnchanged => true
  | _ => false
  end.

(* Python == on values; instances compare through the generated __eq__
   (class test + all attributes, see EqRepr for the full treatment) *)
Fixpoint val_eqb (fuel : nat) (ct : ctable) (h : heap_t) (a b : val) : bool :=
  match val_atom_eqb a b with
  | Some r => r
  | None =>
      match fuel, a, b with
      | S f, VRef la, VRef lb =>
          if la =? lb then true else
          match nth_error h la, nth_error h lb with
          | Some (OList xs), Some (OList ys) => list_eqb (val_eqb f ct h) xs ys
          | Some (ODict xs), Some (ODict ys) =>
              (length xs =? length ys) &&
              forallb (fun p => existsb (fun q => val_eqb f ct h (fst p) (fst q)
                                                  && val_eqb f ct h (snd p) (snd q)) ys) xs
          | Some (OSet xs), Some (OSet ys) =>
              (length xs =? length ys) &&
              forallb (fun x => existsb (fun y => val_eqb f ct h x y) ys) xs
          | Some (OInst ca da), Some (OInst cb db) =>
              is_subclass ct cb ca &&
              match lookup_cls ct ca with
              | Some k =>
                  forallb (fun sp =>
                    match assoc (a_name sp) da, assoc (a_name sp) db with
                    | Some x, Some y => val_eqb f ct h x y
                    | None, None => true
                    | _, _ => false
                    end) (c_attrs k)
              | None => false
              end
          | _, _ => false
          end
      | _, _, _ => false
      end
  end.

Fixpoint check_type (fuel : nat) (ct : ctable) (h : heap_t) (v : val) (t : ty) : bool :=
  match fuel with
  | O => false
  | S f =>
    match t with
    | TAny => true
    | TInt => match v with VInt _ | VBool _ => true | _ => false end
    | TBool => match v with VBool _ => true | _ => false end
    | TStr => match v with VStr _ => true | _ => false end
    | TNoneT => match v with VNone => true | _ => false end
    | TOpt t' => match v with VNone => true | _ => check_type f ct h v t' end
    | TUnion a b => check_type f ct h v a || check_type f ct h v b
    | TList t' =>
        match v with
        | VRef l => match nth_error h l with
                    | Some (OList xs) => forallb (fun x => check_type f ct h x t') xs
                    | _ => false end
        | _ => false end
    | TSet t' =>
        match v with
        | VRef l => match nth_error h l with
                    | Some (OSet xs) => forallb (fun x => check_type f ct h x t') xs
                    | _ => false end
        | _ => false end
    | TDict tk tv =>
        match v with
        | VRef l => match nth_error h l with
                    | Some (ODict kvs) =>
                        forallb (fun p => check_type f ct h (fst p) tk && check_type f ct h (snd p) tv) kvs
                    | _ => false end
        | _ => false end
    | TSpec c =>
        match v with
        | VRef l => match nth_error h l with
                    | Some (OInst c' _) => is_subclass ct c' c
                    | _ => false end
        | _ => false end
    end
  end.

(* check_type({}, t) *)
Fixpoint accepts_empty_dict (t : ty) : bool :=
  match t with
  | TAny | TDict _ _ => true
  | TOpt t' => accepts_empty_dict t'
  | TUnion a b => accepts_empty_dict a || accepts_empty_dict b
  | _ => false
  end.

Definition FUEL : nat := 64.

Definition get_heap : M heap_t := fun s => (Ok (heap s), s).
Definition check_typeM (ct : ctable) (v : val) (t : ty) : M bool :=
  h <- get_heap ;; ret (check_type FUEL ct h v t).
Definition val_eqM (ct : ctable) (a b : val) : M bool :=
  h <- get_heap ;; ret (val_eqb FUEL ct h a b).

Definition hashable (v : val) : bool :=
  match v with VRef _ => false | _ => true end.

(* ------------------------------------------------------------------ *)
(** * User callbacks *)

Definition apply_fn (f : fn) (v : val) : M val :=
  tick ;;;
  match f with
  | FId => ret v
  | FAddInt z => match v with
                 | VInt x => ret (VInt (x + z)%Z)
                 | VBool b => ret (VInt ((if b then 1 else 0) + z)%Z)
                 | _ => fail TypeErr end
  | FConst c => match c with VRef _ => fail RuntimeErr | _ => ret c end   (* scalars only *)
  | FNewList xs => l <- alloc (OList xs) ;; ret (VRef l)
  | FAppended x =>
      match v with
      | VRef l => o <- read l ;;
                  match o with
                  | OList ys => l' <- alloc (OList (ys ++ [x])) ;; ret (VRef l')
                  | _ => fail TypeErr end
      | _ => fail TypeErr end
  | FDictOf k x => l <- alloc (ODict [(VStr k, x)]) ;; ret (VRef l)
  | FRaise => fail UserErr
  end.

(* ------------------------------------------------------------------ *)
(** * copy.deepcopy and DeepCopyMethod.deepcopy *)

Definition memo_t := list (loc * loc).

Section DeepCopy.
  Variable ct : ctable.

  Fixpoint dc (fuel : nat) (v : val) (memo : memo_t) : M (val * memo_t) :=
    match fuel with
    | O => fail Fuel
    | S f =>
      match v with
      | VRef l =>
        match assoc l memo with
        | Some l' => ret (VRef l', memo)
        | None =>
          o <- read l ;;
          match o with
          | OList xs =>
              l' <- alloc (OList []) ;;
              memo' <- foldM (fun m x =>
                                r <- dc f x m ;;
                                o' <- read l' ;;
                                match o' with
                                | OList ys => write l' (OList (ys ++ [fst r])) ;;; ret (snd r)
                                | _ => fail RuntimeErr end)
                             xs ((l, l') :: memo) ;;
              ret (VRef l', memo')
          | ODict kvs =>
              l' <- alloc (ODict []) ;;
              memo' <- foldM (fun m p =>
                                rk <- dc f (fst p) m ;;
                                rv <- dc f (snd p) (snd rk) ;;
                                o' <- read l' ;;
                                match o' with
                                | ODict ys => write l' (ODict (ys ++ [(fst rk, fst rv)])) ;;; ret (snd rv)
                                | _ => fail RuntimeErr end)
                             kvs ((l, l') :: memo) ;;
              ret (VRef l', memo')
          | OSet xs =>
              (* reconstructed from the copied elements; memoised afterwards *)
              r <- foldM (fun acc x => r <- dc f x (snd acc) ;; ret (fst acc ++ [fst r], snd r))
                         xs ([], memo) ;;
              l' <- alloc (OSet (fst r)) ;;
              ret (VRef l', (l, l') :: snd r)
          | OInst c d =>
              match lookup_cls ct c with
              | None => fail RuntimeErr
              | Some k =>
                  if c_dnc k then ret (VRef l, memo)
                  else
                    new <- alloc (OInst c []) ;;
                    memo' <- foldM (fun m p =>
                               let '(a, x) := p in
                               r <- (match lookup_attr k a with
                                     | Some sp => if a_dnc sp then ret (x, m)
                                                  else if val_is_scalar x then ret (x, m) else dc f x m
                                     | None => if val_is_scalar x then ret (x, m) else dc f x m
                                     end) ;;
                               o' <- read new ;;
                               match o' with
                               | OInst c' d' => write new (OInst c' (d' ++ [(a, fst r)])) ;;; ret (snd r)
                               | _ => fail RuntimeErr end)
                             d memo ;;
                    (match c_post_copy k with
                     | Some g => apply_fn g VNone ;;; ret tt
                     | None => ret tt end) ;;;
                    ret (VRef new, (l, new) :: memo')
              end
          end
        end
      | _ => ret (v, memo)
      end
    end.

  Definition deepcopy (v : val) : M val := r <- dc FUEL v [] ;; ret (fst r).

  (* utils/mutation.py:protect_via_deepcopy *)
  Definition protect (v : val) : M val :=
    if val_is_scalar v then ret v else deepcopy v.
End DeepCopy.

(* ------------------------------------------------------------------ *)
(** * The mutually recursive core, with the recursive knot left open *)

Inductive xform := XFn (f : fn) | XPrepItem.   (* a transform: user function, or the mutator's prepare_item *)

Inductive ctor := CtorSpec (c : cid) | CtorTy (t : ty).

Inductive prep :=
| PNone
| PAttr (f : fn)                       (* functools.partial(attr_spec.prepare, instance) *)
| PItem (sp : attr_spec) (inst : loc). (* CollectionAttrMutator.prepare_item *)

Record mv_args := mkmv {
  mv_old : val; mv_new : val; mv_replace : bool; mv_prepare : prep;
  mv_attrs : option (list (aid * val));        (* None: not given / empty *)
  mv_ctor : option ctor; mv_expected : option ty;
  mv_transform : option (xform * option (attr_spec * loc));
  mv_attr_transforms : list (aid * fn); mv_inplace : bool }.

Inductive call :=
| KSetAttr (l : loc) (a : aid) (v : val) (force skip : bool)
| KDelAttr (l : loc) (a : aid) (force skip : bool)
| KConstruct (c : cid) (pos : option val) (kw : list (aid * val))
| KInit (spec_cls : cid) (self : loc) (kw : list (aid * val))
| KMutateValue (m : mv_args).

Definition kw_has (a : aid) (kw : list (aid * val)) : bool :=
  existsb (fun p => fst p =? a) kw.

Section Core.
  Variable ct : ctable.
  Variable rec : call -> M val.

  Definition loc_of (v : val) : M loc :=
    match v with VRef l => ret l | _ => fail AttrErr end.

  Definition read_inst (l : loc) : M (cid * list (aid * val)) :=
    o <- read l ;;
    match o with OInst c d => ret (c, d) | _ => fail AttrErr end.

  Definition cls_of (c : cid) : M cls :=
    match lookup_cls ct c with Some k => ret k | None => fail RuntimeErr end.

  (* object.__setattr__ / object.__delattr__ on the instance dict *)
  Definition raw_setattr (l : loc) (a : aid) (v : val) : M unit :=
    p <- read_inst l ;; write l (OInst (fst p) (assoc_set a v (snd p))).
  Definition raw_delattr (l : loc) (a : aid) : M unit :=
    p <- read_inst l ;;
    match assoc a (snd p) with
    | Some _ => write l (OInst (fst p) (assoc_del a (snd p)))
    | None => fail AttrErr
    end.

  (* getattr(obj, name, MISSING): instance dict, then the class-level default *)
  Definition class_default (k : cls) (a : aid) : val :=
    match assoc a (c_overrides k) with
    | Some v => v
    | None => match lookup_attr k a with
              | Some sp => a_default sp
              | None => VMissing end
    end.
  Definition getattr_default (l : loc) (a : aid) : M val :=
    p <- read_inst l ;;
    match assoc a (snd p) with
    | Some v => ret v
    | None => k <- cls_of (fst p) ;; ret (class_default k a)
    end.

  (* `value is current` for mutable objects (identity of scalars is irrelevant:
     the copy holds the very same scalar) *)
  Definition same_object (cur : option val) (v : val) : bool :=
    match cur, v with
    | Some (VRef x), VRef y => x =? y
    | _, _ => false
    end.

  Definition initializing (d : list (aid * val)) : bool :=
    match assoc A_INITIALIZING d with Some (VBool true) => true | _ => false end.

  (* utils/mutation.py:_thawed *)
  Definition thawed {A} (l : loc) (thaw : bool) (m : M A) : M A :=
    o <- read l ;;
    match o with
    | OInst c d =>
        k <- cls_of c ;;
        if negb thaw || negb (c_frozen k) || initializing d then m
        else raw_setattr l A_INITIALIZING (VBool true) ;;;
             finally_ m (raw_delattr l A_INITIALIZING)
    | _ => m
    end.
  Definition thawed_val {A} (v : val) (thaw : bool) (m : M A) : M A :=
    match v with VRef l => thawed l thaw m | _ => m end.

  Definition WILDCARD : aid := 99.   (* '*' in invalidated_by *)

  (* utils/mutation.py:invalidate_attrs: the transitive set of dependants is
     collected first (chains are followed through attributes that hold
     nothing), then each one is reset/deleted exactly once *)
  Definition dependants (k : cls) (x : aid) : list aid :=
    map a_name (filter (fun sp => existsb (fun y => (y =? x) || (y =? WILDCARD)) (a_inv_by sp))
                       (c_attrs k)).
  Fixpoint inv_closure (fuel : nat) (k : cls) (pending seen : list aid) : list aid :=
    match fuel with
    | O => seen
    | S f =>
        match pending with
        | [] => seen
        | x :: rest =>
            let new := filter (fun y => negb (existsb (fun z => z =? y) seen)) (dependants k x) in
            inv_closure f k (rest ++ new) (seen ++ new)
        end
    end.
  Definition invalidate_attrs (l : loc) (a : aid) : M unit :=
    p <- read_inst l ;; k <- cls_of (fst p) ;;
    let cl := inv_closure (S (S (length (c_attrs k)))) k [a] [a] in
    iterM (fun sp =>
             if existsb (fun z => z =? a_name sp) cl && negb (a_name sp =? a)
             then catch (rec (KDelAttr l (a_name sp) false true) ;;; ret tt)
                        (fun e => err_eqb e AttrErr) (ret tt)
             else ret tt)
          (c_attrs k).

  (* utils/mutation.py:mutate_attr *)
  Definition mutate_attr (l : loc) (a : aid) (value : val)
             (inplace type_check force skip : bool) : M val :=
    if is_sentinel value then ret (VRef l) else
    p <- read_inst l ;; k <- cls_of (fst p) ;;
    (if negb (force || initializing (snd p)) && inplace && c_frozen k
     then fail FrozenErr else ret tt) ;;;
    (match lookup_attr k a with
     | Some sp => if type_check
                  then (ok <- check_typeM ct value (a_ty sp) ;;
                        if ok then ret tt else fail TypeErr)
                  else ret tt
     | None => ret tt end) ;;;
    let copied := negb (inplace || c_dnc k) in
    l' <- (if copied then (v <- deepcopy ct (VRef l) ;; loc_of v) else ret l) ;;
    (* the object currently held was copied along with the instance: use the copy *)
    value <- (if copied && same_object (assoc a (snd p)) value
              then (p' <- read_inst l' ;;
                    ret (match assoc a (snd p') with Some v' => v' | None => value end))
              else ret value) ;;
    thawed l' copied
      (raw_setattr l' a value ;;;
       (if skip then ret tt else invalidate_attrs l' a)) ;;;
    ret (VRef l').

  (* Attr.default_value / Attr.lookup_default_value *)
  Definition run_factory (f : fac) : M val :=
    tick ;;;
    match f with
    | FacList xs => l <- alloc (OList xs) ;; ret (VRef l)
    | FacDict kvs => l <- alloc (ODict kvs) ;; ret (VRef l)
    | FacSet xs => l <- alloc (OSet xs) ;; ret (VRef l)
    | FacInst c => rec (KConstruct c None [])
    end.
  Definition default_value (sp : attr_spec) : M val :=
    match a_factory sp with
    | Some f => run_factory f
    | None => protect ct (a_default sp)
    end.
  Definition lookup_default_value (sp : attr_spec) (k : cls) : M val :=
    match assoc (a_name sp) (c_overrides k) with
    | Some v => protect ct v
    | None => default_value sp
    end.

  (* type_instantiate / constructor() for a non-spec type *)
  Definition instantiate_ty (t : ty) : M val :=
    match t with
    | TInt => ret (VInt 0%Z) | TStr => ret (VStr 0%Z) | TBool => ret (VBool false)
    | TNoneT => ret VNone
    | TList _ => l <- alloc (OList []) ;; ret (VRef l)
    | TDict _ _ => l <- alloc (ODict []) ;; ret (VRef l)
    | TSet _ => l <- alloc (OSet []) ;; ret (VRef l)
    | TSpec c => rec (KConstruct c None [])
    | TAny | TOpt _ | TUnion _ _ => fail TypeErr
    end.

  Definition ctor_of_ty (t : ty) : ctor :=
    match spec_of_ty t with Some c => CtorSpec c | None => CtorTy t end.

  (* names accepted by the generated constructor of class c *)
  Definition init_names (k : cls) : list aid :=
    map a_name (filter a_init (c_attrs k)).

  Definition str_key_to_aid (v : val) : M aid :=
    match v with VStr z => ret (Z.to_nat z) | _ => fail TypeErr end.

  (* CollectionAttrMutator.prepare_item *)
  Definition prepare_item (sp : attr_spec) (inst : loc) (item : val) : M val :=
    item1 <- (match a_prepare_item sp with
              | Some f => apply_fn f item
              | None => ret item end) ;;
    match spec_of_ty_strict (item_type (a_ty sp)) with
    | Some c =>
        k <- cls_of c ;;
        match c_key k with
        | Some ka =>
            match lookup_attr k ka with
            | Some ksp =>
                if is_missing item1 then ret item1 else
                ok_item <- check_typeM ct item1 (item_type (a_ty sp)) ;;
                ok_key <- check_typeM ct item1 (a_ty ksp) ;;
                if negb ok_item && ok_key then rec (KConstruct c (Some item1) [])
                else ret item1
            | None => ret item1 end
        | None => ret item1 end
    | None => ret item1
    end.

  Definition apply_xform (x : xform * option (attr_spec * loc)) (v : val) : M val :=
    match x with
    | (XFn f, _) => apply_fn f v
    | (XPrepItem, Some (sp, inst)) => prepare_item sp inst v
    | (XPrepItem, None) => fail RuntimeErr
    end.

  (* utils/mutation.py:mutate_value *)
  Definition mutate_value_body (m : mv_args) : M val :=
      let use_new := negb (is_missing (mv_new m)) && negb (match mv_new m with VEmpty => true | _ => false end) in
      let value0 := if use_new then mv_new m else if mv_replace m then VMissing else mv_old m in
      (* old values have already been prepared: suppressed only when the old value is used *)
      let prepare := if use_new || mv_replace m then mv_prepare m else PNone in
      value1 <- (match prepare with
                 | PNone => ret value0
                 | PAttr f => apply_fn f value0
                 | PItem sp inst => prepare_item sp inst value0 end) ;;
      h <- get_heap ;;
      let is_dict := match value1 with
                     | VRef l => match nth_error h l with Some (ODict _) => true | _ => false end
                     | _ => false end in
      let attrs := match mv_attrs m with Some l => l | None => [] end in
      (* steps 3/4: construction *)
      r <- (match mv_ctor m, mv_expected m with
            | Some ctor, Some ety =>
                if is_dict && negb (accepts_empty_dict ety) then
                  (l <- loc_of value1 ;; o <- read l ;;
                   match o with
                   | ODict kvs =>
                       kw <- mapM (fun p => a <- str_key_to_aid (fst p) ;; ret (a, snd p)) kvs ;;
                       let merged := fold_left (fun acc p => assoc_set (fst p) (snd p) acc) kw attrs in
                       match ctor with
                       | CtorSpec c => v <- rec (KConstruct c None merged) ;; ret (v, false, @nil aid)
                       | CtorTy t => match merged with
                                     | [] => v <- instantiate_ty t ;; ret (v, false, @nil aid)
                                     | _ => fail TypeErr end
                       end
                   | _ => fail RuntimeErr end)
                else if is_missing value1 then
                  match ctor with
                  | CtorSpec c =>
                      k <- cls_of c ;;
                      let names := init_names k in
                      let args := filter (fun p => existsb (fun n => n =? fst p) names
                                                   && negb (is_missing (snd p))) attrs in
                      v <- rec (KConstruct c None args) ;;
                      ret (v, true, match mv_attrs m with Some _ => names | None => [] end)
                  | CtorTy t => v <- instantiate_ty t ;; ret (v, true, @nil aid)
                  end
                else ret (value1, mv_inplace m, @nil aid)
            | Some ctor, None =>
                if is_missing value1 then
                  match ctor with
                  | CtorSpec c =>
                      k <- cls_of c ;;
                      let names := init_names k in
                      let args := filter (fun p => existsb (fun n => n =? fst p) names
                                                   && negb (is_missing (snd p))) attrs in
                      v <- rec (KConstruct c None args) ;;
                      ret (v, true, match mv_attrs m with Some _ => names | None => [] end)
                  | CtorTy t => v <- instantiate_ty t ;; ret (v, true, @nil aid)
                  end
                else ret (value1, mv_inplace m, @nil aid)
            | None, _ => ret (value1, mv_inplace m, @nil aid)
            end) ;;
      let '(value2, safe2, used) := r in
      (* step 5: left-over attributes *)
      r5 <- (match attrs with
             | [] => ret (value2, safe2)
             | _ =>
                 match value2 with
                 | VNone | VMissing => fail ValueErr
                 | _ =>
                     value3 <- (if safe2 then ret value2 else protect ct value2) ;;
                     thawed_val value3 (negb (mv_inplace m)) (iterM (fun p =>
                              if existsb (fun n => n =? fst p) used then ret tt
                              else if is_missing (snd p) then ret tt
                              else (l <- loc_of value3 ;;
                                    rec (KSetAttr l (fst p) (snd p) false false) ;;; ret tt))
                           attrs) ;;;
                     ret (value3, true)
                 end
             end) ;;
      let '(value3, safe3) := r5 in
      (* step 6: transform *)
      value4 <- (match mv_transform m with
                 | Some x => apply_xform x value3
                 | None => ret value3 end) ;;
      (* step 7: attribute transforms *)
      match mv_attr_transforms m with
      | [] => ret value4
      | ats =>
          value5 <- (if safe3 then ret value4 else protect ct value4) ;;
          thawed_val value5 (negb (mv_inplace m)) (iterM (fun p =>
                   l <- loc_of value5 ;;
                   cur <- getattr_default l (fst p) ;;
                   t <- apply_fn (snd p) cur ;;
                   if is_missing t then ret tt
                   else rec (KSetAttr l (fst p) t false false) ;;; ret tt)
                ats) ;;;
          ret value5
      end.

  Definition mutate_value (m : mv_args) : M val :=
    match mv_new m with
    | VUnchanged => ret (mv_old m)
    | _ => mutate_value_body m
    end.

  (* ---------------- collections ---------------- *)
  Inductive family := FSeq | FMap | FSet.
  Definition family_of (t : ty) : option family :=
    match t with TList _ => Some FSeq | TDict _ _ => Some FMap | TSet _ => Some FSet | _ => None end.

  Definition create_collection (sp : attr_spec) : M val := instantiate_ty (a_ty sp).

  Definition truthy_collection (v : val) : M bool :=
    match v with
    | VRef l => o <- read l ;;
                ret (match o with
                     | OList [] | ODict [] | OSet [] => false
                     | _ => true end)
    | _ => ret false
    end.

  Definition loc_of_t (v : val) : M loc :=
    match v with VRef l => ret l | _ => fail TypeErr end.
  Definition read_list (v : val) : M (loc * list val) :=
    l <- loc_of_t v ;; o <- read l ;;
    match o with OList xs => ret (l, xs) | _ => fail TypeErr end.
  Definition read_dict (v : val) : M (loc * list (val * val)) :=
    l <- loc_of_t v ;; o <- read l ;;
    match o with ODict xs => ret (l, xs) | _ => fail TypeErr end.
  Definition read_set (v : val) : M (loc * list val) :=
    l <- loc_of_t v ;; o <- read l ;;
    match o with OSet xs => ret (l, xs) | _ => fail TypeErr end.

  Definition find_eq_index (xs : list val) (v : val) : M (option nat) :=
    h <- get_heap ;; ret (find_index (fun x => val_eqb FUEL ct h x v) xs).

  Definition dict_lookup (kvs : list (val * val)) (k : val) : M (option val) :=
    if negb (hashable k) then fail TypeErr else
    h <- get_heap ;;
    ret (option_map snd (find (fun p => val_eqb FUEL ct h (fst p) k) kvs)).

  Definition dict_assign (kvs : list (val * val)) (k v : val) : M (list (val * val)) :=
    if negb (hashable k) then fail TypeErr else
    h <- get_heap ;;
    ret (if existsb (fun p => val_eqb FUEL ct h (fst p) k) kvs
         then map (fun p => if val_eqb FUEL ct h (fst p) k then (fst p, v) else p) kvs
         else kvs ++ [(k, v)]).

  Definition set_mem (xs : list val) (v : val) : M bool :=
    if negb (hashable v) then fail TypeErr else
    h <- get_heap ;; ret (existsb (fun x => val_eqb FUEL ct h x v) xs).

  Inductive tri := TriMissing | TriTrue | TriFalse.

  (* SequenceMutator._extractor: result (index, item) *)
  Definition seq_extractor (sp : attr_spec) (coll voi : val) (raise_if_missing : bool)
             (by_index : tri) : M (val * val) :=
    if is_missing coll || is_missing voi then ret (VNone, VMissing) else
    bi <- (match by_index with
           | TriTrue => ret true | TriFalse => ret false
           | TriMissing => ok <- check_typeM ct voi (item_type (a_ty sp)) ;; ret (negb ok) end) ;;
    p <- read_list coll ;;
    if bi then
      match voi with
      | VInt _ | VBool _ =>
          let i := match voi with VInt z => z | VBool true => 1%Z | _ => 0%Z end in
          match norm_index (zlen (snd p)) i with
          | Some n => match nth_error (snd p) n with
                      | Some x => ret (voi, x)
                      | None => if raise_if_missing then fail IndexErr else ret (voi, VMissing) end
          | None => if raise_if_missing then fail IndexErr else ret (voi, VMissing)
          end
      | _ => fail TypeErr
      end
    else
      idx <- find_eq_index (snd p) voi ;;
      match idx with
      | Some n => ret (VInt (Z.of_nat n), voi)
      | None => if raise_if_missing then fail ValueErr else ret (VNone, voi)
      end.

  (* SequenceMutator._inserter *)
  Definition seq_inserter (sp : attr_spec) (coll index item : val) (insert : bool) : M unit :=
    ok <- check_typeM ct item (item_type (a_ty sp)) ;;
    if negb ok then fail ValueErr else
    p <- read_list coll ;;
    match index with
    | VNone => write (fst p) (OList (snd p ++ [item]))
    | VInt _ | VBool _ =>
        let i := match index with VInt z => z | VBool true => 1%Z | _ => 0%Z end in
        if insert then write (fst p) (OList (insert_at (clamp_index (zlen (snd p)) i) item (snd p)))
        else match norm_index (zlen (snd p)) i with
             | Some n => write (fst p) (OList (set_at n item (snd p)))
             | None => fail IndexErr end
    | _ => fail TypeErr
    end.

  Definition map_extractor (coll key : val) (raise_if_missing : bool) : M (val * val) :=
    p <- read_dict coll ;;
    r <- dict_lookup (snd p) key ;;
    match r with
    | Some v => ret (key, v)
    | None => if raise_if_missing then fail KeyErr else ret (key, VMissing)
    end.

  Definition key_type (t : ty) : ty := match t with TDict k _ => k | _ => TAny end.

  Definition map_inserter (sp : attr_spec) (coll key item : val) : M unit :=
    okk <- check_typeM ct key (key_type (a_ty sp)) ;;
    if negb okk then fail ValueErr else
    ok <- check_typeM ct item (item_type (a_ty sp)) ;;
    if negb ok then fail ValueErr else
    p <- read_dict coll ;;
    kvs <- dict_assign (snd p) key item ;;
    write (fst p) (ODict kvs).

  Definition set_extractor (coll voi : val) (raise_if_missing : bool) : M (val * val) :=
    p <- read_set coll ;;
    b <- set_mem (snd p) voi ;;
    if negb b then (if raise_if_missing then fail ValueErr else ret (voi, VMissing))
    else ret (voi, voi).

  Definition py_truthy (v : val) : bool :=
    match v with
    | VMissing | VEmpty | VUnchanged | VNone | VBool false | VInt 0%Z | VStr 0%Z => false
    | _ => true
    end.

  Definition set_discard (xs : list val) (v : val) : M (list val) :=
    if negb (hashable v) then fail TypeErr else
    h <- get_heap ;; ret (filter (fun x => negb (val_eqb FUEL ct h x v)) xs).

  (* SetMutator._inserter *)
  Definition set_inserter (sp : attr_spec) (coll index item : val) : M unit :=
    ok <- check_typeM ct item (item_type (a_ty sp)) ;;
    if negb ok then fail ValueErr else
    p <- read_set coll ;;
    xs1 <- (if negb (is_missing index) then set_discard (snd p) index else ret (snd p)) ;;
    b <- set_mem xs1 item ;;
    write (fst p) (OSet (if b then xs1 else xs1 ++ [item])).

  Record item_op := mkio {
    io_voi : val; io_new : val; io_attrs : option (list (aid * val));
    io_transform : option (xform * option (attr_spec * loc));
    io_attr_transforms : list (aid * fn);
    io_replace : bool; io_require : bool; io_by_index : tri; io_insert : bool }.

  (* CollectionAttrMutator._mutate_collection; returns the collection *)
  Definition mutate_collection (fam : family) (sp : attr_spec) (inst : loc) (coll : val)
             (io : item_op) : M val :=
    coll1 <- (if is_missing coll then create_collection sp else ret coll) ;;
    ex <- (match fam with
           | FSeq => seq_extractor sp coll1 (io_voi io) (io_require io) (io_by_index io)
           | FMap => map_extractor coll1 (io_voi io) (io_require io)
           | FSet => set_extractor coll1 (io_voi io) (io_require io) end) ;;
    let ity := item_type (a_ty sp) in
    new_item <- rec (KMutateValue
                       (mkmv (snd ex) (io_new io) (io_replace io) (PItem sp inst) (io_attrs io)
                             (Some (ctor_of_ty ity)) (Some ity)
                             (io_transform io) (io_attr_transforms io) false)) ;;
    (match fam with
     | FSeq => seq_inserter sp coll1 (fst ex) new_item (io_insert io)
     | FMap => map_inserter sp coll1 (fst ex) new_item
     | FSet => set_inserter sp coll1 (fst ex) new_item end) ;;;
    ret coll1.

  Definition io_add (item : val) : item_op :=
    mkio VMissing item None None [] true false TriTrue false.

  (* add_items *)
  Definition add_items (fam : family) (sp : attr_spec) (inst : loc) (coll items : val) : M val :=
    match items with
    | VRef l =>
        o <- read l ;;
        match fam, o with
        | FSeq, OList xs | FSeq, OSet xs | FSet, OList xs | FSet, OSet xs =>
            foldM (fun c x => mutate_collection fam sp inst c (io_add x)) xs coll
        | FSeq, ODict kvs | FSet, ODict kvs =>
            foldM (fun c p => mutate_collection fam sp inst c (io_add (fst p))) kvs coll
        | FMap, ODict kvs =>
            foldM (fun c p => mutate_collection fam sp inst c
                                (mkio (fst p) (snd p) None None [] true false TriTrue false)) kvs coll
        | _, _ => fail TypeErr
        end
    | _ => fail TypeErr
    end.

  Definition io_transform_item (sp : attr_spec) (inst : loc) (voi : val) (by_index : tri) : item_op :=
    mkio voi VMissing None (Some (XPrepItem, Some (sp, inst))) [] false true by_index false.

  Fixpoint zseq (n : nat) : list Z :=
    match n with O => [] | S m => zseq m ++ [Z.of_nat m] end.

  (* _prepare_items *)
  Definition prepare_items (fam : family) (sp : attr_spec) (inst : loc) (coll : val) : M val :=
    match fam with
    | FSeq =>
        p <- read_list coll ;;
        foldM (fun c i => mutate_collection fam sp inst c (io_transform_item sp inst (VInt i) TriTrue))
              (zseq (length (snd p))) coll
    | FMap => add_items fam sp inst coll coll
    | FSet =>
        p <- read_set coll ;;
        foldM (fun c x => mutate_collection fam sp inst c (io_transform_item sp inst x TriMissing))
              (snd p) coll
    end.

  (* CollectionAttrMutator.prepare *)
  Definition coll_prepare (sp : attr_spec) (inst : loc) (coll : val) : M val :=
    match family_of (a_ty sp) with
    | None => ret coll
    | Some fam =>
        coll1 <- (match coll with VNone | VMissing => create_collection sp | _ => ret coll end) ;;
        ok <- check_typeM ct coll1 (a_ty sp) ;;
        if negb ok then
          (fresh <- create_collection sp ;; add_items fam sp inst fresh coll1)
        else
          (t <- truthy_collection coll1 ;;
           match a_prepare_item sp with
           | Some _ =>
               if t then
                 (* copy.copy of the caller's container, then normalise the copy *)
                 l <- loc_of coll1 ;; o <- read l ;; l' <- alloc o ;;
                 prepare_items fam sp inst (VRef l')
               else ret coll1
           | None => ret coll1
           end)
    end.

  (* utils/mutation.py:prepare_attr_value *)
  Definition prepare_attr_value (sp : attr_spec) (inst : loc) (value : val)
             (attrs : option (list (aid * val))) : M val :=
    match value with
    | VUnchanged => ret VUnchanged
    | _ =>
      v <- rec (KMutateValue
                  (mkmv VMissing value false
                        (match a_prepare sp with Some f => PAttr f | None => PNone end)
                        attrs (Some (ctor_of_ty (a_ty sp))) (Some (a_ty sp)) None [] false)) ;;
      if ty_is_collection (a_ty sp) then coll_prepare sp inst v else ret v
    end.

  (* methods/core.py:DelAttrMethod: the default is prepared exactly as the
     constructor and assignment prepare a value *)
  Definition delattr_ (l : loc) (a : aid) (force skip : bool) : M val :=
    p <- read_inst l ;; k <- cls_of (fst p) ;;
    (if negb (force || initializing (snd p)) && c_frozen k
     then fail FrozenErr else ret tt) ;;;
    match (if force then None else lookup_attr k a) with
    | Some sp =>
        d <- lookup_default_value sp k ;;
        if is_missing d
        then raw_delattr l a ;;; (if skip then ret tt else invalidate_attrs l a) ;;; ret VNone
        else (v <- prepare_attr_value sp l d None ;;
              mutate_attr l a v true true true skip)
    | None =>
        raw_delattr l a ;;; (if skip then ret tt else invalidate_attrs l a) ;;; ret VNone
    end.

  (* methods/core.py:SetAttrMethod *)
  Definition setattr_ (l : loc) (a : aid) (v : val) (force skip : bool) : M val :=
    p <- read_inst l ;; k <- cls_of (fst p) ;;
    value <- (match lookup_attr k a with
              | Some sp => prepare_attr_value sp l v None
              | None => ret v end) ;;
    mutate_attr l a value true true force skip.

  (* generated __init__ wrapper + InitMethod.init *)
  Definition init_wrapper_ok (k : cls) (kw : list (aid * val)) : bool :=
    forallb (fun p => existsb (fun n => n =? fst p) (init_names k)
                      || match c_key k with Some ka => ka =? fst p | None => false end) kw.

  Definition init_ (spec_cls : cid) (self : loc) (kw0 : list (aid * val)) : M val :=
    ks <- cls_of spec_cls ;;
    if negb (init_wrapper_ok ks kw0) then fail TypeErr else
    p <- read_inst self ;; im <- cls_of (fst p) ;;
    let top := c_owner im =? spec_cls in
    kw1 <- (if top then
              raw_setattr self A_INITIALIZING (VBool true) ;;;
              foldM (fun kw parent =>
                       pk <- cls_of parent ;;
                       r <- foldM (fun acc psp =>
                                     let '(pkw, kw') := acc in
                                     match lookup_attr im (a_name psp) with
                                     | None => ret acc
                                     | Some isp =>
                                         if negb (a_owner isp =? parent) then ret acc
                                         else match assoc (a_name psp) kw' with
                                              | Some v =>
                                                  v' <- (if a_dnc isp then ret v else protect ct v) ;;
                                                  ret (pkw ++ [(a_name psp, v')], assoc_del (a_name psp) kw')
                                              | None =>
                                                  d <- lookup_default_value isp im ;;
                                                  if is_missing d then ret acc
                                                  else ret (pkw ++ [(a_name psp, d)], kw')
                                              end
                                     end)
                                  (c_attrs pk) ([], kw) ;;
                       let '(pkw, kw') := r in
                       let pkw' := match c_key pk with
                                   | Some ka => if kw_has ka pkw then pkw else pkw ++ [(ka, VMissing)]
                                   | None => pkw end in
                       rec (KInit parent self pkw') ;;; ret kw')
                    (rev (tl (c_mro ks))) kw0
            else ret kw0) ;;
    iterM (fun sp =>
             if negb (a_init sp) || negb (a_owner sp =? spec_cls) then ret tt else
             r <- (match assoc (a_name sp) kw1 with
                   | Some v => if is_missing v then (d <- lookup_default_value sp im ;; ret (d, false))
                               else ret (v, top && negb (a_dnc sp))
                   | None => d <- lookup_default_value sp im ;; ret (d, false) end) ;;
             let '(value, copy_required) := r in
             if is_missing value then ret tt else
             value' <- (if copy_required then protect ct value else ret value) ;;
             rec (KSetAttr self (a_name sp) value' true true) ;;; ret tt)
          (c_attrs im) ;;;
    (if top then
       (match c_post_init im with
        | Some g => apply_fn g VNone ;;; ret tt
        | None => ret tt end) ;;;
       raw_delattr self A_INITIALIZING
     else ret tt) ;;;
    ret VNone.

  (* the call C(pos, kw) *)
  Definition construct (c : cid) (pos : option val) (kw : list (aid * val)) : M val :=
    k <- cls_of c ;;
    kw' <- (match pos, c_key k with
            | None, _ => ret kw
            | Some v, Some ka => if kw_has ka kw then fail TypeErr else ret ((ka, v) :: kw)
            | Some _, None => fail TypeErr end) ;;
    (* a key without default is a required parameter *)
    (match c_key k with
     | Some ka =>
         match lookup_attr k ka with
         | Some ksp => if is_missing (a_default ksp)
                          && match a_factory ksp with None => true | Some _ => false end
                          && negb (kw_has ka kw')
                       then fail TypeErr else ret tt
         | None => ret tt end
     | None => ret tt end) ;;;
    (if init_wrapper_ok k kw' then ret tt else fail TypeErr) ;;;
    l <- alloc (OInst c []) ;;
    (* the generated __init__ is the owner's (a plain subclass inherits it) *)
    rec (KInit (c_owner k) l kw') ;;;
    ret (VRef l).

  Definition body (k : call) : M val :=
    match k with
    | KSetAttr l a v force skip => setattr_ l a v force skip
    | KDelAttr l a force skip => delattr_ l a force skip
    | KConstruct c pos kw => construct c pos kw
    | KInit c self kw => init_ c self kw
    | KMutateValue m => mutate_value m
    end.
End Core.

Fixpoint exec (ct : ctable) (fuel : nat) (k : call) : M val :=
  match fuel with
  | O => fail Fuel
  | S f => body ct (exec ct f) k
  end.

(* ------------------------------------------------------------------ *)
(** * The public operations (generated helpers) *)

Record hargs := mkh {
  h_pos : list val;                 (* positional arguments after self *)
  h_inplace : bool; h_if : bool;
  h_index : val;                    (* _index (VMissing: not given) *)
  h_insert : bool;
  h_by_index : option bool;         (* _by_index *)
  h_kw : option (list (aid * val)); (* attrs *)
  h_kwfn : list (aid * fn);         (* attr_transforms *)
  h_fn : option fn }.               (* _transform *)

Inductive helper :=
| HWith (a : aid) | HUpdate (a : aid) | HTransform (a : aid) | HReset (a : aid)
| HWithItem (a : aid) | HUpdateItem (a : aid) | HTransformItem (a : aid) | HWithoutItem (a : aid)
| HUpdateTop | HTransformTop | HResetTop.

Section Ops.
  Variable ct : ctable.
  Definition XFUEL : nat := 40.
  Notation rec := (exec ct XFUEL).

  Definition pos0 (h : hargs) : val := nth 0 (h_pos h) VMissing.
  Definition pos1 (h : hargs) : val := nth 1 (h_pos h) VMissing.
  Definition tri_of (o : option bool) : tri :=
    match o with None => TriMissing | Some true => TriTrue | Some false => TriFalse end.

  Definition spec_for (l : loc) (a : aid) : M (cls * attr_spec) :=
    p <- read_inst l ;; k <- cls_of ct (fst p) ;;
    match lookup_attr k a with Some sp => ret (k, sp) | None => fail AttrErr end.

  (* CollectionAttrMutator.__init__ *)
  Definition mk_mutator (sp : attr_spec) (l : loc) (inplace : bool) : M val :=
    p <- read_inst l ;; k <- cls_of ct (fst p) ;;
    (if inplace && c_frozen k && negb (initializing (snd p)) then fail FrozenErr else ret tt) ;;;
    c <- getattr_default ct l (a_name sp) ;;
    if is_missing c || inplace then ret c else protect ct c.

  (* methods/scalar.py:_current_value, evaluated lazily (only when mutate_value
     uses old_value): the value currently held, protected from mutation unless
     mutating in place or the attribute is do_not_copy *)
  Definition current_value (l : loc) (sp : attr_spec) (inplace used : bool) : M val :=
    v <- getattr_default ct l (a_name sp) ;;
    if inplace || a_dnc sp || negb used then ret v else protect ct v.

  Definition with_attr (l : loc) (sp : attr_spec) (new : val)
             (attrs : option (list (aid * val))) (inplace : bool) : M val :=
    v <- prepare_attr_value ct rec sp l new attrs ;;
    mutate_attr ct rec l (a_name sp) v inplace true false false.

  Definition run_helper (l : loc) (hp : helper) (h : hargs) : M val :=
    if negb (h_if h) then ret (VRef l) else
    match hp with
    | HWith a =>
        r <- spec_for l a ;; with_attr l (snd r) (pos0 h) (h_kw h) (h_inplace h)
    | HUpdate a =>
        match pos0 h with
        | VUnchanged => ret (VRef l)
        | _ =>
          r <- spec_for l a ;; let sp := snd r in
          old <- current_value l sp (h_inplace h) (is_sentinel (pos0 h)) ;;
          v <- rec (KMutateValue (mkmv old (pos0 h) false PNone (h_kw h)
                                       (Some (ctor_of_ty (a_ty sp))) (Some (a_ty sp)) None [] false)) ;;
          with_attr l sp v None (h_inplace h)
        end
    | HTransform a =>
        r <- spec_for l a ;; let sp := snd r in
        old <- current_value l sp (h_inplace h) true ;;
        v <- rec (KMutateValue (mkmv old VMissing false PNone None
                                     (Some (ctor_of_ty (a_ty sp))) (Some (a_ty sp))
                                     (match h_fn h with Some f => Some (XFn f, None) | None => None end)
                                     (h_kwfn h) false)) ;;
        with_attr l sp v None (h_inplace h)
    | HReset a =>
        l' <- (if h_inplace h then ret l else (v <- deepcopy ct (VRef l) ;; loc_of v)) ;;
        thawed ct l' (negb (h_inplace h)) (rec (KDelAttr l' a false false)) ;;; ret (VRef l')
    | HResetTop =>
        l' <- (if h_inplace h then ret l else (v <- deepcopy ct (VRef l) ;; loc_of v)) ;;
        p <- read_inst l' ;; k <- cls_of ct (fst p) ;;
        thawed ct l' (negb (h_inplace h))
          (iterM (fun sp => catch (rec (KDelAttr l' (a_name sp) false false) ;;; ret tt)
                                  (fun e => err_eqb e AttrErr) (ret tt))
                 (c_attrs k)) ;;;
        ret (VRef l')
    | HUpdateTop =>
        rec (KMutateValue (mkmv (VRef l) (pos0 h) false PNone (h_kw h) None None None []
                                (h_inplace h)))
    | HTransformTop =>
        rec (KMutateValue (mkmv (VRef l) VMissing false PNone None None None
                                (match h_fn h with Some f => Some (XFn f, None) | None => None end)
                                (h_kwfn h) (h_inplace h)))
    | HWithItem a =>
        r <- spec_for l a ;; let sp := snd r in
        c <- mk_mutator sp l (h_inplace h) ;;
        c' <- (match family_of (a_ty sp) with
               | Some FSeq =>
                   mutate_collection ct rec FSeq sp l c
                     (mkio (h_index h) (pos0 h) (h_kw h) None [] true
                           (negb (is_missing (h_index h)) && negb (h_insert h))
                           (TriTrue) (h_insert h))
               | Some FMap =>
                   (* with_item(_key=None, _value=None, attrs) *)
                   mutate_collection ct rec FMap sp l c
                     (mkio (match h_pos h with [] => VNone | k :: _ => k end)
                           (match h_pos h with _ :: v :: _ => v | _ => VMissing end)
                           (h_kw h) None [] true false (TriTrue) false)
               | Some FSet =>
                   mutate_collection ct rec FSet sp l c
                     (mkio VMissing (pos0 h) (h_kw h) None [] true false (TriTrue) false)
               | None => fail AttrErr end) ;;
        mutate_attr ct rec l a c' (h_inplace h) false false false
    | HUpdateItem a =>
        r <- spec_for l a ;; let sp := snd r in
        c <- mk_mutator sp l (h_inplace h) ;;
        c' <- (match family_of (a_ty sp) with
               | Some FSeq =>
                   mutate_collection ct rec FSeq sp l c
                     (mkio (pos0 h) (pos1 h) (h_kw h) None [] false
                           (negb (is_missing (pos0 h))) (tri_of (h_by_index h)) false)
               | Some FMap =>
                   mutate_collection ct rec FMap sp l c
                     (mkio (pos0 h) (pos1 h) (h_kw h) None [] false true (TriTrue) false)
               | Some FSet =>
                   mutate_collection ct rec FSet sp l c
                     (mkio (pos0 h) (pos1 h) (h_kw h) None [] false
                           (negb (is_missing (pos0 h))) (TriTrue) false)
               | None => fail AttrErr end) ;;
        mutate_attr ct rec l a c' (h_inplace h) false false false
    | HTransformItem a =>
        r <- spec_for l a ;; let sp := snd r in
        c <- mk_mutator sp l (h_inplace h) ;;
        let x := match h_fn h with Some f => Some (XFn f, @None (attr_spec * loc)) | None => None end in
        c' <- (match family_of (a_ty sp) with
               | Some fam =>
                   mutate_collection ct rec fam sp l c
                     (mkio (pos0 h) VMissing None x (h_kwfn h) false true
                           (tri_of (h_by_index h)) false)
               | None => fail AttrErr end) ;;
        mutate_attr ct rec l a c' (h_inplace h) false false false
    | HWithoutItem a =>
        r <- spec_for l a ;; let sp := snd r in
        c <- mk_mutator sp l (h_inplace h) ;;
        c <- (if is_missing c then create_collection rec sp else ret c) ;;
        (match family_of (a_ty sp) with
         | Some FSeq =>
             ex <- seq_extractor ct sp c (pos0 h) true (tri_of (h_by_index h)) ;;
             (match fst ex with
              | VNone => ret tt
              | VInt _ | VBool _ =>
                  let i := match fst ex with VInt z => z | VBool true => 1%Z | _ => 0%Z end in
                  p <- read_list c ;;
                  match norm_index (zlen (snd p)) i with
                  | Some n => write (fst p) (OList (remove_at n (snd p)))
                  | None => fail IndexErr end
              | _ => fail TypeErr end)
         | Some FMap =>
             ex <- map_extractor ct c (pos0 h) true ;;
             p <- read_dict c ;;
             h' <- get_heap ;;
             write (fst p) (ODict (filter (fun q => negb (val_eqb FUEL ct h' (fst q) (fst ex))) (snd p)))
         | Some FSet =>
             ex <- set_extractor ct c (pos0 h) true ;;
             p <- read_set c ;;
             xs <- set_discard ct (snd p) (fst ex) ;;
             write (fst p) (OSet xs)
         | None => fail AttrErr end) ;;;
        mutate_attr ct rec l a c (h_inplace h) false false false
    end.

  Inductive op :=
  | OpConstruct (c : cid) (pos : option val) (kw : list (aid * val))
  | OpSetAttr (x : nat) (a : aid) (v : val)          (* roots[x].a = v *)
  | OpDelAttr (x : nat) (a : aid)
  | OpHelper (x : nat) (hp : helper) (h : hargs)
  | OpDeepCopy (x : nat)
  | OpAlloc (o : obj).                               (* the caller builds an argument object *)

  (* roots: the values the test program holds on to, in order of creation *)
  Definition step (roots : list val) (o : op) : M val :=
    match o with
    | OpConstruct c pos kw => rec (KConstruct c pos kw)
    | OpSetAttr x a v => l <- loc_of (nth x roots VNone) ;; rec (KSetAttr l a v false false) ;;; ret VNone
    | OpDelAttr x a => l <- loc_of (nth x roots VNone) ;; rec (KDelAttr l a false false) ;;; ret VNone
    | OpHelper x hp h => l <- loc_of (nth x roots VNone) ;; run_helper l hp h
    | OpDeepCopy x => deepcopy ct (nth x roots VNone)
    | OpAlloc ob => l <- alloc ob ;; ret (VRef l)
    end.
End Ops.
