(* C08 (extension): the model never stores a reference to a cell that does not exist.

   `bj n m Q`: started in a state whose heap has no dangling reference (wf_heap) and at least n
   cells, m ends (Ok or Err) in such a state, the heap has not shrunk, and an Ok result a
   satisfies Q n' a where n' is the final number of cells.  n is a moving watermark: values known
   to be below n (`vb n v`) stay below every later watermark.  One lemma per function of Model.v
   (arguments below the watermark => result below the final watermark), closed by induction on
   fuel; then run_helper and step; then histories: `run_wf` (the proviso of SepMore3) holds for every
   history whose arguments are scalars or references below the current heap size. *)
From Coq Require Import List ZArith Bool Arith Lia.
From SC Require Import Base.Res Base.PyList Inst.Heap Inst.ClassTable Inst.Model Inst.Framed Inst.FrameProofs
  Inst.Reach Inst.SepProofs.
Import ListNotations.
Open Scope nat_scope.

#[local] Opaque FUEL.

(* ------------------------------------------------------------------ *)
(** * Bounds *)
Definition vb (n : nat) (v : val) : Prop := match v with VRef l => l < n | _ => True end.
Definition pb (n : nat) (p : val * val) : Prop := vb n (fst p) /\ vb n (snd p).
Definition fb (n : nat) (p : aid * val) : Prop := vb n (snd p).
Definition ob (n : nat) (o : obj) : Prop :=
  match o with
  | OList xs | OSet xs => Forall (vb n) xs
  | ODict kvs => Forall (pb n) kvs
  | OInst _ d => Forall (fb n) d
  end.
Definition wfn (s : state) : Prop := forall l o, nth_error (heap s) l = Some o -> ob (length (heap s)) o.

Lemma vb_mono n n' v : n <= n' -> vb n v -> vb n' v.
Proof. destruct v; simpl; auto. lia. Qed.
Lemma Forall_vb_mono n n' xs : n <= n' -> Forall (vb n) xs -> Forall (vb n') xs.
Proof. intros H. apply Forall_impl. intros; eapply vb_mono; eauto. Qed.
Lemma pb_mono n n' p : n <= n' -> pb n p -> pb n' p.
Proof. intros H [A B]. split; eapply vb_mono; eauto. Qed.
Lemma fb_mono n n' p : n <= n' -> fb n p -> fb n' p.
Proof. unfold fb. apply vb_mono. Qed.
Lemma ob_mono n n' o : n <= n' -> ob n o -> ob n' o.
Proof.
  intros H. destruct o; simpl; apply Forall_impl; intros; eauto using vb_mono, pb_mono, fb_mono.
Qed.

Lemma vrefs_vb n xs : Forall (vb n) xs <-> forall y, In y (vrefs xs) -> y < n.
Proof.
  unfold vrefs. split.
  - intros H y Hy. apply in_flat_map in Hy. destruct Hy as [v [Hv Hy]]. rewrite Forall_forall in H.
    specialize (H _ Hv). destruct v; simpl in Hy; try contradiction. destruct Hy as [<-|[]]. exact H.
  - intros H. rewrite Forall_forall. intros v Hv. destruct v; simpl; auto. apply H.
    apply in_flat_map. exists (VRef l). simpl. auto.
Qed.
Lemma ob_refs n o : ob n o <-> forall y, In y (refs_of o) -> y < n.
Proof.
  destruct o as [xs|kvs|xs|c d]; simpl.
  - apply vrefs_vb.
  - split.
    + intros H y Hy. apply in_app_or in Hy. destruct Hy as [Hy|Hy].
      * apply (proj1 (vrefs_vb n (map fst kvs))); auto. rewrite Forall_forall in *. intros v Hv.
        apply in_map_iff in Hv. destruct Hv as [p [<- Hp]]. apply (H _ Hp).
      * apply (proj1 (vrefs_vb n (map snd kvs))); auto. rewrite Forall_forall in *. intros v Hv.
        apply in_map_iff in Hv. destruct Hv as [p [<- Hp]]. apply (H _ Hp).
    + intros H. rewrite Forall_forall. intros p Hp. split.
      * assert (F : Forall (vb n) (map fst kvs)).
        { apply vrefs_vb. intros y Hy. apply H. apply in_or_app. auto. }
        rewrite Forall_forall in F. apply F. now apply in_map.
      * assert (F : Forall (vb n) (map snd kvs)).
        { apply vrefs_vb. intros y Hy. apply H. apply in_or_app. auto. }
        rewrite Forall_forall in F. apply F. now apply in_map.
  - apply vrefs_vb.
  - rewrite <- vrefs_vb. split; intro H; rewrite Forall_forall in *.
    + intros v Hv. apply in_map_iff in Hv. destruct Hv as [p [<- Hp]]. apply (H _ Hp).
    + intros p Hp. apply H. now apply in_map.
Qed.
Lemma wfn_wf s : wfn s <-> wf_heap (heap s).
Proof.
  split.
  - intros H l o y Hn Hy. apply (proj1 (ob_refs _ o) (H l o Hn)). exact Hy.
  - intros H l o Hn. apply ob_refs. intros y Hy. eapply H; eauto.
Qed.

(* ------------------------------------------------------------------ *)
(** * The judgement *)
Definition bj {T} (n : nat) (m : M T) (Q : nat -> T -> Prop) : Prop :=
  forall s, wfn s -> n <= length (heap s) ->
    wfn (snd (m s)) /\ length (heap s) <= length (heap (snd (m s))) /\
    match fst (m s) with Ok a => Q (length (heap (snd (m s)))) a | Err _ => True end.

Definition TQ {T} : nat -> T -> Prop := fun _ _ => True.

Lemma bj_ret {T} n (a : T) (Q : nat -> T -> Prop) : (forall n', n <= n' -> Q n' a) -> bj n (ret a) Q.
Proof. intros H s W L. simpl. auto. Qed.
Lemma bj_fail {T} n e (Q : nat -> T -> Prop) : bj n (fail e) Q.
Proof. intros s W L. simpl. auto. Qed.
Lemma bj_weaken {T} n (m : M T) (Q Q' : nat -> T -> Prop) :
  bj n m Q -> (forall n' a, n <= n' -> Q n' a -> Q' n' a) -> bj n m Q'.
Proof.
  intros H HW s W L. destruct (H s W L) as (W' & L' & Qa). split; auto. split; auto.
  destruct (fst (m s)); auto. apply HW; auto. lia.
Qed.
Lemma bj_bind {T U} n (m : M T) (k : T -> M U) Q R :
  bj n m Q -> (forall a n', n <= n' -> Q n' a -> bj n' (k a) R) -> bj n (bind m k) R.
Proof.
  intros Hm Hk s W L. unfold bind. specialize (Hm s W L). destruct (m s) as [[a|e] s1]; simpl in *.
  - destruct Hm as (W1 & L1 & Qa). destruct (Hk a (length (heap s1)) ltac:(lia) Qa s1 W1 (le_n _)) as (W2 & L2 & R2).
    split; auto. split; [lia|auto].
  - tauto.
Qed.
Lemma bj_lower {T} n n' (m : M T) Q : n' <= n -> bj n' m Q -> bj n m Q.
Proof. intros H Hm s W L. apply Hm; auto. lia. Qed.

Lemma bj_alloc n o : ob n o -> bj n (alloc o) (fun n' l => l < n').
Proof.
  intros Ho s W L. unfold alloc. cbn [fst snd heap]. split; [|split; [rewrite app_length; lia|rewrite app_length; simpl; lia]].
  intros l o' Hn. cbn [heap] in Hn |- *. rewrite app_length. simpl.
  destruct (Nat.lt_ge_cases l (length (heap s))) as [Hlt|Hge].
  - rewrite nth_error_app1 in Hn by exact Hlt. eapply ob_mono; [|eapply W; eauto]. lia.
  - rewrite nth_error_app2 in Hn by exact Hge. destruct (l - length (heap s)) as [|k]; simpl in Hn.
    + inversion Hn; subst. eapply ob_mono; [|exact Ho]. lia.
    + destruct k; discriminate.
Qed.
Lemma bj_read n l : bj n (read l) (fun n' o => ob n' o /\ l < n').
Proof.
  intros s W L. unfold read. destruct (nth_error (heap s) l) eqn:E; simpl; split; auto. split; auto.
  split; [eapply W; eauto|]. apply nth_error_Some. congruence.
Qed.
Lemma bj_write n l o : ob n o -> bj n (write l o) TQ.
Proof.
  intros Ho s W L. unfold write. destruct (l <? length (heap s)) eqn:E; cbn [fst snd heap]; [|unfold TQ; auto].
  split; [|split; [rewrite set_nth_length; lia|exact I]].
  intros l' o' Hn. cbn [heap] in Hn |- *. rewrite set_nth_length. destruct (Nat.eq_dec l l') as [<-|Hne].
  - apply Nat.ltb_lt in E.
    assert (nth_error (set_nth l o (heap s)) l = Some o).
    { clear -E. revert l E. induction (heap s); intros [|k] E; simpl in *; try lia; auto. apply IHl. lia. }
    assert (o' = o) by congruence. subst. apply (ob_mono n); [lia|exact Ho].
  - rewrite set_nth_other in Hn by exact Hne. eapply W; eauto.
Qed.
Lemma bj_tick n : bj n tick TQ.
Proof.
  intros s W L. unfold tick. destruct (fail_at s) as [k|]; [destruct (k =? S (ncalls s))|]; simpl; unfold TQ; auto.
Qed.
Lemma bj_get_heap n : bj n get_heap TQ.
Proof. intros s W L. simpl. unfold TQ; auto. Qed.
Lemma bj_catch {T} n (m k : M T) h Q : bj n m Q -> (forall n', n <= n' -> bj n' k Q) -> bj n (catch m h k) Q.
Proof.
  intros Hm Hk s W L. unfold catch. specialize (Hm s W L). destruct (m s) as [[a|e] s1]; simpl in *; auto.
  destruct (h e); simpl; auto. destruct Hm as (W1 & L1 & _).
  destruct (Hk (length (heap s1)) ltac:(lia) s1 W1 (le_n _)) as (W2 & L2 & Q2). split; auto. split; [lia|auto].
Qed.
Lemma bj_finally {T} n (m : M T) (c : M unit) Q :
  bj n m Q -> (forall n', n <= n' -> bj n' c TQ) -> (forall n' n'' a, n' <= n'' -> Q n' a -> Q n'' a) ->
  bj n (finally_ m c) Q.
Proof.
  intros Hm Hc Hmono s W L. unfold finally_. specialize (Hm s W L).
  destruct (m s) as [[a|e] s1]; simpl in *; destruct Hm as (W1 & L1 & P);
    destruct (Hc (length (heap s1)) ltac:(lia) s1 W1 (le_n _)) as (W2 & L2 & _).
  - destruct (c s1) as [[u|e] s2]; simpl in *; split; auto; split; try lia; auto. eapply Hmono; eauto.
  - split; auto. split; [lia|auto].
Qed.
Lemma bj_iterM {T} (f : T -> M unit) (l : list T) : forall n,
  (forall x n', In x l -> n <= n' -> bj n' (f x) TQ) -> bj n (iterM f l) TQ.
Proof.
  induction l as [|x l IH]; intros n H; simpl.
  - apply bj_ret. intros; exact I.
  - eapply bj_bind; [apply H; simpl; auto|]. intros _ n' Hn _. apply IH. intros y n'' Hy Hn'. apply H; simpl; auto. lia.
Qed.
Lemma bj_foldM {T U} (f : U -> T -> M U) (l : list T) (P : nat -> U -> Prop) : forall n acc,
  (forall acc x n', In x l -> n <= n' -> P n' acc -> bj n' (f acc x) P) ->
  (forall n' n'' a, n' <= n'' -> P n' a -> P n'' a) ->
  P n acc -> bj n (foldM f l acc) P.
Proof.
  induction l as [|x l IH]; intros n acc H Hmono Hacc; simpl.
  - apply bj_ret. intros; eapply Hmono; eauto.
  - eapply bj_bind; [apply H; simpl; auto|]. intros acc' n' Hn Hacc'.
    apply IH; auto. intros a y n'' Hy Hn'. apply H; simpl; auto. lia.
Qed.
Lemma bj_mapM {T U} (f : T -> M U) (l : list T) (P : nat -> U -> Prop) : forall n,
  (forall x n', In x l -> n <= n' -> bj n' (f x) P) ->
  (forall n' n'' a, n' <= n'' -> P n' a -> P n'' a) ->
  bj n (mapM f l) (fun n' ys => Forall (P n') ys).
Proof.
  induction l as [|x l IH]; intros n H Hmono; simpl.
  - apply bj_ret. intros; constructor.
  - eapply bj_bind; [apply H; simpl; auto|]. intros y n' Hn Hy.
    eapply bj_bind; [apply IH; auto; intros z n'' Hz Hn'; apply H; simpl; auto; lia|].
    intros ys n'' Hn' Hys. apply bj_ret. intros n3 Hn3. constructor.
    + eapply Hmono; [|exact Hy]. lia.
    + eapply Forall_impl; [|exact Hys]. intros a Ha. eapply Hmono; eauto.
Qed.

Lemma bind_ret_l2 {A B} (a : A) (k : A -> M B) : bind (ret a) k = k a.
Proof. reflexivity. Qed.

Tactic Notation "bbind" := eapply bj_bind.
Ltac bret := apply bj_ret.
Ltac blia := cbv beta in *; lia.
Ltac bif := match goal with |- bj _ (if ?c then _ else _) _ => destruct c end.
Ltac vbm := cbv beta in *; first [ eassumption | eapply vb_mono; [|eassumption]; lia | eapply Forall_vb_mono; [|eassumption]; lia ].

(* ------------------------------------------------------------------ *)
(** * callbacks and deep copy *)
Lemma nonref_vb n v : val_nonref v -> vb n v.
Proof. destruct v; simpl; auto; contradiction. Qed.
Lemma nonref_Forall_vb n xs : Forall val_nonref xs -> Forall (vb n) xs.
Proof. apply Forall_impl. intros; now apply nonref_vb. Qed.
Lemma Forall_app_one {T} (P : T -> Prop) xs x : Forall P xs -> P x -> Forall P (xs ++ [x]).
Proof. intros. apply Forall_app. split; auto. Qed.
Lemma fb_mono_all n n' d : n <= n' -> Forall (fb n) d -> Forall (fb n') d.
Proof. intro H. apply Forall_impl. intros; eapply fb_mono; eauto. Qed.
Lemma pb_mono_all n n' d : n <= n' -> Forall (pb n) d -> Forall (pb n') d.
Proof. intro H. apply Forall_impl. intros; eapply pb_mono; eauto. Qed.

Definition QV : nat -> val -> Prop := fun n v => vb n v.

Lemma bj_apply_fn n f v : fn_scalar f -> vb n v -> bj n (apply_fn f v) QV.
Proof.
  intros Hf Hv. unfold apply_fn. bbind; [apply bj_tick|]. intros _ n1 H1 _. destruct f; simpl in Hf.
  - bret. intros; unfold QV; vbm.
  - destruct v; try apply bj_fail; bret; intros; exact I.
  - destruct v0; try apply bj_fail; bret; intros; exact I.
  - bbind; [apply bj_alloc; simpl; now apply nonref_Forall_vb|]. intros l n2 H2 Hl. bret. intros; unfold QV; simpl; blia.
  - destruct v; try apply bj_fail. bbind; [apply bj_read|]. intros o n2 H2 [Ho _]. destruct o; try apply bj_fail.
    bbind; [apply bj_alloc; simpl; apply Forall_app_one; [exact Ho|now apply nonref_vb]|].
    intros l' n3 H3 Hl. bret. intros; unfold QV; simpl; blia.
  - bbind; [apply bj_alloc; simpl; repeat constructor; simpl; auto; now apply nonref_vb|].
    intros l n2 H2 Hl. bret. intros; unfold QV; simpl; blia.
  - apply bj_fail.
Qed.

Definition memo_b (n : nat) (memo : memo_t) : Prop := forall l l', In (l, l') memo -> l' < n.
Lemma memo_b_mono n n' memo : n <= n' -> memo_b n memo -> memo_b n' memo.
Proof. intros H Hm l l' Hin. specialize (Hm l l' Hin). blia. Qed.
Lemma memo_b_assoc n memo l l' : memo_b n memo -> assoc l memo = Some l' -> l' < n.
Proof.
  unfold assoc. intros H E.
  destruct (find (fun p : nat * loc => fst p =? l) memo) as [[x y]|] eqn:F; simpl in E; [|discriminate].
  inversion E; subst. apply find_some in F. destruct F as [F _]. eapply H; eauto.
Qed.
Lemma memo_b_cons n memo l l' : memo_b n memo -> l' < n -> memo_b n ((l, l') :: memo).
Proof. intros H Hl x y [E|Hin]; [inversion E; subst; auto|eapply H; eauto]. Qed.

Section Copy.
  Variable ct : ctable.
  Hypothesis Hscalar : scalar_table ct.

  Lemma lookup_cls_sc c k : lookup_cls ct c = Some k ->
    (forall sp, In sp (c_attrs k) ->
       ofn_scalar (a_prepare sp) /\ ofn_scalar (a_prepare_item sp) /\
       match a_factory sp with Some f => fac_scalar f | None => True end) /\
    ofn_scalar (c_post_init k) /\ ofn_scalar (c_post_copy k).
  Proof. intro H. apply Hscalar. unfold lookup_cls in H. apply find_some in H. tauto. Qed.

  Definition Qdcb (n : nat) (r : val * memo_t) : Prop := vb n (fst r) /\ memo_b n (snd r).
  Lemma Qdcb_mono n n' r : n <= n' -> Qdcb n r -> Qdcb n' r.
  Proof. intros H [A B]. split; [eapply vb_mono; eauto|eapply memo_b_mono; eauto]. Qed.

  Lemma dc_bj fuel : forall n v memo, memo_b n memo -> bj n (dc ct fuel v memo) Qdcb.
  Proof.
    induction fuel as [|f IH]; intros n v memo Hm; simpl; [apply bj_fail|].
    destruct v; try (bret; intros; split; simpl; auto; eapply memo_b_mono; eauto).
    destruct (assoc l memo) as [l'|] eqn:E.
    { bret. intros n' Hn. split; simpl; [|eapply memo_b_mono; eauto]. pose proof (memo_b_assoc _ _ _ _ Hm E). blia. }
    bbind; [apply bj_read|]. intros o n1 H1 [Ho Hl]. destruct o as [xs|kvs|xs|c d].
    - bbind; [apply bj_alloc; constructor|]. intros l' n2 H2 Hl'.
      bbind.
      + apply bj_foldM with (P := memo_b).
        * intros m x n3 _ H3 Hmm. bbind; [apply IH; exact Hmm|]. intros r n4 H4 [Hr1 Hr2].
          bbind; [apply bj_read|]. intros o' n5 H5 [Ho' _]. destruct o'; try apply bj_fail.
          bbind; [apply bj_write; simpl; apply Forall_app_one; [exact Ho'|vbm]|].
          intros _ n6 H6 _. bret. intros. eapply memo_b_mono; [|exact Hr2]. blia.
        * intros; eapply memo_b_mono; eauto.
        * apply memo_b_cons; [eapply memo_b_mono; [|exact Hm]; blia|exact Hl'].
      + intros memo' n3 H3 Hm'. bret. intros n4 H4. split; simpl; [blia|eapply memo_b_mono; eauto].
    - bbind; [apply bj_alloc; constructor|]. intros l' n2 H2 Hl'.
      bbind.
      + apply bj_foldM with (P := memo_b).
        * intros m p n3 _ H3 Hmm. bbind; [apply IH; exact Hmm|]. intros rk n4 H4 [Hk1 Hk2].
          bbind; [apply IH; exact Hk2|]. intros rv n5 H5 [Hv1 Hv2].
          bbind; [apply bj_read|]. intros o' n6 H6 [Ho' _]. destruct o'; try apply bj_fail.
          bbind; [apply bj_write; simpl; apply Forall_app_one; [exact Ho'|split; simpl; vbm]|].
          intros _ n7 H7 _. bret. intros. eapply memo_b_mono; [|exact Hv2]. blia.
        * intros; eapply memo_b_mono; eauto.
        * apply memo_b_cons; [eapply memo_b_mono; [|exact Hm]; blia|exact Hl'].
      + intros memo' n3 H3 Hm'. bret. intros n4 H4. split; simpl; [blia|eapply memo_b_mono; eauto].
    - bbind.
      + apply bj_foldM with (P := fun n' (acc : list val * memo_t) => Forall (vb n') (fst acc) /\ memo_b n' (snd acc)).
        * intros acc x n2 _ H2 [Ha1 Ha2]. bbind; [apply IH; exact Ha2|]. intros r n3 H3 [Hr1 Hr2].
          bret. intros n4 H4. simpl. split; [apply Forall_app_one; vbm|eapply memo_b_mono; eauto].
        * intros n' n'' a Hn [A B]. split; [eapply Forall_vb_mono; eauto|eapply memo_b_mono; eauto].
        * split; [constructor|eapply memo_b_mono; [|exact Hm]; blia].
      + intros r n2 H2 [Hr1 Hr2]. bbind; [apply bj_alloc; exact Hr1|]. intros l' n3 H3 Hl'.
        bret. intros n4 H4. split; simpl; [blia|]. apply memo_b_cons; [eapply memo_b_mono; [|exact Hr2]; blia|blia].
    - destruct (lookup_cls ct c) as [k|] eqn:Ek; [|apply bj_fail].
      destruct (c_dnc k).
      { bret. intros n2 H2. split; simpl; [blia|eapply memo_b_mono; [|exact Hm]; blia]. }
      bbind; [apply bj_alloc; constructor|]. intros new n2 H2 Hnew.
      bbind.
      + apply bj_foldM with (P := memo_b).
        * intros m [a x] n3 Hin H3 Hmm.
          assert (Hx : vb n3 x).
          { simpl in Ho. rewrite Forall_forall in Ho. specialize (Ho _ Hin). unfold fb in Ho. simpl in Ho. vbm. }
          eapply bj_bind with (Q := Qdcb).
          -- destruct (lookup_attr k a) as [sp|]; [destruct (a_dnc sp); [bret; intros; split; simpl; [vbm|eapply memo_b_mono; eauto]|]|];
               (destruct (val_is_scalar x); [bret; intros; split; simpl; [vbm|eapply memo_b_mono; eauto]|apply IH; exact Hmm]).
          -- intros r n4 H4 [Hr1 Hr2]. bbind; [apply bj_read|]. intros o' n5 H5 [Ho' _].
             destruct o' as [| | |c' d']; try apply bj_fail.
             bbind; [apply bj_write; simpl; apply Forall_app_one; [exact Ho'|unfold fb; simpl; vbm]|].
             intros _ n6 H6 _. bret. intros. eapply memo_b_mono; [|exact Hr2]. blia.
        * intros; eapply memo_b_mono; eauto.
        * eapply memo_b_mono; [|exact Hm]. blia.
      + intros memo' n3 H3 Hm'.
        eapply bj_bind with (Q := TQ).
        * destruct (c_post_copy k) as [g|] eqn:Eg; [|bret; intros; exact I].
          bbind; [apply bj_apply_fn; [|exact I]|intros; bret; intros; exact I].
          destruct (lookup_cls_sc _ _ Ek) as (_ & _ & H). rewrite Eg in H. exact H.
        * intros _ n4 H4 _. bret. intros n5 H5. split; simpl; [blia|].
          apply memo_b_cons; [eapply memo_b_mono; [|exact Hm']; blia|blia].
  Qed.

  Lemma deepcopy_bj n v : bj n (deepcopy ct v) QV.
  Proof.
    unfold deepcopy. bbind; [apply dc_bj; intros ? ? []|]. intros r n1 H1 [Hr _]. bret. intros; unfold QV; vbm.
  Qed.
  Lemma protect_bj n v : vb n v -> bj n (protect ct v) QV.
  Proof.
    intro Hv. unfold protect. destruct (val_is_scalar v); [bret; intros; unfold QV; vbm|apply deepcopy_bj].
  Qed.
  (* a value about which nothing is known: scalars pass, anything else is copied *)
  Lemma protect_bj_any n v : bj n (protect ct v) QV.
  Proof.
    unfold protect. destruct (val_is_scalar v) eqn:E; [|apply deepcopy_bj].
    bret. intros. destruct v; simpl in *; auto; discriminate.
  Qed.
End Copy.

(* ------------------------------------------------------------------ *)
(** * The recursive core *)
Definition kwb (n : nat) (kw : list (aid * val)) : Prop := Forall (fb n) kw.
Lemma kwb_mono n n' kw : n <= n' -> kwb n kw -> kwb n' kw.
Proof. apply fb_mono_all. Qed.
Definition spb (sp : attr_spec) : Prop :=
  ofn_scalar (a_prepare sp) /\ ofn_scalar (a_prepare_item sp) /\
  match a_factory sp with Some f => fac_scalar f | None => True end.

Section Core.
  Variable ct : ctable.
  Hypothesis Hscalar : scalar_table ct.
  (* the class-level default objects (and overrides) are cells below n0 *)
  Variable n0 : nat.
  Hypothesis dflt_in : forall c k a, lookup_cls ct c = Some k -> vb n0 (class_default k a).
  Variable rec : call -> M val.

  Definition prepb (p : prep) : Prop :=
    match p with PNone => True | PAttr f => fn_scalar f | PItem sp _ => spb sp end.
  Definition xfb (x : option (xform * option (attr_spec * loc))) : Prop :=
    match x with
    | Some (XFn f, _) => fn_scalar f
    | Some (XPrepItem, Some (sp, _)) => spb sp
    | _ => True
    end.
  Definition oattrsb (n : nat) (o : option (list (aid * val))) : Prop :=
    match o with Some kw => kwb n kw | None => True end.
  Definition atsb (ats : list (aid * fn)) : Prop := Forall (fun p => fn_scalar (snd p)) ats.
  Definition mvb (n : nat) (m : mv_args) : Prop :=
    vb n (mv_old m) /\ vb n (mv_new m) /\ prepb (mv_prepare m) /\ oattrsb n (mv_attrs m) /\
    xfb (mv_transform m) /\ atsb (mv_attr_transforms m).
  Definition callb (n : nat) (k : call) : Prop :=
    match k with
    | KSetAttr l _ v _ _ => l < n /\ vb n v
    | KDelAttr l _ _ _ => l < n
    | KInit _ l kw => l < n /\ kwb n kw
    | KConstruct _ pos kw => kwb n kw /\ match pos with Some v => vb n v | None => True end
    | KMutateValue m => mvb n m
    end.

  Hypothesis Hrec : forall n k, n0 <= n -> callb n k -> bj n (rec k) QV.

  Lemma lookup_spb c k a sp : lookup_cls ct c = Some k -> lookup_attr k a = Some sp -> spb sp.
  Proof.
    intros Hk Ha. destruct (lookup_cls_sc ct Hscalar c k Hk) as [H _]. apply H.
    unfold lookup_attr in Ha. apply find_some in Ha. tauto.
  Qed.
  Lemma in_spb c k sp : lookup_cls ct c = Some k -> In sp (c_attrs k) -> spb sp.
  Proof. intros Hk Hin. destruct (lookup_cls_sc ct Hscalar c k Hk) as [H _]. apply H. exact Hin. Qed.

  Lemma bj_loc_of n v : vb n v -> bj n (loc_of v) (fun n' l => l < n').
  Proof. destruct v; simpl; intros H; try apply bj_fail. bret. intros; blia. Qed.
  Lemma bj_loc_of_t n v : vb n v -> bj n (loc_of_t v) (fun n' l => l < n').
  Proof. destruct v; simpl; intros H; try apply bj_fail. bret. intros; blia. Qed.
  Lemma bj_read_inst n l : bj n (read_inst l) (fun n' p => Forall (fb n') (snd p) /\ l < n').
  Proof.
    unfold read_inst. bbind; [apply bj_read|]. intros o n1 H1 [Ho Hl]. destruct o; try apply bj_fail.
    bret. intros n2 H2. simpl. split; [eapply fb_mono_all; [|exact Ho]; blia|blia].
  Qed.
  Lemma bj_cls_of n c : bj n (cls_of ct c) (fun _ k => lookup_cls ct c = Some k).
  Proof. unfold cls_of. destruct (lookup_cls ct c) eqn:E; [bret; auto|apply bj_fail]. Qed.

  Lemma fb_assoc n d a v : Forall (fb n) d -> assoc a d = Some v -> vb n v.
  Proof.
    unfold assoc. intros H E.
    destruct (find (fun p : nat * val => fst p =? a) d) as [[x y]|] eqn:F; simpl in E; [|discriminate].
    inversion E; subst. apply find_some in F. destruct F as [F _]. rewrite Forall_forall in H. exact (H _ F).
  Qed.
  Lemma fb_assoc_set n d a v : Forall (fb n) d -> vb n v -> Forall (fb n) (assoc_set a v d).
  Proof.
    intros H Hv. unfold assoc_set. destruct (existsb (fun p : nat * val => fst p =? a) d).
    - rewrite Forall_forall in *. intros p Hp. apply in_map_iff in Hp. destruct Hp as [q [<- Hq]].
      destruct (fst q =? a); [exact Hv|auto].
    - apply Forall_app_one; auto.
  Qed.
  Lemma fb_assoc_del n d a : Forall (fb n) d -> Forall (fb n) (assoc_del a d).
  Proof.
    intros H. unfold assoc_del. rewrite Forall_forall in *. intros p Hp. apply filter_In in Hp. destruct Hp; auto.
  Qed.

  Lemma bj_raw_setattr n l a v : vb n v -> bj n (raw_setattr l a v) TQ.
  Proof.
    intros Hv. unfold raw_setattr. bbind; [apply bj_read_inst|]. intros p n1 H1 [Hp _].
    apply bj_write. simpl. apply fb_assoc_set; [exact Hp|vbm].
  Qed.
  Lemma bj_raw_delattr n l a : bj n (raw_delattr l a) TQ.
  Proof.
    unfold raw_delattr. bbind; [apply bj_read_inst|]. intros p n1 H1 [Hp _].
    destruct (assoc a (snd p)); [|apply bj_fail]. apply bj_write. simpl. now apply fb_assoc_del.
  Qed.
  Lemma bj_getattr_default n l a : n0 <= n -> bj n (getattr_default ct l a) QV.
  Proof.
    intros Hn. unfold getattr_default. bbind; [apply bj_read_inst|]. intros p n1 H1 [Hp _].
    destruct (assoc a (snd p)) eqn:E.
    - bret. intros n2 H2. unfold QV. eapply vb_mono; [|eapply fb_assoc; eauto]. blia.
    - bbind; [apply bj_cls_of|]. intros k n2 H2 Hk. bret. intros n3 H3. unfold QV.
      eapply vb_mono; [|eapply dflt_in; exact Hk]. blia.
  Qed.

  Lemma QV_mono n n' a : n <= n' -> QV n a -> QV n' a.
  Proof. apply vb_mono. Qed.

  Lemma bj_thawed {T} n l thaw (m : M T) Q :
    (forall n', n <= n' -> bj n' m Q) -> (forall n' n'' a, n' <= n'' -> Q n' a -> Q n'' a) ->
    bj n (thawed ct l thaw m) Q.
  Proof.
    intros Hm Hmono. unfold thawed. bbind; [apply bj_read|]. intros o n1 H1 _.
    destruct o; try (apply Hm; blia).
    bbind; [apply bj_cls_of|]. intros k n2 H2 _.
    destruct (negb thaw || negb (c_frozen k) || initializing d); [apply Hm; blia|].
    bbind; [apply bj_raw_setattr; exact I|]. intros _ n3 H3 _.
    apply bj_finally; [apply Hm; blia| |exact Hmono]. intros; apply bj_raw_delattr.
  Qed.
  Lemma bj_thawed_val {T} n v thaw (m : M T) Q :
    (forall n', n <= n' -> bj n' m Q) -> (forall n' n'' a, n' <= n'' -> Q n' a -> Q n'' a) ->
    bj n (thawed_val ct v thaw m) Q.
  Proof. intros Hm Hmono. destruct v; simpl; try (apply Hm; blia). apply bj_thawed; auto. Qed.

  Lemma TQ_mono {T} n' n'' (a : T) : n' <= n'' -> @TQ T n' a -> @TQ T n'' a.
  Proof. auto. Qed.

  Lemma bj_rec_T n k : n0 <= n -> callb n k -> bj n (rec k) TQ.
  Proof. intros Hn Hk. eapply bj_weaken; [apply Hrec; auto|]. intros; exact I. Qed.

  Lemma bj_invalidate_attrs n l a : n0 <= n -> l < n -> bj n (invalidate_attrs ct rec l a) TQ.
  Proof.
    intros Hn Hl. unfold invalidate_attrs. bbind; [apply bj_read_inst|]. intros p n1 H1 _.
    bbind; [apply bj_cls_of|]. intros k n2 H2 _. cbv zeta. apply bj_iterM. intros sp n3 _ H3.
    destruct (_ && _); [|bret; intros; exact I].
    apply bj_catch; [|intros; bret; intros; exact I].
    bbind; [apply bj_rec_T; [blia|simpl; blia]|]. intros; bret; intros; exact I.
  Qed.

  Lemma bj_check_typeM n v t : bj n (check_typeM ct v t) TQ.
  Proof. unfold check_typeM. bbind; [apply bj_get_heap|]. intros; bret; intros; exact I. Qed.

  Lemma bj_mutate_attr n l a v inplace tc force skip :
    n0 <= n -> l < n -> vb n v -> bj n (mutate_attr ct rec l a v inplace tc force skip) QV.
  Proof.
    intros Hn Hl Hv. unfold mutate_attr.
    destruct (is_sentinel v); [bret; intros; unfold QV; simpl; blia|].
    bbind; [apply bj_read_inst|]. intros p n1 H1 [Hp _].
    bbind; [apply bj_cls_of|]. intros k n2 H2 _.
    eapply bj_bind with (Q := TQ).
    { destruct (_ && _); [apply bj_fail|bret; intros; exact I]. }
    intros _ n3 H3 _.
    eapply bj_bind with (Q := TQ).
    { destruct (lookup_attr k a); [destruct tc|]; try (bret; intros; exact I).
      bbind; [apply bj_check_typeM|]. intros ok n5 H5 _. destruct ok; [bret; intros; exact I|apply bj_fail]. }
    intros _ n4 H4 _. cbv zeta.
    eapply bj_bind with (Q := fun n' l' => l' < n').
    { destruct (negb (inplace || c_dnc k)); [|bret; intros; blia].
      bbind; [apply (deepcopy_bj ct Hscalar)|]. intros r n5 H5 Hr. apply bj_loc_of. exact Hr. }
    intros l' n5 H5 Hl'.
    eapply bj_bind with (Q := QV).
    { destruct (_ && _); [|bret; intros; unfold QV; vbm].
      bbind; [apply bj_read_inst|]. intros p' n6 H6 [Hp' _]. bret. intros n7 H7. unfold QV.
      destruct (assoc a (snd p')) eqn:E; [eapply vb_mono; [|eapply fb_assoc; eauto]; blia|vbm]. }
    intros value' n6 H6 Hv'.
    eapply bj_bind with (Q := TQ).
    { apply bj_thawed; [|intros; exact I]. intros n7 H7.
      bbind; [apply bj_raw_setattr; unfold QV in Hv'; vbm|]. intros _ n8 H8 _.
      destruct skip; [bret; intros; exact I|apply bj_invalidate_attrs; blia]. }
    intros _ n7 H7 _. bret. intros; unfold QV; simpl; blia.
  Qed.

  (* ---------- defaults ---------- *)
  Lemma bj_run_factory n f : n0 <= n -> fac_scalar f -> bj n (run_factory rec f) QV.
  Proof.
    intros Hn Hf. unfold run_factory. bbind; [apply bj_tick|]. intros _ n1 H1 _. destruct f; simpl in Hf.
    - bbind; [apply bj_alloc; simpl; now apply nonref_Forall_vb|]. intros l n2 H2 Hl. bret. intros; unfold QV; simpl; blia.
    - bbind; [apply bj_alloc; simpl|]. { eapply Forall_impl; [|exact Hf]. intros p [A B]. split; now apply nonref_vb. }
      intros l n2 H2 Hl. bret. intros; unfold QV; simpl; blia.
    - bbind; [apply bj_alloc; simpl; now apply nonref_Forall_vb|]. intros l n2 H2 Hl. bret. intros; unfold QV; simpl; blia.
    - apply Hrec; [blia|]. simpl. split; [constructor|exact I].
  Qed.
  Lemma bj_lookup_default_value n sp k : n0 <= n -> spb sp -> bj n (lookup_default_value ct rec sp k) QV.
  Proof.
    intros Hn (_ & _ & Hf). unfold lookup_default_value. destruct (assoc _ _); [apply (protect_bj_any ct Hscalar)|].
    unfold default_value. destruct (a_factory sp); [apply bj_run_factory; auto|apply (protect_bj_any ct Hscalar)].
  Qed.
  Lemma bj_instantiate_ty n t : n0 <= n -> bj n (instantiate_ty rec t) QV.
  Proof.
    intros Hn. unfold instantiate_ty. destruct t; try (bret; intros; exact I); try apply bj_fail;
      try (bbind; [apply bj_alloc; constructor|]; intros l n2 H2 Hl; bret; intros; unfold QV; simpl; blia).
    apply Hrec; [blia|]. simpl. split; [constructor|exact I].
  Qed.

  Lemma bj_prepare_item n sp inst item : n0 <= n -> spb sp -> vb n item -> bj n (prepare_item ct rec sp inst item) QV.
  Proof.
    intros Hn (_ & Hpi & _) Hi. unfold prepare_item.
    eapply bj_bind with (Q := QV).
    { destruct (a_prepare_item sp); [apply bj_apply_fn; auto|bret; intros; unfold QV; vbm]. }
    intros item1 n1 H1 Hi1. unfold QV in Hi1.
    destruct (spec_of_ty_strict (item_type (a_ty sp))); [|bret; intros; unfold QV; vbm].
    bbind; [apply bj_cls_of|]. intros k n2 H2 _. destruct (c_key k); [|bret; intros; unfold QV; vbm].
    destruct (lookup_attr k a); [|bret; intros; unfold QV; vbm].
    destruct (is_missing item1); [bret; intros; unfold QV; vbm|].
    bbind; [apply bj_check_typeM|]. intros ok1 n3 H3 _. bbind; [apply bj_check_typeM|]. intros ok2 n4 H4 _.
    destruct (negb ok1 && ok2); [|bret; intros; unfold QV; vbm].
    apply Hrec; [blia|]. simpl. split; [constructor|vbm].
  Qed.
  Lemma bj_apply_xform n x v : n0 <= n -> xfb (Some x) -> vb n v -> bj n (apply_xform ct rec x v) QV.
  Proof.
    intros Hn Hx Hv. unfold apply_xform. destruct x as [[f|] o]; simpl in Hx.
    - apply bj_apply_fn; auto.
    - destruct o as [[sp inst]|]; [|apply bj_fail]. apply bj_prepare_item; auto.
  Qed.

  (* ---------- mutate_value ---------- *)
  Lemma kwb_fold n (kw attrs : list (aid * val)) :
    kwb n kw -> kwb n attrs -> kwb n (fold_left (fun acc p => assoc_set (fst p) (snd p) acc) kw attrs).
  Proof.
    revert attrs. induction kw as [|p kw IH]; intros attrs Hk Ha; simpl; auto.
    inversion Hk; subst. apply IH; auto. apply fb_assoc_set; auto.
  Qed.
  Lemma kwb_filter n f (kw : list (aid * val)) : kwb n kw -> kwb n (filter f kw).
  Proof.
    intros H. unfold kwb in *. rewrite Forall_forall in *. intros p Hp. apply filter_In in Hp. destruct Hp; auto.
  Qed.
  Lemma bj_str_key n v : bj n (str_key_to_aid v) TQ.
  Proof. unfold str_key_to_aid. destruct v; try apply bj_fail. bret; intros; exact I. Qed.

  Definition Q3b (n : nat) (r : val * bool * list aid) : Prop := vb n (fst (fst r)).
  Definition Q5b (n : nat) (r : val * bool) : Prop := vb n (fst r).

  Lemma bj_mutate_value_body n m : n0 <= n -> mvb n m -> bj n (mutate_value_body ct rec m) QV.
  Proof.
    intros Hn (Hold & Hnew & Hprep & Hattrs & Hxf & Hats). unfold mutate_value_body. cbv zeta.
    set (use_new := negb (is_missing (mv_new m)) && negb (match mv_new m with VEmpty => true | _ => false end)).
    set (value0 := if use_new then mv_new m else if mv_replace m then VMissing else mv_old m).
    assert (H0 : vb n value0).
    { unfold value0. destruct use_new; auto. destruct (mv_replace m); auto. exact I. }
    eapply bj_bind with (Q := QV).
    { destruct (use_new || mv_replace m); [|bret; intros; unfold QV; vbm].
      destruct (mv_prepare m) as [|f|sp inst]; simpl in Hprep.
      - bret; intros; unfold QV; vbm.
      - apply bj_apply_fn; auto.
      - apply bj_prepare_item; auto. }
    intros value1 n1 H1 V1. unfold QV in V1.
    bbind; [apply bj_get_heap|]. intros h n2 H2 _.
    set (attrs := match mv_attrs m with Some l => l | None => [] end).
    assert (Hattrs' : kwb n attrs).
    { unfold attrs. destruct (mv_attrs m); [exact Hattrs|constructor]. }
    eapply bj_bind with (Q := Q3b).
    { destruct (mv_ctor m) as [ctor|]; [|bret; intros; unfold Q3b; simpl; vbm].
      assert (Hmiss : bj n2
        (match ctor with
         | CtorSpec c =>
             k <- cls_of ct c ;;
             let names := init_names k in
             let args := filter (fun p => existsb (fun n => n =? fst p) names
                                          && negb (is_missing (snd p))) attrs in
             v <- rec (KConstruct c None args) ;;
             ret (v, true, match mv_attrs m with Some _ => names | None => [] end)
         | CtorTy t => v <- instantiate_ty rec t ;; ret (v, true, @nil aid)
         end) Q3b).
      { destruct ctor as [c|t].
        - bbind; [apply bj_cls_of|]. intros k n3 H3 _. cbv zeta.
          bbind; [apply Hrec; [blia|]; simpl; split; [apply kwb_filter; eapply kwb_mono; [|exact Hattrs']; blia|exact I]|].
          intros v n4 H4 Hv. bret. intros; unfold Q3b; simpl; vbm.
        - bbind; [apply bj_instantiate_ty; blia|]. intros v n3 H3 Hv. bret. intros; unfold Q3b; simpl; vbm. }
      assert (Hdict : bj n2
        (l <- loc_of value1 ;; o <- read l ;;
         match o with
         | ODict kvs =>
             kw <- mapM (fun p => a0 <- str_key_to_aid (fst p) ;; ret (a0, snd p)) kvs ;;
             let merged := fold_left (fun acc p => assoc_set (fst p) (snd p) acc) kw attrs in
             match ctor with
             | CtorSpec c => v <- rec (KConstruct c None merged) ;; ret (v, false, @nil aid)
             | CtorTy t => match merged with
                           | [] => v <- instantiate_ty rec t ;; ret (v, false, @nil aid)
                           | _ => fail TypeErr end
             end
         | _ => fail RuntimeErr end) Q3b).
      { bbind; [apply bj_loc_of; vbm|]. intros l0 n3 H3 _. bbind; [apply bj_read|]. intros o0 n4 H4 [Ho0 _].
        destruct o0 as [|kvs| |]; try apply bj_fail.
        eapply bj_bind with (Q := kwb).
        { eapply bj_weaken; [apply bj_mapM with (P := fb)|].
          - intros p n5 Hp H5. bbind; [apply bj_str_key|]. intros a0 n6 H6 _. bret. intros n7 H7. unfold fb. simpl.
            simpl in Ho0. rewrite Forall_forall in Ho0. destruct (Ho0 _ Hp) as [_ Hs]. vbm.
          - intros; eapply fb_mono; eauto.
          - intros n5 a0 _ H. exact H. }
        intros kw n5 H5 Hkw. cbv zeta.
        assert (Hmerged : kwb n5 (fold_left (fun acc p => assoc_set (fst p) (snd p) acc) kw attrs)).
        { apply kwb_fold; [exact Hkw|eapply kwb_mono; [|exact Hattrs']; blia]. }
        remember (fold_left (fun acc p => assoc_set (fst p) (snd p) acc) kw attrs) as merged.
        destruct ctor.
        - bbind; [apply Hrec; [blia|]; simpl; split; [exact Hmerged|exact I]|].
          intros v n6 H6 Hv. bret. intros; unfold Q3b; simpl; vbm.
        - destruct merged; [|apply bj_fail].
          bbind; [apply bj_instantiate_ty; blia|]. intros v n6 H6 Hv. bret. intros; unfold Q3b; simpl; vbm. }
      destruct (mv_expected m) as [ety|].
      - match goal with |- bj _ (if ?c then _ else _) _ => destruct c end; [exact Hdict|].
        destruct (is_missing value1); [exact Hmiss|bret; intros; unfold Q3b; simpl; vbm].
      - destruct (is_missing value1); [exact Hmiss|bret; intros; unfold Q3b; simpl; vbm]. }
    intros [[value2 safe2] used] n3 H3 V2. unfold Q3b in V2. simpl in V2.
    eapply bj_bind with (Q := Q5b).
    { destruct attrs as [|p0 attrs'] eqn:Ea; [bret; intros; unfold Q5b; simpl; vbm|].
      assert (Hbody : bj n3
        (value3 <- (if safe2 then ret value2 else protect ct value2) ;;
         thawed_val ct value3 (negb (mv_inplace m))
           (iterM (fun p => if existsb (fun n => n =? fst p) used then ret tt
                            else if is_missing (snd p) then ret tt
                            else (l <- loc_of value3 ;;
                                  rec (KSetAttr l (fst p) (snd p) false false) ;;; ret tt))
                  (p0 :: attrs')) ;;;
         ret (value3, true)) Q5b).
      { eapply bj_bind with (Q := QV).
        - destruct safe2; [bret; intros; unfold QV; vbm|apply (protect_bj ct Hscalar); exact V2].
        - intros value3 n4 H4 V3. unfold QV in V3. eapply bj_bind with (Q := TQ).
          + apply bj_thawed_val; [|intros; exact I]. intros n5 H5. apply bj_iterM. intros p n6 Hp H6.
            bif; [bret; intros; exact I|].
            destruct (is_missing (snd p)); [bret; intros; exact I|].
            bbind; [apply bj_loc_of; vbm|]. intros l0 n7 H7 Hl0.
            bbind; [apply bj_rec_T; [blia|]; simpl; split; [exact Hl0|]|intros; bret; intros; exact I].
            unfold kwb in Hattrs'. rewrite Forall_forall in Hattrs'. specialize (Hattrs' _ Hp). unfold fb in Hattrs'. vbm.
          + intros _ n5 H5 _. bret. intros; unfold Q5b; simpl; vbm. }
      destruct value2; try exact Hbody; apply bj_fail. }
    intros [value3 safe3] n4 H4 V3. unfold Q5b in V3. simpl in V3.
    eapply bj_bind with (Q := QV).
    { destruct (mv_transform m) as [x|] eqn:Ex; [|bret; intros; unfold QV; vbm].
      apply bj_apply_xform; [blia|exact Hxf|exact V3]. }
    intros value4 n5 H5 V4. unfold QV in V4.
    destruct (mv_attr_transforms m) as [|q0 ats] eqn:Eats; [bret; intros; unfold QV; vbm|].
    eapply bj_bind with (Q := QV).
    { destruct safe3; [bret; intros; unfold QV; vbm|apply (protect_bj ct Hscalar); exact V4]. }
    intros value5 n6 H6 V5. unfold QV in V5.
    eapply bj_bind with (Q := TQ); [|intros; bret; intros; unfold QV; vbm].
    apply bj_thawed_val; [|intros; exact I]. intros n7 H7. apply bj_iterM. intros p n8 Hp H8.
    bbind; [apply bj_loc_of; vbm|]. intros l0 n9 H9 Hl0.
    bbind; [apply bj_getattr_default; blia|]. intros cur n10 H10 Hcur.
    bbind; [apply bj_apply_fn; [|exact Hcur]|].
    { unfold atsb in Hats. rewrite Forall_forall in Hats. exact (Hats _ Hp). }
    intros t n11 H11 Ht. destruct (is_missing t); [bret; intros; exact I|].
    bbind; [apply bj_rec_T; [blia|]; simpl; split; [blia|exact Ht]|intros; bret; intros; exact I].
  Qed.

  Lemma bj_mutate_value n m : n0 <= n -> mvb n m -> bj n (mutate_value ct rec m) QV.
  Proof.
    intros Hn Hm. unfold mutate_value. destruct (mv_new m) eqn:E; try (apply bj_mutate_value_body; auto).
    bret. intros. unfold QV. destruct Hm as [Ho _]. vbm.
  Qed.

  (* ---------- collections ---------- *)
  Lemma bj_read_list n v : bj n (read_list v) (fun n' p => fst p < n' /\ Forall (vb n') (snd p)).
  Proof.
    unfold read_list. destruct v; simpl; try apply bj_fail. rewrite bind_ret_l2.
    bbind; [apply bj_read|]. intros o n1 H1 [Ho Hl]. destruct o; try apply bj_fail.
    bret. intros n2 H2. simpl. split; [blia|]. eapply Forall_vb_mono; [|exact Ho]. blia.
  Qed.
  Lemma bj_read_dict n v : bj n (read_dict v) (fun n' p => fst p < n' /\ Forall (pb n') (snd p)).
  Proof.
    unfold read_dict. destruct v; simpl; try apply bj_fail. rewrite bind_ret_l2.
    bbind; [apply bj_read|]. intros o n1 H1 [Ho Hl]. destruct o; try apply bj_fail.
    bret. intros n2 H2. simpl. split; [blia|]. eapply pb_mono_all; [|exact Ho]. blia.
  Qed.
  Lemma bj_read_set n v : bj n (read_set v) (fun n' p => fst p < n' /\ Forall (vb n') (snd p)).
  Proof.
    unfold read_set. destruct v; simpl; try apply bj_fail. rewrite bind_ret_l2.
    bbind; [apply bj_read|]. intros o n1 H1 [Ho Hl]. destruct o; try apply bj_fail.
    bret. intros n2 H2. simpl. split; [blia|]. eapply Forall_vb_mono; [|exact Ho]. blia.
  Qed.

  Lemma bj_find_eq_index n xs v : bj n (find_eq_index ct xs v) TQ.
  Proof. unfold find_eq_index. bbind; [apply bj_get_heap|]. intros; bret; intros; exact I. Qed.
  Lemma bj_dict_lookup n kvs k :
    Forall (pb n) kvs -> bj n (dict_lookup ct kvs k) (fun n' r => forall v, r = Some v -> vb n' v).
  Proof.
    intros Hk. unfold dict_lookup. bif; [apply bj_fail|]. bbind; [apply bj_get_heap|]. intros h n1 H1 _.
    bret. intros n2 H2 v Hv. destruct (find _ kvs) as [p|] eqn:F; simpl in Hv; [|discriminate].
    inversion Hv; subst. apply find_some in F. destruct F as [F _]. rewrite Forall_forall in Hk.
    destruct (Hk _ F) as [_ Hs]. vbm.
  Qed.
  Lemma bj_dict_assign n kvs k v :
    Forall (pb n) kvs -> vb n k -> vb n v -> bj n (dict_assign ct kvs k v) (fun n' r => Forall (pb n') r).
  Proof.
    intros Hk Hkk Hv. unfold dict_assign. bif; [apply bj_fail|]. bbind; [apply bj_get_heap|]. intros h n1 H1 _.
    bret. intros n2 H2. apply pb_mono_all with (n := n); [blia|].
    destruct (existsb _ kvs).
    - rewrite Forall_forall in *. intros p Hp. apply in_map_iff in Hp. destruct Hp as [q [<- Hq]].
      destruct (val_eqb _ _ _ _ _); [|auto]. split; simpl; auto. apply (Hk _ Hq).
    - apply Forall_app_one; auto. split; auto.
  Qed.
  Lemma bj_set_mem n xs v : bj n (set_mem ct xs v) TQ.
  Proof. unfold set_mem. bif; [apply bj_fail|]. bbind; [apply bj_get_heap|]. intros; bret; intros; exact I. Qed.
  Lemma bj_set_discard n xs v : Forall (vb n) xs -> bj n (set_discard ct xs v) (fun n' r => Forall (vb n') r).
  Proof.
    intro H. unfold set_discard. bif; [apply bj_fail|]. bbind; [apply bj_get_heap|]. intros h n1 H1 _.
    bret. intros n2 H2. apply Forall_vb_mono with (n := n); [blia|].
    rewrite Forall_forall in *. intros p Hp. apply filter_In in Hp. destruct Hp; auto.
  Qed.

  Definition pairb (n : nat) (p : val * val) : Prop := vb n (fst p) /\ vb n (snd p).

  Lemma Forall_nth_error' {T} (P : T -> Prop) xs k x : Forall P xs -> nth_error xs k = Some x -> P x.
  Proof. intros H E. rewrite Forall_forall in H. apply H. eapply nth_error_In; eauto. Qed.

  Lemma bj_seq_extractor n sp coll voi r bi : vb n voi -> bj n (seq_extractor ct sp coll voi r bi) pairb.
  Proof.
    intros Hv. unfold seq_extractor. bif; [bret; intros; split; exact I|].
    eapply bj_bind with (Q := TQ).
    { destruct bi; try (bret; intros; exact I). bbind; [apply bj_check_typeM|]. intros; bret; intros; exact I. }
    intros bi' n1 H1 _. bbind; [apply bj_read_list|]. intros p n2 H2 [_ Hp]. destruct bi'.
    - destruct voi; try apply bj_fail; cbv zeta.
      + destruct (norm_index _ _) as [k|]; [destruct (nth_error (snd p) k) eqn:E|];
          try (bif; [apply bj_fail|]); bret; intros; split; simpl; auto.
        eapply vb_mono; [|eapply Forall_nth_error'; eauto]. blia.
      + destruct (norm_index _ _) as [k|]; [destruct (nth_error (snd p) k) eqn:E|];
          try (bif; [apply bj_fail|]); bret; intros; split; simpl; auto.
        eapply vb_mono; [|eapply Forall_nth_error'; eauto]. blia.
    - bbind; [apply bj_find_eq_index|]. intros idx n3 H3 _. destruct idx.
      + bret. intros; split; simpl; auto. vbm.
      + bif; [apply bj_fail|]. bret. intros; split; simpl; auto. vbm.
  Qed.

  Lemma Forall_firstn'' {T} (P : T -> Prop) k l : Forall P l -> Forall P (firstn k l).
  Proof. revert k; induction l; intros [|k] H; simpl; auto. inversion H; subst. constructor; auto. Qed.
  Lemma Forall_skipn'' {T} (P : T -> Prop) k l : Forall P l -> Forall P (skipn k l).
  Proof. revert k; induction l; intros [|k] H; simpl; auto. inversion H; subst. auto. Qed.

  Lemma bj_seq_inserter n sp coll index item ins : vb n item -> bj n (seq_inserter ct sp coll index item ins) TQ.
  Proof.
    intros Hi. unfold seq_inserter. bbind; [apply bj_check_typeM|]. intros ok n1 H1 _. bif; [apply bj_fail|].
    bbind; [apply bj_read_list|]. intros p n2 H2 [_ Hp].
    assert (Hi2 : vb n2 item) by vbm.
    destruct index; try apply bj_fail; cbv zeta.
    - apply bj_write. simpl. apply Forall_app_one; auto.
    - destruct ins.
      + apply bj_write. simpl. unfold insert_at. apply Forall_app. split; [now apply Forall_firstn''|].
        constructor; auto. now apply Forall_skipn''.
      + destruct (norm_index _ _); [|apply bj_fail]. apply bj_write. simpl. unfold set_at.
        apply Forall_app. split; [now apply Forall_firstn''|]. constructor; auto. now apply Forall_skipn''.
    - destruct ins.
      + apply bj_write. simpl. unfold insert_at. apply Forall_app. split; [now apply Forall_firstn''|].
        constructor; auto. now apply Forall_skipn''.
      + destruct (norm_index _ _); [|apply bj_fail]. apply bj_write. simpl. unfold set_at.
        apply Forall_app. split; [now apply Forall_firstn''|]. constructor; auto. now apply Forall_skipn''.
  Qed.

  Lemma bj_map_extractor n coll key r : vb n key -> bj n (map_extractor ct coll key r) pairb.
  Proof.
    intros Hk. unfold map_extractor. bbind; [apply bj_read_dict|]. intros p n1 H1 [_ Hp].
    bbind; [apply bj_dict_lookup; exact Hp|]. intros rr n2 H2 Hr. destruct rr as [v|].
    - bret. intros n3 H3. split; simpl; [vbm|]. specialize (Hr v eq_refl). vbm.
    - bif; [apply bj_fail|]. bret. intros; split; simpl; auto. vbm.
  Qed.
  Lemma bj_map_inserter n sp coll key item : vb n key -> vb n item -> bj n (map_inserter ct sp coll key item) TQ.
  Proof.
    intros Hk Hi. unfold map_inserter. bbind; [apply bj_check_typeM|]. intros okk n1 H1 _. bif; [apply bj_fail|].
    bbind; [apply bj_check_typeM|]. intros ok n2 H2 _. bif; [apply bj_fail|].
    bbind; [apply bj_read_dict|]. intros p n3 H3 [_ Hp].
    bbind; [apply bj_dict_assign; [exact Hp|vbm|vbm]|]. intros kvs n4 H4 Hkvs.
    apply bj_write. exact Hkvs.
  Qed.
  Lemma bj_set_extractor n coll voi r : vb n voi -> bj n (set_extractor ct coll voi r) pairb.
  Proof.
    intros Hv. unfold set_extractor. bbind; [apply bj_read_set|]. intros p n1 H1 _.
    bbind; [apply bj_set_mem|]. intros b0 n2 H2 _. bif; [bif; [apply bj_fail|]|]; bret; intros; split; simpl; auto; vbm.
  Qed.
  Lemma bj_set_inserter n sp coll index item : vb n item -> bj n (set_inserter ct sp coll index item) TQ.
  Proof.
    intros Hi. unfold set_inserter. bbind; [apply bj_check_typeM|]. intros ok n1 H1 _. bif; [apply bj_fail|].
    bbind; [apply bj_read_set|]. intros p n2 H2 [_ Hp].
    eapply bj_bind with (Q := fun n' r => Forall (vb n') r).
    { bif; [apply bj_set_discard; exact Hp|bret; intros; vbm]. }
    intros xs1 n3 H3 Hx. bbind; [apply bj_set_mem|]. intros b0 n4 H4 _.
    apply bj_write. simpl. destruct b0; [vbm|]. apply Forall_app_one; vbm.
  Qed.

  Lemma bj_create_collection n sp : n0 <= n -> bj n (create_collection rec sp) QV.
  Proof. intro Hn. unfold create_collection. now apply bj_instantiate_ty. Qed.

  Definition iob (n : nat) (io : item_op) : Prop :=
    vb n (io_voi io) /\ vb n (io_new io) /\ oattrsb n (io_attrs io) /\ xfb (io_transform io) /\
    atsb (io_attr_transforms io).
  Lemma iob_mono n n' io : n <= n' -> iob n io -> iob n' io.
  Proof.
    intros H (A & B & C & D & E). split; [vbm|]. split; [vbm|]. split; [|auto].
    destruct (io_attrs io); simpl in *; auto. eapply kwb_mono; eauto.
  Qed.

  Lemma bj_mutate_collection n fam sp inst coll io :
    n0 <= n -> spb sp -> vb n coll -> iob n io -> bj n (mutate_collection ct rec fam sp inst coll io) QV.
  Proof.
    intros Hn Hsp Hc (Hvoi & Hnew & Hat & Hxf & Hats). unfold mutate_collection.
    eapply bj_bind with (Q := QV).
    { bif; [apply bj_create_collection; auto|bret; intros; unfold QV; vbm]. }
    intros coll1 n1 H1 C1. unfold QV in C1.
    eapply bj_bind with (Q := pairb).
    { destruct fam; [apply bj_seq_extractor|apply bj_map_extractor|apply bj_set_extractor]; vbm. }
    intros ex n2 H2 [Hex1 Hex2]. cbv zeta.
    eapply bj_bind with (Q := QV).
    { apply Hrec; [blia|]. simpl. unfold mvb; simpl. split; [vbm|]. split; [vbm|]. split; [exact Hsp|].
      split; [destruct (io_attrs io); simpl in *; auto; eapply kwb_mono; [|exact Hat]; blia|]. split; auto. }
    intros ni n3 H3 Hni. unfold QV in Hni.
    eapply bj_bind with (Q := TQ).
    { destruct fam; [apply bj_seq_inserter|apply bj_map_inserter|apply bj_set_inserter]; vbm. }
    intros _ n4 H4 _. bret. intros; unfold QV; vbm.
  Qed.

  Lemma atsb_nil : atsb [].
  Proof. constructor. Qed.
  Lemma iob_add n x : vb n x -> iob n (io_add x).
  Proof. intro H. unfold io_add, iob; simpl. repeat split; auto. apply atsb_nil. Qed.
  Lemma iob_kv n k v : vb n k -> vb n v -> iob n (mkio k v None None [] true false TriTrue false).
  Proof. intros Hk H. unfold iob; simpl. repeat split; auto. apply atsb_nil. Qed.
  Lemma iob_ti n sp inst voi bi : spb sp -> vb n voi -> iob n (io_transform_item sp inst voi bi).
  Proof.
    intros Hsp H. unfold io_transform_item, iob; simpl. split; [exact H|]. split; [exact I|]. split; [exact I|].
    split; [exact Hsp|apply atsb_nil].
  Qed.

  Lemma bj_add_items n fam sp inst coll items :
    n0 <= n -> spb sp -> vb n coll -> bj n (add_items ct rec fam sp inst coll items) QV.
  Proof.
    intros Hn Hsp Hc. unfold add_items. destruct items; try apply bj_fail.
    bbind; [apply bj_read|]. intros o n1 H1 [Ho _].
    destruct fam, o; try apply bj_fail; simpl in Ho;
      (apply bj_foldM with (P := QV); [|apply QV_mono|unfold QV; vbm]; intros acc x n2 Hx H2 Hacc;
       apply bj_mutate_collection; [blia|exact Hsp|exact Hacc|];
       rewrite Forall_forall in Ho; specialize (Ho _ Hx));
      try (apply iob_add; first [vbm | destruct Ho; vbm]).
    destruct Ho. apply iob_kv; vbm.
  Qed.

  Lemma bj_prepare_items n fam sp inst coll :
    n0 <= n -> spb sp -> vb n coll -> bj n (prepare_items ct rec fam sp inst coll) QV.
  Proof.
    intros Hn Hsp Hc. unfold prepare_items. destruct fam.
    - bbind; [apply bj_read_list|]. intros p n1 H1 _.
      apply bj_foldM with (P := QV); [|apply QV_mono|unfold QV; vbm]. intros acc x n2 _ H2 Hacc.
      apply bj_mutate_collection; [blia|exact Hsp|exact Hacc|]. apply iob_ti; [exact Hsp|exact I].
    - apply bj_add_items; auto.
    - bbind; [apply bj_read_set|]. intros p n1 H1 [_ Hp].
      apply bj_foldM with (P := QV); [|apply QV_mono|unfold QV; vbm]. intros acc x n2 Hx H2 Hacc.
      apply bj_mutate_collection; [blia|exact Hsp|exact Hacc|]. apply iob_ti; [exact Hsp|].
      rewrite Forall_forall in Hp. specialize (Hp _ Hx). vbm.
  Qed.

  Lemma bj_truthy n v : bj n (truthy_collection v) TQ.
  Proof. unfold truthy_collection. destruct v; try (bret; intros; exact I). bbind; [apply bj_read|]. intros; bret; intros; exact I. Qed.

  Lemma bj_coll_prepare n sp inst coll : n0 <= n -> spb sp -> vb n coll -> bj n (coll_prepare ct rec sp inst coll) QV.
  Proof.
    intros Hn Hsp Hc. unfold coll_prepare. destruct (family_of (a_ty sp)) as [fam|]; [|bret; intros; unfold QV; vbm].
    eapply bj_bind with (Q := QV).
    { destruct coll; try (bret; intros; unfold QV; vbm); apply bj_create_collection; auto. }
    intros coll1 n1 H1 C1. unfold QV in C1. bbind; [apply bj_check_typeM|]. intros ok n2 H2 _. bif.
    - bbind; [apply bj_create_collection; blia|]. intros fresh n3 H3 Hf. apply bj_add_items; [blia|exact Hsp|exact Hf].
    - bbind; [apply bj_truthy|]. intros t n3 H3 _. destruct (a_prepare_item sp); [|bret; intros; unfold QV; vbm].
      destruct t; [|bret; intros; unfold QV; vbm].
      bbind; [apply bj_loc_of; vbm|]. intros l n4 H4 _. bbind; [apply bj_read|]. intros o n5 H5 [Ho _].
      bbind; [apply bj_alloc; exact Ho|]. intros l' n6 H6 Hl'.
      apply bj_prepare_items; [blia|exact Hsp|exact Hl'].
  Qed.

  Lemma bj_prepare_attr_value n sp inst value attrs :
    n0 <= n -> spb sp -> vb n value -> oattrsb n attrs -> bj n (prepare_attr_value ct rec sp inst value attrs) QV.
  Proof.
    intros Hn Hsp Hv Ha. unfold prepare_attr_value.
    assert (Hgen : bj n
      (v <- rec (KMutateValue
                  (mkmv VMissing value false
                        (match a_prepare sp with Some f => PAttr f | None => PNone end)
                        attrs (Some (ctor_of_ty (a_ty sp))) (Some (a_ty sp)) None [] false)) ;;
       if ty_is_collection (a_ty sp) then coll_prepare ct rec sp inst v else ret v) QV).
    { bbind.
      { apply Hrec; [exact Hn|]. simpl. unfold mvb; simpl. split; [exact I|]. split; [exact Hv|].
        split; [destruct Hsp as (H & _); destruct (a_prepare sp); [exact H|exact I]|].
        split; [exact Ha|]. split; [exact I|apply atsb_nil]. }
      intros v n1 H1 Hv'. bif; [apply bj_coll_prepare; [blia|exact Hsp|exact Hv']|bret; intros; unfold QV; vbm]. }
    destruct value; try exact Hgen. bret; intros; exact I.
  Qed.

  Lemma bj_delattr n l a force skip : n0 <= n -> l < n -> bj n (delattr_ ct rec l a force skip) QV.
  Proof.
    intros Hn Hl. unfold delattr_. bbind; [apply bj_read_inst|]. intros p n1 H1 _.
    bbind; [apply bj_cls_of|]. intros k n2 H2 Hk. cbv beta in Hk.
    eapply bj_bind with (Q := TQ). { bif; [apply bj_fail|bret; intros; exact I]. }
    intros _ n3 H3 _.
    assert (Htail : forall n', n3 <= n' ->
              bj n' (raw_delattr l a ;;; (if skip then ret tt else invalidate_attrs ct rec l a) ;;; ret VNone) QV).
    { intros n' Hn'. bbind; [apply bj_raw_delattr|]. intros _ n4 H4 _.
      eapply bj_bind with (Q := TQ); [destruct skip; [bret; intros; exact I|apply bj_invalidate_attrs; blia]|].
      intros; bret; intros; exact I. }
    destruct (if force then None else lookup_attr k a) as [sp|] eqn:Esp; [|apply Htail; blia].
    assert (Hsp : spb sp). { destruct force; [discriminate|]. eapply lookup_spb; eauto. }
    bbind; [apply bj_lookup_default_value; [blia|exact Hsp]|]. intros d n4 H4 Hd.
    bif; [apply Htail; blia|].
    bbind; [apply bj_prepare_attr_value; [blia|exact Hsp|exact Hd|exact I]|]. intros v n5 H5 Hv.
    apply bj_mutate_attr; [blia|blia|exact Hv].
  Qed.

  Lemma bj_setattr n l a v force skip : n0 <= n -> l < n -> vb n v -> bj n (setattr_ ct rec l a v force skip) QV.
  Proof.
    intros Hn Hl Hv. unfold setattr_. bbind; [apply bj_read_inst|]. intros p n1 H1 _.
    bbind; [apply bj_cls_of|]. intros k n2 H2 Hk. cbv beta in Hk.
    eapply bj_bind with (Q := QV).
    { destruct (lookup_attr k a) eqn:E; [|bret; intros; unfold QV; vbm].
      apply bj_prepare_attr_value; [blia|eapply lookup_spb; eauto|vbm|exact I]. }
    intros value n3 H3 Hval. apply bj_mutate_attr; [blia|blia|exact Hval].
  Qed.

  (* ---------- __init__ and construction ---------- *)
  Lemma kwb_app n kw a v : kwb n kw -> vb n v -> kwb n (kw ++ [(a, v)]).
  Proof. intros H Hv. apply Forall_app_one; auto. Qed.

  Lemma bj_init n c self kw0 : n0 <= n -> self < n -> kwb n kw0 -> bj n (init_ ct rec c self kw0) QV.
  Proof.
    intros Hn Hs Hkw. unfold init_. bbind; [apply bj_cls_of|]. intros ks n1 H1 _.
    bif; [apply bj_fail|].
    bbind; [apply bj_read_inst|]. intros p n2 H2 _.
    bbind; [apply bj_cls_of|]. intros im n3 H3 Him. cbv beta in Him. cbv zeta.
    eapply bj_bind with (Q := kwb).
    { bif; [|bret; intros; eapply kwb_mono; [|exact Hkw]; blia].
      bbind; [apply bj_raw_setattr; exact I|]. intros _ n4 H4 _.
      apply bj_foldM with (P := kwb); [|intros; eapply kwb_mono; eauto|eapply kwb_mono; [|exact Hkw]; blia].
      intros kw parent n5 _ H5 Hk. bbind; [apply bj_cls_of|]. intros pk n6 H6 _.
      eapply bj_bind with (Q := fun n' (acc : list (aid * val) * list (aid * val)) => kwb n' (fst acc) /\ kwb n' (snd acc)).
      { apply bj_foldM with (P := fun n' (acc : list (aid * val) * list (aid * val)) => kwb n' (fst acc) /\ kwb n' (snd acc)).
        - intros [pkw kw'] psp n7 _ H7 [Hp1 Hp2]. simpl in Hp1, Hp2.
          destruct (lookup_attr im (a_name psp)) as [isp|] eqn:Ei;
            [|bret; intros; split; simpl; eapply kwb_mono; eauto].
          bif; [bret; intros; split; simpl; eapply kwb_mono; eauto|].
          destruct (assoc (a_name psp) kw') eqn:Ea.
          + eapply bj_bind with (Q := QV).
            * bif; [bret; intros; unfold QV; eapply vb_mono; [|eapply fb_assoc; eauto]; blia|].
              apply (protect_bj_any ct Hscalar).
            * intros v' n8 H8 Hv'. bret. intros n9 H9. simpl. split.
              -- apply kwb_app; [eapply kwb_mono; [|exact Hp1]; blia|unfold QV in Hv'; vbm].
              -- apply fb_assoc_del. eapply kwb_mono; [|exact Hp2]. blia.
          + bbind; [apply bj_lookup_default_value; [blia|eapply lookup_spb; eauto]|]. intros d n8 H8 Hd.
            bif; bret; intros n9 H9; simpl; split; try (eapply kwb_mono; [|eassumption]; blia).
            apply kwb_app; [eapply kwb_mono; [|exact Hp1]; blia|unfold QV in Hd; vbm].
        - intros n' n'' a Hle [A B]. split; eapply kwb_mono; eauto.
        - split; [constructor|eapply kwb_mono; [|exact Hk]; blia]. }
      intros [pkw kw'] n7 H7 [Hp1 Hp2]. simpl in Hp1, Hp2. cbv zeta.
      eapply bj_bind with (Q := TQ); [|intros; bret; intros; eapply kwb_mono; [|exact Hp2]; blia].
      apply bj_rec_T; [blia|]. simpl. split; [blia|].
      destruct (c_key pk) as [ka|]; [|exact Hp1]. destruct (kw_has ka pkw); [exact Hp1|].
      apply kwb_app; [exact Hp1|exact I]. }
    intros kw1 n4 H4 Hkw1.
    eapply bj_bind with (Q := TQ).
    { apply bj_iterM. intros sp n5 Hsp H5. bif; [bret; intros; exact I|].
      assert (Hspb : spb sp) by (eapply in_spb; eauto).
      eapply bj_bind with (Q := fun n' (r : val * bool) => vb n' (fst r)).
      { assert (Hdf : bj n5 (d <- lookup_default_value ct rec sp im ;; ret (d, false))
                          (fun n' (r : val * bool) => vb n' (fst r))).
        { bbind; [apply bj_lookup_default_value; [blia|exact Hspb]|]. intros d n6 H6 Hd. bret. intros; simpl. unfold QV in Hd. vbm. }
        destruct (assoc (a_name sp) kw1) as [v|] eqn:Ea; [|exact Hdf].
        bif; [exact Hdf|]. bret. intros n6 H6. simpl. eapply vb_mono; [|eapply fb_assoc; eauto]. blia. }
      intros [value cr] n6 H6 Hval. simpl in Hval. bif; [bret; intros; exact I|].
      eapply bj_bind with (Q := QV).
      { destruct cr; [apply (protect_bj_any ct Hscalar)|bret; intros; unfold QV; vbm]. }
      intros value' n7 H7 Hv'.
      eapply bj_bind with (Q := TQ); [|intros; bret; intros; exact I].
      apply bj_rec_T; [blia|]. simpl. split; [blia|exact Hv']. }
    intros _ n5 H5 _.
    eapply bj_bind with (Q := TQ); [|intros; bret; intros; exact I].
    bif; [|bret; intros; exact I].
    eapply bj_bind with (Q := TQ); [|intros; apply bj_raw_delattr].
    destruct (c_post_init im) as [g|] eqn:Eg; [|bret; intros; exact I].
    eapply bj_bind with (Q := QV); [|intros; bret; intros; exact I].
    apply bj_apply_fn; [|exact I]. destruct (lookup_cls_sc ct Hscalar _ _ Him) as (_ & H & _). rewrite Eg in H. exact H.
  Qed.

  Lemma bj_construct n c pos kw :
    n0 <= n -> kwb n kw -> match pos with Some v => vb n v | None => True end ->
    bj n (construct ct rec c pos kw) QV.
  Proof.
    intros Hn Hkw Hpos. unfold construct. bbind; [apply bj_cls_of|]. intros k n1 H1 _.
    eapply bj_bind with (Q := kwb).
    { destruct pos as [v|]; [|bret; intros; eapply kwb_mono; [|exact Hkw]; blia].
      destruct (c_key k) as [ka|]; [|apply bj_fail]. bif; [apply bj_fail|]. bret. intros n2 H2.
      constructor; [unfold fb; simpl; vbm|eapply kwb_mono; [|exact Hkw]; blia]. }
    intros kw' n2 H2 Hkw'.
    eapply bj_bind with (Q := TQ).
    { destruct (c_key k) as [ka|]; [|bret; intros; exact I]. destruct (lookup_attr k ka); [|bret; intros; exact I].
      bif; [apply bj_fail|bret; intros; exact I]. }
    intros _ n3 H3 _.
    eapply bj_bind with (Q := TQ). { bif; [bret; intros; exact I|apply bj_fail]. }
    intros _ n4 H4 _.
    bbind; [apply bj_alloc; constructor|]. intros l n5 H5 Hl.
    eapply bj_bind with (Q := TQ); [|intros; bret; intros; unfold QV; simpl; blia].
    apply bj_rec_T; [blia|]. simpl. split; [exact Hl|eapply kwb_mono; [|exact Hkw']; blia].
  Qed.

  Theorem body_bj n k : n0 <= n -> callb n k -> bj n (body ct rec k) QV.
  Proof.
    intros Hn. destruct k; simpl; intro H.
    - destruct H. apply bj_setattr; auto.
    - apply bj_delattr; auto.
    - destruct H. apply bj_construct; auto.
    - destruct H. apply bj_init; auto.
    - apply bj_mutate_value; auto.
  Qed.
End Core.

Section Exec.
  Variable ct : ctable.
  Hypothesis Hscalar : scalar_table ct.
  Variable n0 : nat.
  Hypothesis dflt_in : forall c k a, lookup_cls ct c = Some k -> vb n0 (class_default k a).

  Theorem exec_bj fuel : forall n k, n0 <= n -> callb n k -> bj n (exec ct fuel k) QV.
  Proof.
    induction fuel as [|f IH]; intros n k Hn Hk.
    - simpl. apply bj_fail.
    - change (exec ct (S f) k) with (body ct (exec ct f) k). eapply body_bj; eauto.
  Qed.
End Exec.

(* ------------------------------------------------------------------ *)
(** * The public operations *)
Section Ops.
  Variable ct : ctable.
  Hypothesis Hscalar : scalar_table ct.
  Variable n0 : nat.
  Hypothesis dflt_in : forall c k a, lookup_cls ct c = Some k -> vb n0 (class_default k a).
  Notation rec := (exec ct XFUEL).
  Let Hrec := exec_bj ct Hscalar n0 dflt_in XFUEL.
  Local Opaque exec XFUEL.

  Definition hb (n : nat) (h : hargs) : Prop :=
    Forall (vb n) (h_pos h) /\ vb n (h_index h) /\ oattrsb n (h_kw h) /\ atsb (h_kwfn h) /\ ofn_scalar (h_fn h).

  Lemma nth_vb n xs k : Forall (vb n) xs -> vb n (nth k xs VMissing).
  Proof.
    intro H. destruct (nth_in_or_default k xs VMissing) as [Hin| ->]; [|exact I].
    rewrite Forall_forall in H. exact (H _ Hin).
  Qed.
  Lemma nth_vb' n xs k : Forall (vb n) xs -> vb n (nth k xs VNone).
  Proof.
    intro H. destruct (nth_in_or_default k xs VNone) as [Hin| ->]; [|exact I].
    rewrite Forall_forall in H. exact (H _ Hin).
  Qed.

  Lemma bj_spec_for n l a : bj n (spec_for ct l a) (fun _ r => spb (snd r)).
  Proof.
    unfold spec_for. bbind; [apply bj_read_inst|]. intros p n1 H1 _.
    bbind; [apply (bj_cls_of ct)|]. intros k n2 H2 Hk. cbv beta in Hk.
    destruct (lookup_attr k a) eqn:E; [|apply bj_fail]. bret. intros. simpl. eapply lookup_spb; eauto.
  Qed.

  Lemma bj_mk_mutator n sp l inplace : n0 <= n -> bj n (mk_mutator ct sp l inplace) QV.
  Proof.
    intro Hn. unfold mk_mutator. bbind; [apply bj_read_inst|]. intros p n1 H1 _.
    bbind; [apply (bj_cls_of ct)|]. intros k n2 H2 _.
    eapply bj_bind with (Q := TQ). { bif; [apply bj_fail|bret; intros; exact I]. }
    intros _ n3 H3 _. bbind; [apply (bj_getattr_default ct n0 dflt_in); blia|]. intros c n4 H4 Hc.
    bif; [bret; intros; unfold QV in *; vbm|apply (protect_bj ct Hscalar); exact Hc].
  Qed.
  Lemma bj_current_value n l sp inplace used : n0 <= n -> bj n (current_value ct l sp inplace used) QV.
  Proof.
    intro Hn. unfold current_value. bbind; [apply (bj_getattr_default ct n0 dflt_in); blia|]. intros v n1 H1 Hv.
    bif; [bret; intros; unfold QV in *; vbm|apply (protect_bj ct Hscalar); exact Hv].
  Qed.
  Lemma bj_with_attr n l sp new attrs inplace :
    n0 <= n -> l < n -> spb sp -> vb n new -> oattrsb n attrs -> bj n (with_attr ct l sp new attrs inplace) QV.
  Proof.
    intros Hn Hl Hsp Hnew Ha. unfold with_attr.
    bbind; [apply (bj_prepare_attr_value ct n0 rec Hrec); auto|]. intros v n1 H1 Hv.
    apply (bj_mutate_attr ct Hscalar n0 rec Hrec); [blia|blia|exact Hv].
  Qed.

  Lemma oattrsb_mono n n' o : n <= n' -> oattrsb n o -> oattrsb n' o.
  Proof. intros H. destruct o; simpl; auto. apply kwb_mono; auto. Qed.

  Lemma Forall_remove_at' {T} (P : T -> Prop) k l : Forall P l -> Forall P (remove_at k l).
  Proof.
    intros. unfold remove_at. apply Forall_app. split; [now apply Forall_firstn''|now apply Forall_skipn''].
  Qed.

  Theorem run_helper_bj n l hp h : n0 <= n -> l < n -> hb n h -> bj n (run_helper ct l hp h) QV.
  Proof.
    intros Hn Hl (Hpos & Hidx & Hkw & Hkwfn & Hfn). unfold run_helper.
    bif; [bret; intros; unfold QV; simpl; blia|].
    assert (Hp0 : vb n (pos0 h)) by (apply nth_vb; exact Hpos).
    assert (Hp1 : vb n (pos1 h)) by (apply nth_vb; exact Hpos).
    assert (Hmc : forall n' fam sp c io, n <= n' -> spb sp -> vb n' c -> iob n' io ->
              bj n' (c' <- mutate_collection ct rec fam sp l c io ;;
                     mutate_attr ct rec l (a_name sp) c' (h_inplace h) false false false) QV).
    { intros n' fam sp c io Hn' Hsp Hc Hio.
      bbind; [apply (bj_mutate_collection ct n0 rec Hrec); [blia|exact Hsp|exact Hc|exact Hio]|].
      intros c' n2 H2 Hc'. apply (bj_mutate_attr ct Hscalar n0 rec Hrec); [blia|blia|exact Hc']. }
    destruct hp.
    - (* HWith *) bbind; [apply bj_spec_for|]. intros r n1 H1 Hr.
      apply bj_with_attr; [blia|blia|exact Hr|vbm|eapply oattrsb_mono; [|exact Hkw]; blia].
    - (* HUpdate *)
      assert (Hgen : bj n
        (r <- spec_for ct l a ;; let sp := snd r in
         old <- current_value ct l sp (h_inplace h) (is_sentinel (pos0 h)) ;;
         v <- rec (KMutateValue (mkmv old (pos0 h) false PNone (h_kw h)
                                      (Some (ctor_of_ty (a_ty sp))) (Some (a_ty sp)) None [] false)) ;;
         with_attr ct l sp v None (h_inplace h)) QV).
      { bbind; [apply bj_spec_for|]. intros r n1 H1 Hr. cbv zeta.
        bbind; [apply bj_current_value; blia|]. intros old n2 H2 Hold.
        bbind; [apply Hrec; [blia|]; simpl; unfold mvb; simpl|].
        { split; [exact Hold|]. split; [vbm|]. split; [exact I|].
          split; [eapply oattrsb_mono; [|exact Hkw]; blia|]. split; [exact I|constructor]. }
        intros v n3 H3 Hv. apply bj_with_attr; [blia|blia|exact Hr|exact Hv|exact I]. }
      destruct (pos0 h); try exact Hgen. bret. intros; unfold QV; simpl; blia.
    - (* HTransform *)
      bbind; [apply bj_spec_for|]. intros r n1 H1 Hr. cbv zeta.
      bbind; [apply bj_current_value; blia|]. intros old n2 H2 Hold.
      bbind; [apply Hrec; [blia|]; simpl; unfold mvb; simpl|].
      { split; [exact Hold|]. split; [exact I|]. split; [exact I|]. split; [exact I|].
        split; [destruct (h_fn h); simpl; auto|exact Hkwfn]. }
      intros v n3 H3 Hv. apply bj_with_attr; [blia|blia|exact Hr|exact Hv|exact I].
    - (* HReset *)
      eapply bj_bind with (Q := fun n' l' => l' < n').
      { bif; [bret; intros; blia|]. bbind; [apply (deepcopy_bj ct Hscalar)|]. intros v n1 H1 Hv.
        apply bj_loc_of. exact Hv. }
      intros l' n1 H1 Hl'.
      eapply bj_bind with (Q := TQ); [|intros; bret; intros; unfold QV; simpl; blia].
      apply bj_thawed; [|intros; exact I]. intros n2 H2. apply (bj_rec_T n0 rec Hrec); [blia|simpl; blia].
    - (* HWithItem *)
      bbind; [apply bj_spec_for|]. intros r n1 H1 Hr. cbv zeta.
      bbind; [apply bj_mk_mutator; blia|]. intros c n2 H2 Hc.
      assert (Hname : a = a_name (snd r) \/ True) by auto.
      eapply bj_bind with (Q := QV).
      { destruct (family_of (a_ty (snd r))) as [[| |]|]; try apply bj_fail;
          (apply (bj_mutate_collection ct n0 rec Hrec); [blia|exact Hr|exact Hc|]; unfold iob; simpl;
           (split; [|split; [|split; [eapply oattrsb_mono; [|exact Hkw]; blia|split; [exact I|constructor]]]])); try exact I; try vbm.
        - destruct (h_pos h) as [|k0 t]; [exact I|]. inversion Hpos; subst. vbm.
        - destruct (h_pos h) as [|k0 [|v0 t]]; try exact I. inversion Hpos as [|? ? _ Hq]; inversion Hq; subst. vbm. }
      intros c' n3 H3 Hc'. apply (bj_mutate_attr ct Hscalar n0 rec Hrec); [blia|blia|exact Hc'].
    - (* HUpdateItem *)
      bbind; [apply bj_spec_for|]. intros r n1 H1 Hr. cbv zeta.
      bbind; [apply bj_mk_mutator; blia|]. intros c n2 H2 Hc.
      eapply bj_bind with (Q := QV).
      { destruct (family_of (a_ty (snd r))) as [[| |]|]; try apply bj_fail;
          (apply (bj_mutate_collection ct n0 rec Hrec); [blia|exact Hr|exact Hc|]; unfold iob; simpl;
           (split; [vbm|split; [vbm|split; [eapply oattrsb_mono; [|exact Hkw]; blia|split; [exact I|constructor]]]])). }
      intros c' n3 H3 Hc'. apply (bj_mutate_attr ct Hscalar n0 rec Hrec); [blia|blia|exact Hc'].
    - (* HTransformItem *)
      bbind; [apply bj_spec_for|]. intros r n1 H1 Hr. cbv zeta.
      bbind; [apply bj_mk_mutator; blia|]. intros c n2 H2 Hc.
      eapply bj_bind with (Q := QV).
      { destruct (family_of (a_ty (snd r))) as [fam|]; try apply bj_fail.
        apply (bj_mutate_collection ct n0 rec Hrec); [blia|exact Hr|exact Hc|]. unfold iob; simpl.
        split; [vbm|split; [exact I|split; [exact I|split; [|exact Hkwfn]]]]. destruct (h_fn h); [exact Hfn|exact I]. }
      intros c' n3 H3 Hc'. apply (bj_mutate_attr ct Hscalar n0 rec Hrec); [blia|blia|exact Hc'].
    - (* HWithoutItem *)
      bbind; [apply bj_spec_for|]. intros r n1 H1 Hr. cbv zeta.
      bbind; [apply bj_mk_mutator; blia|]. intros c00 n2 H2 Hc00.
      eapply bj_bind with (Q := QV).
      { bif; [apply (bj_create_collection n0 rec Hrec); blia|bret; intros; unfold QV in *; vbm]. }
      intros c n3 H3 Hc.
      eapply bj_bind with (Q := TQ).
      { destruct (family_of (a_ty (snd r))) as [[| |]|]; try apply bj_fail.
        - bbind; [apply (bj_seq_extractor ct); vbm|]. intros ex n4 H4 _.
          destruct (fst ex); try apply bj_fail; try (bret; intros; exact I); cbv zeta.
          + bbind; [apply bj_read_list|]. intros p n5 H5 [_ Hp].
            destruct (norm_index _ _); [|apply bj_fail]. apply bj_write. simpl. now apply Forall_remove_at'.
          + bbind; [apply bj_read_list|]. intros p n5 H5 [_ Hp].
            destruct (norm_index _ _); [|apply bj_fail]. apply bj_write. simpl. now apply Forall_remove_at'.
        - bbind; [apply (bj_map_extractor ct); vbm|]. intros ex n4 H4 _.
          bbind; [apply bj_read_dict|]. intros p n5 H5 [_ Hp]. bbind; [apply bj_get_heap|]. intros h' n6 H6 _.
          apply bj_write. simpl. eapply pb_mono_all; [|]. 2:{ rewrite Forall_forall in *. intros q Hq. apply filter_In in Hq. destruct Hq as [Hq _]. exact (Hp _ Hq). } blia.
        - bbind; [apply (bj_set_extractor ct); vbm|]. intros ex n4 H4 _.
          bbind; [apply bj_read_set|]. intros p n5 H5 [_ Hp].
          bbind; [apply (bj_set_discard ct); exact Hp|]. intros xs n6 H6 Hxs. apply bj_write. exact Hxs. }
      intros _ n4 H4 _. apply (bj_mutate_attr ct Hscalar n0 rec Hrec); [blia|blia|unfold QV in Hc; vbm].
    - (* HUpdateTop *)
      apply Hrec; [exact Hn|]. simpl. unfold mvb; simpl. split; [exact Hl|]. split; [exact Hp0|].
      split; [exact I|]. split; [exact Hkw|]. split; [exact I|constructor].
    - (* HTransformTop *)
      apply Hrec; [exact Hn|]. simpl. unfold mvb; simpl. split; [exact Hl|]. split; [exact I|].
      split; [exact I|]. split; [exact I|]. split; [destruct (h_fn h); simpl; auto|exact Hkwfn].
    - (* HResetTop *)
      eapply bj_bind with (Q := fun n' l' => l' < n').
      { bif; [bret; intros; blia|]. bbind; [apply (deepcopy_bj ct Hscalar)|]. intros v n1 H1 Hv.
        apply bj_loc_of. exact Hv. }
      intros l' n1 H1 Hl'. bbind; [apply bj_read_inst|]. intros p n2 H2 _.
      bbind; [apply (bj_cls_of ct)|]. intros k n3 H3 _.
      eapply bj_bind with (Q := TQ); [|intros; bret; intros; unfold QV; simpl; blia].
      apply bj_thawed; [|intros; exact I]. intros n4 H4. apply bj_iterM. intros sp n5 _ H5.
      apply bj_catch; [|intros; bret; intros; exact I].
      bbind; [apply (bj_rec_T n0 rec Hrec); [blia|simpl; blia]|]. intros; bret; intros; exact I.
  Qed.

  Definition opb (n : nat) (o : op) : Prop :=
    match o with
    | OpConstruct _ pos kw => kwb n kw /\ match pos with Some v => vb n v | None => True end
    | OpSetAttr _ _ v => vb n v
    | OpDelAttr _ _ => True
    | OpHelper _ _ h => hb n h
    | OpDeepCopy _ => True
    | OpAlloc ob0 => ob n ob0
    end.

  Theorem step_bj n roots o : n0 <= n -> Forall (vb n) roots -> opb n o -> bj n (step ct roots o) QV.
  Proof.
    intros Hn Hr Ho. destruct o; simpl in Ho |- *.
    - destruct Ho. apply Hrec; [exact Hn|]. simpl. auto.
    - bbind; [apply bj_loc_of; apply nth_vb'; exact Hr|]. intros l n1 H1 Hl.
      eapply bj_bind with (Q := TQ); [|intros; bret; intros; exact I].
      apply (bj_rec_T n0 rec Hrec); [blia|]. simpl. split; [exact Hl|vbm].
    - bbind; [apply bj_loc_of; apply nth_vb'; exact Hr|]. intros l n1 H1 Hl.
      eapply bj_bind with (Q := TQ); [|intros; bret; intros; exact I].
      apply (bj_rec_T n0 rec Hrec); [blia|]. simpl. exact Hl.
    - bbind; [apply bj_loc_of; apply nth_vb'; exact Hr|]. intros l n1 H1 Hl.
      apply run_helper_bj; [blia|exact Hl|].
      destruct Ho as (A & B & C & D & E). split; [vbm|]. split; [vbm|]. split; [eapply oattrsb_mono; [|exact C]; blia|auto].
    - apply (deepcopy_bj ct Hscalar).
    - bbind; [apply bj_alloc; exact Ho|]. intros l n1 H1 Hl. bret. intros; unfold QV; simpl; blia.
  Qed.
End Ops.

(* ------------------------------------------------------------------ *)
(** * Histories: no heap of a history has a dangling reference *)
From SC Require Import Inst.SepMore Inst.SepMore2 Inst.SepMore3.

(* every argument of the operation is a scalar (or an object of scalars the caller builds) *)
Definition op_scalar (o : op) : Prop :=
  match o with
  | OpConstruct _ pos kw =>
      Forall (fun p => val_nonref (snd p)) kw /\ match pos with Some v => val_nonref v | None => True end
  | OpSetAttr _ _ v => val_nonref v
  | OpDelAttr _ _ => True
  | OpHelper _ _ h =>
      Forall val_nonref (h_pos h) /\ val_nonref (h_index h) /\
      match h_kw h with Some kw => Forall (fun p => val_nonref (snd p)) kw | None => True end /\
      Forall (fun p => fn_scalar (snd p)) (h_kwfn h) /\ ofn_scalar (h_fn h)
  | OpDeepCopy _ => True
  | OpAlloc ob0 => refs_of ob0 = []
  end.

Section History.
  Variable ct : ctable.
  Hypothesis Hscalar : scalar_table ct.
  Variable n0 : nat.
  Hypothesis dflt_in : forall c k a, lookup_cls ct c = Some k -> vb n0 (class_default k a).

  Lemma op_scalar_opb n o : op_scalar o -> opb n o.
  Proof.
    destruct o; simpl; auto.
    - intros [H1 H2]. split.
      + eapply Forall_impl; [|exact H1]. intros p Hp. unfold fb. now apply nonref_vb.
      + destruct pos; auto. now apply nonref_vb.
    - apply nonref_vb.
    - intros (A & B & C & D & E). split; [now apply nonref_Forall_vb|]. split; [now apply nonref_vb|].
      split; [|split; auto]. destruct (h_kw h); simpl; auto.
      eapply Forall_impl; [|exact C]. intros p Hp. unfold fb. now apply nonref_vb.
    - intro H. apply ob_refs. rewrite H. intros y [].
  Qed.

  Theorem run_wf_holds ops : forall s roots,
    n0 <= length (heap s) -> wf_heap (heap s) -> Forall (vb (length (heap s))) roots ->
    Forall (fun p => op_scalar (fst p)) ops ->
    run_wf ct s roots ops.
  Proof.
    induction ops as [|[o fa] t IH]; intros s roots Hn Hw Hr Hops; simpl; [exact I|].
    split; [exact Hw|]. inversion Hops as [|? ? Ho Ht]; subst. simpl in Ho.
    set (s0 := mkst (heap s) 0 fa).
    assert (W0 : wfn s0) by (apply wfn_wf; exact Hw).
    destruct (step_bj ct Hscalar n0 dflt_in (length (heap s)) roots o Hn Hr (op_scalar_opb _ o Ho) s0 W0 (le_n _))
      as (W1 & L1 & Q1).
    destruct (step ct roots o s0) as [r s'] eqn:E. simpl in W1, L1, Q1.
    apply IH; auto.
    - lia.
    - apply wfn_wf. exact W1.
    - apply Forall_app. split; [eapply Forall_vb_mono; [|exact Hr]; exact L1|].
      constructor; [|constructor]. destruct r; [exact Q1|exact I].
  Qed.
End History.
