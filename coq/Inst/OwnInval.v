(* C03, ownership, part 9: invalidated_by.

   `inval_ok ct`: every class of the table either declares no invalidated_by at
   all, or has only leaf attributes whose default is a non-reference or a
   factory of scalars.  Then invalidate_attrs (which deletes / resets every
   transitive dependant with skip_invalidation=True, swallowing AttributeError)
   preserves TI /\ Owned and every frame: `inval_spec ct`, the specification
   the store lemmas are parametrised by. *)
From Coq Require Import List ZArith Bool Arith Lia.
From SC Require Import Base.Res Base.PyList Inst.Heap Inst.ClassTable Inst.Model Inst.Framed
  Inst.TypeProofs Inst.OwnProofs Inst.OwnProofs2 Inst.OwnProofs3 Inst.OwnColl Inst.OwnCopy Inst.OwnCow
  Inst.OwnInit.
Import ListNotations.
Open Scope nat_scope.
Set Warnings "-unused-intro-pattern".
#[local] Opaque FUEL.

Definition inval_ok (ct : ctable) : Prop :=
  forall k, In k ct ->
    (forall sp, In sp (c_attrs k) -> a_inv_by sp = []) \/
    (forall a sp, lookup_attr k a = Some sp -> leaf_attr sp /\ default_ok k sp).

Section Inval.
  Variable ct : ctable.
  Hypothesis Hflat : flat_table ct.
  Hypothesis Hok : inval_ok ct.
  Notation Inv := (Inv ct).

  Theorem inval_ok_spec : inval_spec ct.
  Proof.
    intros fuel l a F SF. unfold invalidate_attrs.
    assert (PE : forall h, Inv h /\ F h -> Inv h /\ F h) by auto.
    eapply T_bind; [apply T_read_inst; exact PE|]. intros [cl d]. cbn [fst snd].
    eapply T_bind; [apply T_cls_of|]. { intros h [H _]. exact H. }
    intros k. apply T_pull. intro Hk. cbv zeta.
    assert (Hin : In k ct) by (unfold lookup_cls in Hk; apply find_some in Hk; tauto).
    destruct (Hok k Hin) as [Hno|Hall].
    - (* the class declares no invalidated_by: nothing happens *)
      assert (D : forall x, dependants k x = []).
      { intro x. unfold dependants. rewrite filter_inv_nil; auto. }
      assert (C : inv_closure (S (S (length (c_attrs k)))) k [a] [a] = [a]).
      { simpl. rewrite D. simpl. destruct (length (c_attrs k)); reflexivity. }
      rewrite C. eapply T_conseq with (P := fun h => Inv h /\ F h) (Q := fun _ h => Inv h /\ F h) (E := fun h => Inv h /\ F h);
        [|intros h [H _]; exact H|auto|auto].
      apply T_iterM. intros sp _.
      assert (B : existsb (fun z => z =? a_name sp) [a] && negb (a_name sp =? a) = false).
      { simpl. rewrite orb_false_r. destruct (Nat.eqb_spec a (a_name sp)) as [->|Ne]; simpl; auto.
        now rewrite Nat.eqb_refl. }
      rewrite B. apply T_ret. auto.
    - (* every dependant is deleted / reset by the leaf machinery *)
      eapply T_conseq with (P := fun h => (Inv h /\ F h) /\ is_inst l cl h)
                           (Q := fun _ h => (Inv h /\ F h) /\ is_inst l cl h)
                           (E := fun h => (Inv h /\ F h) /\ is_inst l cl h);
        [|intros h [H N]; split; [exact H|exists d; exact N]|intros r h [H _]; exact H|intros h [H _]; exact H].
      apply T_iterM. intros sp _.
      destruct (_ && _); [|apply T_ret; auto].
      eapply T_catch with (E' := fun h => (Inv h /\ F h) /\ is_inst l cl h); [|apply T_ret; auto|auto].
      eapply T_bind; [|intros ?; apply T_ret; intros h H; exact H].
      apply (exec_delattr_inv ct Hflat fuel l cl k (a_name sp) true F
               (fun E => False_ind _ (Bool.diff_true_false E)) SF Hk (Hall (a_name sp))).
  Qed.
End Inval.

